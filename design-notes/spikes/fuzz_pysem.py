import warnings; warnings.simplefilter('ignore')
import sys, ast, random, builtins, types, importlib.abc, importlib.machinery
sys.path.insert(0, '/tmp/spike')
import pysem_proto as PS
import gen as G

class V:
    def __getattr__(s, n):
        if n.startswith('__') and n.endswith('__'): raise AttributeError(n)
        return V()
    def __call__(s, *a, **k): return V()
    def __iter__(s): return iter([V(), V()])
    def __enter__(s): return V()
    def __exit__(s, *a): return False
    def __add__(s, o): return V()
    def __radd__(s, o): return V()
    def __iadd__(s, o): return V()
    def __getitem__(s, k): return V()
    def __setitem__(s, k, v): pass
    def __bool__(s): return True
    def __hash__(s): return 1
    def __eq__(s, o): return True
    def __mro_entries__(s, bases): return ()
class VMod(types.ModuleType):
    def __getattr__(s, n):
        if n.startswith('__'): raise AttributeError(n)
        return V()
class Finder(importlib.abc.MetaPathFinder, importlib.abc.Loader):
    ROOTS = {'pkg', 'os_', 'm', 'a', 'n', 'os'}
    def find_spec(self, name, path=None, target=None):
        if name.split('.')[0] in ('pkg', 'm', 'a', 'n', 'zmod'):
            return importlib.machinery.ModuleSpec(name, self, is_package=True)
        return None
    def create_module(self, spec):
        m = VMod(spec.name); m.__path__ = []; return m
    def exec_module(self, module): pass

class Rec(dict):
    def __init__(s, *a): super().__init__(*a); s.missing = []
    def __missing__(s, key):
        if hasattr(builtins, key): raise KeyError(key)
        s.missing.append((sys._getframe(1).f_lineno, key))
        return V()

# generator: fully-executed programs
N = ['a','b','c','d','e','f','g','m','n','pkg']
def name(r): return r.choice(N)
def dotted(r):
    s = name(r)
    for _ in range(r.choice([0,0,1,2])): s += '.' + r.choice(['x','y','sub'])
    return s
def params(r):
    ps = []; used = set(); sd = False
    for _ in range(r.randint(0,3)):
        p = name(r)
        if p in used: continue
        used.add(p); s = p
        if sd or r.random() < .3: s += '=' + expr(r, 2); sd = True
        ps.append(s)
    return ', '.join(ps)
def expr(r, d=0):
    k = r.random()
    if d > 2 or k < .4: return dotted(r)
    if k < .5: return '%s(%s)' % (dotted(r), ', '.join(expr(r,d+1) for _ in range(r.randint(0,2))))
    if k < .6: return '(%s + %s)' % (dotted(r), expr(r,d+1))
    if k < .68: return '__reg__(lambda %s: %s)' % (params(r), expr(r,d+1))
    if k < .78: return '[%s for %s in %s%s]' % (expr(r,d+1), name(r), expr(r,d+1), (' if '+expr(r,d+1)) if r.random()<.3 else '')
    if k < .83: return '{%s: %s for %s in %s}' % (expr(r,d+1), expr(r,d+1), name(r), expr(r,d+1))
    if k < .88: return 'list(%s for %s in %s for %s in %s)' % (expr(r,d+1), name(r), expr(r,d+1), name(r), expr(r,d+1))
    if k < .92: return '{%s for %s in %s}' % (expr(r,d+1), name(r), expr(r,d+1))
    if k < .96: return '%s[%s]' % (dotted(r), expr(r,d+1))
    return '1'
def target(r):
    k = r.random()
    if k < .7: return name(r)
    if k < .85: return '%s, %s' % (name(r), name(r))
    return dotted(r)
def imp(r):
    mod = r.choice(['pkg','m','pkg.sub','a.b','n'])
    k = r.random()
    if k < .4: return 'import %s' % mod
    if k < .55: return 'import %s as %s' % (mod, name(r))
    if k < .85: return 'from %s import %s' % (mod, name(r))
    return 'from %s import %s as %s' % (mod, name(r), name(r))
def stmts(r, d, ind, inloop=False):
    out = []
    for _ in range(r.randint(1, 3 if d else 7)): out += stmt(r, d, ind)
    return out
def stmt(r, d, ind):
    k = r.random(); p = '    ' * ind
    if d > 2: k *= .5
    if k < .22: return [p + expr(r)]
    if k < .4: return [p + '%s = %s' % (target(r), expr(r))]
    if k < .55: return [p + imp(r)]
    if k < .68:
        nm = name(r)
        deco = [p + '@__dec__(' + expr(r, 2) + ')'] if r.random() < .2 else []
        # decorated functions are replaced by V() -> register before decoration is impossible; keep undecorated mostly
        body = stmts(r, d+1, ind+1)
        return deco + [p + 'def %s(%s):' % (nm, params(r))] + body + [p + '__reg__(%s)' % nm]
    if k < .77:
        bases = ('(%s)' % dotted(r)) if r.random() < .2 else ''
        return [p + 'class %s%s:' % (name(r), bases)] + stmts(r, d+1, ind+1)
    if k < .83: return [p + 'for %s in %s:' % (target(r), expr(r))] + stmts(r, d+1, ind+1)
    if k < .88: return [p + 'if %s:' % expr(r)] + stmts(r, d+1, ind+1)
    if k < .91: return [p + 'while %s:' % expr(r)] + stmts(r, d+1, ind+1) + [p + '    break']
    if k < .95: return [p + 'with %s as %s:' % (expr(r), name(r))] + stmts(r, d+1, ind+1)
    if k < .98: return [p + 'try:'] + stmts(r, d+1, ind+1) + [p + 'finally:'] + stmts(r, d+1, ind+1)
    return [p + '%s += %s' % (name(r), expr(r))]

def run_real(src):
    reg = []
    def __reg__(f): reg.append(f); return V()
    g = Rec({'__reg__': __reg__, '__dec__': (lambda v: (lambda f: f)), '__name__': 'prog'})
    finder = Finder(); sys.meta_path.insert(0, finder)
    saved = set(sys.modules)
    early = []
    def prof(frame, event, arg):
        if event == 'call' and frame.f_code.co_filename == '<p>':
            fl = frame.f_code.co_flags
            if (fl & 0x1) and not (fl & 0x20): early.append(frame.f_code.co_name)
    try:
        sys.setprofile(prof)
        try: exec(compile(src, '<p>', 'exec'), g)
        finally: sys.setprofile(None)
        if early: return None, 'EarlyCall: ' + early[0]
        i = 0
        while i < len(reg):
            f = reg[i]; i += 1
            import inspect
            sig = inspect.signature(f)
            args = [V() for p in sig.parameters.values() if p.default is p.empty and p.kind in (p.POSITIONAL_ONLY, p.POSITIONAL_OR_KEYWORD)]
            f(*args)
        return sorted(set(g.missing)), None
    except Exception as e:
        return None, type(e).__name__ + ': ' + str(e)[:80]
    finally:
        sys.meta_path.remove(finder)
        for k in set(sys.modules) - saved: del sys.modules[k]

def main(seed, n):
    from pyflyby import find_missing_imports
    r = random.Random(seed); bad = 0; used = 0; disc = {}; nonempty = 0
    pf_fn = pf_fp = 0; pf_examples = []
    for i in range(n):
        src = '\n'.join(stmts(r, 0, 0)) + '\n'
        tree = ast.parse(src)
        real, err = run_real(src)
        if real is None:
            k = err.split(':')[0]; disc[k] = disc.get(k, 0) + 1; continue
        used += 1
        sem = PS.Sem({'__reg__', '__dec__', '__name__'})
        mine = sem.run(tree)
        nonempty += bool(real)
        if real != mine:
            bad += 1
            if bad <= 4:
                print('=== MISMATCH', i); print(src); print(' cpython', real); print(' pysem  ', mine)
        # pyflyby vs cpython on names (root names)
        try:
            pf = set(str(m).split('.')[0] for m in find_missing_imports(src, [{'__reg__': 1, '__dec__': 1}]))
        except Exception as e:
            pf = None
        if pf is not None:
            truth = set(nm for _, nm in real)
            if truth - pf:
                pf_fn += 1
                if len(pf_examples) < 3: pf_examples.append((src, sorted(truth - pf)))
            if pf - truth: pf_fp += 1
    print('cases', n, 'executed fully', used, 'discarded', disc, 'with NameErrors', nonempty, 'PySem mismatches', bad)
    print('pyflyby vs CPython on the same programs: missed names in', pf_fn, 'programs; extra names in', pf_fp)
    for src, names in pf_examples: print('--- pyflyby misses', names); print(src)
main(int(sys.argv[1]), int(sys.argv[2]))

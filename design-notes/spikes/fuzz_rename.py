import sys, random, re
from pyflyby._importstmt import Import
def replace(full, as_, old, new):
    pp = old.split('.'); rp = new.split('.'); fp = full.split('.')
    if fp[:len(pp)] != pp: return (full, as_)
    fp[:len(pp)] = rp
    ap = as_.split('.')
    if ap[:len(pp)] == pp: ap[:len(pp)] = rp
    return ('.'.join(fp), '.'.join(ap))
def isw(c): return c.isalnum() or c == '_'
def wordsub(text, old, new):
    out = []; i = 0; n = len(old)
    while i < len(text):
        if text.startswith(old, i) and (i == 0 or not isw(text[i-1])) and (i+n == len(text) or not isw(text[i+n])):
            out.append(new); i += n
        else:
            out.append(text[i]); i += 1
    return ''.join(out)
def ident(r): return ''.join(r.choice('ab_1') if k else r.choice('ab_') for k in range(r.randint(1,3)))
def dotted(r): return '.'.join(ident(r) for _ in range(r.randint(1,3)))
def main(seed, n):
    r = random.Random(seed); bad = 0; changed = 0
    for i in range(n):
        old, new = dotted(r), dotted(r)
        full = dotted(r) if r.random() < .5 else old + ('.' + ident(r) if r.random() < .6 else '') + ('x' if r.random() < .2 else '')
        as_ = r.choice([full, full.split('.')[-1], ident(r), old.split('.')[0]])
        imp = Import.from_parts(full, as_).replace(old, new)
        real = (imp.fullname, imp.import_as); mine = replace(full, as_, old, new)
        text = ' '.join(r.choice([old, old + 'x', 'x' + old, old + '.q', 'z.' + old, '(' + old + ')', new, '"' + old + '"', '# ' + old, ident(r)]) for _ in range(r.randint(0, 6)))
        rt = re.sub("\\b%s\\b" % re.escape(old), new, text); mt = wordsub(text, old, new)
        changed += (real != (full, as_)) + (rt != text)
        if real != mine or rt != mt:
            bad += 1
            if bad <= 3: print('MISMATCH', (full, as_, old, new), real, mine, repr(text), repr(rt), repr(mt))
    print('cases', n, 'mismatches', bad, 'changed', changed)
main(int(sys.argv[1]), int(sys.argv[2]))

import warnings; warnings.simplefilter('ignore')
import sys, ast, random, io, contextlib
sys.path.insert(0, '/tmp/spike')
import fuzz_c02 as C
from pyflyby import PythonBlock
from pyflyby._imports2s import transform_imports
G = C.G
# aliasing: NEW paths denote the same objects as OLD ones
MAPS = [{'pkg.sub': 'zz.qq'}, {'m': 'mm'}, {'pkg': 'pkgnew'}, {'a.b': 'a.bb'}, {'pkg.sub': 'pkg.s2', 'm': 'n2'}, {'a': 'aa'}, {'pkg.sub.x': 'pkg.other.y'}]
import importlib, importlib.abc, importlib.machinery
class AliasFinder(C.Finder):
    def __init__(self, mp): self.rev = {v: k for k, v in mp.items()}
    def canon(self, name):
        for new, old in self.rev.items():
            if name == new or name.startswith(new + '.'): return old + name[len(new):]
        return name
    def find_spec(self, name, path=None, target=None):
        c = self.canon(name)
        if c.split('.')[0] in ('pkg', 'm', 'a', 'n') or name.split('.')[0] in ('zz','mm','pkgnew','n2','aa'):
            return importlib.machinery.ModuleSpec(name, self, is_package=True)
    def create_module(self, spec):
        m = C.VMod(self.canon(spec.name)); m.__path__ = []; return m     # same tag as the OLD path
def run(src, mp):
    f = AliasFinder(mp)
    orig = C.Finder
    C.Finder = lambda: f
    try: return C.run(src)
    finally: C.Finder = orig
def main(seed, n):
    r = random.Random(seed); st = dict(run=0, disc=0, same=0, viol=0, nochange=0, exc=0); shown = 0
    for i in range(n):
        mp = r.choice(MAPS)
        src = '\n'.join(G.stmts(r, 0, 0)) + '\n'
        base, err = run(src, mp)
        if base is None: st['disc'] += 1; continue
        with contextlib.redirect_stdout(io.StringIO()), contextlib.redirect_stderr(io.StringIO()):
            try: out = str(transform_imports(PythonBlock(src), mp))
            except Exception as e: st['exc'] += 1; continue
        st['run'] += 1
        if out == str(__import__('pyflyby').reformat_import_statements(PythonBlock(src))): st['nochange'] += 1
        got, err2 = run(out, mp)
        def ren(x):
            for o, nw in mp.items():
                if x == o.split('.')[0] and '.' not in o: return nw
            return x
        ok = got is not None and set(got[0]) - set(ren(x) for x in base[0]) == set() and got[2] == base[2]
        if ok: st['same'] += 1
        else:
            st['viol'] += 1
            if shown < 5:
                shown += 1; print('=== VIOLATION map', mp, 'case', i); print(src); print('--- out'); print(out)
                print('err' , err2) if got is None else print('new unbound', sorted(set(got[0]) - set(base[0])), 'rets differ', got[2] != base[2], [(a, b) for a, b in zip(base[2], got[2]) if a != b][:3])
    print(st)
if __name__ == '__main__': main(int(sys.argv[1]), int(sys.argv[2]))

"""Scratch prototype of M8: abstract import universe + symbol_needs_import +
auto_import_symbol/auto_import, from the source reading."""
class World:
    """tree: dotted -> dict(pkg=bool, attrs={name: value-id}, raises=bool)"""
    def __init__(self, mods):
        self.mods = mods
        self.loaded = {}          # dotted -> module object id (string 'mod:<dotted>')
        self.modattrs = {}        # dotted -> dict name -> obj
        self.failed_imports = set()
    def exists_file(self, d):
        parts = d.split('.')
        for i in range(1, len(parts)):
            p = '.'.join(parts[:i])
            if p not in self.mods or not self.mods[p]['pkg']: return False
        return d in self.mods
    def load(self, d):
        """import machinery for one dotted name; returns module obj or raises"""
        parts = d.split('.')
        for i in range(1, len(parts)+1):
            p = '.'.join(parts[:i])
            if p in self.loaded: continue
            if not self.exists_file(p): raise ImportError(p)
            if self.mods[p]['raises']: raise RuntimeError(p)
            self.loaded[p] = 'mod:' + p
            self.modattrs[p] = {k: 'val:%s.%s' % (p, k) for k in self.mods[p]['attrs']}
            if i > 1:
                self.modattrs['.'.join(parts[:i-1])][parts[i-1]] = self.loaded[p]
        return self.loaded[d]
    def getattr(self, obj, name):
        if obj.startswith('mod:'):
            d = obj[4:]
            if name in self.modattrs[d]: return self.modattrs[d][name]
        raise AttributeError(name)
    def exec_import(self, full, as_):
        """returns (name0, obj) bound; mirrors 'import'/'from' statement semantics"""
        if as_ == full:                       # import a.b.c
            self.load(full)
            root = full.split('.')[0]
            return root, self.loaded[root]
        mod, mem = full.rsplit('.', 1) if '.' in full else (None, full)
        if mod is None:                       # import a as b
            return as_, self.load(full)
        m = self.load(mod)
        try: return as_, self.getattr(m, mem)
        except AttributeError:
            return as_, self.load(full)       # submodule fallback (ImportError if absent)
    def exists(self, d, cache={}):
        # ModuleHandle.exists: sys.modules, parent.exists, find_spec (imports the parent package!)
        if d in self.loaded: return True
        parts = d.split('.')
        if len(parts) > 1 and not self.exists('.'.join(parts[:-1])): return False
        if len(parts) > 1:
            try: self.load('.'.join(parts[:-1]))
            except Exception: return False
        return self.exists_file(d)

def prefixes(n):
    p = n.split('.'); return ['.'.join(p[:i]) for i in range(1, len(p)+1)]

BUILTIN = set(dir(__import__('builtins')))

def needs(w, full, nss):
    parts = full.split('.')
    for ns in reversed(nss):
        for p in prefixes(full)[::-1]:
            if p not in ns: continue
            var = ns[p]; k = len(p.split('.')); pname = p; brk = False
            for part in parts[k:]:
                if var != w.loaded.get(pname, object()):
                    return False
                try: var = w.getattr(var, part)
                except AttributeError: brk = True; break
                pname = pname + '.' + part
            if not brk: return False
    if parts[0] in BUILTIN: return False
    return True

def index(db):
    d = {}
    for f, a in db:
        d.setdefault(a, set()).add((f, a))
        for p in prefixes(f)[:-1]:
            d.setdefault(p, set()).add((p, p))
    return {k: tuple(sorted(v)) for k, v in d.items()}

def known_import(idx, full):
    for p in prefixes(full)[::-1]:
        if p in idx: return idx[p]
    return None

def try_import(w, imp, ns):
    if imp in w.failed_imports: return False
    full, as_ = imp
    name0 = as_.split('.', 1)[0]
    try:
        n0, obj = w.exec_import(full, as_)
        assert n0 == name0
    except Exception:
        w.failed_imports.add(imp); return False
    if name0 not in ns: ns[name0] = obj
    elif ns[name0] != obj: return False
    return True

def auto_import_symbol(w, idx, full, nss, cell):
    if not needs(w, full, nss): return True
    if full in cell: return False
    imps = known_import(idx, full)
    if imps is not None:
        assert len(imps) >= 1
        if len(imps) > 1:
            cell[full] = False; return False
        imp, = imps
        if needs(w, imp[1], nss):
            if not try_import(w, imp, nss[-1]):
                cell[full] = False; return False
            cell[imp[1]] = True
            if imp[1] == full: return True
            if imp[1] != imp[0]: return True
    for pm in prefixes(full):
        if not needs(w, pm, nss): continue
        if pm in cell and not cell[pm]: return False
        if not w.exists(pm):
            cell[pm] = False; return False
        r = try_import(w, (pm, pm), nss[-1])
        cell[pm] = r
        if not r: return False
    return True

def auto_import(w, idx, missing, nss, cell):
    ok = True
    for m in missing:
        ok &= auto_import_symbol(w, idx, m, nss, cell)
    return ok

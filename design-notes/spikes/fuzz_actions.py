import sys, os, random, tempfile, shutil, subprocess, json
from concurrent.futures import ThreadPoolExecutor
CHANGED_IN = "import os, sys\nos\n"; CHANGED_OUT = "import os\nos\n"
SAME = "import os\nos\n"; BAD = "def (:\n"
SYM = ('SymErr', 'SymFollow', 'SymSkip', 'SymReplace')
def parse_action(v):
    V = v.strip().upper()
    return {'PRINT': 'Print', 'REPLACE': 'Replace', 'QUERY': 'Query', 'IFCHANGED': 'IfChanged', 'EXIT1': 'Exit1'}.get(V) or ('Exec' if V.startswith('EXECUTE:') else None)
def fold(opts):
    actions = ['Print']
    for o in ['--symlinks=error'] + opts:
        if o.startswith('--symlinks='):
            actions = [a for a in actions if a not in SYM]
            actions = [{'error': 'SymErr', 'follow': 'SymFollow', 'skip': 'SymSkip', 'replace': 'SymReplace'}[o.split('=')[1]]] + actions
        elif o.startswith('--actions='): actions = [parse_action(v) for v in o.split('=', 1)[1].split(',')]
        elif o in ('--print', '-p'): actions = ['Print']
        elif o in ('--replace', '-r'): actions = ['IfChanged', 'Replace']
    return actions
def model(opts, files, kinds, answers):
    """returns (final state per path, exit_nonzero)"""
    actions = fold(opts); answers = list(answers)
    state = {f: kinds[f] for f in files}     # kind: 'chg','same','bad','link:<target>','missing','dir'
    errors = False; exit1 = False
    work = []
    for f in files:
        k = kinds[f]
        if k == 'missing': errors = True
        elif k == 'dir': work.append(f + '/inner.py')
        else: work.append(f)
    written = set(); unlinked = set()
    fatal = False
    cur = {f: k for f, k in kinds.items() if not k.startswith('link:')}
    cur.update({f: 'chg' for f in work if f not in kinds})
    for f in work:
        k = kinds.get(f, 'chg')
        target = f; islink = (k.startswith('link:') and f not in unlinked); content_kind = cur[k[5:]] if k.startswith('link:') else cur[f]
        try:
            for a in actions:
                if a == 'SymErr':
                    if islink: fatal = True; raise SystemExit
                elif a == 'SymSkip':
                    if islink: raise StopIteration
                elif a == 'SymFollow':
                    if islink: target = k[5:]; 
                elif a == 'SymReplace': pass
                elif a == 'Print':
                    if content_kind == 'bad': raise ValueError
                elif a == 'IfChanged':
                    if content_kind == 'bad': raise ValueError
                    if content_kind == 'same': raise StopIteration
                elif a == 'Query':
                    if not answers: raise ValueError           # EOFError
                    if not answers.pop(0).strip().lower().startswith('y'): raise StopIteration
                elif a == 'Exit1': raise KeyError
                elif a == 'Exec':
                    if content_kind == 'bad': raise ValueError
                elif a == 'Replace':
                    if content_kind == 'bad': raise ValueError
                    written.add(target)
                    if islink and target == f: unlinked.add(f); cur[f] = 'same'
                    else: cur[target if not k.startswith('link:') or target != f else f] = 'same'
        except StopIteration: continue
        except KeyError: exit1 = True; continue
        except ValueError: errors = True; continue
        except SystemExit: break
    return sorted(written), sorted(unlinked), (errors or exit1 or fatal)
def run_case(args):
    opts, names, kinds, answers = args
    root = tempfile.mkdtemp(prefix='act')
    try:
        for n, k in kinds.items():
            p = os.path.join(root, n)
            if k == 'chg': open(p, 'w').write(CHANGED_IN)
            elif k == 'same': open(p, 'w').write(SAME)
            elif k == 'bad': open(p, 'w').write(BAD)
            elif k == 'dir': os.makedirs(p); open(os.path.join(p, 'inner.py'), 'w').write(CHANGED_IN)
        for n, k in kinds.items():
            if k.startswith('link:'): os.symlink(os.path.join(root, k[5:]), os.path.join(root, n))
        inos = {n: (os.lstat(os.path.join(root, n)).st_ino, os.lstat(os.path.join(root, n)).st_ctime_ns) for n in list(kinds) + [n + '/inner.py' for n, k in kinds.items() if k == 'dir'] if kinds.get(n, 'chg') not in ('missing', 'dir')}
        env = dict(os.environ, PYTHONPATH='/repo/lib/python', PYTHONDONTWRITEBYTECODE='1', PYFLYBY_PATH='EMPTY', HOME=root)
        p = subprocess.run(['/venv/bin/python', '/repo/bin/tidy-imports'] + opts + [os.path.join(root, n) for n in names],
                           input=''.join(a + '\n' for a in answers), capture_output=True, text=True, env=env, timeout=120, cwd=root)
        written = []; unlinked = []
        allp = list(kinds) + [n + '/inner.py' for n, k in kinds.items() if k == 'dir']
        for n in allp:
            k = kinds.get(n, 'chg'); pth = os.path.join(root, n)
            if k in ('missing', 'dir'): continue
            if k.startswith('link:'):
                if not os.path.islink(pth): unlinked.append(n)
                continue
            st = os.lstat(pth)
            if (st.st_ino, st.st_ctime_ns) != inos[n]: written.append(n)
        # link replaced by regular file counts as written at the link path
        return sorted(set(written + unlinked)), sorted(unlinked), p.returncode != 0, p.stderr[-300:]
    finally: shutil.rmtree(root)
def main(seed, n):
    r = random.Random(seed); cases = []
    for i in range(n):
        kinds = {}
        base = ['f%d.py' % j for j in range(r.randint(1, 4))]
        for b in base: kinds[b] = r.choice(['chg', 'chg', 'same', 'bad'])
        if r.random() < .5: kinds['l.py'] = 'link:' + r.choice(base)
        if r.random() < .2: kinds['gone.py'] = 'missing'
        if r.random() < .2: kinds['d'] = 'dir'
        names = list(kinds); r.shuffle(names)
        opts = []
        for _ in range(r.randint(0, 3)):
            k = r.random()
            if k < .3: opts.append('--symlinks=' + r.choice(['error', 'follow', 'skip', 'replace']))
            elif k < .5: opts.append(r.choice(['-r', '--replace']))
            elif k < .6: opts.append('--print')
            else: opts.append('--actions=' + ','.join(r.choice(['PRINT', 'REPLACE', 'IFCHANGED', 'QUERY', 'EXIT1', 'replace', 'EXECUTE:true']) for _ in range(r.randint(1, 4))))
        answers = [r.choice(['y', 'n', '', 'Yes', 'no']) for _ in range(r.randint(0, 5))]
        cases.append((opts, names, kinds, answers))
    bad = 0; nz = 0; wr = 0
    with ThreadPoolExecutor(16) as ex:
        for (opts, names, kinds, answers), real in zip(cases, ex.map(run_case, cases)):
            w, u, e = model(opts, names, kinds, answers)
            mw = sorted(set(w + u))
            # model 'written' names link targets; real lists the names whose bytes changed
            nz += real[2]; wr += bool(real[0])
            if (mw, u, e) != real[:3]:
                bad += 1
                if bad <= 4: print('=== MISMATCH', opts, names, kinds, answers); print(' real', real); print(' mine', (mw, u, e))
    print('cases', n, 'mismatches', bad, 'nonzero exits', nz, 'runs that wrote', wr)
main(int(sys.argv[1]), int(sys.argv[2]))

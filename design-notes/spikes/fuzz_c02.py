import warnings; warnings.simplefilter('ignore')
import sys, ast, random, builtins, types, importlib.abc, importlib.machinery, io, contextlib, signal
sys.path.insert(0, '/tmp/spike')
import fuzz_pysem_gen as G    # generator functions copied from fuzz_pysem
from pyflyby import PythonBlock, reformat_import_statements
from pyflyby._imports2s import fix_unused_and_missing_imports
from pyflyby._importdb import ImportDB

class V:
    def __init__(s, tag='v'): object.__setattr__(s, '_tag', tag)
    def __getattr__(s, n):
        if n.startswith('__') and n.endswith('__'): raise AttributeError(n)
        return V(s._tag + '.' + n)
    def __setattr__(s, n, v): pass
    def __call__(s, *a, **k): return V(s._tag + '()')
    def __iter__(s): return iter([V(s._tag + '[i]'), V(s._tag + '[i]')])
    def __enter__(s): return V(s._tag + '.enter')
    def __exit__(s, *a): return False
    def __add__(s, o): return V('add')
    def __radd__(s, o): return V('add')
    def __iadd__(s, o): return V('add')
    def __getitem__(s, k): return V(s._tag + '[]')
    def __setitem__(s, k, v): pass
    def __bool__(s): return True
    def __hash__(s): return 1
    def __eq__(s, o): return True
SUBMODS = {'sub', 'b'}
class VMod(types.ModuleType):
    def __getattr__(s, n):
        if n.startswith('__'): raise AttributeError(n)
        if n in SUBMODS:
            import importlib
            return importlib.import_module(s.__name__ + '.' + n)
        return V(s.__name__ + ':' + n)
    def __call__(s, *a, **k): return V(s.__name__ + '()')
    def __iter__(s): return iter([V(s.__name__ + '[i]'), V(s.__name__ + '[i]')])
    def __enter__(s): return V(s.__name__ + '.enter')
    def __exit__(s, *a): return False
    def __add__(s, o): return V('add')
    def __radd__(s, o): return V('add')
    def __iadd__(s, o): return V('add')
    def __getitem__(s, k): return V(s.__name__ + '[]')
    def __setitem__(s, k, v): pass
class Finder(importlib.abc.MetaPathFinder, importlib.abc.Loader):
    def find_spec(self, name, path=None, target=None):
        if name.split('.')[0] in ('pkg', 'm', 'a', 'n'):
            return importlib.machinery.ModuleSpec(name, self, is_package=True)
    def create_module(self, spec):
        m = VMod(spec.name); m.__path__ = []; return m
    def exec_module(self, module): pass
class Rec(dict):
    def __init__(s, *a): super().__init__(*a); s.missing = []
    def __missing__(s, key):
        if hasattr(builtins, key): raise KeyError(key)
        s.missing.append(key); return V('unbound:' + key)
def tag(v):
    if isinstance(v, V): return 'V:' + v._tag
    if isinstance(v, VMod): return 'M:' + v.__name__
    if isinstance(v, types.FunctionType): return 'func:' + v.__name__
    if isinstance(v, type): return 'class:' + v.__name__
    return type(v).__name__
def run(src):
    reg = []
    def __reg__(f): reg.append(f); return V('reg')
    g = Rec({'__reg__': __reg__, '__dec__': (lambda v: (lambda f: f)), '__name__': 'prog'})
    finder = Finder(); sys.meta_path.insert(0, finder); saved = set(sys.modules)
    def alarm(*a): raise TimeoutError()
    signal.signal(signal.SIGALRM, alarm); signal.alarm(5)
    try:
        exec(compile(src, '<p>', 'exec'), g)
        i = 0; rets = []
        import inspect
        while i < len(reg):
            f = reg[i]; i += 1
            sig = inspect.signature(f)
            args = [V('arg') for p in sig.parameters.values() if p.default is p.empty and p.kind in (p.POSITIONAL_ONLY, p.POSITIONAL_OR_KEYWORD)]
            rets.append(tag(f(*args)))
        fin = {k: tag(v) for k, v in g.items() if not k.startswith('__')}
        return (sorted(set(g.missing)), fin, rets, ast.get_docstring(ast.parse(src))), None
    except Exception as e:
        return None, type(e).__name__ + ': ' + str(e)[:60]
    finally:
        signal.alarm(0); sys.meta_path.remove(finder)
        for k in set(sys.modules) - saved: del sys.modules[k]
def import_bound(src):
    out = set()
    for st in ast.parse(src).body:
        if isinstance(st, (ast.Import, ast.ImportFrom)):
            for a in st.names: out.add((a.asname or a.name).split('.')[0])
    return out
def main(seed, n):
    r = random.Random(seed); st = dict(run=0, disc=0, same=0, viol_ref=0, viol_tidy=0, tidy_exc=0); shown = 0
    db = ImportDB("")
    for i in range(n):
        body = G.stmts(r, 0, 0)
        # add explicit uses at the end so some imports are used
        src = '\n'.join(body) + '\n'
        base, err = run(src)
        if base is None: st['disc'] += 1; continue
        st['run'] += 1
        with contextlib.redirect_stdout(io.StringIO()), contextlib.redirect_stderr(io.StringIO()):
            try: ref = str(reformat_import_statements(PythonBlock(src)))
            except Exception as e: ref = None
            try: tidy = str(fix_unused_and_missing_imports(PythonBlock(src), db=db, add_missing=False, add_mandatory=False, remove_unused=True))
            except Exception as e: tidy = None; st['tidy_exc'] += 1
        for kind, out in (('ref', ref), ('tidy', tidy)):
            if out is None: continue
            got, err2 = run(out)
            ok = got is not None
            if ok:
                bm, bf, br, bd = base; gm, gf, gr, gd = got
                # new NameErrors? changed surviving globals? changed docstring?
                new_unbound = set(gm) - set(bm)
                removed = import_bound(src) - import_bound(out)
                changed = {k: (bf[k], gf[k]) for k in gf if k in bf and bf[k] != gf[k] and k not in removed}
                lost = [k for k in bf if k not in gf and not bf[k].startswith('M:') and not bf[k].startswith('V:')]
                ok = not new_unbound and not changed and bd == gd and br == gr and not lost
            if not ok:
                st['viol_' + kind] += 1
                if shown < 6:
                    shown += 1
                    print('=== VIOLATION (%s) case %d' % (kind, i)); print(src); print('--- rewritten'); print(out)
                    if got is None: print('rewritten raises', err2)
                    else: print('new unbound', sorted(set(gm) - set(bm)), 'changed', changed, 'rets', br != gr, 'lost', lost)
            else: st['same'] += 1
    print(st)
if __name__ == '__main__': main(int(sys.argv[1]), int(sys.argv[2]))

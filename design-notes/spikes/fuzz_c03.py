import sys, random, ast, io, contextlib, warnings
warnings.simplefilter('ignore')
sys.path.insert(0, '/tmp/spike')
import gen as G
from pyflyby import PythonBlock, reformat_import_statements
from pyflyby._imports2s import fix_unused_and_missing_imports, transform_imports, replace_star_imports
from pyflyby._importdb import ImportDB
from pyflyby._importstmt import ImportFormatParams
exec(open('/tmp/spike/fuzz_s2s.py').read().split("DBS = [")[0].split("def layout(r):")[1].join(["def layout(r):", ""]) if False else "")
src_s2s = open('/tmp/spike/fuzz_s2s.py').read()
a = src_s2s.index("def layout(r):"); b = src_s2s.index("DBS = [")
exec(src_s2s[a:b])
DBS = ["", "import os\nimport pkg\nfrom m import a, b\nimport numpy as n\n",
       "from m import a\nfrom n import a\nimport c\n__mandatory_imports__=['from __future__ import division']\n",
       "import d, e, f, g\n__mandatory_imports__=['import os']\n__canonical_imports__={'m.a': 'mm.aa'}\n"]
def main(seed, n):
    r = random.Random(seed); st = {}; shown = 0
    def bump(k): st[k] = st.get(k, 0) + 1
    for i in range(n):
        src = layout(r)
        try: compile(src, 'x', 'exec', dont_inherit=True)
        except SyntaxError: continue
        if not src.isascii(): continue
        params = ImportFormatParams(align_imports=r.choice([True, False, 32]), from_spaces=r.choice([1,3]),
                                    max_line_length=r.choice([None, 40, 79]), separate_from_imports=r.choice([True, False]))
        db = ImportDB(r.choice(DBS))
        tools = {
          'reformat': lambda x: str(reformat_import_statements(PythonBlock(x), params=params)),
          'tidy': lambda x: str(fix_unused_and_missing_imports(PythonBlock(x), db=db, params=params)),
          'tidy_noremove': lambda x: str(fix_unused_and_missing_imports(PythonBlock(x), db=db, params=params, remove_unused=False)),
          'transform': lambda x: str(transform_imports(PythonBlock(x), {'pkg.sub': 'newpkg.s', 'm': 'mm'}, params=params)),
        }
        for name, tool in tools.items():
            with contextlib.redirect_stdout(io.StringIO()), contextlib.redirect_stderr(io.StringIO()):
                try: out = tool(src)
                except Exception as e:
                    bump('%s:raised:%s' % (name, type(e).__name__)); continue
                prob = None
                try: compile(out, 'x', 'exec', dont_inherit=True)
                except SyntaxError as e: prob = 'nocompile'
                if prob is None:
                    if ast.get_docstring(ast.parse(out)) != ast.get_docstring(ast.parse(src)): prob = 'docstring'
                if prob is None:
                    try:
                        out2 = tool(out)
                        if out2 != out: prob = 'notfixed'
                    except Exception as e: prob = 'second_raised:' + type(e).__name__
            if prob:
                bump('%s:%s' % (name, prob))
                if shown < 4 and prob in ('nocompile', 'docstring', 'notfixed'):
                    shown += 1; print('=== %s %s' % (name, prob)); print(src); print('--- out'); print(out)
                    if prob == 'notfixed': print('--- out2'); print(out2)
            else: bump('%s:ok' % name)
    print(dict(sorted(st.items())))
main(int(sys.argv[1]), int(sys.argv[2]))

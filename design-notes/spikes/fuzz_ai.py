import sys, os, random, tempfile, shutil, subprocess, json
sys.path.insert(0, '/tmp/spike')
# Each case runs in a fresh interpreter (sys.modules / caches are process-global).
CHILD = r'''
import sys, json, io, contextlib
case = json.loads(sys.stdin.read())
sys.path.insert(0, case["root"])
from pyflyby import auto_import
from pyflyby._importdb import ImportDB
from pyflyby._importstmt import Import
db = ImportDB("")
from pyflyby._importclns import ImportSet
db = ImportDB(ImportSet([Import.from_parts(f, a) for f, a in case["db"]]))
def canon(v):
    import types
    if isinstance(v, types.ModuleType): return "mod:" + v.__name__
    return v
ns0 = {}
for k, v in case["ns0"].items():
    if v.startswith("mod:"):
        import importlib; ns0[k] = importlib.import_module(v[4:])
    else: ns0[k] = v
ns1 = {}
cell = {}
out = []
with contextlib.redirect_stdout(io.StringIO()), contextlib.redirect_stderr(io.StringIO()):
    import logging
    for names in case["calls"]:
        try: r = auto_import(" , ".join(names), [ns0, ns1], db=db, autoimported=cell)
        except Exception as e: r = "EXC " + type(e).__name__
        out.append([r, {k: canon(v) for k, v in ns0.items() if not k.startswith("__")}, {k: canon(v) for k, v in ns1.items() if not k.startswith("__")}, sorted(str(k) + "=" + str(v) for k, v in cell.items())])
print("RESULT" + json.dumps(out))
'''
import ai_proto as A
NAMES = ['p', 'q', 'm']
SUBS = ['s', 't']
ATTR = ['x', 'y']
def gen_world(r):
    mods = {}
    for top in NAMES:
        if r.random() < 0.8:
            pkg = r.random() < 0.6
            mods[top] = dict(pkg=pkg, attrs=[a for a in ATTR if r.random() < .5], raises=r.random() < .12)
            if pkg:
                for s in SUBS:
                    if r.random() < .6:
                        pk2 = r.random() < .3
                        mods[top+'.'+s] = dict(pkg=pk2, attrs=[a for a in ATTR if r.random() < .5], raises=r.random() < .15)
                        if pk2 and r.random() < .7:
                            mods[top+'.'+s+'.t'] = dict(pkg=False, attrs=['x'], raises=False)
    return mods
def write_world(root, mods):
    for d, m in mods.items():
        path = os.path.join(root, *d.split('.'))
        src = ''.join("%s = 'val:%s.%s'\n" % (a, d, a) for a in m['attrs'])
        if m['raises']: src += "raise RuntimeError('boom')\n"
        if m['pkg']:
            os.makedirs(path, exist_ok=True); open(os.path.join(path, '__init__.py'), 'w').write(src)
        else:
            os.makedirs(os.path.dirname(path), exist_ok=True); open(path + '.py', 'w').write(src)
def rand_name(r):
    n = r.choice(NAMES + ['zz'])
    for _ in range(r.choice([0,1,1,2,3])): n += '.' + r.choice(SUBS + ATTR)
    return n
def rand_db(r):
    db = []
    for _ in range(r.randint(0, 5)):
        k = r.random()
        if k < .4: d = rand_name(r); db.append((d, d))
        elif k < .8: d = rand_name(r) + '.' + r.choice(ATTR + SUBS); db.append((d, d.rsplit('.',1)[1]))
        else: db.append((rand_name(r), r.choice(['al', 'x', 'p'])))
    return db
def main(seed, n):
    r = random.Random(seed); bad = 0; stats = {'true':0,'false':0,'exc':0}
    for i in range(n):
        root = tempfile.mkdtemp(prefix='aiw')
        try:
            mods = gen_world(r); write_world(root, mods)
            db = rand_db(r)
            ns0 = {}
            if r.random() < .3: ns0[r.choice(NAMES)] = 'a string'
            def pick():
                k = r.random()
                if k < .45 and mods:
                    d = r.choice(sorted(mods)); a = mods[d]['attrs']
                    return d + ('.' + r.choice(a) if a and r.random() < .6 else '') + ('.zz' if r.random() < .1 else '')
                if k < .7 and db: return r.choice(db)[1] + ('.' + r.choice(ATTR) if r.random() < .3 else '')
                return rand_name(r)
            calls = [[pick() for _ in range(r.randint(1,3))] for _ in range(r.randint(1,3))]
            case = dict(root=root, db=db, ns0=ns0, calls=calls)
            env = dict(os.environ, PYTHONPATH='/repo/lib/python', PYTHONDONTWRITEBYTECODE='1', PYFLYBY_LOG_LEVEL='ERROR', PYFLYBY_PATH='EMPTY')
            p = subprocess.run(['/venv/bin/python', '-c', CHILD], input=json.dumps(case), capture_output=True, text=True, env=env)
            line = [l for l in p.stdout.splitlines() if l.startswith('RESULT')]
            if not line: print('child failed', p.stderr[-500:]); continue
            real = json.loads(line[0][6:])
            # model
            w = A.World(mods); idx = A.index(db); m0 = dict(ns0); m1 = {}; cell = {}; mine = []
            for names in calls:
                # find_missing_imports for a tuple expression of dotted names = sorted set of names needing import
                missing = sorted(set(nm for nm in names if A.needs(w, nm, [m0, m1])))
                try: rr = A.auto_import(w, idx, missing, [m0, m1], cell)
                except AssertionError: rr = 'EXC AssertionError'
                mine.append([rr, dict(m0), dict(m1), sorted('%s=%s' % kv for kv in cell.items())])
            for a in real: stats['exc' if isinstance(a[0], str) else str(a[0]).lower()] += 1
            if real != mine:
                bad += 1
                if bad <= 3:
                    print('=== MISMATCH', i); print('mods', mods); print('db', db, 'ns0', ns0, 'calls', calls)
                    for a, b in zip(real, mine): print(' real', a); print(' mine', b)
        finally:
            shutil.rmtree(root)
    print('cases', n, 'mismatches', bad, stats)
main(int(sys.argv[1]), int(sys.argv[2]))

Require Import FinderSyn.
From Coq Require Import List NArith Bool Arith.
Import ListNotations.

Definition upd (s : st) (f : st -> st) := f s.
Definition with_scopes s sc := {| scopes := sc; next_id := next_id s; checkers := checkers s; missing := missing s; deferred := deferred s; in_fd := in_fd s; in_cd := in_cd s; lineno := lineno s |}.
Definition with_missing s m := {| scopes := scopes s; next_id := next_id s; checkers := checkers s; missing := m; deferred := deferred s; in_fd := in_fd s; in_cd := in_cd s; lineno := lineno s |}.
Definition with_deferred s d := {| scopes := scopes s; next_id := next_id s; checkers := checkers s; missing := missing s; deferred := d; in_fd := in_fd s; in_cd := in_cd s; lineno := lineno s |}.
Definition with_fd s b := {| scopes := scopes s; next_id := next_id s; checkers := checkers s; missing := missing s; deferred := deferred s; in_fd := b; in_cd := in_cd s; lineno := lineno s |}.
Definition with_cd s n := {| scopes := scopes s; next_id := next_id s; checkers := checkers s; missing := missing s; deferred := deferred s; in_fd := in_fd s; in_cd := n; lineno := lineno s |}.
Definition with_ln s n := {| scopes := scopes s; next_id := next_id s; checkers := checkers s; missing := missing s; deferred := deferred s; in_fd := in_fd s; in_cd := in_cd s; lineno := n |}.

Definition new_scope (s : st) (is_class : bool) (content : dict) : nat * st :=
  let i := next_id s in
  (i, {| scopes := (i, (is_class, content)) :: scopes s; next_id := S i; checkers := checkers s; missing := missing s;
         deferred := deferred s; in_fd := in_fd s; in_cd := in_cd s; lineno := lineno s |}).

Definition push (s : st) (stk : stack) (include_class new_class : bool) : stack * st :=
  let stk' := if include_class then stk else filter (fun i => negb (fst (get_scope (scopes s) i))) stk in
  let '(i, s') := new_scope s new_class [] in (stk' ++ [i], s').

Definition top (stk : stack) : nat := last stk 0.

Definition store (s : st) (stk : stack) (n : dotted) (v : entry) : st :=
  let i := top stk in
  let '(c, d) := get_scope (scopes s) i in
  with_scopes s (set_scope (scopes s) i (c, (n, v) :: d)).

Definition clone_top (s : st) (stk : stack) : stack * st :=
  let i := top stk in
  let '(c, d) := get_scope (scopes s) i in
  let '(j, s') := new_scope s c d in (removelast stk ++ [j], s').

Definition check_load (s : st) (stk : stack) (n : dotted) (ln : nat) : st :=
  let '(b, s') := needs s stk n in
  if b then with_missing s' ((ln, n) :: missing s') else s'.

Definition load (s : st) (stk : stack) (n : dotted) : st :=
  if in_fd s then
    let '(b, s1) := needs s stk n in
    if b then let '(stk', s2) := clone_top s1 stk in with_deferred s2 ((n, stk', lineno s2) :: deferred s2) else s1
  else check_load s stk n (lineno s).

Fixpoint vexpr (e : expr) (stk : stack) (s : st) {struct e} : st :=
  match e with
  | ELoad n => load s stk n
  | EStoreAttr n => store s stk n Plain
  | EOp es => (fix go (l : list expr) (s : st) : st := match l with [] => s | x :: r => go r (vexpr x stk s) end) es s
  | ELambda ps body =>
      let '(stkA, s1) := push s stk true false in
      let s2 := vparams ps stk stkA s1 in
      let fd := in_fd s2 in
      let '(stkB, s3) := push (with_fd s2 true) stkA false false in
      let s4 := vexpr body stkB s3 in
      with_fd s4 fd
  | EComp gens elts =>
      let '(stkK, s1) := push s stk true false in
      let s2 := (fix go (l : list gen) (s : st) : st := match l with [] => s | g :: r => go r (vgen g stkK s) end) gens s1 in
      (fix go (l : list expr) (s : st) : st := match l with [] => s | x :: r => go r (vexpr x stkK s) end) elts s2
  end
with vparams (p : params) (outer inner : stack) (s : st) {struct p} : st :=
  match p with
  | Params defaults names =>
      let s1 := (fix go (l : list expr) (s : st) : st := match l with [] => s | x :: r => go r (vexpr x outer s) end) defaults s in
      (fix go (l : list (name * option expr)) (s : st) : st :=
         match l with [] => s
         | (n, ann) :: r =>
             let s' := match ann with Some a => vexpr a inner s | None => s end in
             go r (store s' inner [n] Plain) end) names s1
  end
with vgen (g : gen) (stk : stack) (s : st) {struct g} : st :=
  match g with
  | Gen iter targets ifs =>
      let s1 := vexpr iter stk s in
      let s2 := fold_left (fun s n => store s stk [n] Plain) targets s1 in
      (fix go (l : list expr) (s : st) : st := match l with [] => s | x :: r => go r (vexpr x stk s) end) ifs s2
  end.

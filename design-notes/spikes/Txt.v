From Coq Require Import List Arith Bool Lia.
Import ListNotations.

Section T.
Variable ch : Type.
Variable nl : ch.
Definition str := list ch.

(* joined: intercalate newline *)
Fixpoint joined (ls : list str) : str :=
  match ls with
  | [] => []
  | [l] => l
  | l :: rest => l ++ nl :: joined rest end.

(* index-space position: (line index, col index) *)
Definition ipos := (nat * nat)%type.
Definition ple (a b : ipos) : Prop := fst a < fst b \/ (fst a = fst b /\ snd a <= snd b).

(* valid: line exists, col within [0, len] *)
Definition valid (ls : list str) (p : ipos) : Prop :=
  exists l, nth_error ls (fst p) = Some l /\ snd p <= length l.

(* slice as in FileText.__getitem__: take lines [i1..i2], clip last to [:j2], then first from [j1:] *)
Definition clip_last (ls : list str) (j : nat) : list str :=
  match rev ls with [] => [] | l :: r => rev r ++ [firstn j l] end.
Definition clip_first (ls : list str) (j : nat) : list str :=
  match ls with [] => [] | l :: r => skipn j l :: r end.
Definition slice (ls : list str) (a b : ipos) : list str :=
  clip_first (clip_last (firstn (S (fst b - fst a)) (skipn (fst a) ls)) (snd b)) (snd a).

(* offset of a position in the joined text *)
Fixpoint offset (ls : list str) (i j : nat) : nat :=
  match i, ls with
  | O, _ => j
  | S i', l :: rest => length l + 1 + offset rest i' j
  | S _, [] => j end.

Definition sub (s : str) (a b : nat) : str := firstn (b - a) (skipn a s).

Lemma joined_cons l rest : rest <> [] -> joined (l :: rest) = l ++ nl :: joined rest.
Proof. destruct rest; [congruence|reflexivity]. Qed.

Lemma skipn_skipn' {A} (x y : nat) : forall l : list A, skipn x (skipn y l) = skipn (y + x) l.
Proof. induction y as [|y IH]; intros l; [reflexivity|]. destruct l; [rewrite !skipn_nil; reflexivity|]. cbn. apply IH. Qed.

Lemma sub_add s a b c : a <= b -> b <= c -> sub s a b ++ sub s b c = sub s a c.
Proof.
  intros Hab Hbc. unfold sub.
  replace (c - a) with ((b - a) + (c - b)) by lia.
  replace (skipn b s) with (skipn (b - a) (skipn a s)).
  2:{ rewrite skipn_skipn'. f_equal. lia. }
  generalize (skipn a s) as t. intros t.
  rewrite <- (firstn_skipn (b - a) (firstn (b - a + (c - b)) t)).
  f_equal.
  - rewrite firstn_firstn. f_equal. lia.
  - rewrite skipn_firstn_comm. f_equal. lia.
Qed.
End T.

"""Scratch prototype of M3/M4 written from the source reading (no pyflyby imports)."""
def split(full, as_):
    if as_ == full: return (None, full, None)
    level = 0
    for level, c in enumerate(full):
        if c != '.': break
    prefix, q = full[:level], full[level:]
    if '.' in q: mod, mem = q.rsplit('.', 1)
    else: mod, mem = '', q
    mod = prefix + mod
    return (mod or None, mem, None if as_ == mem else as_)

def from_split(mod, mem, as_):
    if as_ is None: as_ = mem
    if mod is None: return (mem, as_)
    return (mod + ('' if mod.endswith('.') else '.') + mem, as_)

def from_imports(imps, ignore_shadowed):
    if ignore_shadowed:
        d = {}
        for i in imps:
            if i[1] == '*': d[('star', i)] = i
            else: d[i[1]] = i
        imps = list(d.values())
    return frozenset(imps)

def get_statements(S, separate):
    ftr, pkg, frm = {}, {}, {}
    for i in S:
        mod, mem, as_ = split(*i)
        if mod is None: pkg.setdefault(mem, set()).add(i)
        elif mod == '__future__': ftr.setdefault(mod, set()).add(i)
        else: frm.setdefault(mod, set()).add(i)
    groups = [ftr, pkg, frm]
    if not separate:
        u = {}
        for label, d in enumerate([pkg, frm]):
            for k, v in d.items(): u[(k, label)] = v
        groups = [ftr, u]
    res = []
    for g in groups:
        for _, imps in sorted(g.items()):
            star = [i for i in imps if i[1] == '*']
            non = sorted(i for i in imps if i[1] != '*')
            if star: res.append(stmt_of(star))
            if non: res.append(stmt_of(non))
    return res

def stmt_of(imps):
    mods = set(split(*i)[0] for i in imps)
    assert len(mods) == 1
    return (list(mods)[0], [split(*i)[1:] for i in imps])

def fill(tokens, N, first_prefix, cont_prefix):
    lines = [first_prefix + tokens[0]]
    rest = tokens[1:]
    for k, tok in enumerate(rest):
        last = (k == len(rest) - 1)
        suffix = ")" if last else ""
        sep = "" if last else ","
        if len(lines[-1] + ", " + tok + sep + suffix) <= N:
            lines[-1] += ", " + tok
        else:
            lines[-1] += "," + "\n"
            lines.append(cont_prefix + tok)
    lines[-1] += ")" + "\n"
    return ''.join(lines)

def pyfill(prefix, tokens, N, indent, hanging):
    N = N or 79
    full = sum(len(t) for t in tokens) + 2 * (len(tokens) - 1)
    if len(prefix) + full <= N:
        return prefix + ", ".join(tokens) + "\n"
    if hanging == 'never': hi = False
    elif hanging == 'always': hi = True
    else: hi = len(prefix) + max(len(t) for t in tokens) + 2 > N
    if hi:
        return prefix + "(\n" + fill(tokens, N, " " * indent, " " * indent)
    pp = prefix + "("
    return fill(tokens, N, pp, " " * len(pp))

def print_stmt(st, P, import_column, from_spaces):
    mod, aliases = st
    s0 = ''; s = ''
    if mod is not None:
        s += "from%s%s " % (' ' * from_spaces, mod)
        if import_column is not None:
            if len(s) > import_column:
                s0 = s + '\\\n'; s = ' ' * import_column
            else: s = s.ljust(import_column)
    s += "import "
    toks = [("%s as %s" % a) if a[1] is not None else a[0] for a in aliases]
    return s0 + pyfill(s, toks, P['width'], P['indent'], P['hanging'])

def print_set(S, P):
    fs = max(1, P['from_spaces'])
    def do_align(st): return st[0] != '__future__' or P['align_future']
    def pp(st, col):
        if do_align(st): return print_stmt(st, P, col, fs)
        return print_stmt(st, P, None, 1)
    sts = get_statements(S, P['separate'])
    al = P['align']
    if not sts: col = None
    elif isinstance(al, bool):
        col = None
        if al:
            fr = [s for s in sts if s[0] and do_align(s)]
            if fr: col = max(len(s[0]) for s in fr) + fs + 5
    elif isinstance(al, int): col = al
    else:
        cands = sorted(set(al))
        if len(cands) == 1: col = cands[0]
        else:
            best = None
            for c in cands:
                n = sum(print_stmt(s, P, c, fs).count("\n") for s in sts)
                if best is None or n < best[1]: best = (c, n)
            col = best[0]
    return ''.join(pp(s, col) for s in sts)

import sys, random, ast, io, contextlib
sys.path.insert(0, '/tmp/spike')
import s2s_proto as P
import gen as G
from pyflyby import PythonBlock, reformat_import_statements
from pyflyby._imports2s import fix_unused_and_missing_imports
from pyflyby._importdb import ImportDB
from pyflyby._autoimp import scan_for_import_issues
from pyflyby._importstmt import ImportFormatParams

def layout(r):
    """top-level source with rich layout"""
    lines = []
    k = r.random()
    if k < 0.3: lines.append('"""doc\n# not comment\n"""')
    elif k < 0.4: lines.append("# leading comment")
    elif k < 0.45: lines += ["#!/usr/bin/python", "", "'one'", "# c"]
    for _ in range(r.randint(1, 8)):
        k = r.random()
        if k < 0.35:
            imps = [G.imp(r) for _ in range(r.randint(1,3))]
            for s in imps:
                if r.random() < 0.15: s += "  # trailing"
                if r.random() < 0.1 and s.startswith('from') and ' as ' not in s and '*' not in s:
                    mod, names = s.split(' import ')
                    s = "%s import (%s,\n    %s)" % (mod, names.split('  #')[0], G.name(r))
                lines.append(s)
        elif k < 0.45:
            lines.append("%s; %s" % (r.choice([G.imp(r), G.name(r)+' = 1']), r.choice([G.imp(r), G.expr(r)])))
        elif k < 0.55:
            lines.append(r.choice(["", "# comment", "    # indented comment", "", "\n"]))
        elif k < 0.62:
            lines.append("%s = '''multi\n# hash inside\nline'''  # tail" % G.name(r))
        elif k < 0.67:
            lines.append("%s = 1 + \\\n    2" % G.name(r))
        else:
            lines += G.stmt(r, 1, 0)
    src = '\n'.join(lines)
    if r.random() < 0.85: src += '\n'
    return src

DBS = ["", "import os\nimport pkg\nfrom m import a, b\nimport numpy as n\n",
       "from m import a\nfrom n import a\nimport c\n__mandatory_imports__=['from __future__ import division']\n",
       "import d, e, f, g\n__mandatory_imports__=['import os']\n"]

def main(seed, n):
    r = random.Random(seed); bad = 0; ok = 0; skipped = 0; errs = {}
    for i in range(n):
        src = layout(r)
        try: ast.parse(src)
        except SyntaxError: skipped += 1; continue
        if any(ord(c) > 127 for c in src): continue
        params = ImportFormatParams(align_imports=r.choice([True, False, 32]), from_spaces=r.choice([1,3]),
                                    max_line_length=r.choice([None, 40, 79]), separate_from_imports=r.choice([True, False]))
        db = ImportDB(r.choice(DBS))
        flags = dict(add_missing=r.random()<.8, remove_unused=r.random()<.8, add_mandatory=r.random()<.8)
        with contextlib.redirect_stdout(io.StringIO()), contextlib.redirect_stderr(io.StringIO()):
            try: real_r = str(reformat_import_statements(PythonBlock(src), params=params))
            except Exception as e: real_r = 'EXC ' + type(e).__name__
            try: real_t = str(fix_unused_and_missing_imports(PythonBlock(src), db=db, params=params, **flags))
            except Exception as e: real_t = 'EXC ' + type(e).__name__
        try: mine_r = P.reformat(src, params)
        except Exception as e: mine_r = 'MYEXC %s %s' % (type(e).__name__, e)
        def scan(s1, find_unused):
            with contextlib.redirect_stdout(io.StringIO()), contextlib.redirect_stderr(io.StringIO()):
                return scan_for_import_issues(PythonBlock(s1), find_unused_imports=find_unused, parse_docstrings=True)
        try: mine_t = P.tidy(src, db, scan, params, **flags)
        except Exception as e: mine_t = 'EXC ' + {'AssertionError':'LineNumberAmbiguousError'}.get(type(e).__name__, type(e).__name__)
        if real_r != mine_r or real_t != mine_t:
            bad += 1
            if bad <= 3:
                print("=== MISMATCH case", i, flags); print(src); print('--- real reformat'); print(real_r); print('--- mine'); print(mine_r)
                print('--- real tidy'); print(real_t); print('--- mine'); print(mine_t)
        else:
            ok += 1
            if real_t.startswith('EXC'): errs[real_t] = errs.get(real_t, 0) + 1
    print('errors (agreeing):', errs)
    print('cases', n, 'agree', ok, 'skipped(syntax)', skipped, 'mismatches', bad)
main(int(sys.argv[1]), int(sys.argv[2]))

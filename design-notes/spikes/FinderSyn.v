From Coq Require Import List NArith Bool Arith.
Import ListNotations.

Definition name := N.
Definition dotted := list name.          (* a.b.c *)

Inductive expr :=
| ELoad (n : dotted)
| EStoreAttr (n : dotted)                (* attribute store target a.b *)
| EOp (es : list expr)
| ELambda (ps : params) (body : expr)
| EComp (gens : list gen) (elts : list expr)
with params := Params (defaults : list expr) (names : list (name * option expr)) (* name, annotation *)
with gen := Gen (iter : expr) (targets : list name) (ifs : list expr).

Inductive stmt :=
| SExpr (ln : nat) (e : expr)
| SAssign (ln : nat) (value : expr) (targets : list target)
| SImport (ln : nat) (items : list (dotted * option name))            (* import a.b [as c] *)
| SImportFrom (ln : nat) (modname : dotted) (items : list (name * option name))
| SDef (ln : nat) (nm : name) (decos : list expr) (ps : params) (ret : option expr) (body : list stmt)
| SClass (ln : nat) (nm : name) (bases : list expr) (decos : list expr) (body : list stmt)
| SFor (ln : nat) (targets : list target) (iter : expr) (body : list stmt)
| SIf (ln : nat) (test : expr) (body orelse : list stmt)
with target := TName (n : name) | TAttr (n : dotted).

(* --- state --- *)
Inductive entry := Plain | Chk (cid : nat).
Definition dict := list (dotted * entry).
Record st := {
  scopes : list (nat * (bool * dict));     (* id -> (is_class, dict) *)
  next_id : nat;
  checkers : list (nat * (nat * bool));    (* cid -> (lineno, used) *)
  missing : list (nat * dotted);
  deferred : list (dotted * list nat * nat);
  in_fd : bool; in_cd : nat; lineno : nat
}.
Definition stack := list nat.

Fixpoint dotted_eqb (a b : dotted) : bool :=
  match a, b with [], [] => true | x :: a', y :: b' => N.eqb x y && dotted_eqb a' b' | _, _ => false end.
Fixpoint lookup (d : dict) (k : dotted) : option entry :=
  match d with [] => None | (k', v) :: r => if dotted_eqb k k' then Some v else lookup r k end.
Fixpoint get_scope (l : list (nat * (bool * dict))) (i : nat) : bool * dict :=
  match l with [] => (false, []) | (j, v) :: r => if Nat.eqb i j then v else get_scope r i end.
Fixpoint set_scope (l : list (nat * (bool * dict))) (i : nat) (v : bool * dict) :=
  match l with [] => [(i, v)] | (j, w) :: r => if Nat.eqb i j then (j, v) :: r else (j, w) :: set_scope r i v end.

(* prefixes longest first *)
Fixpoint prefixes_rev_aux (acc : dotted) (rest : dotted) (out : list dotted) : list dotted :=
  match rest with [] => out | x :: r => let p := acc ++ [x] in prefixes_rev_aux p r (p :: out) end.
Definition prefixes_longest_first (n : dotted) := prefixes_rev_aux [] n [].

Definition mark_used (s : st) (cid : nat) : st :=
  {| scopes := scopes s; next_id := next_id s;
     checkers := map (fun c => if Nat.eqb (fst c) cid then (fst c, (fst (snd c), true)) else c) (checkers s);
     missing := missing s; deferred := deferred s; in_fd := in_fd s; in_cd := in_cd s; lineno := lineno s |}.

(* needs: scopes innermost first; returns (needs?, state with use marks) *)
Fixpoint needs_in_scope (s : st) (d : dict) (ps : list dotted) : option st :=
  match ps with
  | [] => None
  | p :: r => match lookup d p with
              | Some (Chk c) => Some (mark_used s c)
              | Some Plain => Some s
              | None => needs_in_scope s d r end
  end.
Fixpoint needs_stack (s : st) (stk_rev : list nat) (ps : list dotted) : bool * st :=
  match stk_rev with
  | [] => (true, s)
  | i :: r => match needs_in_scope s (snd (get_scope (scopes s) i)) ps with
              | Some s' => (false, s')
              | None => needs_stack s r ps end
  end.
Definition needs (s : st) (stk : stack) (n : dotted) : bool * st :=
  needs_stack s (rev stk) (prefixes_longest_first n).

From Coq Require Import List Arith Lia.
Import ListNotations.

(* C17 four_candidates_suffice: for nonempty sorted-by-index match lists F (first pattern) and L (last pattern),
   with f0 = min F, f1 = max F, l0 = min L, l1 = max L, the largest |i - j| over all pairs is one of the four
   candidate distances the code compares. *)
Definition dist (a b : nat) : nat := if a <=? b then b - a else a - b.

Lemma dist_le_extremes f0 f1 l0 l1 i j :
  f0 <= i <= f1 -> l0 <= j <= l1 ->
  dist i j <= Nat.max (Nat.max (dist f0 l0) (dist f0 l1)) (Nat.max (dist f1 l0) (dist f1 l1)).
Proof.
  intros Hi Hj. unfold dist.
  destruct (i <=? j) eqn:E1; destruct (f0 <=? l0) eqn:E2; destruct (f0 <=? l1) eqn:E3;
  destruct (f1 <=? l0) eqn:E4; destruct (f1 <=? l1) eqn:E5;
  repeat match goal with H : (_ <=? _) = true |- _ => apply Nat.leb_le in H
                    | H : (_ <=? _) = false |- _ => apply Nat.leb_gt in H end; lia.
Qed.

(* the chosen pair (argmax over the 4 candidates, first maximal in list order) spans at least every pair *)
Definition cands f0 f1 l0 l1 := [(dist f0 l0, (f0, l0)); (dist f0 l1, (f0, l1)); (dist f1 l0, (f1, l0)); (dist f1 l1, (f1, l1))].
Fixpoint argmax (best : nat * (nat * nat)) (l : list (nat * (nat * nat))) :=
  match l with [] => best | c :: r => if fst best <? fst c then argmax c r else argmax best r end.
Definition chosen f0 f1 l0 l1 := argmax (dist f0 l0, (f0, l0)) (tl (cands f0 f1 l0 l1)).

Lemma chosen_is_max f0 f1 l0 l1 :
  fst (chosen f0 f1 l0 l1) = Nat.max (Nat.max (dist f0 l0) (dist f0 l1)) (Nat.max (dist f1 l0) (dist f1 l1)).
Proof.
  unfold chosen, cands; cbn [tl argmax fst].
  repeat match goal with |- context [?a <? ?b] => destruct (Nat.ltb_spec a b); cbn [fst] end; lia.
Qed.

Theorem four_candidates_suffice f0 f1 l0 l1 i j :
  f0 <= i <= f1 -> l0 <= j <= l1 -> dist i j <= fst (chosen f0 f1 l0 l1).
Proof. intros; rewrite chosen_is_max; apply dist_le_extremes; assumption. Qed.
Print Assumptions four_candidates_suffice.

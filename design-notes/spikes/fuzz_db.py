import sys, os, random, tempfile, shutil, json, subprocess
CHILD = r'''
import sys, os, json
case = json.loads(sys.stdin.read())
os.chdir(case["cwd"])
from pyflyby._importdb import ImportDB
from pyflyby import _importdb
captured = []
orig = ImportDB._from_filenames.__func__
def cap(cls, filenames, mand=[]):
    captured.append([str(f) for f in filenames]); return orig(cls, filenames, mand)
ImportDB._from_filenames = classmethod(cap)
out = []
for target, envv in case["lookups"]:
    if envv is None: os.environ.pop("PYFLYBY_PATH", None)
    else: os.environ["PYFLYBY_PATH"] = envv
    del captured[:]
    try:
        db = ImportDB.get_default(target)
        ImportDB.clear_default_cache()
        out.append(captured[-1] if captured else "CACHED")
    except Exception as e:
        out.append("EXC " + type(e).__name__)
print("RESULT" + json.dumps(out))
'''
def get_env_var(value, default):
    parts = [p for p in (value or '').split(':') if p]
    if not parts: return list(default)
    if '-' in parts:
        i = parts.index('-'); parts[i:i+1] = default
    return parts
def ancestors(d):
    out = [d]
    while True:
        p = os.path.dirname(out[-1])
        if p == out[-1]: break
        out.append(p)
    return out
def anc_same_part(d):
    res = []; dev = None
    for f in ancestors(d):
        try: this = os.stat(f).st_dev
        except OSError: continue
        if dev is None: dev = this
        elif dev != this: break
        res.append(f)
    return res
def expand_files(paths):
    res = []
    def walk(p):
        for name in sorted(os.listdir(p)):
            f = os.path.join(p, name)
            if name.startswith('.') or name == '__pycache__': continue
            if os.path.isfile(f):
                if f.rpartition('.')[1] and '.' + f.rpartition('.')[2] == '.py': res.append(f)
            elif os.path.isdir(f): walk(f)
    for p in paths:
        if os.path.isfile(p): res.append(p)
        elif os.path.isdir(p): walk(p)
    return res
import re
def python_path(value, default, target_dir, home, cwd):
    names = get_env_var(value, default)
    if names == ["EMPTY"]: return []
    for p in names:
        if not re.match("/|[.]/|[.][.][.]/|~/", p): raise ValueError(p)
    names = [home + p[1:] if p.startswith('~/') else p for p in names]
    out = []
    for p in names:
        if not p.startswith(".../"):
            out.append(os.path.abspath(os.path.join(cwd, p))); continue
        suffix = p[4:]; exp = [os.path.join(a, suffix) for a in anc_same_part(target_dir)]
        out.extend(exp[::-1])
    seen = set(); uniq = []
    for p in out:
        if p not in seen: seen.add(p); uniq.append(p)
    return expand_files(uniq)
def target_dir_of(target, cwd):
    p = os.path.realpath(os.path.join(cwd, target))
    d = p if os.path.isdir(p) else os.path.dirname(p)
    while not os.path.isdir(d): d = os.path.dirname(d)
    return os.path.realpath(d)
def main(seed, n):
    r = random.Random(seed); bad = 0
    etc = ['/repo/etc/pyflyby'] + (['/etc/pyflyby'] if os.path.exists('/etc/pyflyby') else [])
    default = etc + [".../.pyflyby", "~/.pyflyby"]
    for i in range(n):
        root = os.path.realpath(tempfile.mkdtemp(prefix='dbw'))
        try:
            home = os.path.join(root, 'home'); os.makedirs(home)
            dirs = [root, home]
            for _ in range(r.randint(2, 6)):
                d = os.path.join(r.choice(dirs), r.choice(['a', 'b', 'proj'])); os.makedirs(d, exist_ok=True); dirs.append(d)
            for d in sorted(set(dirs)):
                k = r.random()
                if k < .3: open(os.path.join(d, '.pyflyby'), 'w').write('import m%d\n' % r.randint(0, 9))
                elif k < .6:
                    pd = os.path.join(d, '.pyflyby'); os.makedirs(pd, exist_ok=True)
                    for nm in r.sample(['x.py', 'y.py', '.hid.py', 'notes.txt', 'sub/z.py', '__pycache__/c.py', '.hd/w.py'], r.randint(1, 4)):
                        f = os.path.join(pd, nm); os.makedirs(os.path.dirname(f), exist_ok=True); open(f, 'w').write('import m%d\n' % r.randint(0, 9))
                if r.random() < .3:
                    os.makedirs(os.path.join(d, 'extra'), exist_ok=True); open(os.path.join(d, 'extra', 'e.py'), 'w').write('import e\n')
            cwd = r.choice(dirs)
            def envval():
                k = r.random()
                if k < .25: return None
                if k < .35: return 'EMPTY'
                parts = [r.choice(['-', '.../.pyflyby', '~/.pyflyby', './extra', os.path.join(r.choice(dirs), 'extra'), os.path.join(r.choice(dirs), 'extra/e.py'), '.../extra', '', os.path.join(root, 'nonexistent')]) for _ in range(r.randint(1, 4))]
                return ':'.join(parts)
            lookups = [(r.choice([os.path.join(r.choice(dirs), 't.py'), os.path.join(r.choice(dirs), 'no/such/t.py'), r.choice(dirs), 't.py', '.']), envval()) for _ in range(r.randint(1, 4))]
            case = dict(cwd=cwd, lookups=lookups)
            env = dict(os.environ, PYTHONPATH='/repo/lib/python', PYTHONDONTWRITEBYTECODE='1', PYFLYBY_LOG_LEVEL='ERROR', HOME=home)
            env.pop('PYFLYBY_PATH', None)
            p = subprocess.run(['/venv/bin/python', '-c', CHILD], input=json.dumps(case), capture_output=True, text=True, env=env, timeout=60)
            line = [l for l in p.stdout.splitlines() if l.startswith('RESULT')]
            if not line: print('child failed', p.stderr[-400:]); continue
            real = json.loads(line[0][6:])
            mine = []
            for target, envv in lookups:
                try: mine.append(python_path(envv, default, target_dir_of(target, cwd), home, cwd))
                except ValueError: mine.append('EXC ValueError')
            if real != mine:
                bad += 1
                if bad <= 3:
                    print('=== MISMATCH cwd', cwd, lookups)
                    for a, b in zip(real, mine): print(' real', a); print(' mine', b)
        finally: shutil.rmtree(root)
    print('cases', n, 'mismatches', bad)
main(int(sys.argv[1]), int(sys.argv[2]))

import os, sys, subprocess, tempfile, shutil, json, stat
CHILD = r'''
import os, sys, json, builtins, io
case = json.loads(sys.stdin.read())
from pyflyby._file import atomic_write_file, Filename
import pyflyby._file as F
calls = []; k_fail = case["k"]; mode = case["mode"]
def gate(name):
    calls.append(name)
    if len(calls) - 1 == k_fail:
        if mode == "crash": os._exit(7)
        if mode == "fault": raise OSError(5, "injected at " + name)
def wrap(mod, name):
    orig = getattr(mod, name)
    def f(*a, **kw):
        gate(name); return orig(*a, **kw)
    setattr(mod, name, f)
for n in ("stat", "chmod", "chown", "rename"): wrap(os, n)
orig_open = builtins.open
class FW:
    def __init__(s, f): s.f = f
    def write(s, d): gate("write"); return s.f.write(d)
    def __enter__(s): return s
    def __exit__(s, *a): gate("close"); s.f.close(); return False
def open_(path, mode_="r", *a, **kw):
    if "w" in mode_ and ".tmp." in str(path):
        gate("open"); return FW(orig_open(path, mode_, *a, **kw))
    return orig_open(path, mode_, *a, **kw)
F.open = open_
try:
    atomic_write_file(Filename(case["target"]), case["data"]); r = "ok"
except OSError as e: r = "OSError"
print("RESULT" + json.dumps(dict(r=r, calls=calls)))
'''
def main():
    root = tempfile.mkdtemp(prefix='aw'); bad = 0; n = 0; seqs = set()
    env = dict(os.environ, PYTHONPATH=os.environ.get('PF_LIB', '/repo/lib/python'), PYTHONDONTWRITEBYTECODE='1')
    try:
        for exists in (True, False):
            for fmode in (0o600, 0o644, 0o755):
                for size in (0, 10, 100000):
                    for mode in ("none", "fault", "crash"):
                        for k in range(8 if mode != "none" else 1):
                            t = os.path.join(root, 't.py'); old = 'old\n' * 3; new = 'x' * size
                            for f in os.listdir(root): os.remove(os.path.join(root, f))
                            if exists:
                                open(t, 'w').write(old); os.chmod(t, fmode)
                            p = subprocess.run(['/venv/bin/python', '-c', CHILD], input=json.dumps(dict(target=t, data=new, k=k, mode=mode)), capture_output=True, text=True, env=env, timeout=60)
                            line = [l for l in p.stdout.splitlines() if l.startswith('RESULT')]
                            res = json.loads(line[0][6:]) if line else dict(r='crashed', calls=None)
                            if res['calls']: seqs.add(tuple(res['calls']))
                            n += 1
                            cur = open(t).read() if os.path.exists(t) else None
                            okc = cur in ((old if exists else None), new)
                            okm = True
                            if cur == new and exists and cur != old:
                                okm = stat.S_IMODE(os.stat(t).st_mode) == fmode
                            if not (okc and okm):
                                bad += 1
                                if bad <= 6: print('VIOLATION', dict(exists=exists, fmode=oct(fmode), size=size, mode=mode, k=k), 'content_ok', okc, 'mode_ok', okm, res['r'], res['calls'])
        print('cases', n, 'violations', bad, 'call sequences', sorted(seqs, key=len)[-2:])
    finally: shutil.rmtree(root)
main()

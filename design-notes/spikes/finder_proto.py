"""Scratch prototype: functional restatement (DESIGN Appendix D) of pyflyby's
_MissingImportFinder, to validate the restatement against the real code.
Not part of the framework."""
import ast, sys

class St:
    def __init__(self, track_unused):
        self.scopes = {}      # id -> dict key->entry ; entry: None(Plain) or ('chk', cid)
        self.kind = {}        # id -> 'N'|'C'
        self.next = 0
        self.checkers = {}    # cid -> [name, imp(str), lineno, used]
        self.missing = []     # (lineno, name, top_is_class, in_class_def)
        self.unused = [] if track_unused else None
        self.deferred = []
        self.in_fd = False
        self.in_cd = 0
        self.lineno = None
        self.shared_delayed = self.new('N')
    def new(self, kind, content=None):
        i = self.next; self.next += 1
        self.scopes[i] = dict(content or {}); self.kind[i] = kind
        return i

BUILTINS = set(dir(__import__('builtins'))) | {'__file__'}

def prefixes(name):
    parts = name.split('.')
    return ['.'.join(parts[:i]) for i in range(1, len(parts)+1)]

class Stack:
    def __init__(self, ids, delayed):
        self.ids = tuple(ids); self.delayed = delayed

def needs(st, fullname, stack):
    pre = prefixes(fullname)[::-1]
    for sid in reversed(stack.ids):
        d = st.scopes[sid]
        for p in pre:
            if p in d:
                e = d[p]
                if e is not None and e[0] == 'chk':
                    st.checkers[e[1]][3] = True
                return False
    root = fullname.split('.')[0]
    # builtins scope: objects; a builtin name found -> attribute walk; builtins are not modules
    if root in BUILTINS:
        return False
    return True

def has_star(st, stack):
    return any('*' in st.scopes[s] for s in stack.ids)

class Finder:
    def __init__(self, track_unused, parse_docstrings=False):
        self.st = St(track_unused)
        st = self.st
        user = st.new('N')          # the user-supplied {} namespace
        top = st.new('N')
        self.stack = Stack([user, top], st.shared_delayed)
    # -- scope ctx
    def push(self, include_class=False, new_class=False, unhide=False, check_unused=True):
        st = self.st; prev = self.stack
        ids = [i for i in prev.ids if include_class or st.kind[i] != 'C']
        if unhide and st.scopes[prev.delayed]:
            ids = [prev.delayed] + [i for i in ids if i != prev.delayed]
        n = st.new('C' if new_class else 'N')
        self.stack = Stack(ids + [n], prev.delayed)
        return prev, n, check_unused
    def pop(self, tok):
        prev, n, check_unused = tok; st = self.st
        for name, e in st.scopes[n].items():
            if e and not st.checkers[e[1]][3] and check_unused:
                c = st.checkers[e[1]]; st.unused.append((c[2], c[1]))
        self.stack = prev
    def clone_top(self):
        st = self.st; ids = list(self.stack.ids)
        ids[-1] = st.new(st.kind[ids[-1]], st.scopes[ids[-1]])
        return Stack(ids, st.new('N'))
    # -- actions
    def scope_info(self):
        return (self.st.kind[self.stack.ids[-1]] == 'C', self.st.in_cd)
    def check_load(self, name, stack, lineno):
        st = self.st
        if needs(st, name, stack) and not has_star(st, stack):
            if not any(m[0] == lineno and m[1] == name for m in st.missing):
                st.missing.append((lineno, name) + self.scope_info())
    def load(self, name):
        st = self.st
        if st.in_fd:
            for _ in range(2):
                if needs(st, name, self.stack):
                    st.deferred.append((name, self.clone_top(), st.lineno))
        else:
            self.check_load(name, self.stack, st.lineno)
    def store(self, name, value=None):
        st = self.st
        if name is None: return
        top = st.scopes[self.stack.ids[-1]]
        if st.unused is not None:
            if name != '*':
                for anc in prefixes(name)[:-1]:
                    if needs(st, anc, self.stack):
                        if not any(m[0] == st.lineno and m[1] == name for m in st.missing):
                            st.missing.append((st.lineno, name) + self.scope_info())
            old = top.get(name)
            if old and not st.checkers[old[1]][3]:
                c = st.checkers[old[1]]; st.unused.append((c[2], c[1]))
        top[name] = value
    def store_import(self, alias, modulename):
        st = self.st
        name = alias.asname or alias.name
        star = alias.name == '*'
        if not alias.asname and not star:
            for p in prefixes(alias.name)[:-1]:
                self.store(p, None)
        if st.unused is None or star or modulename == '__future__':
            v = None
        else:
            cid = len(st.checkers)
            st.checkers[cid] = [name, imp_str(modulename, alias.name, name), st.lineno, False]
            v = ('chk', cid)
        self.store(name, v)
    # -- visitor
    def visit(self, node):
        st = self.st
        ln = getattr(node, 'lineno', None)
        if ln: st.lineno = ln
        if isinstance(node, list):
            for x in node: self.visit(x)
            return
        m = getattr(self, 'v_' + type(node).__name__, None)
        (m or self.generic)(node)
    def generic(self, node):
        for f, v in ast.iter_fields(node):
            if isinstance(v, ast.AST): self.visit(v)
            elif isinstance(v, list) and v and all(isinstance(x, ast.AST) for x in v): self.visit(v)
    def v_Assign(self, n):
        self.visit(n.value); self.visit(n.targets)
        st = self.st
        if st.in_fd: return
        if len(n.targets) == 1 and isinstance(n.targets[0], ast.Name) and n.targets[0].id == '__all__':
            if isinstance(n.value, (ast.List, ast.Tuple)) and all(isinstance(e, ast.Constant) and isinstance(e.value, str) for e in n.value.elts):
                for e in n.value.elts:
                    if needs(st, e.value, self.stack):
                        st.deferred.append((e.value, self.stack, st.lineno))
    def v_ClassDef(self, n):
        st = self.st
        self.visit(n.bases); self.visit(n.decorator_list); self.visit(n.keywords)
        if st.in_cd == 0:
            st.scopes[self.stack.delayed][n.name] = None
        tok = self.push(new_class=True)
        st.in_cd += 1
        self.store(n.name); self.visit(n.body)
        st.in_cd -= 1
        self.pop(tok)
        self.remove_from_missing(n.name)
        self.store(n.name)
    def remove_from_missing(self, cname):
        L = self.st.missing; i = 0
        while i < len(L):
            ln, name, top_is_class, in_cd = L[i]
            if name.split('.')[:len(cname.split('.'))] == cname.split('.') and (top_is_class or not in_cd):
                del L[i]
                i += 1      # python list iteration skips the next element after a removal
                # (index advanced over the shifted element)
                continue
            i += 1
    def v_AsyncFunctionDef(self, n): self.v_FunctionDef(n)
    def v_FunctionDef(self, n):
        st = self.st
        tokA = self.push(include_class=True)
        if st.in_cd: st.scopes[self.stack.ids[-1]]['__class__'] = None
        self.visit(n.decorator_list)
        self.visit(n.args)
        if n.returns: self.visit(n.returns)
        old = st.in_fd; st.in_fd = True
        tokB = self.push(unhide=True)
        if not st.in_cd: self.store(n.name)
        self.visit(n.body)
        self.pop(tokB)
        st.in_fd = old
        self.pop(tokA)
        self.store(n.name)
    def v_Lambda(self, n):
        st = self.st
        tokA = self.push(include_class=True)
        self.visit(n.args)
        old = st.in_fd; st.in_fd = True
        tokB = self.push()
        self.visit(n.body)
        self.pop(tokB)
        st.in_fd = old
        self.pop(tokA)
    def v_arguments(self, n):
        prev = self.stack
        self.stack = Stack(prev.ids[:-1], self.st.new('N'))
        self.visit(n.defaults)
        for d in n.kw_defaults:
            if d: self.visit(d)
        self.stack = prev
        self.visit(n.args); self.visit(n.kwonlyargs); self.visit(n.posonlyargs)
        if n.vararg: self.visit(n.vararg)
        if n.kwarg: self.visit(n.kwarg)
    def v_arg(self, n):
        if n.annotation: self.visit(n.annotation)
        self.store(n.arg)
    def v_ExceptHandler(self, n):
        if n.type: self.visit(n.type)
        if n.name: self.store(n.name)
        self.visit(n.body)
    def v_Dict(self, n):
        for k in n.keys:
            if k: self.visit(k)
        self.visit(n.values)
    def v_comprehension(self, n):
        self.visit(n.iter)
        def vt(t):
            if isinstance(t, ast.Name): self.store(t.id)
            elif isinstance(t, (ast.Tuple, ast.List)):
                for e in t.elts: vt(e)
            else: self.visit(t)
        vt(n.target)
        self.visit(n.ifs)
    def comp(self, n, elts):
        tok = self.push(include_class=True)
        self.visit(n.generators)
        for e in elts: self.visit(e)
        self.pop(tok)
    def v_ListComp(self, n): self.comp(n, [n.elt])
    def v_SetComp(self, n): self.comp(n, [n.elt])
    def v_GeneratorExp(self, n): self.comp(n, [n.elt])
    def v_DictComp(self, n): self.comp(n, [n.key, n.value])
    def v_ImportFrom(self, n):
        mod = '.' * n.level + (n.module or '')
        for a in n.names: self.store_import(a, mod)
    def v_alias(self, n):
        self.store_import(n, None)
    def v_Name(self, n): self.fullname(n.id, n.ctx)
    def v_Attribute(self, n):
        rev = []; x = n
        while isinstance(x, ast.Attribute):
            rev.append(x.attr); x = x.value
        if not isinstance(x, ast.Name):
            self.generic(n); return
        rev.append(x.id)
        self.fullname('.'.join(rev[::-1]), n.ctx)
    def fullname(self, name, ctx):
        if isinstance(ctx, ast.Store): self.store(name)
        elif isinstance(ctx, ast.Load): self.load(name)
    def v_Delete(self, n):
        top = self.st.scopes[self.stack.ids[-1]]
        for t in n.targets:
            if isinstance(t, ast.Name):
                top.pop(t.id, None)
            elif isinstance(t, ast.Attribute): self.visit(t.value)
            else: self.visit(t)
    # -- drivers
    def scan_node(self, node):
        self.visit(node)
        for name, stack, lineno in self.st.deferred:
            self.check_load(name, stack, lineno)
        self.st.deferred = []
    def find_missing(self, node):
        self.scan_node(node)
        return sorted(set(m[1] for m in self.st.missing))
    def scan_issues(self, node):
        st = self.st
        self.scan_node(node)
        missing = sorted((m[0], m[1]) for m in st.missing)
        # (doctests / braces omitted in the prototype)
        top = st.scopes[self.stack.ids[-1]]
        for name, e in top.items():
            if e and not st.checkers[e[1]][3]:
                c = st.checkers[e[1]]; st.unused.append((c[2], c[1]))
        st.unused.sort()
        return missing, st.unused

def imp_str(modulename, name, asname):
    # mirrors Import.from_split(...) then str(Import)
    if modulename is None:
        full = name
    else:
        full = modulename + ('' if modulename.endswith('.') else '.') + name
    if asname == full:
        return 'import %s' % full
    # split
    level = len(full) - len(full.lstrip('.'))
    q = full[level:]
    if '.' in q: mod, mem = q.rsplit('.', 1)
    else: mod, mem = '', q
    mod = full[:level] + mod
    a = '' if asname == mem else ' as %s' % asname
    if mod: return 'from %s import %s%s' % (mod, mem, a)
    return 'import %s%s' % (mem, a)

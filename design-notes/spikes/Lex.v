From Coq Require Import List NArith Bool Lia.
Import ListNotations.

Definition ch := N.
Definition str := list ch.

Definition c_nl : ch := 10%N.  Definition c_sp : ch := 32%N.
Definition c_bs : ch := 92%N.  Definition c_dot : ch := 46%N.
Definition c_comma : ch := 44%N. Definition c_lp : ch := 40%N.
Definition c_rp : ch := 41%N.  Definition c_star : ch := 42%N.

Definition is_ident_char (c : ch) : bool :=
  ((48 <=? c) && (c <=? 57) || (65 <=? c) && (c <=? 90) || (97 <=? c) && (c <=? 122) || (c =? 95))%N.

Inductive tok := TName (s : str) | TDot | TComma | TLpar | TRpar | TStar | TNewline.

(* lexer state *)
Record lst := { depth : nat; cur : str (* reversed partial name *); out : list tok (* reversed *);
                bs : bool (* pending backslash *); err : bool }.
Definition init : lst := {| depth := 0; cur := []; out := []; bs := false; err := false |}.

Definition flush (s : lst) : lst :=
  match cur s with [] => s
  | _ => {| depth := depth s; cur := []; out := TName (rev (cur s)) :: out s; bs := bs s; err := err s |} end.
Definition emit (t : tok) (s : lst) : lst :=
  {| depth := depth s; cur := cur s; out := t :: out s; bs := bs s; err := err s |}.
Definition fail (s : lst) : lst := {| depth := depth s; cur := cur s; out := out s; bs := bs s; err := true |}.

Definition step (s : lst) (c : ch) : lst :=
  if err s then s else
  if bs s then
    (if (c =? c_nl)%N then {| depth := depth s; cur := cur s; out := out s; bs := false; err := false |}
     else fail s)
  else if is_ident_char c then
    {| depth := depth s; cur := c :: cur s; out := out s; bs := false; err := false |}
  else
    let s := flush s in
    if (c =? c_sp)%N then s
    else if (c =? c_bs)%N then {| depth := depth s; cur := []; out := out s; bs := true; err := false |}
    else if (c =? c_nl)%N then (match depth s with O => emit TNewline s | S _ => s end)
    else if (c =? c_dot)%N then emit TDot s
    else if (c =? c_comma)%N then emit TComma s
    else if (c =? c_star)%N then emit TStar s
    else if (c =? c_lp)%N then {| depth := S (depth s); cur := []; out := TLpar :: out s; bs := false; err := false |}
    else if (c =? c_rp)%N then
      (match depth s with O => fail s
       | S d => {| depth := d; cur := []; out := TRpar :: out s; bs := false; err := false |} end)
    else fail s.

Definition lex_from (s : lst) (x : str) : lst := fold_left step x s.
Definition finish (s : lst) : option (list tok) :=
  let s := flush s in
  if err s || bs s then None else match depth s with O => Some (rev (out s)) | _ => None end.
Definition lex (x : str) : option (list tok) := finish (lex_from init x).

(* printer items *)
Inductive item := IName (s : str) | IDot | IComma | ILpar | IRpar | IStar
                | ISpaces (n : nat) | INewline | ICont (* backslash newline *).
Definition render1 (i : item) : str :=
  match i with
  | IName s => s | IDot => [c_dot] | IComma => [c_comma] | ILpar => [c_lp] | IRpar => [c_rp]
  | IStar => [c_star] | ISpaces n => repeat c_sp n | INewline => [c_nl] | ICont => [c_bs; c_nl] end.
Definition render (l : list item) : str := concat (map render1 l).

(* clean state: no pending name, no backslash, no error *)
Definition clean (s : lst) : Prop := cur s = [] /\ bs s = false /\ err s = false.

Definition wf_name (s : str) : Prop := s <> [] /\ forallb is_ident_char s = true.

(* abstract effect of one item on (depth, out) from a clean state, when followed by a non-name *)
Definition tok_of (d : nat) (i : item) : option (nat * list tok) :=
  match i with
  | IName s => Some (d, [TName s])
  | IDot => Some (d, [TDot]) | IComma => Some (d, [TComma]) | IStar => Some (d, [TStar])
  | ILpar => Some (S d, [TLpar])
  | IRpar => match d with O => None | S d' => Some (d', [TRpar]) end
  | ISpaces _ => Some (d, []) | ICont => Some (d, [])
  | INewline => Some (d, match d with O => [TNewline] | _ => [] end)
  end.

Fixpoint toks (d : nat) (l : list item) : option (nat * list tok) :=
  match l with
  | [] => Some (d, [])
  | i :: r => match tok_of d i with None => None
              | Some (d', ts) => match toks d' r with None => None
                                 | Some (d'', ts') => Some (d'', ts ++ ts') end end
  end.

Definition is_name (i : item) := match i with IName _ => true | _ => false end.
Fixpoint no_adjacent_names (l : list item) : bool :=
  match l with
  | i :: ((j :: _) as r) => negb (is_name i && is_name j) && no_adjacent_names r
  | _ => true end.
Definition names_wf (l : list item) : Prop :=
  forall s, In (IName s) l -> wf_name s.

Lemma step_ident_run : forall (x : str) s, err s = false -> bs s = false ->
  forallb is_ident_char x = true ->
  lex_from s x = {| depth := depth s; cur := rev x ++ cur s; out := out s; bs := false; err := false |}.
Proof.
  induction x as [|c x IH]; intros s He Hb Hx; cbn [lex_from fold_left rev app].
  - destruct s; cbn in *; subst; reflexivity.
  - cbn [forallb] in Hx. apply andb_true_iff in Hx as [Hc Hx].
    unfold step at 2. rewrite He, Hb, Hc.
    fold (lex_from {| depth := depth s; cur := c :: cur s; out := out s; bs := false; err := false |} x).
    rewrite IH by (cbn; auto). cbn [depth cur out]. rewrite <- app_assoc. reflexivity.
Qed.

Lemma lex_from_app s x y : lex_from s (x ++ y) = lex_from (lex_from s x) y.
Proof. unfold lex_from. apply fold_left_app. Qed.

Definition ok (s : lst) : Prop := err s = false /\ bs s = false.

Lemma flush_ok s : ok s -> ok (flush s).
Proof. intros [? ?]; unfold ok, flush; destruct (cur s); cbn; auto. Qed.
Lemma flush_cur s : cur (flush s) = [].
Proof. unfold flush; destruct (cur s) eqn:E; cbn; auto. Qed.
Lemma flush_depth s : depth (flush s) = depth s.
Proof. unfold flush; destruct (cur s); reflexivity. Qed.
Lemma flush_idem s : flush (flush s) = flush s.
Proof. unfold flush at 1. rewrite flush_cur. reflexivity. Qed.


Lemma step_spaces n : forall s, ok s ->
  lex_from s (repeat c_sp n) = match n with O => s | _ => flush s end.
Proof.
  induction n as [|n IH]; intros s [He Hb]; [reflexivity|].
  cbn [repeat lex_from fold_left]. unfold step at 2. rewrite He, Hb.
  change (is_ident_char c_sp) with false. cbn iota.
  change ((c_sp =? c_sp)%N) with true. cbn iota.
  fold (lex_from (flush s) (repeat c_sp n)).
  rewrite IH by (apply flush_ok; split; auto).
  destruct n; [reflexivity| apply flush_idem].
Qed.

Definition mk d o : lst := {| depth := d; cur := []; out := o; bs := false; err := false |}.

Lemma flush_mk s : ok s -> flush s = mk (depth s) (out (flush s)).
Proof. intros [He Hb]. unfold flush, mk. destruct s as [d c o b e]; cbn in *; subst.
  destruct c; reflexivity. Qed.

(* one non-name item *)
Ltac one_char He Hb Hm :=
  cbn [lex_from fold_left]; unfold step; rewrite He, Hb; cbn -[flush]; rewrite Hm; cbn.

Lemma step_item i : forall s d' ts, ok s -> is_name i = false ->
  tok_of (depth s) i = Some (d', ts) ->
  flush (lex_from s (render1 i)) = mk d' (rev ts ++ out (flush s)).
Proof.
  intros s d' ts Hok Hn Ht. pose proof (flush_mk s Hok) as Hm.
  pose proof (flush_ok s Hok) as Hfok.
  destruct Hok as [He Hb].
  destruct i; try discriminate Hn; cbn [render1]; cbn in Ht.
  - one_char He Hb Hm. inversion Ht; subst. reflexivity.
  - one_char He Hb Hm. inversion Ht; subst. reflexivity.
  - one_char He Hb Hm. inversion Ht; subst. reflexivity.
  - one_char He Hb Hm. destruct (depth s); [discriminate|]. inversion Ht; subst. reflexivity.
  - one_char He Hb Hm. inversion Ht; subst. reflexivity.
  - rewrite step_spaces by (split; auto). inversion Ht; subst. cbn.
    destruct n; rewrite ?flush_idem; exact Hm.
  - one_char He Hb Hm. destruct (depth s); inversion Ht; subst; reflexivity.
  - cbn [lex_from fold_left]. unfold step at 2. rewrite He, Hb. cbn -[flush]. rewrite Hm. cbn.
    inversion Ht; subst. reflexivity.
Qed.

Definition item_wf (i : item) : Prop :=
  match i with IName s => wf_name s | ISpaces n => n <> 0 | _ => True end.

Definition head_not_name (l : list item) : Prop :=
  match l with i :: _ => is_name i = false | [] => True end.

Lemma step_item_clean i s : ok s -> is_name i = false -> item_wf i ->
  (forall d' ts, tok_of (depth s) i = Some (d', ts) -> cur (lex_from s (render1 i)) = []
     /\ ok (lex_from s (render1 i))).
Proof.
  intros Hok Hn Hwf d' ts Ht. pose proof (flush_cur s) as Hc. pose proof (flush_ok s Hok) as [Hfe Hfb].
  destruct Hok as [He Hb]. unfold ok.
  destruct i; try discriminate Hn; cbn [render1]; cbn in Ht.
  - cbn [lex_from fold_left]; unfold step; rewrite He, Hb; cbn -[flush]; auto.
  - cbn [lex_from fold_left]; unfold step; rewrite He, Hb; cbn -[flush]; auto.
  - cbn [lex_from fold_left]; unfold step; rewrite He, Hb; cbn -[flush]; auto.
  - cbn [lex_from fold_left]; unfold step; rewrite He, Hb; cbn -[flush].
    rewrite flush_depth. destruct (depth s); [discriminate|]. cbn; auto.
  - cbn [lex_from fold_left]; unfold step; rewrite He, Hb; cbn -[flush]; auto.
  - rewrite step_spaces by (split; auto). cbn in Hwf. destruct n; [congruence|].
    split; [apply flush_cur | split; auto].
  - cbn [lex_from fold_left]; unfold step; rewrite He, Hb; cbn -[flush].
    rewrite flush_depth. destruct (depth s); cbn -[flush]; auto.
  - cbn [lex_from fold_left]. unfold step. rewrite He, Hb. cbn -[flush]. auto.
Qed.

Lemma lex_items : forall l s d' ts, ok s ->
  (cur s = [] \/ head_not_name l) ->
  Forall item_wf l -> no_adjacent_names l = true ->
  toks (depth s) l = Some (d', ts) ->
  flush (lex_from s (render l)) = mk d' (rev ts ++ out (flush s)).
Proof.
  induction l as [|i r IH]; intros s d' ts Hok Hhd Hwf Hadj Ht.
  - cbn in *. inversion Ht; subst. apply flush_mk; auto.
  - unfold render in *. cbn [map concat]. rewrite lex_from_app.
    inversion Hwf as [|? ? Hwi Hwr]; subst.
    cbn [toks] in Ht. destruct (tok_of (depth s) i) as [[d1 t1]|] eqn:E1; [|discriminate].
    destruct (toks d1 r) as [[d2 t2]|] eqn:E2; [|discriminate]. inversion Ht; subst d' ts.
    destruct (is_name i) eqn:En.
    + (* name *)
      destruct i; try discriminate En. cbn [render1]. cbn in E1. inversion E1; subst d1 t1.
      destruct Hhd as [Hc | Hh]; [|cbn in Hh; discriminate].
      cbn in Hwi. destruct Hwi as [Hne Hid]. destruct Hok as [He Hb].
      rewrite (step_ident_run s0 s He Hb Hid). rewrite Hc, app_nil_r.
      set (s1 := {| depth := depth s; cur := rev s0; out := out s; bs := false; err := false |}).
      assert (Hr : head_not_name r).
      { destruct r as [|j r']; cbn; auto. cbn in Hadj. apply andb_true_iff in Hadj as [Hx _].
        destruct (is_name j); [discriminate|reflexivity]. }
      assert (Hadj' : no_adjacent_names r = true).
      { destruct r as [|j r']; auto. cbn in Hadj. apply andb_true_iff in Hadj as [_ Hx]. exact Hx. }
      rewrite (IH s1 d2 t2); try assumption; [| split; reflexivity | right; exact Hr].
      f_equal. unfold flush at 1. subst s1. cbn [cur].
      destruct (rev s0) eqn:Er.
      { exfalso. apply Hne. rewrite <- (rev_involutive s0), Er. reflexivity. }
      cbn [out]. rewrite <- Er, rev_involutive. unfold flush. rewrite Hc.
      cbn [rev app]. rewrite <- app_assoc. reflexivity.
    + (* non-name *)
      destruct (step_item_clean i s Hok En Hwi d1 t1 E1) as [Hc1 Hok1].
      pose proof (step_item i s d1 t1 Hok En E1) as Hs.
      assert (Hfl : flush (lex_from s (render1 i)) = lex_from s (render1 i)).
      { unfold flush. rewrite Hc1. reflexivity. }
      rewrite Hfl in Hs.
      assert (Hadj' : no_adjacent_names r = true).
      { destruct r as [|j r']; auto. cbn in Hadj. apply andb_true_iff in Hadj as [_ Hx]. exact Hx. }
      rewrite (IH (lex_from s (render1 i)) d2 t2); try assumption.
      * rewrite Hfl, Hs. cbn [out mk]. rewrite rev_app_distr, <- app_assoc. reflexivity.
      * left; exact Hc1.
      * rewrite Hs. exact E2.
Qed.

Theorem lex_render : forall l ts, Forall item_wf l -> no_adjacent_names l = true ->
  toks 0 l = Some (0, ts) -> lex (render l) = Some ts.
Proof.
  intros l ts Hwf Hadj Ht. unfold lex, finish.
  rewrite (lex_items l init 0 ts); try assumption; try (split; reflexivity); try (left; reflexivity).
  cbn. rewrite app_nil_r, rev_involutive. reflexivity.
Qed.
Print Assumptions lex_render.

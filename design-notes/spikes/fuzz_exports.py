import sys, os, random, tempfile, shutil, subprocess, json, ast
CHILD = r'''
import sys, json
case = json.loads(sys.stdin.read()); sys.path.insert(0, case["root"])
from pyflyby._modules import ModuleHandle
out = []
for m in case["mods"]:
    try:
        e = ModuleHandle(m).exports
        out.append(sorted(i.import_as for i in e) if e else None)
    except Exception as ex: out.append("EXC " + type(ex).__name__)
print("RESULT" + json.dumps(out))
'''
def members(node):
    if isinstance(node, ast.Assign): return [t.id for t in node.targets if isinstance(t, ast.Name)]
    if isinstance(node, (ast.ClassDef, ast.FunctionDef)): return [node.name]
    return []
def exports(modname, src, is_init, exists):
    body = ast.parse(src).body
    mem = [n for s in body for n in members(s)]
    all_ok = False; allm = []
    if '__all__' in mem:
        for n in body:
            if isinstance(n, ast.Assign):
                if '__all__' in members(n):
                    try: allm = list(ast.literal_eval(n.value)); all_ok = True
                    except (ValueError, TypeError): all_ok = False
            elif isinstance(n, ast.AugAssign) and isinstance(n.target, ast.Name) and n.target.id == '__all__' and all_ok:
                try: allm += list(ast.literal_eval(n.value))
                except (ValueError, TypeError): all_ok = False
    if all_ok: mem = allm
    else:
        for n in body:
            if not isinstance(n, ast.ImportFrom): continue
            if n.level == 0:
                fm = n.module
                if fm.split('.')[:len(modname.split('.'))] != modname.split('.'): continue
            elif n.level == 1 and is_init:
                fm = modname + ('.' + n.module if n.module else '')
            else: continue
            for a in n.names:
                m = a.asname or a.name
                if a.name != '*' and not exists(fm + '.' + m): mem.append(m)
    mem = [n for n in mem if not n.startswith('_')]
    mem = [n for n in mem if '.' not in n]
    return sorted(set(mem)) if mem else None
NAMES = ['a', 'b', '_p', 'K', 'f', 'sub', 'x']
def defined(src):
    out = []
    for st in ast.parse(src).body:
        if isinstance(st, ast.Assign): out += [t.id for t in st.targets if isinstance(t, ast.Name)]
        elif isinstance(st, (ast.ClassDef, ast.FunctionDef, ast.AsyncFunctionDef)): out.append(st.name)
    return out
def gen_src(r, pkgname, subs, subsrc={}):
    lines = []
    for _ in range(r.randint(1, 7)):
        k = r.random(); n = r.choice(NAMES)
        if k < .2: lines.append('%s = 1' % n)
        elif k < .3: lines.append('def %s(): pass' % n)
        elif k < .36: lines.append('async def %s(): pass' % n)
        elif k < .45: lines.append('class %s: pass' % n)
        elif k < .5: lines.append('%s: int = 1' % n)
        elif k < .55: lines.append('%s, %s = 1, 2' % (n, r.choice(NAMES)))
        elif k < .62: lines.append('%s = %s = 3' % (n, r.choice(NAMES)))
        elif k < .7: lines.append('__all__ = %r' % ([r.choice(NAMES) for _ in range(r.randint(0, 3))],))
        elif k < .74:
            if any(l.startswith('__all__ =') for l in lines): lines.append('__all__ += %r' % ([r.choice(NAMES)],))
        elif k < .77: lines.append('__all__ = [n for n in ()]')
        elif k < .85 and subs:
            sb = r.choice(subs); dn = defined(subsrc[pkgname + '.' + sb])
            if dn: lines.append('from %s.%s import %s' % (pkgname, sb, r.choice(dn)))
        elif k < .9 and subs: lines.append('from . import %s' % r.choice(subs))
        elif k < .93 and subs:
            sb = r.choice(subs); dn = defined(subsrc[pkgname + '.' + sb])
            if dn: lines.append('from .%s import %s as %s' % (sb, r.choice(dn), r.choice(NAMES)))
        elif k < .96: lines.append('from os import path as %s' % n)
        else: lines.append('if True:\n    %s = 1' % n)
    return '\n'.join(lines) + '\n'
def main(seed, n):
    r = random.Random(seed); bad = 0; tot = 0
    for i in range(n):
        root = tempfile.mkdtemp(prefix='exp')
        try:
            pk = 'pk%d' % i; os.makedirs(os.path.join(root, pk))
            subs = r.sample(['sub', 'x', 'b'], r.randint(0, 3))
            srcs = {}
            for sname in subs:
                srcs[pk + '.' + sname] = gen_src(r, pk, []); open(os.path.join(root, pk, sname + '.py'), 'w').write(srcs[pk + '.' + sname])
            srcs[pk] = gen_src(r, pk, subs, srcs); open(os.path.join(root, pk, '__init__.py'), 'w').write(srcs[pk])
            flat = 'fl%d' % i; srcs[flat] = gen_src(r, flat, []); open(os.path.join(root, flat + '.py'), 'w').write(srcs[flat])
            mods = sorted(srcs)
            env = dict(os.environ, PYTHONPATH='/repo/lib/python', PYTHONDONTWRITEBYTECODE='1', PYFLYBY_LOG_LEVEL='ERROR')
            p = subprocess.run(['/venv/bin/python', '-c', CHILD], input=json.dumps(dict(root=root, mods=mods)), capture_output=True, text=True, env=env, timeout=60)
            line = [l for l in p.stdout.splitlines() if l.startswith('RESULT')]
            if not line: print('child failed', p.stderr[-300:]); continue
            real = json.loads(line[0][6:])
            def exists(d): return d in srcs
            mine = []
            for m in mods:
                try: mine.append(exports(m, srcs[m], m == pk, exists))
                except Exception as e: mine.append('EXC ' + type(e).__name__)
            tot += len(mods)
            if real != mine:
                bad += 1
                if bad <= 3:
                    for m, a, b in zip(mods, real, mine):
                        if a != b: print('=== MISMATCH', m); print(srcs[m]); print(' real', a, ' mine', b)
        finally: shutil.rmtree(root)
    print('cases', n, 'modules', tot, 'mismatching cases', bad)
main(int(sys.argv[1]), int(sys.argv[2]))

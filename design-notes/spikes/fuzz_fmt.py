import sys, random
sys.path.insert(0, '/tmp/spike')
import fmt_proto as F
from pyflyby._importclns import ImportSet
from pyflyby._importstmt import Import, ImportFormatParams
def ident(r, maxlen=12):
    return ''.join(r.choice('abcxyz_') for _ in range(r.randint(1, maxlen)))
def dotted(r):
    return '.'.join(ident(r, r.choice([3,8,20])) for _ in range(r.randint(1,3)))
def rand_import(r):
    k = r.random()
    if k < 0.25: d = dotted(r); return (d, d)                       # import a.b
    if k < 0.35: return (dotted(r), ident(r))                       # import a.b as c / from a import b as c
    if k < 0.7:  d = dotted(r) + '.' + ident(r); return (d, d.rsplit('.',1)[1])   # from a import b
    if k < 0.8:  return ('.' * r.randint(1,3) + (dotted(r) + '.' if r.random()<.5 else '') + ident(r), None)
    if k < 0.87: return (dotted(r) + '.*', '*')
    if k < 0.95: return ('__future__.' + r.choice(['division','annotations','print_function']), None)
    return (dotted(r), ident(r))
syntaxerr_shown=[0]
def main(seed, n):
    r = random.Random(seed); bad = 0; conflicts = 0; syntaxerr = 0
    pool = [dotted(r) for _ in range(4)]
    for i in range(n):
        imps = []
        for _ in range(r.randint(1, 7)):
            f, a = rand_import(r)
            if r.random() < 0.5 and not f.startswith('.') and not f.startswith('__future__'):
                f = r.choice(pool) + '.' + f.split('.')[-1]    # share modules
                if a is not None and a != '*' and '.' in a: a = f
            if a is None: a = f.split('.')[-1]
            imps.append((f, a))
        P = dict(width=r.choice([None, 79] + list(range(10, 100, 7))), indent=r.choice([2,4,8]),
                 hanging=r.choice(['never','auto','always']),
                 align=r.choice([True, False, 0, 1, 16, 32, 40, (8,16,24), (32,), (16,48)]),
                 from_spaces=r.choice([0,1,2,3,8]), separate=r.choice([True, False]), align_future=r.choice([True, False]))
        ip = ImportFormatParams(max_line_length=P['width'], indent=P['indent'], hanging_indent=P['hanging'],
                                align_imports=P['align'], from_spaces=P['from_spaces'],
                                separate_from_imports=P['separate'], align_future=P['align_future'])
        real_set = ImportSet([Import.from_parts(f, a) for f, a in imps], ignore_shadowed=True)
        try: real = real_set.pretty_print(ip)
        except Exception as e: real = 'EXC ' + type(e).__name__; conflicts += 1
        mine_set = F.from_imports(imps, True)
        try: mine = F.print_set(mine_set, P)
        except Exception as e: mine = 'MYEXC %s %s' % (type(e).__name__, e)
        if set(mine_set) != set((i.fullname, i.import_as) for i in real_set):
            mine = 'SETDIFF'
        if real.startswith('EXC'): continue
        try: compile(real, 'x', 'exec', dont_inherit=True)
        except SyntaxError as e:
            syntaxerr += 1
            bl=[l for l in real.splitlines() if l.lstrip().startswith('import (')]
            if not bl and syntaxerr_shown[0] < 6:
                syntaxerr_shown[0]+=1; print('--- non-F2 syntax error:', e); print(real); print(imps, P)
        if real != mine:
            bad += 1
            if bad <= 3: print('=== MISMATCH', imps, P); print(real); print('--- mine'); print(mine)
    print('cases', n, 'mismatches', bad, 'real raised', conflicts, 'outputs that do not compile', syntaxerr)
main(int(sys.argv[1]), int(sys.argv[2]))

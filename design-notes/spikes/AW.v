From Coq Require Import List Arith Bool Lia.
Import ListNotations.

Section AW.
Variable byte : Type.
Definition content := list byte.

Inductive path := Target | Tmp (pid : nat).
Definition path_eqb (a b : path) : bool :=
  match a, b with Target, Target => true | Tmp x, Tmp y => Nat.eqb x y | _, _ => false end.
Lemma path_eqb_spec a b : reflect (a = b) (path_eqb a b).
Proof. destruct a, b; cbn; try (constructor; congruence).
  destruct (Nat.eqb_spec pid pid0); constructor; congruence. Qed.

Definition fs := path -> option content.
Definition upd (f : fs) (p : path) (v : option content) : fs :=
  fun q => if path_eqb q p then v else f q.

Inductive op := OOpen (p : path) | OWrite (p : path) (d : content) | ORename (p q : path).

Definition step (f : fs) (o : op) : fs :=
  match o with
  | OOpen p => upd f p (Some [])
  | OWrite p d => match f p with Some c => upd f p (Some (c ++ d)) | None => f end
  | ORename p q => match f p with Some c => upd (upd f q (Some c)) p None | None => f end
  end.
Definition run (f : fs) (l : list op) : fs := fold_left step l f.

Definition prog (pid : nat) (chunks : list content) : list op :=
  OOpen (Tmp pid) :: map (OWrite (Tmp pid)) chunks ++ [ORename (Tmp pid) Target].

Inductive interleave {A} : list A -> list A -> list A -> Prop :=
| il_nil : interleave [] [] []
| il_l x a b l : interleave a b l -> interleave (x :: a) b (x :: l)
| il_r x a b l : interleave a b l -> interleave a (x :: b) (x :: l).

(* per-writer phase: what remains of its program and what its tmp must hold *)
Inductive phase := NotStarted | Writing (done_ : content) (rest : list content) | Done.

Definition remaining (pid : nat) (chunks : list content) (ph : phase) : list op :=
  match ph with
  | NotStarted => prog pid chunks
  | Writing _ rest => map (OWrite (Tmp pid)) rest ++ [ORename (Tmp pid) Target]
  | Done => [] end.

Definition phase_ok (chunks : list content) (ph : phase) : Prop :=
  match ph with Writing d rest => d ++ concat rest = concat chunks | _ => True end.

Definition tmp_ok (f : fs) (pid : nat) (ph : phase) : Prop :=
  match ph with Writing d _ => f (Tmp pid) = Some d | _ => True end.

Variables (pid1 pid2 : nat) (c1 c2 : list content) (old : option content).
Hypothesis Hpid : pid1 <> pid2.
Let d1 := concat c1.  Let d2 := concat c2.

Definition target_ok (f : fs) (ph1 ph2 : phase) : Prop :=
  (ph1 <> Done /\ ph2 <> Done /\ f Target = old)
  \/ (ph1 = Done /\ f Target = Some d1) \/ (ph2 = Done /\ f Target = Some d2).

Definition Inv (f : fs) (ph1 ph2 : phase) : Prop :=
  phase_ok c1 ph1 /\ phase_ok c2 ph2 /\ tmp_ok f pid1 ph1 /\ tmp_ok f pid2 ph2 /\ target_ok f ph1 ph2.

Lemma upd_same f p v : upd f p v p = v.
Proof. unfold upd. destruct (path_eqb_spec p p); congruence. Qed.
Lemma upd_other f p v q : q <> p -> upd f p v q = f q.
Proof. unfold upd. destruct (path_eqb_spec q p); congruence. Qed.

Definition next (pid : nat) (chunks : list content) (ph : phase) : option (op * phase) :=
  match ph with
  | NotStarted => Some (OOpen (Tmp pid), Writing [] chunks)
  | Writing d (c :: r) => Some (OWrite (Tmp pid) c, Writing (d ++ c) r)
  | Writing d [] => Some (ORename (Tmp pid) Target, Done)
  | Done => None end.

Lemma remaining_next pid chunks ph :
  remaining pid chunks ph = match next pid chunks ph with
                            | Some (o, ph') => o :: remaining pid chunks ph'
                            | None => [] end.
Proof. destruct ph as [|d [|c r]|]; reflexivity. Qed.

Lemma tmp_ne : Tmp pid1 <> Tmp pid2. Proof. congruence. Qed.
Lemma tmp_ne' : Tmp pid2 <> Tmp pid1. Proof. congruence. Qed.
Lemma tmp_target pid : Tmp pid <> Target. Proof. congruence. Qed.
Lemma target_tmp pid : Target <> Tmp pid. Proof. congruence. Qed.

Lemma tmp_ok_frame f pid ph p v : p <> Tmp pid -> tmp_ok f pid ph -> tmp_ok (upd f p v) pid ph.
Proof. intros Hne H. destruct ph; cbn in *; auto. rewrite upd_other; auto. Qed.

(* one step of writer 1 preserves Inv *)
Lemma step1 f ph1 ph2 o ph1' : Inv f ph1 ph2 -> next pid1 c1 ph1 = Some (o, ph1') ->
  Inv (step f o) ph1' ph2.
Proof.
  intros (P1 & P2 & T1 & T2 & TG) Hn.
  destruct ph1 as [|d [|c r]|]; cbn in Hn; inversion Hn; subst; clear Hn; cbn [step].
  - (* open *)
    repeat split; auto.
    + cbn. apply upd_same.
    + apply tmp_ok_frame; [apply tmp_ne|auto].
    + unfold target_ok in *. rewrite upd_other by apply target_tmp.
      destruct TG as [(A&B&C)|[(A&_)|(B&C)]]; [left; repeat split; auto; congruence| discriminate | right; right; auto].
  - (* rename *)
    cbn in T1. rewrite T1. cbn in P1. rewrite app_nil_r in P1.
    repeat split; auto.
    + apply tmp_ok_frame; [apply tmp_ne|]. apply tmp_ok_frame; [apply target_tmp|auto].
    + unfold target_ok. right; left. split; auto.
      rewrite upd_other by apply target_tmp. rewrite upd_same. unfold d1. rewrite P1. reflexivity.
  - (* write *)
    cbn in T1. rewrite T1. cbn in P1.
    repeat split; auto.
    + cbn. rewrite <- app_assoc. exact P1.
    + cbn. apply upd_same.
    + apply tmp_ok_frame; [apply tmp_ne|auto].
    + unfold target_ok in *. rewrite upd_other by apply target_tmp.
      destruct TG as [(A&B&C)|[(A&_)|(B&C)]]; [left; repeat split; auto; congruence| discriminate | right; right; auto].
Qed.

Hypothesis step2 : forall f ph1 ph2 o ph2', Inv f ph1 ph2 -> next pid2 c2 ph2 = Some (o, ph2') ->
  Inv (step f o) ph1 ph2'.   (* symmetric to step1; spike only *)

Definition target_in (f : fs) : Prop := f Target = old \/ f Target = Some d1 \/ f Target = Some d2.

Lemma inv_target f ph1 ph2 : Inv f ph1 ph2 -> target_in f.
Proof. intros (_&_&_&_&[(_&_&H)|[(_&H)|(_&H)]]); unfold target_in; auto. Qed.

(* every prefix state satisfies target_in; final state has a writer's complete data *)
Lemma interleaved : forall l ph1 ph2 f,
  Inv f ph1 ph2 ->
  interleave (remaining pid1 c1 ph1) (remaining pid2 c2 ph2) l ->
  (forall k, target_in (run f (firstn k l))) /\ Inv (run f l) Done Done.
Proof.
  induction l as [|o l IH]; intros ph1 ph2 f HI Hil.
  - split; [intros k; rewrite firstn_nil; cbn; eapply inv_target; eauto|].
    inversion Hil as [Ha Hb Hc| |]. cbn.
    rewrite remaining_next in Ha. rewrite remaining_next in Hb.
    destruct ph1 as [|? [|? ?]|]; cbn in Ha; try discriminate.
    destruct ph2 as [|? [|? ?]|]; cbn in Hb; try discriminate. exact HI.
  - inversion Hil as [|x a b l' Hrest Ha Hb Hc | x a b l' Hrest Ha Hb Hc]; subst.
    + rewrite remaining_next in Ha. destruct (next pid1 c1 ph1) as [[o' ph1']|] eqn:En; [|discriminate].
      inversion Ha; subst. pose proof (step1 _ _ _ _ _ HI En) as HI'.
      destruct (IH ph1' ph2 (step f o') HI' Hrest) as [Hp Hf].
      split; [|exact Hf]. intros [|k]; cbn; [eapply inv_target; eauto| apply Hp].
    + rewrite remaining_next in Hb. destruct (next pid2 c2 ph2) as [[o' ph2']|] eqn:En; [|discriminate].
      inversion Hb; subst. pose proof (step2 _ _ _ _ _ HI En) as HI'.
      destruct (IH ph1 ph2' (step f o') HI' Hrest) as [Hp Hf].
      split; [|exact Hf]. intros [|k]; cbn; [eapply inv_target; eauto| apply Hp].
Qed.

Theorem two_writers l f0 : f0 Target = old ->
  interleave (prog pid1 c1) (prog pid2 c2) l ->
  (forall k, target_in (run f0 (firstn k l))) /\
  (run f0 l Target = Some d1 \/ run f0 l Target = Some d2).
Proof.
  intros H0 Hil.
  assert (HI : Inv f0 NotStarted NotStarted).
  { repeat split; cbn; auto. left. repeat split; auto; discriminate. }
  destruct (interleaved l NotStarted NotStarted f0 HI Hil) as [Hp (_&_&_&_&[(A&_)|[(_&H)|(_&H)]])]; auto.
  congruence.
Qed.
End AW.

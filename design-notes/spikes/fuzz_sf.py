import sys, random
sys.path.insert(0, '/tmp/spike')
import sf_proto as S
from pyflyby._saveframe import _validate_frames, _get_frames_to_save, FrameFormat
class Code:
    def __init__(s, f, n, q): s.co_filename = f; s.co_name = n; s.co_qualname = q
class Frame:
    def __init__(s, f, l, n, q): s.f_code = Code(f, n, q); s.f_lineno = l
FILES = ['/d/a.py', '/d/b.py', '/d/pkg/a.py', '/d/c.py']; FUNCS = ['f', 'g', 'h']
def main(seed, n):
    r = random.Random(seed); bad = 0; st = {}
    for i in range(n):
        k = r.randint(1, 8)
        base = [Frame(r.choice(FILES), r.randint(1, 4), fn := r.choice(FUNCS), r.choice(['', 'K.']) + fn) for _ in range(k)]
        frames = list(base)
        if r.random() < .3:     # chained exception repeating frames
            frames += r.sample(base, r.randint(1, k))
        def pat():
            f = r.choice(['a.py', 'b.py', r'pkg/a\.py', 'c.py', '.*', 'zz', '/d/a.py'])
            l = r.choice(['', '', '1', '2', '3', 'x'])
            fn = r.choice(['', '', 'f', 'g', 'K.f', 'K.g'])
            return '%s:%s:%s' % (f, l, fn)
        c = r.random()
        if c < .15: sel = r.choice([None, 1, 3, 20, 0, '2', -1])
        elif c < .45: sel = pat()
        elif c < .65: sel = [pat() for _ in range(r.randint(1, 3))]
        elif c < .9: sel = pat() + '..' + pat()
        elif c < .97: sel = pat() + '..'
        else: sel = r.choice(['a.py::..b.py::..c.py::', 'a.py:1', ':1:f', 'a.py::,b.py::'])
        try:
            v = _validate_frames(sel, 'function')
            got = _get_frames_to_save(v, frames)
            real = [i for i, f in got]
            assert all(frames[i-1] is f for i, f in got)
        except (ValueError, IndexError) as e: real = 'ERR ' + type(e).__name__
        try:
            v2 = S.validate_frames(sel)
            mine = S.select(v2, [(f.f_code.co_filename, f.f_lineno, f.f_code.co_name, f.f_code.co_qualname) for f in frames], [id(f) for f in frames])
        except (ValueError, IndexError) as e: mine = 'ERR ' + type(e).__name__
        key = 'ERR' if isinstance(real, str) else 'n=%d' % min(len(real), 3); st[key] = st.get(key, 0) + 1
        if real != mine:
            bad += 1
            if bad <= 4: print('=== MISMATCH', sel, [(f.f_code.co_filename, f.f_lineno, f.f_code.co_qualname) for f in frames]); print(' real', real); print(' mine', mine)
    print('cases', n, 'mismatches', bad, st)
main(int(sys.argv[1]), int(sys.argv[2]))

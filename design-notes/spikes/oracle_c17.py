import sys, os, pickle, stat, random, logging
logging.disable(logging.CRITICAL)
from pyflyby import saveframe, SaveframeReader
r = random.Random(int(sys.argv[1])); bad = 0; n = 0
def picklable(v):
    try: pickle.dumps(v); return True
    except Exception: return False
def mk_stack(depth, locs):
    src = []
    for k in range(depth):
        body = ''.join("    %s = vals[%d][%r]\n" % (nm, k, nm) for nm in locs[k])
        call = "    return f%d(vals)\n" % (k+1) if k+1 < depth else "    raise ValueError('boom')\n"
        src.append("def f%d(vals):\n%s%s" % (k, body, call))
    ns = {}; exec(compile('\n'.join(src), '/virtual/mod%d.py' % depth, 'exec'), ns)
    return ns['f0']
for case in range(int(sys.argv[2])):
    depth = r.randint(1, 5)
    names = ['a', 'b', 'c', 'secret', '_u', '__dd']
    locs = [{nm: r.choice([1, 'txt', [1,2], (lambda: 0), {'k': 1}]) for nm in r.sample(names, r.randint(0, 5))} for _ in range(depth)]
    f0 = mk_stack(depth, locs)
    try: f0(locs)
    except ValueError as e: sys.last_exc = e; sys.last_value = e
    sel = r.choice([None, 1, depth, depth + 3, 'mod%d.py::' % depth, 'mod%d.py::f0' % depth, 'mod%d.py::f0..mod%d.py::f%d' % (depth, depth, depth-1), 'mod%d.py::f%d..' % (depth, depth//2)])
    inc = r.choice([None, None, ['a'], ['a', 'secret'], 'b', ['zz']]); exc = None
    if inc is None: exc = r.choice([None, ['secret'], ['a', 'b'], 'secret'])
    um = r.choice([0o022, 0o077, 0o000, 0o027]); old = os.umask(um)
    out = os.path.join(os.getcwd(), 'sf%d.pkl' % case)
    try:
        def call(): return saveframe(filename=out, frames=sel, variables=inc, exclude_variables=exc)
        (lambda: call())()
    except Exception as e:
        os.umask(old); continue
    cur_umask = os.umask(old); os.umask(old); n += 1
    problems = []
    if cur_umask != um: problems.append('umask not restored')
    mode = stat.S_IMODE(os.stat(out).st_mode)
    data = pickle.load(open(out, 'rb'))
    frames = {k: v for k, v in data.items() if isinstance(k, int)}
    if mode != 0o644: problems.append('mode %o' % mode)
    for idx, fr in frames.items():
        fn = fr['function_name']
        if fn.startswith('f') and fn[1:].isdigit():
            k = int(fn[1:]); live = dict(locs[k]); live['vals'] = locs
            if idx != depth - k: problems.append('index %d for f%d (depth %d)' % (idx, k, depth))
            want = {nm for nm, v in live.items() if not nm.startswith('__') and picklable(v)}
            incl = [inc] if isinstance(inc, str) else inc; excl = [exc] if isinstance(exc, str) else exc
            if incl: want = {w for w in want if w in incl}
            if excl: want = {w for w in want if w not in excl}
            gotv = set(fr['variables'])
            if gotv != want: problems.append('vars f%d got %s want %s' % (k, sorted(gotv), sorted(want)))
            for nm in gotv & set(locs[k]):
                if pickle.loads(fr['variables'][nm]) != locs[k][nm]: problems.append('value ' + nm)
    rd = SaveframeReader(out)
    for idx, fr in frames.items():
        for nm in fr['variables']:
            if nm != 'vals' and rd.get_variables(nm, frame_idx=idx) != pickle.loads(fr['variables'][nm]): problems.append('reader ' + nm)
    if problems:
        bad += 1
        if bad <= 5: print('PROBLEM', sel, inc, exc, oct(um), problems[:3])
    os.remove(out)
print('cases', n, 'problems', bad)

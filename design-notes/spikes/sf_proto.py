"""Scratch prototype of M15 frame selection (from the source reading)."""
import re
def validate_frames(frames, utility='function'):
    if frames is None: return None, None
    try: return int(frames), 'NUM'
    except (ValueError, TypeError): pass
    is_range = False
    if isinstance(frames, str) and ',' in frames and utility == 'function': raise ValueError('comma')
    if isinstance(frames, (list, tuple)):
        for f in frames:
            if ',' in f: raise ValueError('comma2')
        frames = ','.join(frames)
    allf = [f.strip() for f in frames.split(',')]
    if len(allf) == 1:
        allf = [f.strip() for f in frames.split('..')]
        if len(allf) > 2: raise ValueError('range')
        is_range = len(allf) == 2
    parsed = []
    for idx, f in enumerate(allf):
        parts = f.split(':')
        if idx == 1 and len(parts) == 1 and parts[0] == '' and is_range:
            parsed.append(parts); break
        if len(parts) != 3: raise ValueError('colons')
        if not parts[0]: raise ValueError('nofile')
        if parts[1]:
            try: parts[1] = int(parts[1])
            except ValueError: raise ValueError('lineno')
        parsed.append(parts)
    return parsed, ('RANGE' if is_range else 'LIST')

def matching(pat, frames):
    if pat == ['']: return [1]
    fre, ln, fn = pat
    out = []
    for i, (file, line, name, qual) in enumerate(frames):
        if re.search(fre, file) is None: continue
        if ln and line != ln: continue
        if fn and fn not in (name, qual): continue
        out.append(i+1)
    return out

def select(sel, frames, ident):
    """frames: list of (file,line,name,qual); ident: list of frame identities (for dedup). returns list of indexes"""
    fr, typ = sel
    if typ is None: return [1]
    if typ == 'NUM':
        n = min(fr, len(frames)); return list(range(1, n+1))   # note: negative n => range(n) empty
    out = []
    if typ == 'LIST':
        for p in fr: out += matching(p, frames)
    else:
        a = matching(fr[0], frames)
        if not a: raise ValueError('nomatch')
        b = matching(fr[1], frames)
        if not b: raise ValueError('nomatch')
        f = (a[0], a[-1]); l = (b[0], b[-1])
        cands = [(abs(f[0]-l[0]), (f[0], l[0])), (abs(f[0]-l[1]), (f[0], l[1])), (abs(f[1]-l[0]), (f[1], l[0])), (abs(f[1]-l[1]), (f[1], l[1]))]
        _, pr = max(cands, key=lambda x: x[0])
        lo, hi = sorted(pr)
        out = list(range(lo, hi+1))
    out = sorted(out)
    seen = set(); res = []
    for i in out:
        if ident[i-1] not in seen:
            res.append(i); seen.add(ident[i-1])
    return res

import sys, os, random, tempfile, shutil, subprocess, json
CHILD = r'''
import sys, os, json, time, linecache, io, contextlib
case = json.loads(sys.stdin.read()); root = case["root"]; sys.path.insert(0, root)
def write(src, k):
    p = os.path.join(root, "lpm.py"); open(p, "w").write(src)
    t = time.time() + 10 * k; os.utime(p, (t, t)); linecache.clearcache()
write(case["old"], 1)
import lpm
from pyflyby import xreload
old = dict(vars(lpm))
oldmembers = {n: dict(vars(v)) for n, v in old.items() if isinstance(v, type)}
write(case["new"], 2)
buf = io.StringIO()
with contextlib.redirect_stdout(buf), contextlib.redirect_stderr(buf):
    try: xreload(lpm); err = None
    except Exception as e: err = type(e).__name__ + ": " + str(e)[:100]
new = dict(vars(lpm))
out = {"err": err, "names": {}, "members": {}}
for n in set(old) | set(new):
    if n.startswith("__"): continue
    if n not in new: out["names"][n] = "deleted"
    elif n not in old: out["names"][n] = "added"
    else: out["names"][n] = "kept" if new[n] is old[n] else "replaced"
for c, mem in oldmembers.items():
    if c in new and new[c] is old[c]:
        cur = dict(vars(new[c])); d = {}
        for n in set(mem) | set(cur):
            if n.startswith("__"): continue
            if n not in cur: d[n] = "deleted"
            elif n not in mem: d[n] = "added"
            else: d[n] = "kept" if cur[n] is mem[n] else "replaced"
        out["members"][c] = d
# behaviour probe: call every function / method and record its tag
def tag(f):
    try: return f()
    except Exception as e: return "EXC " + type(e).__name__
out["calls"] = {n: tag(v) for n, v in old.items() if callable(v) and not isinstance(v, type) and not n.startswith("__")}
print("RESULT" + json.dumps(out, sort_keys=True))
'''
NAMES = ['f', 'g', 'h', 'A', 'B', 'i1', 'i2', 'd1', 'l1']
def gen_version(r, ver):
    """returns (source, descriptor) ; descriptor: name -> spec"""
    desc = {}; lines = ["def mk(v):", "    def inner(): return ('inner', v)", "    return inner",
                        "def mk2(fn):", "    def inner(): return ('inner2', fn())", "    return inner"]
    classes = []
    for n in NAMES:
        if r.random() < .25: continue
        k = r.random()
        if n in ('A', 'B'):
            base = None
            if n == 'B' and 'A' in desc and desc['A'][0] == 'class' and r.random() < .6: base = 'A'
            mem = {}
            body = []
            for m in ['m1', 'm2', 's', 'c', 'p', 'x']:
                if r.random() < .35: continue
                if m in ('m1', 'm2'): mem[m] = 'method'; body.append("    def %s(self): return ('%s.%s', %d)" % (m, n, m, ver))
                elif m == 's': mem[m] = 'static'; body += ["    @staticmethod", "    def s(): return ('%s.s', %d)" % (n, ver)]
                elif m == 'c': mem[m] = 'clsm'; body += ["    @classmethod", "    def c(cls): return ('%s.c', %d)" % (n, ver)]
                elif m == 'p': mem[m] = 'prop'; body += ["    @property", "    def p(self): return %d" % ver]
                else: mem[m] = 'data'; body.append("    x = %d" % (1000 + ver + r.randint(0, 1)))
            lines.append("class %s%s:" % (n, "(%s)" % base if base else "")); lines += body or ["    pass"]
            desc[n] = ('class', base, mem); classes.append(n)
        elif n in ('i1', 'i2'):
            if classes and k < .7:
                c = r.choice(classes); lines.append("%s = %s()" % (n, c)); lines.append("%s.attr = %d" % (n, 2000 + ver)); desc[n] = ('inst', c)
            else: lines.append("%s = %d" % (n, 3000 + ver)); desc[n] = ('data',)
        elif n == 'd1': lines.append("d1 = %d" % (4000 + r.randint(0, 1))); desc[n] = ('data',)
        elif n == 'l1': lines.append("l1 = [1, %d]" % ver); desc[n] = ('list',)
        else:
            if k < .45: lines.append("def %s(a=%d): return ('%s', %d)" % (n, ver, n, ver)); desc[n] = ('func', n, None)
            elif k < .6:
                cv = 5000 + r.randint(0, 1); lines.append("%s = mk(%d)" % (n, cv)); desc[n] = ('func', 'inner', ('int', cv, 'mk'))
            elif k < .75:
                funcs = [x for x, d in desc.items() if d[0] == 'func' and d[2] is None]
                if funcs:
                    t = r.choice(funcs); lines.append("%s = mk2(%s)" % (n, t)); desc[n] = ('func', 'inner', ('func', t, 'mk2'))
                else: lines.append("def %s(): return ('%s', %d)" % (n, n, ver)); desc[n] = ('func', n, None)
            elif k < .85:
                other = r.choice(['f', 'g', 'h']); lines.append("def %s_impl(): return ('%s_impl', %d)" % (other, other, ver)); lines.append("%s = %s_impl" % (n, other))
                desc[other + '_impl'] = ('func', other + '_impl', None); desc[n] = ('alias', other + '_impl')
            else: lines.append("%s = %d" % (n, 6000 + ver)); desc[n] = ('data',)
    desc['mk'] = ('func', 'mk', None); desc['mk2'] = ('func', 'mk2', None)
    return '\n'.join(lines) + '\n', desc
def resolve(desc, n):
    d = desc[n]
    while d[0] == 'alias': d = desc[d[1]]
    return d
def func_kept(o, n):
    # o, n: ('func', defname, closure)
    if o[1] != n[1]: return False
    if (o[2] is None) != (n[2] is None): return False
    if o[2] is None: return True
    if o[2][2] != n[2][2]: return False      # different factory => different freevars ('v' vs 'fn')
    if o[2][0] == 'int': return o[2][1] == n[2][1]
    return True                               # function-typed cell: updatable
def predict(od, nd):
    names = {}
    for n in set(od) | set(nd):
        if n not in nd: names[n] = 'deleted'; continue
        if n not in od: names[n] = 'added'; continue
        o, w = resolve(od, n), resolve(nd, n)
        if o[0] != w[0]: names[n] = 'replaced'
        elif o[0] == 'func': names[n] = 'kept' if func_kept(o, w) else 'replaced'
        elif o[0] == 'class': names[n] = 'kept' if o[1] == w[1] else 'replaced'
        elif o[0] == 'inst': names[n] = 'kept' if (o[1] == w[1] and od[o[1]][1] == nd[w[1]][1]) else 'replaced'
        elif o[0] == 'data': names[n] = 'data'      # identity depends on constant caching; ignore
        else: names[n] = 'replaced'
    members = {}
    for c in od:
        if od[c][0] == 'class' and c in nd and nd[c][0] == 'class' and od[c][1] == nd[c][1]:
            d = {}
            om, nm = od[c][2], nd[c][2]
            for m in set(om) | set(nm):
                if m not in nm: d[m] = 'deleted'
                elif m not in om: d[m] = 'added'
                elif om[m] != nm[m]: d[m] = 'replaced'
                elif om[m] in ('method', 'static', 'clsm'): d[m] = 'kept'
                elif om[m] == 'prop': d[m] = 'replaced'
                else: d[m] = 'data'
            members[c] = d
    return names, members
def main(seed, n):
    r = random.Random(seed); bad = 0; errs = {}
    for i in range(n):
        root = tempfile.mkdtemp(prefix='lp')
        try:
            osrc, od = gen_version(r, 1); nsrc, nd = gen_version(r, 2)
            env = dict(os.environ, PYTHONPATH=os.environ.get('PF_LIB','/repo/lib/python'), PYTHONDONTWRITEBYTECODE='1', PYFLYBY_LOG_LEVEL='ERROR')
            p = subprocess.run(['/venv/bin/python', '-c', CHILD], input=json.dumps(dict(root=root, old=osrc, new=nsrc)), capture_output=True, text=True, env=env, timeout=60)
            line = [l for l in p.stdout.splitlines() if l.startswith('RESULT')]
            if not line: print('child failed', p.stderr[-300:]); continue
            real = json.loads(line[0][6:])
            if real['err']:
                k = real['err'].split(':')[0] + ':' + real['err'].split(':')[1][:30]; errs[k] = errs.get(k, 0) + 1; continue
            names, members = predict(od, nd)
            rn = {k: ('data' if names.get(k) == 'data' else v) for k, v in real['names'].items()}
            rm = {c: {m: ('data' if members.get(c, {}).get(m) == 'data' else v) for m, v in d.items()} for c, d in real['members'].items()}
            if rn != names or rm != members:
                bad += 1
                if bad <= 3:
                    print('=== MISMATCH', i); print(osrc); print('-----'); print(nsrc)
                    print({k: (rn.get(k), names.get(k)) for k in set(rn) | set(names) if rn.get(k) != names.get(k)})
                    print({c: {m: (rm.get(c, {}).get(m), members.get(c, {}).get(m)) for m in set(rm.get(c, {})) | set(members.get(c, {})) if rm.get(c, {}).get(m) != members.get(c, {}).get(m)} for c in set(rm) | set(members)})
        finally: shutil.rmtree(root)
    print('cases', n, 'mismatches', bad, 'reload errors', errs)
main(int(sys.argv[1]), int(sys.argv[2]))

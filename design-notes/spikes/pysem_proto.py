"""Scratch prototype of PySem (DESIGN Appendix E): which global reads are unbound
in a fully executed program.  Works on Python ast for the generated subset."""
import ast, builtins
BUILTINS = set(dir(builtins))

def targets_of(t, out):
    if isinstance(t, ast.Name): out.add(t.id)
    elif isinstance(t, (ast.Tuple, ast.List)):
        for e in t.elts: targets_of(e, out)
    elif isinstance(t, ast.Starred): targets_of(t.value, out)
    # attribute / subscript targets bind nothing

def bound_in_body(stmts):
    """names bound anywhere in a function/class body (not descending into nested scopes)"""
    out = set()
    def st(s):
        if isinstance(s, ast.Assign):
            for t in s.targets: targets_of(t, out)
        elif isinstance(s, (ast.AugAssign, ast.AnnAssign)): targets_of(s.target, out)
        elif isinstance(s, (ast.Import, ast.ImportFrom)):
            for a in s.names:
                if a.name == '*': continue
                out.add((a.asname or a.name).split('.')[0])
        elif isinstance(s, (ast.FunctionDef, ast.AsyncFunctionDef, ast.ClassDef)): out.add(s.name)
        elif isinstance(s, (ast.For, ast.AsyncFor)):
            targets_of(s.target, out); body(s.body); body(s.orelse)
        elif isinstance(s, ast.While): body(s.body); body(s.orelse)
        elif isinstance(s, ast.If): body(s.body); body(s.orelse)
        elif isinstance(s, (ast.With, ast.AsyncWith)):
            for it in s.items:
                if it.optional_vars is not None: targets_of(it.optional_vars, out)
            body(s.body)
        elif isinstance(s, ast.Try):
            body(s.body); body(s.orelse); body(s.finalbody)
            for h in s.handlers:
                if h.name: out.add(h.name)
                body(h.body)
    def body(b):
        for s in b: st(s)
    body(stmts)
    return out

class Scope:
    def __init__(self, kind, parent, static_locals=None):
        self.kind = kind            # 'module' | 'function' | 'class' | 'comp'
        self.parent = parent
        self.locals = set(static_locals or ())   # static (function/comp)
        self.assigned = set()       # static: names the class body assigns anywhere
        self.dyn = set()            # dynamic bound set (module/class)

class Sem:
    def __init__(self, initial):
        self.module = Scope('module', None); self.module.dyn = set(initial)
        self.unbound = []           # (lineno, name)
        self.pending = []           # function bodies to run after module end
    # resolution
    def read(self, name, scope, lineno):
        s = scope
        if s.kind in ('function', 'comp'):
            if name in s.locals: return
            p = s.parent
            while p is not None:
                if p.kind in ('function', 'comp') and name in p.locals: return
                p = p.parent
            return self.glob(name, lineno)
        if s.kind == 'class':
            if name in s.dyn: return
            if name in s.assigned: return self.glob(name, lineno)
            p = s.parent
            while p is not None:
                if p.kind in ('function', 'comp') and name in p.locals: return
                p = p.parent
            return self.glob(name, lineno)
        return self.glob(name, lineno)
    def glob(self, name, lineno):
        if name in self.module.dyn or name in BUILTINS: return
        self.unbound.append((lineno, name))
    def bind(self, name, scope):
        if scope.kind in ('module', 'class'): scope.dyn.add(name)
        # function/comp: static
    # expressions
    def expr(self, e, scope):
        if e is None: return
        if isinstance(e, ast.Name):
            if isinstance(e.ctx, ast.Load): self.read(e.id, scope, e.lineno)
            return
        if isinstance(e, ast.Lambda):
            self.defaults(e.args, scope)
            f = Scope('function', scope, self.params(e.args))
            self.pending.append(('lambda', e, f)); return
        if isinstance(e, (ast.ListComp, ast.SetComp, ast.GeneratorExp, ast.DictComp)):
            k = Scope('comp', scope)
            for g in e.generators: targets_of(g.target, k.locals)
            first = True
            for g in e.generators:
                self.expr(g.iter, scope if first else k); first = False
                self.store_target_reads(g.target, k)
                for c in g.ifs: self.expr(c, k)
            if isinstance(e, ast.DictComp): self.expr(e.key, k); self.expr(e.value, k)
            else: self.expr(e.elt, k)
            return
        for c in ast.iter_child_nodes(e):
            if isinstance(c, ast.expr): self.expr(c, scope)
            elif isinstance(c, ast.keyword): self.expr(c.value, scope)
            elif isinstance(c, ast.comprehension): pass
    def store_target_reads(self, t, scope):
        # attribute/subscript targets read their base
        if isinstance(t, ast.Attribute): self.expr(t.value, scope)
        elif isinstance(t, ast.Subscript): self.expr(t.value, scope); self.expr(t.slice, scope)
        elif isinstance(t, (ast.Tuple, ast.List)):
            for e in t.elts: self.store_target_reads(e, scope)
        elif isinstance(t, ast.Starred): self.store_target_reads(t.value, scope)
    def bind_target(self, t, scope):
        s = set(); targets_of(t, s)
        for n in s: self.bind(n, scope)
    def params(self, a):
        ps = [x.arg for x in a.posonlyargs + a.args + a.kwonlyargs]
        if a.vararg: ps.append(a.vararg.arg)
        if a.kwarg: ps.append(a.kwarg.arg)
        return set(ps)
    def defaults(self, a, scope):
        for d in a.defaults: self.expr(d, scope)
        for d in a.kw_defaults:
            if d is not None: self.expr(d, scope)
    def annotations(self, a, scope):
        for x in a.posonlyargs + a.args + a.kwonlyargs + ([a.vararg] if a.vararg else []) + ([a.kwarg] if a.kwarg else []):
            if x.annotation is not None: self.expr(x.annotation, scope)
    # statements (executed in order)
    def stmts(self, body, scope):
        for s in body: self.stmt(s, scope)
    def stmt(self, s, scope):
        if isinstance(s, ast.Expr): self.expr(s.value, scope)
        elif isinstance(s, ast.Assign):
            self.expr(s.value, scope)
            for t in s.targets: self.store_target_reads(t, scope); self.bind_target(t, scope)
        elif isinstance(s, ast.AugAssign):
            if isinstance(s.target, ast.Name): self.read(s.target.id, scope, s.lineno)
            else: self.store_target_reads(s.target, scope)
            self.expr(s.value, scope); self.bind_target(s.target, scope)
        elif isinstance(s, (ast.Import, ast.ImportFrom)):
            for a in s.names:
                if a.name != '*': self.bind((a.asname or a.name).split('.')[0], scope)
        elif isinstance(s, (ast.FunctionDef, ast.AsyncFunctionDef)):
            for d in s.decorator_list: self.expr(d, scope)
            self.defaults(s.args, scope)       # CPython: defaults, then annotations
            self.annotations(s.args, scope)
            if s.returns is not None: self.expr(s.returns, scope)
            f = Scope('function', scope, self.params(s.args) | bound_in_body(s.body))
            self.pending.append(('def', s, f))
            self.bind(s.name, scope)
        elif isinstance(s, ast.ClassDef):
            for d in s.decorator_list: self.expr(d, scope)
            for b in s.bases: self.expr(b, scope)
            for k in s.keywords: self.expr(k.value, scope)
            c = Scope('class', scope); c.assigned = bound_in_body(s.body)
            self.stmts(s.body, c)
            self.bind(s.name, scope)
        elif isinstance(s, ast.For):
            self.expr(s.iter, scope); self.store_target_reads(s.target, scope); self.bind_target(s.target, scope)
            self.stmts(s.body, scope)
        elif isinstance(s, ast.While):
            self.expr(s.test, scope); self.stmts(s.body, scope)
        elif isinstance(s, ast.If):
            self.expr(s.test, scope); self.stmts(s.body, scope)      # orelse not executed (test true)
        elif isinstance(s, ast.With):
            for it in s.items:
                self.expr(it.context_expr, scope)
                if it.optional_vars is not None:
                    self.store_target_reads(it.optional_vars, scope); self.bind_target(it.optional_vars, scope)
            self.stmts(s.body, scope)
        elif isinstance(s, ast.Try):
            self.stmts(s.body, scope); self.stmts(s.finalbody, scope)   # generator: try/finally only
        elif isinstance(s, (ast.Pass, ast.Break)): pass
        else: raise NotImplementedError(type(s).__name__)
    def run(self, tree):
        self.stmts(tree.body, self.module)
        i = 0
        while i < len(self.pending):
            kind, node, f = self.pending[i]; i += 1
            if kind == 'lambda': self.expr(node.body, f)
            else: self.stmts(node.body, f)
        return sorted(set(self.unbound))

import sys, os, ast, io, contextlib, warnings, signal
warnings.simplefilter('ignore')
from concurrent.futures import ProcessPoolExecutor
def check(path):
    from pyflyby import PythonBlock, reformat_import_statements
    try:
        src = open(path, encoding='utf-8').read()
    except Exception: return (path, 'skip', 'decode')
    try: tree = ast.parse(src)
    except (SyntaxError, ValueError): return (path, 'skip', 'syntax')
    res = []
    def alarm(*a): raise TimeoutError()
    signal.signal(signal.SIGALRM, alarm); signal.alarm(60)
    try:
        with contextlib.redirect_stdout(io.StringIO()), contextlib.redirect_stderr(io.StringIO()):
            try:
                st = PythonBlock(src).statements
            except Exception as e:
                return (path, 'FAIL', 'statements raised %s: %s' % (type(e).__name__, str(e)[:80]))
            if ''.join(s.text.joined for s in st) != src: res.append('not lossless')
            nodes = [s for s in st if s.ast_node is not None]
            if len(nodes) != len(tree.body): res.append('node count %d vs %d' % (len(nodes), len(tree.body)))
            else:
                for s, n in zip(nodes, tree.body):
                    try:
                        t2 = ast.parse(s.text.joined.lstrip('\f') if False else s.text.joined)
                        if len(t2.body) != 1 or ast.dump(t2.body[0]) != ast.dump(n):
                            res.append('piece differs at line %d' % n.lineno); break
                    except SyntaxError:
                        res.append('piece does not parse at line %d' % n.lineno); break
            for s in st:
                if s.ast_node is None and any(l.strip() and not l.strip().startswith('#') for l in s.text.joined.split('\n')):
                    res.append('noncode piece has code near line %d' % s.startpos.lineno); break
            # reformat: compile + idempotence + frame
            try:
                out = str(reformat_import_statements(PythonBlock(src)))
                try: compile(out, path, 'exec', dont_inherit=True)
                except SyntaxError as e: res.append('reformat output does not compile: %s' % str(e)[:60])
                out2 = str(reformat_import_statements(PythonBlock(out)))
                if out2 != out: res.append('reformat not idempotent')
                def strip_imports(text):
                    t = ast.parse(text); lines = text.split('\n'); drop = set()
                    for n in t.body:
                        if isinstance(n, (ast.Import, ast.ImportFrom)):
                            for l in range(n.lineno, n.end_lineno + 1): drop.add(l)
                    return '\n'.join(l for i, l in enumerate(lines, 1) if i not in drop)
                if not res:
                    a, b = strip_imports(src), strip_imports(out)
                    if a != b:
                        # tolerate only trailing-comment loss on import lines (already dropped) -> report
                        res.append('frame differs')
            except Exception as e:
                res.append('reformat raised %s: %s' % (type(e).__name__, str(e)[:80]))
    except TimeoutError:
        res.append('timeout')
    finally: signal.alarm(0)
    return (path, 'FAIL' if res else 'ok', '; '.join(res))
def main():
    roots = [os.path.dirname(os.__file__), '/venv/lib/python3.12/site-packages']
    files = []
    for root in roots:
        for d, ds, fs in os.walk(root):
            if (root == roots[0] and 'site-packages' in d) or '/test' in d or 'lib2to3' in d: continue
            for f in fs:
                if f.endswith('.py'): files.append(os.path.join(d, f))
    files = sorted(files)[:int(sys.argv[1])] if len(sys.argv) > 1 else sorted(files)
    st = {}; shown = 0
    with ProcessPoolExecutor(14) as ex:
        for path, status, msg in ex.map(check, files, chunksize=8):
            st[status] = st.get(status, 0) + 1
            if status == 'FAIL':
                key = msg.split(' at line')[0].split(':')[0][:50]; st['F:' + key] = st.get('F:' + key, 0) + 1
                if shown < 25: shown += 1; print('FAIL', path.replace(roots[0], ''), '-', msg)
    print(st)
if __name__ == '__main__': main()

import sys, os, random, subprocess, json
from concurrent.futures import ThreadPoolExecutor
CHILD = r'''
import sys, json, io, contextlib
ops = json.loads(sys.stdin.read())
from IPython.terminal.ipapp import TerminalIPythonApp
import os
real_out = os.dup(1)
devnull = os.open(os.devnull, os.O_WRONLY); os.dup2(devnull, 1); os.dup2(devnull, 2)
if True:
    app = TerminalIPythonApp.instance()
    app.initialize(argv=['--no-banner','--quick','--simple-prompt','--colors=NoColor','--no-confirm-exit','--Completer.use_jedi=False'])
    ip = app.shell
    from pyflyby._interactive import AutoImporter, load_ipython_extension, unload_ipython_extension
    ai = AutoImporter(app)
    def snap():
        adv = lambda o: type(o).__name__ == 'FunctionWithGlobals'
        pm = ip.magics_manager.magics['line']['prun'].__self__
        return [ai._state, bool(ai._errored), len(ip.ast_transformers), len(ip.input_transformers_cleanup),
                adv(ip._ofind), adv(ip.safe_execfile), adv(ip.Completer.global_matches), adv(ip.Completer.attr_matches),
                adv(ip.InteractiveTB.debugger), adv(pm._run_with_profiler), adv(pm._run_with_debugger), len(ai._disablers)]
    out = [snap()]
    for op in ops:
        if op == 'enable': ai.enable()
        elif op == 'disable': ai.disable()
        elif op == 'load': load_ipython_extension(ip)
        elif op == 'unload': unload_ipython_extension(ip)
        elif op == 'cell':
            r = ip.run_cell("b64decode('aGk=')", store_history=False)
            ip.user_ns.pop('b64decode', None)
            out.append(['cell', r.result is not None]); continue
        out.append(snap())
os.write(real_out, ("RESULT" + json.dumps(out) + "\n").encode())
'''
def model(ops):
    st = 'DISABLED'; ast = 0; cl = 4; hooks = False; ndis = 0
    def snap(): return [st, False, ast, cl] + [hooks] * 7 + [ndis]
    out = [snap()]
    for op in ops:
        if op in ('enable', 'load'):
            if st == 'DISABLED':
                st = 'ENABLED'; ast += 1; cl += 1; hooks = True; ndis = 8     # 7 advices + ast remover
        elif op in ('disable', 'unload'):
            if st != 'DISABLED':
                st = 'DISABLED'; ast -= 1; hooks = False; ndis = 0
        elif op == 'cell':
            out.append(['cell', st == 'ENABLED']); continue
        out.append(snap())
    return out
def run(ops):
    env = dict(os.environ, PYTHONPATH='/repo/lib/python', PYTHONDONTWRITEBYTECODE='1', PYFLYBY_PATH='/repo/etc/pyflyby', HOME='/tmp/spike/home')
    p = subprocess.run(['/venv/bin/python', '-c', CHILD], input=json.dumps(ops), capture_output=True, text=True, env=env, timeout=120)
    line = [l for l in p.stdout.splitlines() if l.startswith('RESULT')]
    return json.loads(line[0][6:]) if line else 'FAILED ' + p.stderr[-300:]
def main(seed, n):
    os.makedirs('/tmp/spike/home', exist_ok=True)
    r = random.Random(seed)
    cases = [[r.choice(['enable', 'disable', 'load', 'unload', 'cell', 'enable']) for _ in range(r.randint(1, 6))] for _ in range(n)]
    bad = 0
    with ThreadPoolExecutor(12) as ex:
        for ops, real in zip(cases, ex.map(run, cases)):
            mine = model(ops)
            if real != mine:
                bad += 1
                if bad <= 3: print('=== MISMATCH', ops); print(' real', real); print(' mine', mine)
    print('cases', n, 'mismatches', bad)
main(int(sys.argv[1]), int(sys.argv[2]))

"""Scratch prototype of M13 (Appendix F) in string mode."""
import keyword
class PE(Exception): pass
class Help(Exception): pass
def is_ident(s): return s.isidentifier() and not keyword.iskeyword(s)
def parse(spec, argv, stdin_data=''):
    args, ndef, varargs, kwonly, kwdef, varkw = spec
    defaults = {a: ('default', a) for a in args[len(args)-ndef:]}
    for k in kwdef: defaults[k] = ('default', k)
    p2a = {}
    for a in list(args) + list(kwonly):
        for i in range(1, len(a)+1): p2a.setdefault(a[:i], []).append(a)
    pos = []; kw = {}
    av = list(argv)
    while av:
        a = av.pop(0)
        if a in ("--?", "-?", "?"): raise Help
        if a in ("--??", "-??", "??"): raise Help
        if a.startswith("-"):
            if a == "-": pos.append(stdin_data); continue
            if a == "--": pos.extend(av); av = []; continue
            name = a[2:] if a.startswith("--") else a[1:]
            name, eq, val = name.partition("=")
            name = name.replace("-", "_")
            if not is_ident(name): raise PE("invalid")
            m = p2a.get(name, [])
            if len(m) == 1: name = m[0]
            elif len(m) == 0:
                if eq == "":
                    if name in ("help", "h"): raise Help
                    if name in ("source",): raise Help
                if not varkw: raise PE("unknown")
            else: raise PE("ambiguous")
            if not val:
                if not av: raise PE("missingarg")
                val = av.pop(0)
                if val.startswith("--"): raise PE("missingarg")
            kw[name] = val
        else: pos.append(a)
    out = []; outkw = {}
    for i, a in enumerate(args):
        if i < len(pos):
            if a in kw: raise PE("both")
            out.append(pos[i])
        elif a in kw: out.append(kw.pop(a))
        elif a in defaults: out.append(defaults[a])
        else: raise PE("missing")
    for a in kwonly:
        if a in kw: outkw[a] = kw.pop(a)
        elif a in defaults: outkw[a] = defaults[a]
        else: raise PE("missingkw")
    if len(pos) > len(args):
        if varargs: out.extend(pos[len(args):])
        else: raise PE("toomany")
    for k in sorted(kw): outkw[k] = kw[k]
    return out, outkw

import warnings; warnings.simplefilter('ignore')
import sys, ast, random, io, contextlib
sys.path.insert(0, '/tmp/spike')
import fuzz_c02 as C   # reuse run(), generator G (guarded main below)
from pyflyby import PythonBlock
from pyflyby._imports2s import fix_unused_and_missing_imports
from pyflyby._importdb import ImportDB
from pyflyby._autoimp import scan_for_import_issues
G = C.G
DBSRC = "import a\nfrom pkg import b, c\nfrom m import d\nfrom n import e\nfrom pkg.sub import e\nimport pkg.sub as f\n"   # e ambiguous; g unknown; a,b,c,d,f unique
UNIQUE = {'a', 'b', 'c', 'd', 'f'}; AMBIG = {'e'}
def main(seed, n):
    r = random.Random(seed); db = ImportDB(DBSRC)
    st = dict(run=0, disc=0, ok=0, still_unbound_unique=0, guessed=0, out_fails=0, unused_left=0, not_fixed_point=0, tidy_exc=0); shown = 0
    for i in range(n):
        src = '\n'.join(G.stmts(r, 0, 0)) + '\n'
        base, err = C.run(src)
        if base is None: st['disc'] += 1; continue
        st['run'] += 1
        with contextlib.redirect_stdout(io.StringIO()), contextlib.redirect_stderr(io.StringIO()):
            try:
                out = str(fix_unused_and_missing_imports(PythonBlock(src), db=db, add_mandatory=False))
                out2 = str(fix_unused_and_missing_imports(PythonBlock(out), db=db, add_mandatory=False))
            except Exception as e:
                st['tidy_exc'] += 1
                if shown < 8: shown += 1; print('=== tidy raised', type(e).__name__, str(e)[:80]); print(src)
                continue
        got, err2 = C.run(out)
        bad = []
        if got is None: bad.append('out_fails')
        else:
            unb = set(got[0])
            if unb & UNIQUE: bad.append('still_unbound_unique')
            bound_by_import = C.import_bound(out) - C.import_bound(src)
            if bound_by_import & (AMBIG | {'g'}): bad.append('guessed')
            with contextlib.redirect_stdout(io.StringIO()), contextlib.redirect_stderr(io.StringIO()):
                _, unused = scan_for_import_issues(PythonBlock(out), parse_docstrings=True)
            top_unused = [(l, str(im)) for l, im in unused if any(isinstance(s, (ast.Import, ast.ImportFrom)) and s.lineno <= l <= s.end_lineno for s in ast.parse(out).body)]
            if top_unused: bad.append('unused_left')
        if out2 != out: bad.append('not_fixed_point')
        for b in bad: st[b] += 1
        if not bad: st['ok'] += 1
        elif shown < 8:
            shown += 1; print('=== VIOLATION', bad, 'case', i); print(src); print('--- tidy'); print(out)
            if got is None: print('raises', err2)
            else: print('unbound after', sorted(set(got[0]) & (UNIQUE | AMBIG)))
            if out2 != out: print('--- second pass'); print(out2)
    print(st)
if __name__ == '__main__': main(int(sys.argv[1]), int(sys.argv[2]))

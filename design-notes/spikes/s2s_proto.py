"""Scratch prototype of M1/M2/M6 (DESIGN appendices): text slicing, statement
splitting, block transformation, tidy driver.  Oracles: CPython ast positions,
real ImportSet (set algebra + printing), real scan_for_import_issues."""
import ast, re
from pyflyby._importclns import ImportSet
from pyflyby._importstmt import ImportStatement, Import

def is_cb(line): return re.sub("#.*", "", line).rstrip() == ""

class Text:
    def __init__(self, lines, start=(1,1)):
        self.lines = list(lines); self.start = start
    @staticmethod
    def of(s, start=(1,1)): return Text(s.split('\n'), start)
    @property
    def joined(self): return '\n'.join(self.lines)
    @property
    def end(self):
        l0, c0 = self.start
        if len(self.lines) == 1: return (l0, c0 + len(self.lines[0]))
        return (l0 + len(self.lines) - 1, 1 + len(self.lines[-1]))
    def idx(self, pos):
        l, c = pos; li = l - self.start[0]
        assert 0 <= li < len(self.lines), ('line', pos, self.start, len(self.lines))
        off = self.start[1] if li == 0 else 1
        ci = c - off
        assert 0 <= ci <= len(self.lines[li]), ('col', pos)
        return li, ci
    def line(self, lineno): return self.lines[lineno - self.start[0]]
    def slice(self, a, b):
        (i1, j1), (i2, j2) = self.idx(a), self.idx(b)
        assert (i1, j1) <= (i2, j2)
        seg = self.lines[i1:i2+1]
        seg[-1] = seg[-1][:j2]
        seg[0] = seg[0][j1:]
        return Text(seg, a)

def split_code_lines(starts, t):
    if not starts:
        return [(None, t)]
    out = []
    if t.start != starts[0][0]:
        out.append((None, t.slice(t.start, starts[0][0])))
    ends = [s for s, _ in starts[1:]] + [t.end]
    for (sp, node), nxt in zip(starts, ends):
        e = nxt
        if e[1] != 1:
            if e == t.end:
                if is_cb(t.line(e[0])):
                    assert sp[0] < e[0]
                    if not t.line(e[0]-1).endswith("\\"):
                        e = (e[0], 1)
        if e[1] == 1:
            while (e[0]-1 > sp[0] and is_cb(t.line(e[0]-1)) and
                   (not t.line(e[0]-2).endswith("\\") or is_cb(t.line(e[0]-2)))):
                e = (e[0]-1, 1)
        assert sp < e <= nxt
        out.append((node, t.slice(sp, e)))
        if e != nxt:
            out.append((None, t.slice(e, nxt)))
    return out

def statements(starts, t):
    res = []
    for node, sub in split_code_lines(starts, t):
        while sub.joined.startswith("\n") and sub.joined != "\n":
            first, *other = sub.lines
            res.append((node, Text.of(first + "\n", sub.start)))   # quirk: keeps node? (real: new PythonBlock re-parsed => no node)
            sub = Text.of("\n".join(other), sub.start)
        res.append((node, sub))
    return res

def nodes_of(src):
    tree = ast.parse(src)
    out = []
    for n in tree.body:
        ln, col = n.lineno, n.col_offset
        decos = getattr(n, 'decorator_list', None)
        if decos:
            ln, col = decos[0].lineno, decos[0].col_offset - 1
        out.append(((ln, col + 1), n))
    return out

def is_import(n): return isinstance(n, (ast.Import, ast.ImportFrom))
def is_str(n): return isinstance(n, ast.Expr) and isinstance(n.value, ast.Constant) and isinstance(n.value.value, (str, bytes))

class Block:
    def __init__(self, kind, stmts):
        self.kind = kind            # 'imp' | 'other'
        self.stmts = stmts          # list of (node, Text)
        self.output = None
        if kind == 'imp':
            imps = []
            for n, _ in stmts:
                imps.extend(ImportStatement(n).imports)
            self.set = ImportSet(imps, ignore_shadowed=True)
    @property
    def text(self): return ''.join(t.joined for _, t in self.stmts)
    @property
    def start(self): return self.stmts[0][1].start
    @property
    def end(self):
        # endpos of the concatenated text, startpos of the first
        return Text.of(self.text, self.start).end

def preprocess(src):
    t = Text.of(src)
    st = statements(nodes_of(src), t)
    blocks = []; cur = []; curk = None
    for node, sub in st:
        k = 'imp' if (node is not None and is_import(node)) else 'other'
        if k != curk and cur:
            blocks.append(Block(curk, cur)); cur = []
        curk = k; cur.append((node, sub))
    if cur: blocks.append(Block(curk, cur))
    return blocks

class NewBlock:
    kind = 'imp'
    def __init__(self): self.set = ImportSet([]); self.start = (1,1); self.end = (1,1)
class SepBlock:
    kind = 'other'; output = "\n"

def pretty(blocks, params):
    out = []
    for b in blocks:
        if b.kind == 'imp': out.append(b.set.pretty_print(params))
        elif getattr(b, 'output', None) is not None: out.append(b.output)
        else: out.append(b.text)
    return ''.join(out)

def reformat(src, params=None):
    return pretty(preprocess(src), params)

class NoImportBlock(Exception): pass

def select_block(import_blocks, imp, max_lineno):
    ann = []
    for b in import_blocks:
        if b.end[0] <= max_lineno + 1:
            n1 = imp.fullname.split('.')
            best = 0
            for o in b.set.imports:
                n2 = o.fullname.split('.'); k = 0
                for x, y in zip(n1, n2):
                    if x != y: break
                    k += 1
                best = max(best, k)
            ann.append(((best, b.end[0]), b))
    if not ann: raise NoImportBlock
    ann.sort(key=lambda x: x[0])
    # NOTE real code sorts tuples ((k,l), block); ties on key would compare blocks
    if imp.split.module_name == '__future__' and not ann[-1][0][0] > 0:
        raise NoImportBlock
    return ann[-1][1]

def is_prologue(node, sub):
    return node is None or is_str(node)

def insert_new(blocks, import_blocks):
    nb, sep = NewBlock(), SepBlock()
    first = blocks[0]
    if first.kind == 'imp':
        blocks[0:0] = [nb, sep]
    else:
        stmts = first.stmts
        for idx, (node, sub) in enumerate(stmts):
            if not is_prologue(node, sub):
                if idx == 0: blocks[0:0] = [nb, sep]
                else:
                    blocks[:1] = [Block('other', stmts[:idx]), nb, sep, Block('other', stmts[idx:])]
                break
        else:
            blocks[1:1] = [nb, sep]
    import_blocks.insert(0, nb)
    return nb

INF = float('inf')
def add_import(blocks, import_blocks, imp, lineno=INF):
    try: b = select_block(import_blocks, imp, lineno)
    except NoImportBlock: b = insert_new(blocks, import_blocks)
    if imp in b.set.imports: raise KeyError('exists')
    b.set = b.set.with_imports([imp])

def tidy(src, db, scan, params=None, add_missing=True, remove_unused=True, add_mandatory=True):
    src1 = reformat(src, params)
    blocks = preprocess(src1)
    import_blocks = [b for b in blocks if b.kind == 'imp']
    missing, unused = scan(src1, remove_unused)
    if remove_unused and unused:
        for lineno, imp in unused:
            cands = [b for b in import_blocks if b.start[0] <= lineno <= b.end[0]]
            if len(cands) == 0: continue
            assert len(cands) == 1
            b = cands[0]
            got = b.set.by_import_as.get(imp.import_as)
            if got is None: continue
            assert len(got) == 1
            b.set = b.set.without_imports([got[0]])
    if add_missing and missing:
        missing = sorted(missing, key=lambda k: (k[1], k[0]))
        known = db.known_imports.by_import_as
        added = set()
        for lineno, ident in missing:
            n = ident.parts[0]
            imps = known.get(n)
            if imps is None or len(imps) != 1: continue
            if imps[0] in added: continue
            add_import(blocks, import_blocks, imps[0], lineno)
            added.add(imps[0])
    if add_mandatory:
        for imp in db.mandatory_imports.imports:
            try: add_import(blocks, import_blocks, imp)
            except KeyError: pass
    return pretty(blocks, params)

import random
# generator: fully-executed programs
N = ['a','b','c','d','e','f','g','m','n','pkg']
def name(r): return r.choice(N)
def dotted(r):
    s = name(r)
    for _ in range(r.choice([0,0,1,2])): s += '.' + r.choice(['x','y','sub'])
    return s
def params(r):
    ps = []; used = set(); sd = False
    for _ in range(r.randint(0,3)):
        p = name(r)
        if p in used: continue
        used.add(p); s = p
        if sd or r.random() < .3: s += '=' + expr(r, 2); sd = True
        ps.append(s)
    return ', '.join(ps)
def expr(r, d=0):
    k = r.random()
    if d > 2 or k < .4: return dotted(r)
    if k < .5: return '%s(%s)' % (dotted(r), ', '.join(expr(r,d+1) for _ in range(r.randint(0,2))))
    if k < .6: return '(%s + %s)' % (dotted(r), expr(r,d+1))
    if k < .68: return '__reg__(lambda %s: %s)' % (params(r), expr(r,d+1))
    if k < .78: return '[%s for %s in %s%s]' % (expr(r,d+1), name(r), expr(r,d+1), (' if '+expr(r,d+1)) if r.random()<.3 else '')
    if k < .83: return '{%s: %s for %s in %s}' % (expr(r,d+1), expr(r,d+1), name(r), expr(r,d+1))
    if k < .88: return 'list(%s for %s in %s for %s in %s)' % (expr(r,d+1), name(r), expr(r,d+1), name(r), expr(r,d+1))
    if k < .92: return '{%s for %s in %s}' % (expr(r,d+1), name(r), expr(r,d+1))
    if k < .96: return '%s[%s]' % (dotted(r), expr(r,d+1))
    return '1'
def target(r):
    k = r.random()
    if k < .7: return name(r)
    if k < .85: return '%s, %s' % (name(r), name(r))
    return dotted(r)
def imp(r):
    mod = r.choice(['pkg','m','pkg.sub','a.b','n'])
    k = r.random()
    if k < .4: return 'import %s' % mod
    if k < .55: return 'import %s as %s' % (mod, name(r))
    if k < .85: return 'from %s import %s' % (mod, name(r))
    return 'from %s import %s as %s' % (mod, name(r), name(r))
def stmts(r, d, ind, inloop=False):
    out = []
    for _ in range(r.randint(1, 3 if d else 7)): out += stmt(r, d, ind)
    return out
def stmt(r, d, ind):
    k = r.random(); p = '    ' * ind
    if d > 2: k *= .5
    if k < .22: return [p + expr(r)]
    if k < .4: return [p + '%s = %s' % (target(r), expr(r))]
    if k < .55: return [p + imp(r)]
    if k < .68:
        nm = name(r)
        deco = [p + '@__dec__(' + expr(r, 2) + ')'] if r.random() < .2 else []
        # decorated functions are replaced by V() -> register before decoration is impossible; keep undecorated mostly
        body = stmts(r, d+1, ind+1)
        return deco + [p + 'def %s(%s):' % (nm, params(r))] + body + [p + '__reg__(%s)' % nm]
    if k < .77:
        bases = ('(%s)' % dotted(r)) if r.random() < .2 else ''
        return [p + 'class %s%s:' % (name(r), bases)] + stmts(r, d+1, ind+1)
    if k < .83: return [p + 'for %s in %s:' % (target(r), expr(r))] + stmts(r, d+1, ind+1)
    if k < .88: return [p + 'if %s:' % expr(r)] + stmts(r, d+1, ind+1)
    if k < .91: return [p + 'while %s:' % expr(r)] + stmts(r, d+1, ind+1) + [p + '    break']
    if k < .95: return [p + 'with %s as %s:' % (expr(r), name(r))] + stmts(r, d+1, ind+1)
    if k < .98: return [p + 'try:'] + stmts(r, d+1, ind+1) + [p + 'finally:'] + stmts(r, d+1, ind+1)
    return [p + '%s += %s' % (name(r), expr(r))]


import sys, os, json, subprocess
from concurrent.futures import ThreadPoolExecutor
CHILD = r'''
import sys, os, json
case = json.loads(sys.stdin.read())
real_out = os.dup(1); devnull = os.open(os.devnull, os.O_WRONLY); os.dup2(devnull, 1); os.dup2(devnull, 2)
from IPython.terminal.ipapp import TerminalIPythonApp
app = TerminalIPythonApp.instance()
app.initialize(argv=['--no-banner','--quick','--simple-prompt','--colors=NoColor','--no-confirm-exit','--Completer.use_jedi=False'])
ip = app.shell
import pyflyby, pyflyby._interactive as I, pyflyby._autoimp as A, pyflyby._importdb as D, pyflyby._parse as P
excs = {"ValueError": ValueError, "KeyError": KeyError, "RuntimeError": RuntimeError, "OSError": OSError, "SyntaxError": SyntaxError, "AssertionError": AssertionError, "ImportError": ImportError, "TypeError": TypeError}
armed = [False]; hits = [0]
def bomb(orig, exc):
    def f(*a, **k):
        if armed[0]:
            hits[0] += 1; raise exc("injected")
        return orig(*a, **k)
    return f
site = case["site"]; exc = excs[case["exc"]]
if case["with_pyflyby"]:
    I.load_ipython_extension(ip)
    if site == "db_load": D.ImportDB.get_default = classmethod(bomb(D.ImportDB.get_default.__func__, exc))
    elif site == "interpret_arg": D.ImportDB.interpret_arg = classmethod(bomb(D.ImportDB.interpret_arg.__func__, exc))
    elif site == "find_missing": A.find_missing_imports = bomb(A.find_missing_imports, exc)
    elif site == "needs_import": A.symbol_needs_import = bomb(A.symbol_needs_import, exc)
    elif site == "scopestack": A.ScopeStack.__init__ = bomb(A.ScopeStack.__init__, exc)
    elif site == "try_import": A._try_import = bomb(A._try_import, exc)
    elif site == "complete_symbol": I.complete_symbol = bomb(I.complete_symbol, exc)
    elif site == "global_namespaces": I.get_global_namespaces = bomb(I.get_global_namespaces, exc)
    elif site == "pythonblock": P.PythonBlock.ast_node = property(bomb(lambda self: None, exc))
    elif site == "none": pass
out = []
def snap():
    ai = getattr(app, 'auto_importer', None)
    return [ai._state, bool(ai._errored), len(ip.ast_transformers)] if ai else None
for cell in case["cells"]:
    armed[0] = case["with_pyflyby"]
    try:
        if cell.startswith("COMPLETE:"):
            m = sorted(ip.Completer.global_matches(cell[9:]))[:5] if "." not in cell[9:] else sorted(ip.Completer.attr_matches(cell[9:]))[:5]
            out.append(["complete", m, None])
        elif cell.startswith("OFIND:"):
            info = ip._ofind(cell[6:]); out.append(["ofind", bool(info.found if hasattr(info, 'found') else info['found']), None])
        else:
            r = ip.run_cell(cell, store_history=False)
            out.append(["cell", repr(r.result), type(r.error_in_exec).__name__ if r.error_in_exec else (type(r.error_before_exec).__name__ if r.error_before_exec else None)])
    except BaseException as e:
        out.append(["ESCAPED", type(e).__name__, str(e)[:60]])
    armed[0] = False
    out[-1].append(snap())
os.write(real_out, ("RESULT" + json.dumps(dict(out=out, hits=hits[0], ns=sorted(k for k in ip.user_ns if not k.startswith('_') and k not in ('In','Out','get_ipython','exit','quit','open')))) + "\n").encode())
'''
def run(case):
    env = dict(os.environ, PYTHONPATH='/repo/lib/python', PYTHONDONTWRITEBYTECODE='1', PYFLYBY_PATH='/repo/etc/pyflyby', HOME='/tmp/spike/home')
    p = subprocess.run(['/venv/bin/python', '-c', CHILD], input=json.dumps(case), capture_output=True, text=True, env=env, timeout=180)
    line = [l for l in p.stdout.splitlines() if l.startswith('RESULT')]
    return json.loads(line[0][6:]) if line else {'out': 'FAILED ' + p.stderr[-300:], 'hits': -1, 'ns': []}
CELLS = ["x = 1", "x + 1", "undefined_zz", "b64decode('aGk=')", "COMPLETE:pri", "COMPLETE:os.pa", "OFIND:b64encode", "def f():\n    return os.getpid()\nf() > 0", "x * 3"]
def main():
    sites = ["none", "db_load", "interpret_arg", "find_missing", "needs_import", "scopestack", "try_import", "complete_symbol", "global_namespaces", "pythonblock"]
    excs = ["ValueError", "OSError", "SyntaxError", "AssertionError"]
    base = run(dict(site="none", exc="ValueError", with_pyflyby=False, cells=CELLS))
    print("plain IPython:", [o[:3] for o in base['out']])
    cases = [dict(site=s, exc=e, with_pyflyby=True, cells=CELLS) for s in sites for e in (excs if s != "none" else ["ValueError"])]
    with ThreadPoolExecutor(12) as ex:
        for c, r in zip(cases, ex.map(run, cases)):
            if isinstance(r['out'], str): print(c['site'], c['exc'], r['out']); continue
            esc = [o for o in r['out'] if o[0] == 'ESCAPED']
            diffs = [(cell, o[:3], b[:3]) for cell, o, b in zip(CELLS, r['out'], base['out']) if o[:3] != b[:3]]
            print("%-18s %-14s hits=%-3d escaped=%d final=%s differs_from_plain=%s" % (c['site'], c['exc'], r['hits'], len(esc), r['out'][-1][3], [(d[0][:22], d[1][1:]) for d in diffs][:4]))
main()

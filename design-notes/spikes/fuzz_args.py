import sys, random, inspect, io
sys.path.insert(0, '/tmp/spike')
import args_proto as A
from pyflyby._py import _parse_auto_apply_args, _get_argspec, _Namespace, ParseError, _ParseInterruptedWantHelp, _ParseInterruptedWantSource
PNAMES = ['foo', 'foobar', 'fo', 'bar', 'baz', 'b', 'key', 'k', 'x_y']
def gen_sig(r):
    names = r.sample(PNAMES, r.randint(0, 5))
    npos = r.randint(0, len(names)); args = names[:npos]; kwonly = names[npos:]
    ndef = r.randint(0, len(args))
    varargs = r.random() < .3; varkw = r.random() < .3
    if kwonly and not varargs: star = '*, '
    else: star = ''
    kwdef = [k for k in kwonly if r.random() < .5]
    parts = []
    for i, a in enumerate(args):
        parts.append(a + ('=("default", %r)' % a if i >= len(args) - ndef else ''))
    if varargs: parts.append('*rest')
    elif kwonly: parts.append('*')
    for k in kwonly: parts.append(k + ('=("default", %r)' % k if k in kwdef else ''))
    if varkw: parts.append('**kws')
    src = 'def f(%s): pass' % ', '.join(parts)
    ns = {}; exec(src, ns)
    return ns['f'], (args, ndef, varargs, kwonly, kwdef, varkw), src
VALS = ['1', 'abc', '', '-5', '--x', 'a b', "o'q", '1/0', '=', 'foo=1']
def gen_argv(r):
    av = []
    for _ in range(r.randint(0, 6)):
        k = r.random()
        n = r.choice(PNAMES + ['zz', 'help', 'h', 'fooba', 'x-y'])
        if k < .3: av.append(r.choice(VALS[:4] + ['q']))
        elif k < .55: av.append('--%s=%s' % (n, r.choice(VALS)))
        elif k < .7: av += ['--' + n, r.choice(VALS)]
        elif k < .8: av += ['-' + n, r.choice(VALS)]
        elif k < .85: av.append('--')
        elif k < .88: av.append('-')
        elif k < .9: av.append('?')
        else: av.append(r.choice(VALS))
    return av
def main(seed, n):
    r = random.Random(seed); bad = 0; st = {}
    ns = _Namespace()
    for i in range(n):
        f, spec, src = gen_sig(r); av = gen_argv(r)
        sys.stdin = io.StringIO('STDIN')
        try: real = _parse_auto_apply_args(_get_argspec(f), av, ns, 'string'); real = (real[0], dict(real[1]))
        except ParseError as e: real = 'PE'
        except (_ParseInterruptedWantHelp, _ParseInterruptedWantSource): real = 'HELP'
        try: mine = A.parse(spec, av, 'STDIN')
        except A.PE: mine = 'PE'
        except A.Help: mine = 'HELP'
        k = real if isinstance(real, str) else 'OK'; st[k] = st.get(k, 0) + 1
        if real != mine:
            bad += 1
            if bad <= 4: print('=== MISMATCH', src, av); print(' real', real); print(' mine', mine)
    print('cases', n, 'mismatches', bad, st)
main(int(sys.argv[1]), int(sys.argv[2]))

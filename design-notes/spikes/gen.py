import ast, random, sys
sys.path.insert(0, '/tmp/spike')

NAMES = ['a','b','c','d','e','f','g','m','n','pkg','os']
ATTRS = ['x','y','sub','a','b']
def name(r): return r.choice(NAMES)
def dotted(r):
    s = name(r)
    for _ in range(r.choice([0,0,0,1,1,2])): s += '.' + r.choice(ATTRS)
    return s
def expr(r, d=0):
    k = r.random()
    if d > 2 or k < 0.35: return dotted(r)
    if k < 0.45: return '%s(%s)' % (expr(r,d+1), ', '.join(expr(r,d+1) for _ in range(r.randint(0,2))))
    if k < 0.55: return '(%s + %s)' % (expr(r,d+1), expr(r,d+1))
    if k < 0.62: return '(lambda %s: %s)' % (params(r,d+1), expr(r,d+1))
    if k < 0.72:
        t = name(r); return '[%s for %s in %s%s]' % (expr(r,d+1), t, expr(r,d+1), (' if '+expr(r,d+1)) if r.random()<.3 else '')
    if k < 0.77:
        t = name(r); return '{%s: %s for %s in %s}' % (expr(r,d+1), expr(r,d+1), t, expr(r,d+1))
    if k < 0.82:
        t = name(r); t2 = name(r); return '(%s for %s in %s for %s in %s)' % (expr(r,d+1), t, expr(r,d+1), t2, expr(r,d+1))
    if k < 0.86: return '{%s for %s in %s}' % (expr(r,d+1), name(r), expr(r,d+1))
    if k < 0.9: return '[%s, %s]' % (expr(r,d+1), expr(r,d+1))
    if k < 0.94: return '%s[%s]' % (expr(r,d+1), expr(r,d+1))
    return '1'
def params(r, d):
    ps = []
    used = set()
    for _ in range(r.randint(0,3)):
        p = name(r)
        if p in used: continue
        used.add(p)
        ps.append(p)
    out = []; seen_default = False
    for p in ps:
        if seen_default or r.random() < 0.3:
            out.append('%s=%s' % (p, expr(r, d+1))); seen_default = True
        else: out.append(p)
    return ', '.join(out)
def dparams(r, d):
    ps = []; used=set(); seen_default=False
    for _ in range(r.randint(0,3)):
        p = name(r)
        if p in used: continue
        used.add(p)
        s = p
        if r.random() < 0.25: s += ': ' + expr(r, d+1)
        if seen_default or r.random() < 0.3:
            s += '=' + expr(r, d+1); seen_default=True
        ps.append(s)
    if r.random() < 0.15: ps.append('*args')
    if r.random() < 0.15: ps.append('**kw')
    return ', '.join(ps)
def target(r):
    k = r.random()
    if k < 0.7: return name(r)
    if k < 0.85: return '%s, %s' % (name(r), name(r))
    return dotted(r)
def imp(r):
    k = r.random()
    mod = r.choice(['pkg','os','m','pkg.sub','os.path','a.b'])
    if k < 0.4: return 'import %s' % mod
    if k < 0.55: return 'import %s as %s' % (mod, name(r))
    if k < 0.85: return 'from %s import %s' % (mod, name(r))
    if k < 0.95: return 'from %s import %s as %s' % (mod, name(r), name(r))
    if k < 0.98: return 'import %s, %s' % (mod, r.choice(['m','n']))
    return 'from %s import *' % mod
def stmts(r, d, ind):
    out = []
    for _ in range(r.randint(1, 4 if d else 7)):
        out += stmt(r, d, ind)
    return out
def stmt(r, d, ind):
    k = r.random(); p = '    ' * ind
    if d > 2: k = k * 0.55
    if k < 0.2: return [p + expr(r)]
    if k < 0.38: return [p + '%s = %s' % (target(r), expr(r))]
    if k < 0.55: return [p + imp(r)]
    if k < 0.65:
        deco = [p + '@' + dotted(r)] if r.random() < 0.2 else []
        ret = (' -> ' + expr(r)) if r.random() < 0.15 else ''
        return deco + [p + 'def %s(%s)%s:' % (name(r), dparams(r, d), ret)] + stmts(r, d+1, ind+1)
    if k < 0.73:
        bases = ('(%s)' % dotted(r)) if r.random() < 0.3 else ''
        return [p + 'class %s%s:' % (name(r).upper() if r.random()<.5 else name(r), bases)] + stmts(r, d+1, ind+1)
    if k < 0.79: return [p + 'for %s in %s:' % (target(r) if r.random()<.8 else name(r), expr(r))] + stmts(r, d+1, ind+1)
    if k < 0.84:
        o = [p + 'if %s:' % expr(r)] + stmts(r, d+1, ind+1)
        if r.random() < 0.4: o += [p + 'else:'] + stmts(r, d+1, ind+1)
        return o
    if k < 0.88: return [p + 'while %s:' % expr(r)] + stmts(r, d+1, ind+1)
    if k < 0.92: return [p + 'with %s as %s:' % (expr(r), name(r))] + stmts(r, d+1, ind+1)
    if k < 0.96:
        return [p + 'try:'] + stmts(r, d+1, ind+1) + [p + 'except %s as %s:' % (dotted(r), name(r))] + stmts(r, d+1, ind+1)
    if k < 0.97: return [p + '%s += %s' % (name(r), expr(r))]
    if k < 0.985: return [p + 'del %s' % dotted(r)]
    return [p + '__all__ = [%s]' % ', '.join(repr(name(r)) for _ in range(r.randint(0,2)))] if ind == 0 else [p + 'pass']


import ast, random, sys
sys.path.insert(0, '/tmp/spike')
from finder_proto import Finder
from pyflyby import find_missing_imports, PythonBlock
from pyflyby._autoimp import scan_for_import_issues

NAMES = ['a','b','c','d','e','f','g','m','n','pkg','os']
ATTRS = ['x','y','sub','a','b']
def name(r): return r.choice(NAMES)
def dotted(r):
    s = name(r)
    for _ in range(r.choice([0,0,0,1,1,2])): s += '.' + r.choice(ATTRS)
    return s
def expr(r, d=0):
    k = r.random()
    if d > 2 or k < 0.35: return dotted(r)
    if k < 0.45: return '%s(%s)' % (expr(r,d+1), ', '.join(expr(r,d+1) for _ in range(r.randint(0,2))))
    if k < 0.55: return '(%s + %s)' % (expr(r,d+1), expr(r,d+1))
    if k < 0.62: return '(lambda %s: %s)' % (params(r,d+1), expr(r,d+1))
    if k < 0.72:
        t = name(r); return '[%s for %s in %s%s]' % (expr(r,d+1), t, expr(r,d+1), (' if '+expr(r,d+1)) if r.random()<.3 else '')
    if k < 0.77:
        t = name(r); return '{%s: %s for %s in %s}' % (expr(r,d+1), expr(r,d+1), t, expr(r,d+1))
    if k < 0.82:
        t = name(r); t2 = name(r); return '(%s for %s in %s for %s in %s)' % (expr(r,d+1), t, expr(r,d+1), t2, expr(r,d+1))
    if k < 0.86: return '{%s for %s in %s}' % (expr(r,d+1), name(r), expr(r,d+1))
    if k < 0.9: return '[%s, %s]' % (expr(r,d+1), expr(r,d+1))
    if k < 0.94: return '%s[%s]' % (expr(r,d+1), expr(r,d+1))
    return '1'
def params(r, d):
    ps = []
    used = set()
    for _ in range(r.randint(0,3)):
        p = name(r)
        if p in used: continue
        used.add(p)
        ps.append(p)
    out = []; seen_default = False
    for p in ps:
        if seen_default or r.random() < 0.3:
            out.append('%s=%s' % (p, expr(r, d+1))); seen_default = True
        else: out.append(p)
    return ', '.join(out)
def dparams(r, d):
    ps = []; used=set(); seen_default=False
    for _ in range(r.randint(0,3)):
        p = name(r)
        if p in used: continue
        used.add(p)
        s = p
        if r.random() < 0.25: s += ': ' + expr(r, d+1)
        if seen_default or r.random() < 0.3:
            s += '=' + expr(r, d+1); seen_default=True
        ps.append(s)
    if r.random() < 0.15: ps.append('*args')
    if r.random() < 0.15: ps.append('**kw')
    return ', '.join(ps)
def target(r):
    k = r.random()
    if k < 0.7: return name(r)
    if k < 0.85: return '%s, %s' % (name(r), name(r))
    return dotted(r)
def imp(r):
    k = r.random()
    mod = r.choice(['pkg','os','m','pkg.sub','os.path','a.b'])
    if k < 0.4: return 'import %s' % mod
    if k < 0.55: return 'import %s as %s' % (mod, name(r))
    if k < 0.85: return 'from %s import %s' % (mod, name(r))
    if k < 0.95: return 'from %s import %s as %s' % (mod, name(r), name(r))
    if k < 0.98: return 'import %s, %s' % (mod, r.choice(['m','n']))
    return 'from %s import *' % mod
def stmts(r, d, ind):
    out = []
    for _ in range(r.randint(1, 4 if d else 7)):
        out += stmt(r, d, ind)
    return out
def stmt(r, d, ind):
    k = r.random(); p = '    ' * ind
    if d > 2: k = k * 0.55
    if k < 0.2: return [p + expr(r)]
    if k < 0.38: return [p + '%s = %s' % (target(r), expr(r))]
    if k < 0.55: return [p + imp(r)]
    if k < 0.65:
        deco = [p + '@' + dotted(r)] if r.random() < 0.2 else []
        ret = (' -> ' + expr(r)) if r.random() < 0.15 else ''
        return deco + [p + 'def %s(%s)%s:' % (name(r), dparams(r, d), ret)] + stmts(r, d+1, ind+1)
    if k < 0.73:
        bases = ('(%s)' % dotted(r)) if r.random() < 0.3 else ''
        return [p + 'class %s%s:' % (name(r).upper() if r.random()<.5 else name(r), bases)] + stmts(r, d+1, ind+1)
    if k < 0.79: return [p + 'for %s in %s:' % (target(r) if r.random()<.8 else name(r), expr(r))] + stmts(r, d+1, ind+1)
    if k < 0.84:
        o = [p + 'if %s:' % expr(r)] + stmts(r, d+1, ind+1)
        if r.random() < 0.4: o += [p + 'else:'] + stmts(r, d+1, ind+1)
        return o
    if k < 0.88: return [p + 'while %s:' % expr(r)] + stmts(r, d+1, ind+1)
    if k < 0.92: return [p + 'with %s as %s:' % (expr(r), name(r))] + stmts(r, d+1, ind+1)
    if k < 0.96:
        return [p + 'try:'] + stmts(r, d+1, ind+1) + [p + 'except %s as %s:' % (dotted(r), name(r))] + stmts(r, d+1, ind+1)
    if k < 0.97: return [p + '%s += %s' % (name(r), expr(r))]
    if k < 0.985: return [p + 'del %s' % dotted(r)]
    return [p + '__all__ = [%s]' % ', '.join(repr(name(r)) for _ in range(r.randint(0,2)))] if ind == 0 else [p + 'pass']

def main(seed, n):
    r = random.Random(seed); bad = 0; kinds = {}; parsed=0; nontriv=0; withunused=0
    for i in range(n):
        src = '\n'.join(stmts(r, 0, 0)) + '\n'
        try: tree = ast.parse(src)
        except SyntaxError: continue
        parsed += 1
        try:
            real_m = [str(m) for m in find_missing_imports(src, [{}])]
        except Exception as e:
            real_m = 'EXC ' + type(e).__name__
        try:
            mine_m = Finder(False).find_missing(ast.parse(src))
        except Exception as e:
            mine_m = 'MYEXC %s %s' % (type(e).__name__, e)
        try:
            rm, ru = scan_for_import_issues(PythonBlock(src))
            real_s = ([(l, str(x)) for l, x in rm], [(l, str(x)) for l, x in ru])
        except Exception as e:
            real_s = 'EXC ' + type(e).__name__
        try:
            mm, mu = Finder(True).scan_issues(ast.parse(src))
            mine_s = (mm, mu)
        except Exception as e:
            mine_s = 'MYEXC %s %s' % (type(e).__name__, e)
        if isinstance(real_s, tuple):
            nontriv += bool(real_s[0]); withunused += bool(real_s[1])
        if real_m != mine_m or real_s != mine_s:
            bad += 1
            if bad <= 3:
                print('=== MISMATCH seed', seed, 'case', i); print(src)
                print('real missing', real_m); print('mine missing', mine_m)
                print('real scan   ', real_s); print('mine scan   ', mine_s)
    print('cases', n, 'parsed', parsed, 'with_missing', nontriv, 'with_unused', withunused, 'mismatches', bad)
main(int(sys.argv[1]), int(sys.argv[2]))

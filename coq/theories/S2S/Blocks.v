(* M6 (first part) - pyflyby._imports2s.SourceToSourceFileImportsTransformation.preprocess /
   pretty_print, on top of the statement splitter (Text/Split.v).   No proofs here.

   Import sets are opaque: the payload `P` of an import statement (what ImportStatement(...).imports
   yields), the import-set type `iset`, its constructor `mkset` (ImportSet(block, ignore_shadowed=True)
   over the payloads of the block's statements, in order) and the renderer `R` (ImportSet.pretty_print
   with the current parameters) are Section variables.  S2S/Tidy.v (C03/C04) instantiates them. *)
From Coq Require Import Arith Bool List NArith.
From Verif Require Import Base.Chars Base.StrX Text.FilePos Text.FileText Text.Split.
Import ListNotations.

Section Blocks.
Variable P : Type.
Variable iset : Type.
Variable mkset : list P -> iset.

(* kind of a top-level node: is_import / _ast_str_literal_value(node) is a str / ... is a bytes
   object (an expression statement that is a bytes literal: a "string literal" for
   is_comment_or_blank_or_string_literal, never a docstring) / anything else (f-strings included) *)
Inductive nkind := KImport (p : P) | KStrExpr | KBytesExpr | KOther.

Definition snode := node nkind.
Definition spiece := piece nkind.

(*  PythonStatement.is_import:  isinstance(self.ast_node, (ast.Import, ast.ImportFrom))  *)
Definition is_import_piece (p : spiece) : bool :=
  match fst p with
  | Some n => match n_tag n with KImport _ => true | _ => false end
  | None => false
  end.

Definition payload_of (p : spiece) : list P :=
  match fst p with
  | Some n => match n_tag n with KImport x => [x] | _ => [] end
  | None => []
  end.

(* a PythonBlock: its text and its annotated top-level nodes *)
Record pblock := mkPB { pb_text : text; pb_nodes : list snode }.

Definition pb_of_piece (p : spiece) : pblock :=
  mkPB (snd p) (match fst p with Some n => [n] | None => [] end).

(*  PythonBlock.concatenate(blocks):
        if len(blocks) == 1: return blocks[0]
        text = FileText.concatenate([b.text for b in blocks])        # startpos of the first
        ast_nodes = [n for b in blocks for n in b.annotated_ast_node.body]
    for a non-empty list given as first :: rest                                          *)
Definition pb_concat (first : spiece) (rest : list spiece) : pblock :=
  match rest with
  | [] => pb_of_piece first
  | _ => mkPB (of_str (concat (map (fun p => joined (snd p)) (first :: rest))) (startpos (snd first)))
              (flat_map (fun p => pb_nodes (pb_of_piece p)) (first :: rest))
  end.

Definition btext (b : pblock) : str := joined (pb_text b).

(*  itertools.groupby(self.statements, lambda ps: ps.is_import): maximal runs of equal key  *)
Fixpoint group_runs (ps : list spiece) : list (bool * spiece * list spiece) :=
  match ps with
  | [] => []
  | p :: rest =>
      match group_runs rest with
      | (k, q, g) :: gs =>
          if Bool.eqb k (is_import_piece p) then (k, p, q :: g) :: gs
          else (is_import_piece p, p, []) :: (k, q, g) :: gs
      | [] => [(is_import_piece p, p, [])]
      end
  end.

(*  SourceToSourceImportBlockTransformation: input, importset
    SourceToSourceTransformation:           input, _output (= input unless a tool replaces it;
                                            only its text matters)                           *)
Inductive block :=
| BImports (input : pblock) (set : iset)
| BOther (input : pblock) (output : str).

Definition block_input (b : block) : pblock :=
  match b with BImports i _ => i | BOther i _ => i end.

Definition is_imports (b : block) : bool :=
  match b with BImports _ _ => true | BOther _ _ => false end.

(*  def preprocess(self):
        for is_imports, subblock in self.input.groupby(lambda ps: ps.is_import):
            if is_imports: trans = SourceToSourceImportBlockTransformation(subblock)   # importset = ImportSet(subblock, ignore_shadowed=True)
            else:          trans = SourceToSourceTransformation(subblock)              # _output = input
            self.blocks.append(trans)                                                    *)
Definition mk_block (run : bool * spiece * list spiece) : block :=
  let '(k, first, rest) := run in
  let b := pb_concat first rest in
  if k then BImports b (mkset (flat_map payload_of (first :: rest)))
  else BOther b (btext b).

Definition preprocess (ps : list spiece) : list block := map mk_block (group_runs ps).

(*  def pretty_print(self, params=None):
        result = [block.pretty_print(params=params) for block in self.blocks]
        return FileText.concatenate(result)
    the observable is the joined text: the concatenation of the renderings             *)
Section Pretty.
Variable R : iset -> str.
Definition render (b : block) : str :=
  match b with
  | BImports _ s => R s
  | BOther _ o => o
  end.
Definition pretty (bs : list block) : str := concat (map render bs).
End Pretty.

(* line extent of a block's input, as used by find_import_block_by_lineno /
   select_import_block_by_closest_prefix_match (S2S/Tidy.v) *)
Definition block_start_lineno (b : block) : nat := lineno (startpos (pb_text (block_input b))).
Definition block_end_lineno (b : block) : nat := lineno (endpos (pb_text (block_input b))).

Definition import_blocks (bs : list block) : list block := filter is_imports bs.

(* replace the import set of the j-th import block (what remove_import / add_import into an
   existing block / replace_star_imports / transform_imports do: `block.importset = ...`)  *)
Fixpoint set_nth_importset (j : nat) (s : iset) (bs : list block) : list block :=
  match bs with
  | [] => []
  | BImports i s0 :: r =>
      match j with
      | O => BImports i s :: r
      | S j' => BImports i s0 :: set_nth_importset j' s r
      end
  | b :: r => b :: set_nth_importset j s r
  end.

(* whole tools, for a PythonBlock argument *)
Definition reformat (R : iset -> str) (ns : list snode) (t : text) : option str :=
  match statements ns t with
  | None => None
  | Some ps => Some (pretty R (preprocess ps))
  end.

(*  SourceToSourceTransformationBase._from_source_code, for a str argument (F12):
        if not codeblock.endswith('\n'): codeblock += '\n'                              *)
Fixpoint ends_with_nl (s : str) : bool :=
  match s with
  | [] => false
  | [c] => (c =? c_nl)%N
  | _ :: r => ends_with_nl r
  end.
Definition from_source_str (s : str) : str := if ends_with_nl s then s else s ++ [c_nl].

End Blocks.

Arguments KImport {P}.
Arguments KStrExpr {P}.
Arguments KBytesExpr {P}.
Arguments KOther {P}.
Arguments is_import_piece {P}.
Arguments payload_of {P}.
Arguments mkPB {P}.
Arguments pb_text {P}.
Arguments pb_nodes {P}.
Arguments pb_of_piece {P}.
Arguments pb_concat {P}.
Arguments btext {P}.
Arguments group_runs {P}.
Arguments BImports {P iset}.
Arguments BOther {P iset}.
Arguments block_input {P iset}.
Arguments is_imports {P iset}.
Arguments mk_block {P iset}.
Arguments preprocess {P iset}.
Arguments render {P iset}.
Arguments pretty {P iset}.
Arguments block_start_lineno {P iset}.
Arguments block_end_lineno {P iset}.
Arguments import_blocks {P iset}.
Arguments set_nth_importset {P iset}.
Arguments reformat {P iset}.

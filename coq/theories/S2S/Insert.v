(* M6 (second part) - SourceToSourceFileImportsTransformation.insert_new_blocks_after_comments /
   insert_new_import_block.   No proofs here. *)
From Coq Require Import Arith Bool List NArith.
From Verif Require Import Base.Chars Base.StrX Text.FilePos Text.FileText Text.Split S2S.Blocks.
Import ListNotations.

Section Insert.
Variable P : Type.
Variable iset : Type.
Variable empty_set : iset.          (* ImportSet of an empty block *)

Notation block := (@block P iset).

(*  PythonStatement.is_comment_or_blank_or_string_literal:
        (self.ast_node is None) or _ast_str_literal_value(self.ast_node) is not None      *)
Definition is_string_piece (p : spiece P) : bool :=
  match fst p with
  | Some n => match n_tag n with KStrExpr | KBytesExpr => true | _ => false end
  | None => false
  end.
(*  isinstance(_ast_str_literal_value(statement.ast_node), str)  *)
Definition is_str_piece (p : spiece P) : bool :=
  match fst p with
  | Some n => match n_tag n with KStrExpr => true | _ => false end
  | None => false
  end.
Definition is_noncode_piece (p : spiece P) : bool :=
  match fst p with None => true | Some _ => false end.

(*      seen_docstring = False
        for idx, statement in enumerate(statements):
            is_prologue = statement.is_comment_or_blank_or_string_literal
            if is_prologue and not statement.is_comment_or_blank:
                if seen_docstring or not isinstance(_ast_str_literal_value(statement.ast_node), str):
                    is_prologue = False        # only the first string literal is the docstring (F9);
                seen_docstring = True          # a bytes literal never is (226d64c)
            if not is_prologue:  ... break
    index of the first statement that is not prologue; None = the for-else branch.   *)
Fixpoint first_code_index (seen : bool) (sts : list (spiece P)) : option nat :=
  match sts with
  | [] => None
  | s :: rest =>
      if is_noncode_piece s then option_map S (first_code_index seen rest)
      else if is_string_piece s then
        if seen || negb (is_str_piece s) then Some 0
        else option_map S (first_code_index true rest)
      else Some 0
  end.

(*  SourceToSourceTransformation(PythonBlock.concatenate(statements[a:b]))  *)
Definition other_of (sts : list (spiece P)) : option block :=
  match sts with
  | [] => None                                     (* PythonBlock.concatenate([]): assert blocks *)
  | s :: rest => let b := pb_concat s rest in Some (BOther b (btext b))
  end.

(*  def insert_new_blocks_after_comments(self, blocks):
        if isinstance(self.blocks[0], SourceToSourceImportBlockTransformation):
            self.blocks[0:0] = blocks;  return
        statements = self.blocks[0].input.statements          # the first block is split again
        for idx, statement in enumerate(statements):
            ...
            if not is_prologue:
                if idx == 0: self.blocks[0:0] = blocks
                else: self.blocks[:1] = [SourceToSourceTransformation(PythonBlock.concatenate(statements[:idx]))]
                                        + blocks
                                        + [SourceToSourceTransformation(PythonBlock.concatenate(statements[idx:]))]
                break
        else:
            text = self.blocks[0].input.text.joined
            if text and not text.endswith("\n"):
                # terminate the unterminated last prologue line (commit 12227eb; was finding F39)
                blocks = [SourceToSourceTransformation("")] + blocks
            self.blocks[1:1] = blocks
    SourceToSourceTransformation("") has input PythonBlock("\n") (a str argument gets a final
    newline) and prints its input: the text "\n".                                          *)
Definition empty_input : pblock P := mkPB (of_str [c_nl] (mkPos 1 1)) [].
Definition newline_block : block := BOther empty_input [c_nl].

Definition needs_terminator (text : str) : bool :=
  match text with [] => false | _ => negb (ends_with_nl text) end.

Definition insert_new_blocks_after_comments (news : list block) (bs : list block)
  : option (list block) :=
  match bs with
  | [] => None                                              (* self.blocks[0]: IndexError *)
  | BImports _ _ :: _ => Some (news ++ bs)
  | BOther inp out :: rest =>
      match statements (pb_nodes inp) (pb_text inp) with
      | None => None
      | Some sts =>
          match first_code_index false sts with
          | None =>
              let news' := if needs_terminator (btext inp) then newline_block :: news else news in
              Some (BOther inp out :: news' ++ rest)
          | Some O => Some (news ++ bs)
          | Some idx =>
              match other_of (firstn idx sts), other_of (skipn idx sts) with
              | Some b1, Some b2 => Some (b1 :: news ++ b2 :: rest)
              | _, _ => None
              end
          end
      end
  end.

(*  def insert_new_import_block(self):
        block = SourceToSourceImportBlockTransformation("")
        sepblock = SourceToSourceTransformation("")
        sepblock._output = PythonBlock("\n")
        self.insert_new_blocks_after_comments([block, sepblock])
        self.import_blocks.insert(0, block)
    (a str argument that does not end with a newline gets one: both inputs are PythonBlock("\n"))  *)
Definition new_import_block : block := BImports empty_input empty_set.
Definition sep_block : block := BOther empty_input [c_nl].

Definition insert_new_import_block (bs : list block) : option (list block) :=
  insert_new_blocks_after_comments [new_import_block; sep_block] bs.

End Insert.

Arguments is_string_piece {P}.
Arguments is_str_piece {P}.
Arguments is_noncode_piece {P}.
Arguments first_code_index {P}.
Arguments other_of {P iset}.
Arguments insert_new_blocks_after_comments {P iset}.
Arguments empty_input {P}.
Arguments newline_block {P iset}.
Arguments new_import_block {P iset}.
Arguments sep_block {P iset}.
Arguments insert_new_import_block {P iset}.

(* C03's fixed-point clause for reformat_import_statements, in closed form (on top of S2S/Closed.v and
   the C11 theorems): re-running the closed reformat on its own output returns that output. *)
From Coq Require Import Arith Bool List NArith Lia ZifyBool Sorting.Sorted.
From Verif Require Import Base.Chars Base.StrX Base.StrXProofs Text.FilePos Text.FileText Text.Split
                          Text.FileTextProofs Text.SplitProofs
                          Imports.Import Imports.ImportSet Imports.Format Imports.ImportLex
                          Imports.ImportProofs Imports.ImportLexProofs Imports.ImportSetProofs
                          Imports.FormatProofs Imports.RoundTripProofs
                          S2S.Blocks S2S.BlocksProofs S2S.Insert S2S.Closed.
Import ListNotations.

(* ------------------------------------------------------------------------------------------ *)
(* shadow filtering is the identity on the re-parsed imports of a printed set                  *)

Definition no_shadow (l : list import) : Prop :=
  forall i j, In i l -> In j l -> is_star i = false -> str_eqb (import_as j) (import_as i) = true -> j = i.

Lemma filter_shadowed_keeps l : no_shadow l -> forall x, In x l -> In x (filter_shadowed l).
Proof.
  induction l as [|i r IH]; intros Hns x Hx; [contradiction|].
  assert (Hr : no_shadow r).
  { intros a b Ha Hb. apply Hns; right; assumption. }
  cbn [filter_shadowed].
  destruct (is_star i || negb (existsb (fun j => str_eqb (import_as j) (import_as i)) r)) eqn:E.
  - destruct Hx as [->|Hx]; [left; reflexivity|right; apply IH; assumption].
  - apply orb_false_iff in E as [Es Ee]. apply negb_false_iff in Ee.
    apply existsb_exists in Ee as [j [Hj Hje]].
    assert (j = i) by (apply Hns; [left; reflexivity|right; exact Hj|exact Es|exact Hje]). subst j.
    destruct Hx as [->|Hx]; apply IH; assumption.
Qed.

Lemma from_imports_shadow_irrelevant l : no_shadow l -> from_imports true l = from_imports false l.
Proof.
  intros Hns. unfold from_imports.
  apply (sorted_ext import_compare import_compare_refl import_compare_antisym).
  - apply sort_u_sorted; [apply import_compare_antisym|apply import_compare_trans].
  - apply sort_u_sorted; [apply import_compare_antisym|apply import_compare_trans].
  - intros x. split; intros Hx.
    + apply (sort_u_in_rev import_compare import_compare_eq import_compare_refl).
      apply filter_shadowed_in. eapply sort_u_in; eauto.
    + apply (sort_u_in_rev import_compare import_compare_eq import_compare_refl).
      apply filter_shadowed_keeps; [exact Hns|]. eapply sort_u_in; eauto.
Qed.

Lemma NoDup_two {A} (l : list A) i j : NoDup l -> In i l -> In j l -> i <> j -> 2 <= length l.
Proof.
  intros Hnd Hi Hj Hne. destruct l as [|a [|b r]].
  - contradiction.
  - destruct Hi as [->|[]], Hj as [->|[]]. congruence.
  - cbn [length]. lia.
Qed.

(* a set that prints (no ConflictingImportsError) has no two different imports binding one name *)
Lemma printable_no_shadow P S out : NoDup S -> print_set P S = Some out -> no_shadow S.
Proof.
  intros Hnd Hp. unfold print_set, print_set_r in Hp.
  destruct (conflicting_imports S) as [|c cs] eqn:Ec; [|discriminate]. clear Hp.
  intros i j Hi Hj Hs He.
  unfold conflicting_imports in Ec.
  assert (Hfm : flat_map (fun i0 => if negb (is_star i0) && (1 <? length (by_import_as S (import_as i0)))
                                    then [import_as i0] else []) S = []).
  { destruct (flat_map _ S) as [|y ys] eqn:E; [reflexivity|].
    exfalso. revert Ec. apply sort_u_nonempty. discriminate. }
  destruct (import_compare j i) eqn:Ecmp; [apply import_compare_eq; exact Ecmp| |].
  all: exfalso;
    assert (Hne : j <> i) by (intros ->; rewrite import_compare_refl in Ecmp; discriminate);
    assert (Hlen : 2 <= length (by_import_as S (import_as i)));
    [ unfold by_import_as;
      apply (NoDup_two _ i j);
        [ eapply sorted_NoDup; [apply import_compare_refl|apply sort_u_sorted; [apply import_compare_antisym|apply import_compare_trans]]
        | apply (sort_u_in_rev import_compare import_compare_eq import_compare_refl); apply filter_In; split; [exact Hi|apply str_eqb_refl]
        | apply (sort_u_in_rev import_compare import_compare_eq import_compare_refl); apply filter_In; split; [exact Hj|exact He]
        | congruence ]
    | assert (Hin : In (import_as i) (flat_map (fun i0 => if negb (is_star i0) && (1 <? length (by_import_as S (import_as i0)))
                                    then [import_as i0] else []) S));
      [ apply in_flat_map; exists i; split; [exact Hi|]; rewrite Hs; cbn [negb andb];
        replace (1 <? length (by_import_as S (import_as i))) with true by lia; left; reflexivity
      | rewrite Hfm in Hin; contradiction ] ].
Qed.

(* printing the set rebuilt (WITH shadow filtering, as the second reformat pass does) from the
   imports parsed out of a printed block reproduces the identical text *)
Theorem reprint_shadow P S out S' :
  wf_set S -> sorted_set S -> print_set P S = Some out -> parse_imports out = Some S' ->
  print_set P (from_imports true S') = Some out.
Proof.
  intros HS Hs Hp Hq.
  pose proof (roundtrip P S out HS Hp) as Hr. rewrite Hr in Hq. inversion Hq; subst S'.
  rewrite from_imports_shadow_irrelevant.
  - rewrite canonical_set by assumption. exact Hp.
  - pose proof (printable_no_shadow P S out (proj2 HS) Hp) as Hns.
    intros i j Hi Hj. apply Hns; apply (canonical_in (separate_from_imports P) S _ HS); assumption.
Qed.

(* ------------------------------------------------------------------------------------------ *)
(* the second reformat pass                                                                    *)

Lemma imports_eqb_eq a : forall b, imports_eqb a b = true -> a = b.
Proof.
  induction a as [|x a IH]; intros [|y b] H; try discriminate; [reflexivity|].
  cbn in H. apply andb_true_iff in H as [H1 H2]. unfold import_eqb in H1.
  apply andb_true_iff in H1 as [Hf Ha]. apply str_eqb_eq in Hf, Ha.
  destruct x, y; cbn in *; subst. f_equal. apply IH. exact H2.
Qed.

(* every import block holds a non-empty, sorted, duplicate-free set (true of preprocess by
   construction; evaluated with the rest) of imports Python's grammar can express (the domain of C11) *)
Definition sets_ok (bs : list cblock) : Prop :=
  Forall (fun b => match b with
                   | BImports _ s => s <> [] /\ wf_set s /\ sorted_set s
                   | BOther _ _ => True
                   end) bs.

Section Pass2.
Variable P : params.

Lemma print_set_r_some S out : print_set P S = Some out <-> print_set_r P S = inr out.
Proof. unfold print_set. destruct (print_set_r P S); split; intros H; inversion H; reflexivity. Qed.

Lemma parse_imports_nil : parse_imports [] = Some [].
Proof. vm_compute. reflexivity. Qed.

Lemma printed_nonempty S out : wf_set S -> S <> [] -> print_set P S = Some out -> out <> [].
Proof.
  intros HS Hne Hp ->. pose proof (roundtrip P S [] HS Hp) as Hr. rewrite parse_imports_nil in Hr.
  inversion Hr as [Hc]. destruct S as [|i S']; [congruence|].
  assert (Hin : In i (canonical (separate_from_imports P) (i :: S'))) by (apply canonical_in; [exact HS|left; reflexivity]).
  rewrite <- Hc in Hin. contradiction.
Qed.

Theorem second_pass_renders : forall (bs1 : list cblock) xs bs2,
  sets_ok bs1 -> pretty_closed P bs1 = Some xs -> oracle_compositionalb bs1 xs bs2 = true ->
  pretty_closed P bs2 = Some xs.
Proof.
  induction bs1 as [|b1 r1 IH]; intros xs bs2 Hok Hp Hc.
  - cbn in Hp. inversion Hp; subst xs. destruct bs2; [reflexivity|discriminate].
  - inversion Hok as [|? ? Hb1 Hr1]; subst.
    cbn [pretty_closed] in Hp.
    destruct (match b1 with BImports inp s => render_import_block P inp s | BOther _ o => Some o end) as [x|] eqn:Ex; [|discriminate].
    destruct (pretty_closed P r1) as [rx|] eqn:Er; [|discriminate].
    inversion Hp; subst xs.
    destruct bs2 as [|b2 r2]; [discriminate|].
    cbn [oracle_compositionalb] in Hc. apply andb_true_iff in Hc as [Hb Hrest].
    cbn [pretty_closed]. rewrite (IH rx r2 Hr1 eq_refl Hrest).
    destruct b1 as [inp1 s1|inp1 o1], b2 as [inp2 s2|inp2 o2]; try discriminate.
    + (* an import block, printed and read back *)
      destruct Hb1 as [Hne [Hwf Hsorted]].
      unfold render_import_block in Ex.
      destruct (print_set_r P s1) as [e|r] eqn:Epr; [discriminate|].
      apply print_set_r_some in Epr.
      pose proof (printed_nonempty s1 r Hwf Hne Epr) as Hrne.
      assert (x = r) by (destruct r; [congruence|inversion Ex; reflexivity]). subst x.
      unfold expected_blockb in Hb.
      destruct (parse_imports r) as [S'|] eqn:Eq; [|discriminate].
      apply imports_eqb_eq in Hb. subst s2.
      pose proof (reprint_shadow P s1 r S' Hwf Hsorted Epr Eq) as Hre.
      apply print_set_r_some in Hre. unfold render_import_block. rewrite Hre.
      destruct r; [congruence|reflexivity].
    + (* a non-import block, verbatim *)
      inversion Ex; subst x. unfold expected_blockb in Hb. apply str_eqb_eq in Hb. subst o2. reflexivity.
Qed.

End Pass2.

(* C03's fixed-point clause for reformat_import_statements, closed form:  for all formatting
   parameters, texts and node lists, if the first pass prints o and the node list ns2 that CPython
   produces for o satisfies oracle_compositional (statement boundaries of o = those of the verbatim
   parts plus those the import parser computes for the printed blocks), the second pass prints o. *)
Theorem reformat_idempotent_closed P ns1 t1 ps1 xs ns2 ps2 :
  statements ns1 t1 = Some ps1 ->
  sets_ok (preprocess mk_cset ps1) ->
  pretty_closed P (preprocess mk_cset ps1) = Some xs ->
  statements ns2 (of_str (concat xs) (mkPos 1 1)) = Some ps2 ->
  oracle_compositionalb (preprocess mk_cset ps1) xs (preprocess mk_cset ps2) = true ->
  reformat_closed P ns1 t1 = Some (concat xs) /\
  reformat_closed P ns2 (of_str (concat xs) (mkPos 1 1)) = Some (concat xs).
Proof.
  intros H1 Hok Hp H2 Hc. unfold reformat_closed. rewrite H1, H2, Hp.
  rewrite (second_pass_renders P _ _ _ Hok Hp Hc). split; reflexivity.
Qed.

(* the structural half of sets_ok holds by construction of preprocess *)
Lemma preprocess_sets_sorted (ps : list (spiece (list import))) :
  Forall (fun b => match b with
                   | BImports _ s => sorted_set s /\ NoDup s
                   | BOther _ _ => True
                   end) (preprocess mk_cset ps).
Proof.
  unfold preprocess. induction (group_runs ps) as [|[[k f] r] runs IH]; [constructor|].
  cbn [map]. constructor; [|exact IH].
  unfold mk_block. destruct k; [|exact I].
  unfold mk_cset. split; [apply from_imports_sorted_set|apply from_imports_NoDup].
Qed.

(* ------------------------------------------------------------------------------------------ *)
(* a decision procedure for the domain of C11 (wf_import), so that the harness can evaluate it  *)

Lemma lead_dots_split s : s = repeat c_dot (lead_dots s) ++ skipn (lead_dots s) s.
Proof.
  induction s as [|c r IH]; [reflexivity|]. cbn [lead_dots].
  destruct (c =? c_dot)%N eqn:E; [|reflexivity].
  apply N.eqb_eq in E. subst c. cbn [repeat skipn app]. f_equal. exact IH.
Qed.

Lemma split_last_spec l init x : split_last l = Some (init, x) -> l = init ++ [x].
Proof.
  unfold split_last. destruct (rev l) as [|y r] eqn:E; [discriminate|]. intros H. inversion H; subst.
  rewrite <- (rev_involutive l), E. reflexivity.
Qed.

Lemma forallb_wf_ident l : forallb valid_ident l = true -> Forall wf_ident l.
Proof. intros H. apply Forall_forall. rewrite forallb_forall in H. exact H. Qed.

Lemma wf_modb_ok lvl md : wf_modb lvl md = true -> wf_mod lvl md.
Proof.
  unfold wf_modb, wf_mod. intros H. apply andb_true_iff in H as [H1 H2]. split; [apply forallb_wf_ident; exact H1|].
  destruct md; [left; cbn in H2; lia|right; discriminate].
Qed.

Theorem wf_importb_ok i : wf_importb i = true -> wf_import i.
Proof.
  destruct i as [f a]. unfold wf_importb. cbn [fullname import_as].
  destruct (split_last (split_on c_dot (skipn (lead_dots f) f))) as [[md mem]|] eqn:Esl; [|discriminate].
  apply split_last_spec in Esl.
  assert (Hf : f = repeat c_dot (lead_dots f) ++ join_with c_dot (md ++ [mem])).
  { rewrite <- Esl, join_split. apply lead_dots_split. }
  set (lvl := lead_dots f) in *.
  destruct (str_eqb a s_star) eqn:Estar.
  - intros H. apply andb_true_iff in H as [Hm Hmod]. apply str_eqb_eq in Estar, Hm. subst a mem.
    rewrite Hf. apply WfStar. apply wf_modb_ok. exact Hmod.
  - destruct (str_eqb f a) eqn:Efa.
    + intros H. apply andb_true_iff in H as [Hl Hall]. apply str_eqb_eq in Efa. subst a.
      assert (lvl = 0) by lia. rewrite H in Hf. cbn [repeat app] in Hf. rewrite Hf.
      apply WfPlain; [destruct md; discriminate|apply forallb_wf_ident; exact Hall].
    + destruct ((lvl =? 0) && is_nil md) eqn:Eas.
      * intros H. apply andb_true_iff in H as [Hm Ha]. apply andb_true_iff in Eas as [Hl Hn].
        assert (lvl = 0) by lia. destruct md; [|discriminate]. rewrite H in Hf. cbn in Hf. subst f.
        apply WfAs; [exact Hm|exact Ha|]. intros ->. rewrite str_eqb_refl in Efa. discriminate.
      * intros H. apply andb_true_iff in H as [H Ha]. apply andb_true_iff in H as [Hmod Hm].
        rewrite Hf. apply WfFrom; [apply wf_modb_ok; exact Hmod|exact Hm|exact Ha].
Qed.

(* for the blocks preprocess builds, the evaluated boolean gives the hypothesis of the theorem *)
Theorem sets_okb_ok (ps : list (spiece (list import))) :
  sets_okb (preprocess mk_cset ps) = true -> sets_ok (preprocess mk_cset ps).
Proof.
  intros H. unfold sets_okb in H. rewrite forallb_forall in H.
  pose proof (preprocess_sets_sorted ps) as Hs. unfold sets_ok.
  rewrite Forall_forall in *. intros b Hb. specialize (H b Hb). specialize (Hs b Hb).
  destruct b as [inp s|]; [|exact I]. destruct Hs as [Hsorted Hnd].
  apply andb_true_iff in H as [Hne Hwf].
  split; [destruct s; [discriminate|discriminate]|]. split; [|exact Hsorted].
  split; [|exact Hnd]. apply Forall_forall. rewrite forallb_forall in Hwf. intros i Hi. apply wf_importb_ok. auto.
Qed.

(* the same with every hypothesis in the evaluated (boolean) form *)
Theorem reformat_idempotent_closed_b P ns1 t1 ps1 xs ns2 ps2 :
  statements ns1 t1 = Some ps1 ->
  sets_okb (preprocess mk_cset ps1) = true ->
  pretty_closed P (preprocess mk_cset ps1) = Some xs ->
  statements ns2 (of_str (concat xs) (mkPos 1 1)) = Some ps2 ->
  oracle_compositionalb (preprocess mk_cset ps1) xs (preprocess mk_cset ps2) = true ->
  reformat_closed P ns1 t1 = Some (concat xs) /\
  reformat_closed P ns2 (of_str (concat xs) (mkPos 1 1)) = Some (concat xs).
Proof.
  intros H1 Hok. apply reformat_idempotent_closed; [exact H1|apply sets_okb_ok; exact Hok].
Qed.

(* Frame theorems for preprocess / pretty_print (C01). *)
From Coq Require Import Arith Bool List NArith Lia ZifyBool.
From Verif Require Import Base.Chars Base.StrX Base.StrXProofs Text.FilePos Text.FileText Text.Split
                          Text.FileTextProofs Text.SplitProofs S2S.Blocks.
Import ListNotations.

Section BlocksProofs.
Variable P : Type.
Variable iset : Type.
Variable mkset : list P -> iset.

Notation block := (@block P iset).
Notation spiece := (spiece P).
Notation ptexts := (ptexts (nkind P)).

(* ---------- grouping ---------- *)

Definition run_pieces (run : bool * spiece * list spiece) : list spiece :=
  let '(_, f, r) := run in f :: r.
Definition run_key (run : bool * spiece * list spiece) : bool := let '(k, _, _) := run in k.
Definition run_first (run : bool * spiece * list spiece) : spiece := let '(_, f, _) := run in f.
Definition run_rest (run : bool * spiece * list spiece) : list spiece := let '(_, _, r) := run in r.

Lemma group_runs_flat (ps : list spiece) : flat_map run_pieces (group_runs ps) = ps.
Proof.
  induction ps as [|p rest IH]; [reflexivity|].
  cbn [group_runs]. destruct (group_runs rest) as [|[[k q] g] gs] eqn:E.
  - destruct rest as [|p' rest']; [reflexivity|].
    cbn [group_runs] in E. destruct (group_runs rest') as [|[[k' q'] g'] gs'];
      [discriminate|destruct (Bool.eqb k' (is_import_piece p')); discriminate].
  - destruct (Bool.eqb k (is_import_piece p)); cbn in *; rewrite <- IH; reflexivity.
Qed.

(* every run is homogeneous, and adjacent runs have different keys (the runs are maximal) *)
Definition run_ok (run : bool * spiece * list spiece) : Prop :=
  Forall (fun p => is_import_piece p = run_key run) (run_pieces run).

Fixpoint keys_alternate (runs : list (bool * spiece * list spiece)) : Prop :=
  match runs with
  | r1 :: ((r2 :: _) as rest) => run_key r1 <> run_key r2 /\ keys_alternate rest
  | _ => True
  end.

Lemma group_runs_ok (ps : list spiece) : Forall run_ok (group_runs ps) /\ keys_alternate (group_runs ps).
Proof.
  induction ps as [|p rest [IH1 IH2]]; [split; [constructor|exact I]|].
  cbn [group_runs]. destruct (group_runs rest) as [|[[k q] g] gs] eqn:E.
  - split; [|exact I]. constructor; [|constructor]. unfold run_ok. cbn. constructor; [reflexivity|constructor].
  - destruct (Bool.eqb k (is_import_piece p)) eqn:Ek.
    + apply Bool.eqb_prop in Ek. inversion IH1 as [|? ? Hr Hrs]; subst. split.
      * constructor; [|assumption]. unfold run_ok in *. cbn in *. constructor; [congruence|assumption].
      * destruct gs as [|r2 gs']; [exact I|]. cbn in IH2 |- *. exact IH2.
    + split.
      * constructor; [|assumption]. unfold run_ok. cbn. constructor; [reflexivity|constructor].
      * cbn. split; [|exact IH2]. intros Heq. rewrite Heq, Bool.eqb_reflx in Ek. discriminate.
Qed.

(* ---------- text of a concatenated block ---------- *)

Lemma joined_of_str s p : joined (of_str s p) = s.
Proof. unfold joined, of_str. cbn [lines]. apply join_split. Qed.

Lemma pb_concat_text (f : spiece) (r : list spiece) : btext (pb_concat f r) = ptexts (f :: r).
Proof.
  unfold btext, pb_concat. destruct r as [|x r'].
  - unfold SplitProofs.ptexts. cbn. rewrite app_nil_r. reflexivity.
  - cbn [pb_text]. rewrite joined_of_str. reflexivity.
Qed.

(* ---------- the frame relation (DESIGN Appendix I) ----------
   frame bs i o: reading the block list left to right, input i and output o are built from the
   same non-import texts, in the same order; where bs has an import block, i has that block's
   text and o has an arbitrary replacement r. *)
Inductive frame : list block -> str -> str -> Prop :=
| fr_nil : frame [] [] []
| fr_other inp bs i o : frame bs i o -> frame (BOther inp (btext inp) :: bs) (btext inp ++ i) (btext inp ++ o)
| fr_imports inp set bs i o r : frame bs i o -> frame (BImports inp set :: bs) (btext inp ++ i) (r ++ o).

(* an other-block whose output is still its input text *)
Definition untouched (b : block) : Prop :=
  match b with BOther i o => o = btext i | BImports _ _ => True end.

Definition input_text (bs : list block) : str := concat (map (fun b => btext (block_input b)) bs).

Section WithR.
Variable R : iset -> str.

Lemma frame_blocks_of_runs (runs : list (bool * spiece * list spiece)) :
  frame (map (mk_block mkset) runs) (ptexts (flat_map run_pieces runs)) (pretty R (map (mk_block mkset) runs)).
Proof.
  induction runs as [|[[k f] r] runs IH]; [constructor|].
  cbn [map flat_map run_pieces]. rewrite ptexts_app. rewrite <- pb_concat_text.
  unfold pretty. cbn [map concat]. unfold mk_block at 1 3. destruct k.
  - cbn [render]. apply fr_imports. exact IH.
  - cbn [render]. apply fr_other. exact IH.
Qed.

Theorem preprocess_frame (ps : list spiece) :
  frame (preprocess mkset ps) (ptexts ps) (pretty R (preprocess mkset ps)).
Proof.
  unfold preprocess. rewrite <- (group_runs_flat ps) at 2. apply frame_blocks_of_runs.
Qed.

(* reformat_import_statements on a PythonBlock: everything outside the maximal runs of top-level
   import statements is preserved, in order - including the absence of a final newline, since
   the frame relates the complete texts *)
Theorem reformat_frame (ns : list (snode P)) t ps :
  statements ns t = Some ps ->
  frame (preprocess mkset ps) (joined t) (pretty R (preprocess mkset ps)).
Proof.
  intros H. rewrite <- (split_lossless _ _ _ _ H). apply preprocess_frame.
Qed.

(* what the import blocks are: maximal runs of import-statement pieces; the other blocks hold none *)
Theorem preprocess_blocks (ps : list spiece) :
  exists runs, flat_map run_pieces runs = ps /\ Forall run_ok runs /\ keys_alternate runs /\
    preprocess mkset ps = map (mk_block mkset) runs /\
    Forall2 (fun run b => is_imports b = run_key run /\
                          block_input b = pb_concat (run_first run) (run_rest run) /\ untouched b)
            runs (preprocess mkset ps).
Proof.
  exists (group_runs ps). destruct (group_runs_ok ps) as [H1 H2].
  split; [apply group_runs_flat|]. split; [exact H1|]. split; [exact H2|]. split; [reflexivity|].
  unfold preprocess. induction (group_runs ps) as [|[[k f] r] runs IH]; [constructor|].
  inversion H1; subst.
  cbn [map]. constructor.
  - unfold mk_block. destruct k; cbn; repeat split; reflexivity.
  - apply IH; [assumption|]. destruct runs as [|r2 runs']; [exact I|]. cbn in H2. apply H2.
Qed.

(* ---------- edits that only change import sets ---------- *)

Definition same_shape_block (b b' : block) : Prop :=
  match b, b' with
  | BImports i _, BImports i' _ => i = i'
  | BOther i o, BOther i' o' => i = i' /\ o = o'
  | _, _ => False
  end.
Definition only_sets_changed (bs bs' : list block) : Prop := Forall2 same_shape_block bs bs'.

Theorem edit_frame bs bs' i o :
  frame bs i o -> only_sets_changed bs bs' -> frame bs' i (pretty R bs').
Proof.
  intros Hf. revert bs'. induction Hf as [|inp bs i o Hf IH|inp set bs i o r Hf IH]; intros bs' Hs.
  - inversion Hs. constructor.
  - inversion Hs as [|? b' ? bs'' Hb Hrest]; subst. destruct b' as [|i' o']; [contradiction|].
    destruct Hb as [<- <-]. unfold pretty. cbn [map concat render]. apply fr_other. apply IH. exact Hrest.
  - inversion Hs as [|? b' ? bs'' Hb Hrest]; subst. destruct b' as [i' s'|]; [|contradiction].
    cbn in Hb. subst i'. unfold pretty. cbn [map concat render]. apply fr_imports. apply IH. exact Hrest.
Qed.

Lemma only_sets_changed_refl bs : only_sets_changed bs bs.
Proof. induction bs as [|b bs IH]; constructor; [destruct b; cbn; auto|exact IH]. Qed.

Lemma same_shape_block_trans x y z : same_shape_block x y -> same_shape_block y z -> same_shape_block x z.
Proof.
  destruct x, y, z; cbn; try contradiction; try congruence.
  intros [-> ->] [-> ->]. auto.
Qed.

Lemma only_sets_changed_trans a b c : only_sets_changed a b -> only_sets_changed b c -> only_sets_changed a c.
Proof.
  intros H. revert c. induction H as [|x y a' b' Hxy Hab IH]; intros c Hbc; inversion Hbc; subst; constructor.
  - eapply same_shape_block_trans; eauto.
  - apply IH. assumption.
Qed.

(* `block.importset = ...` on the j-th import block (remove_import, add_import into an existing
   block, replace_star_imports, remove_broken_imports, transform_imports with an empty map) *)
Lemma set_nth_importset_shape j s bs : only_sets_changed bs (set_nth_importset j s bs).
Proof.
  revert j. induction bs as [|b bs IH]; intros j; [constructor|].
  destruct b as [i s0|i o]; cbn [set_nth_importset].
  - destruct j; constructor; cbn; auto; [apply only_sets_changed_refl|apply IH].
  - constructor; cbn; auto. apply IH.
Qed.

Lemma edits_shape (edits : list (nat * iset)) : forall bs,
  only_sets_changed bs (fold_left (fun acc e => set_nth_importset (fst e) (snd e) acc) edits bs).
Proof.
  induction edits as [|e edits IH]; intros bs; [apply only_sets_changed_refl|].
  cbn [fold_left]. eapply only_sets_changed_trans; [apply set_nth_importset_shape|apply IH].
Qed.

(* any sequence of import-set edits, then printing: the frame of the original text still holds *)
Theorem edits_frame (edits : list (nat * iset)) bs i o :
  frame bs i o ->
  let bs' := fold_left (fun acc e => set_nth_importset (fst e) (snd e) acc) edits bs in
  frame bs' i (pretty R bs').
Proof.
  intros Hf bs'. eapply edit_frame; [exact Hf|apply edits_shape].
Qed.

(* a module without top-level import statements comes back unchanged *)
Theorem frame_no_imports bs i o : frame bs i o -> forallb (fun b => negb (is_imports b)) bs = true -> i = o.
Proof.
  induction 1 as [|inp bs i o Hf IH|inp set bs i o r Hf IH]; intros Hn; [reflexivity| |discriminate].
  cbn in Hn. rewrite (IH Hn). reflexivity.
Qed.

Lemma frame_input bs i o : frame bs i o -> i = input_text bs.
Proof.
  induction 1 as [|inp bs i o Hf IH|inp set bs i o r Hf IH]; [reflexivity| |];
    unfold input_text; cbn [map concat block_input]; rewrite IH; reflexivity.
Qed.

Lemma frame_app b1 i1 o1 b2 i2 o2 : frame b1 i1 o1 -> frame b2 i2 o2 -> frame (b1 ++ b2) (i1 ++ i2) (o1 ++ o2).
Proof.
  induction 1 as [|inp bs i o Hf IH|inp set bs i o r Hf IH]; intros H2; [exact H2| |];
    cbn [app]; rewrite <- !app_assoc; constructor; apply IH; exact H2.
Qed.

Lemma frame_of_untouched bs : Forall untouched bs -> frame bs (input_text bs) (pretty R bs).
Proof.
  induction 1 as [|b bs Hb _ IH]; [constructor|].
  unfold input_text, pretty in *. cbn [map concat]. destruct b as [i s|i o]; cbn [block_input render].
  - apply fr_imports. exact IH.
  - cbn in Hb. subst o. apply fr_other. exact IH.
Qed.

Lemma frame_untouched bs i o : frame bs i o -> Forall untouched bs.
Proof. induction 1; constructor; cbn; auto. Qed.

End WithR.

(* F12: a str argument is first completed with a final newline *)
Lemma ends_with_nl_app s : ends_with_nl (s ++ [c_nl]) = true.
Proof.
  induction s as [|c s IH]; [reflexivity|].
  cbn [app]. destruct (s ++ [c_nl]) eqn:E; [destruct s; discriminate|]. exact IH.
Qed.

Theorem from_source_str_partial s : ends_with_nl s = true -> from_source_str s = s.
Proof. unfold from_source_str. intros ->. reflexivity. Qed.

Theorem from_source_str_spec s : from_source_str s = s \/ (ends_with_nl s = false /\ from_source_str s = s ++ [c_nl]).
Proof. unfold from_source_str. destruct (ends_with_nl s); auto. Qed.

End BlocksProofs.

(* Closed-mode instantiation of S2S/Blocks.v for the correspondence of C01 (DESIGN 3.6): the import
   sets are the C11 model's (Imports/ImportSet.v), the renderer is the C11 formatter
   (Imports/Format.v print_set_r) wrapped as SourceToSourceImportBlockTransformation.pretty_print
   does, so that the complete output text of a reformat pass is computed from the input text,
   CPython's node list (with the imports of each import statement) and the formatting parameters.
   No proofs here. *)
From Coq Require Import NArith Arith List String Bool.
From Verif Require Import Base.Chars Base.Show Base.StrX Text.FilePos Text.FileText Text.Split Text.Wire
                          Imports.Import Imports.ImportSet Imports.Format Imports.ImportLex Imports.Wire
                          S2S.Blocks S2S.Insert.
Import ListNotations.
Open Scope string_scope.

Definition cblock := @block (list import) import_set.

(*  self.importset = ImportSet(self.input, ignore_shadowed=True): the imports of the block's
    statements, in order, shadow-filtered and sorted  *)
Definition mk_cset (l : list (list import)) : import_set := from_imports true (List.concat l).

(*  def pretty_print(self, params=None):                       (SourceToSourceImportBlockTransformation)
        result = self.importset.pretty_print(params)
        if (not result and self.input.startpos.colno != 1 and self.input.text.joined.endswith("\n")):
            result = "\n"                                         (F28)
        return result                                            None = ConflictingImportsError / ValueError *)
Definition render_import_block (P : params) (inp : pblock (list import)) (s : import_set) : option str :=
  match print_set_r P s with
  | inl _ => None
  | inr r =>
      Some (match r with
            | [] => if negb (Nat.eqb (colno (startpos (pb_text inp))) 1) && ends_with_nl (btext inp) then [c_nl] else []
            | _ => r
            end)
  end.

Fixpoint pretty_closed (P : params) (bs : list cblock) : option (list str) :=
  match bs with
  | [] => Some []
  | b :: r =>
      match (match b with
             | BImports inp s => render_import_block P inp s
             | BOther _ o => Some o
             end), pretty_closed P r with
      | Some x, Some xs => Some (x :: xs)
      | _, _ => None
      end
  end.

(* ---------- second pass / fixed point (theorem in S2S/ClosedProofs.v) ---------- *)

Definition import_eqb (i j : import) : bool :=
  str_eqb (fullname i) (fullname j) && str_eqb (import_as i) (import_as j).
Fixpoint imports_eqb (a b : list import) : bool :=
  match a, b with
  | [], [] => true
  | x :: a', y :: b' => import_eqb x y && imports_eqb a' b'
  | _, _ => false
  end.


(* oracle_compositional, per block: what CPython's node list for the FIRST pass's output must make of
   the region a block was printed to.  A non-import block's printed text is again a (verbatim)
   non-import block; the text an import block was printed to is again one import block, and the imports
   of its statements are the ones the C11 model's parser reads from that text. *)
Definition expected_blockb (b1 : cblock) (x : str) (b2 : cblock) : bool :=
  match b1, b2 with
  | BOther _ _, BOther inp2 o2 => str_eqb o2 x
  | BImports _ _, BImports inp2 s2 =>
      match parse_imports x with
      | Some S' => imports_eqb s2 (from_imports true S')
      | None => false
      end
  | _, _ => false
  end.

Fixpoint oracle_compositionalb (bs1 : list cblock) (xs : list str) (bs2 : list cblock) : bool :=
  match bs1, xs, bs2 with
  | [], [], [] => true
  | b1 :: r1, x :: rx, b2 :: r2 => expected_blockb b1 x b2 && oracle_compositionalb r1 rx r2
  | _, _, _ => false
  end.

Definition block_imports (b : cblock) : list import :=
  match b with BImports _ s => s | BOther _ _ => [] end.


(* the closed reformat tool on a PythonBlock *)
Definition reformat_closed (P : params) (ns : list (snode (list import))) (t : text) : option str :=
  match statements ns t with
  | None => None
  | Some ps => option_map (@List.concat ch) (pretty_closed P (preprocess mk_cset ps))
  end.


Fixpoint lead_dots (s : str) : nat :=
  match s with
  | c :: r => if (c =? c_dot)%N then S (lead_dots r) else 0
  | [] => 0
  end.


Definition split_last (l : list str) : option (list str * str) :=
  match rev l with x :: r => Some (rev r, x) | [] => None end.


Definition is_nil {A} (l : list A) : bool := match l with [] => true | _ => false end.

Definition wf_modb (lvl : nat) (md : list str) : bool :=
  forallb valid_ident md && (negb (Nat.eqb lvl 0) || negb (is_nil md)).


Definition wf_importb (i : import) : bool :=
  let f := fullname i in
  let a := import_as i in
  let lvl := lead_dots f in
  match split_last (split_on c_dot (skipn lvl f)) with
  | None => false
  | Some (md, mem) =>
      if str_eqb a s_star then str_eqb mem s_star && wf_modb lvl md
      else if str_eqb f a then (Nat.eqb lvl 0) && forallb valid_ident (md ++ [mem])
      else if (Nat.eqb lvl 0) && is_nil md then valid_ident mem && valid_ident a
      else wf_modb lvl md && valid_ident mem && valid_ident a
  end.


Definition sets_okb (bs : list cblock) : bool :=
  forallb (fun b => match b with
                    | BImports _ s => negb (is_nil s) && forallb wf_importb s
                    | BOther _ _ => true
                    end) bs.


(* nodes arrive as (lineno, colno, last_lineno, kind code, imports of the statement) *)
Definition ckind (c : nat) (imps : list (str * str)) : nkind (list import) :=
  match c with
  | 0 => KImport (mk_imports imps)
  | 1 => KStrExpr
  | 3 => KBytesExpr
  | _ => KOther
  end.
Definition mk_cnodes (l : list (nat * nat * nat * nat * list (str * str))) : list (snode (list import)) :=
  map (fun x => match x with (ln, cn, la, k, imps) => mkNode (mkPos ln cn) la (ckind k imps) end) l.

Definition block_set (b : cblock) : list import_set :=
  match b with BImports _ s => [s] | BOther _ _ => [] end.

(* one reformat pass, closed: split, group, build the import sets, print *)
Definition run_reformat_closed (s : str) (sl sc : nat) (nodes : list (nat * nat * nat * nat * list (str * str)))
                               (P : params) : string :=
  let t := of_str s (mkPos sl sc) in
  match statements (mk_cnodes nodes) t with
  | None => "null"
  | Some ps =>
      let bs := preprocess mk_cset ps in
      show_obj [("sets", show_list (fun s => show_imports (imports_of s)) (flat_map block_set bs));
                ("out", match pretty_closed P bs with
                        | Some xs => show_str (List.concat xs)
                        | None => "null"
                        end)]
  end.

(* first pass with node list `nodes`, then the second pass over its output with the node list `nodes2`
   CPython produced for that output; reports the evaluated hypotheses of reformat_idempotent_closed *)
Definition run_idem_closed (s : str) (sl sc : nat) (nodes nodes2 : list (nat * nat * nat * nat * list (str * str)))
                           (P : params) : string :=
  let t := of_str s (mkPos sl sc) in
  match statements (mk_cnodes nodes) t with
  | None => "null"
  | Some ps =>
      let bs := preprocess mk_cset ps in
      match pretty_closed P bs with
      | None => "null"
      | Some xs =>
          let o := List.concat xs in
          let t2 := of_str o (mkPos 1 1) in
          match statements (mk_cnodes nodes2) t2 with
          | None => show_obj [("out1", show_str o); ("sets_ok", show_bool (sets_okb bs)); ("compositional", "null"); ("out2", "null")]
          | Some ps2 =>
              let bs2 := preprocess mk_cset ps2 in
              show_obj [("out1", show_str o);
                        ("sets_ok", show_bool (sets_okb bs));
                        ("compositional", show_bool (oracle_compositionalb bs xs bs2));
                        ("out2", match reformat_closed P (mk_cnodes nodes2) t2 with
                                 | Some o2 => show_str o2 | None => "null" end)]
          end
      end
  end.

(* Closed-mode instantiation of S2S/Blocks.v for the correspondence of C01 (DESIGN 3.6): the import
   sets are the C11 model's (Imports/ImportSet.v), the renderer is the C11 formatter
   (Imports/Format.v print_set_r) wrapped as SourceToSourceImportBlockTransformation.pretty_print
   does, so that the complete output text of a reformat pass is computed from the input text,
   CPython's node list (with the imports of each import statement) and the formatting parameters.
   No proofs here. *)
From Coq Require Import NArith Arith List String Bool.
From Verif Require Import Base.Chars Base.Show Base.StrX Text.FilePos Text.FileText Text.Split Text.Wire
                          Imports.Import Imports.ImportSet Imports.Format Imports.Wire
                          S2S.Blocks S2S.Insert.
Import ListNotations.
Open Scope string_scope.

Definition cblock := @block (list import) import_set.

(*  self.importset = ImportSet(self.input, ignore_shadowed=True): the imports of the block's
    statements, in order, shadow-filtered and sorted  *)
Definition mk_cset (l : list (list import)) : import_set := from_imports true (List.concat l).

(*  def pretty_print(self, params=None):                       (SourceToSourceImportBlockTransformation)
        result = self.importset.pretty_print(params)
        if (not result and self.input.startpos.colno != 1 and self.input.text.joined.endswith("\n")):
            result = "\n"                                         (F28)
        return result                                            None = ConflictingImportsError / ValueError *)
Definition render_import_block (P : params) (inp : pblock (list import)) (s : import_set) : option str :=
  match print_set_r P s with
  | inl _ => None
  | inr r =>
      Some (match r with
            | [] => if negb (Nat.eqb (colno (startpos (pb_text inp))) 1) && ends_with_nl (btext inp) then [c_nl] else []
            | _ => r
            end)
  end.

Fixpoint pretty_closed (P : params) (bs : list cblock) : option (list str) :=
  match bs with
  | [] => Some []
  | b :: r =>
      match (match b with
             | BImports inp s => render_import_block P inp s
             | BOther _ o => Some o
             end), pretty_closed P r with
      | Some x, Some xs => Some (x :: xs)
      | _, _ => None
      end
  end.

(* nodes arrive as (lineno, colno, last_lineno, kind code, imports of the statement) *)
Definition ckind (c : nat) (imps : list (str * str)) : nkind (list import) :=
  match c with
  | 0 => KImport (mk_imports imps)
  | 1 => KStrExpr
  | 3 => KBytesExpr
  | _ => KOther
  end.
Definition mk_cnodes (l : list (nat * nat * nat * nat * list (str * str))) : list (snode (list import)) :=
  map (fun x => match x with (ln, cn, la, k, imps) => mkNode (mkPos ln cn) la (ckind k imps) end) l.

Definition block_set (b : cblock) : list import_set :=
  match b with BImports _ s => [s] | BOther _ _ => [] end.

(* one reformat pass, closed: split, group, build the import sets, print *)
Definition run_reformat_closed (s : str) (sl sc : nat) (nodes : list (nat * nat * nat * nat * list (str * str)))
                               (P : params) : string :=
  let t := of_str s (mkPos sl sc) in
  match statements (mk_cnodes nodes) t with
  | None => "null"
  | Some ps =>
      let bs := preprocess mk_cset ps in
      show_obj [("sets", show_list (fun s => show_imports (imports_of s)) (flat_map block_set bs));
                ("out", match pretty_closed P bs with
                        | Some xs => show_str (List.concat xs)
                        | None => "null"
                        end)]
  end.

(* Entry points evaluated by the correspondence harness (harness/c01.py).
   Instantiation: payload of an import statement = unit, import set = N (an id); after the tool's
   edits the j-th import block of the final block list carries id j and renders to the j-th
   captured string (open mode: the renderings come from the implementation). *)
From Coq Require Import NArith List String Bool.
From Verif Require Import Base.Chars Base.Show Text.FilePos Text.FileText Text.Split Text.Wire S2S.Blocks S2S.Insert.
Import ListNotations.
Open Scope string_scope.

Definition wblock := @block unit N.

Definition kind_of_code (c : nat) : nkind unit :=
  match c with
  | 0 => KImport tt
  | 1 => KStrExpr
  | 3 => KBytesExpr
  | _ => KOther
  end.

(* nodes arrive as (lineno, colno, last_lineno, kind code) *)
Definition mk_snodes (l : list (nat * nat * nat * nat)) : list (snode unit) :=
  map (fun x => match x with (ln, cn, la, k) => mkNode (mkPos ln cn) la (kind_of_code k) end) l.

Fixpoint relabel (j : N) (bs : list wblock) : list wblock :=
  match bs with
  | [] => []
  | BImports i _ :: r => BImports i j :: relabel (j + 1)%N r
  | b :: r => b :: relabel j r
  end.

Definition lookup (renders : list str) (j : N) : str := nth (N.to_nat j) renders (dec "<<missing rendering>>").

Definition show_block (b : wblock) : string :=
  show_obj [("imports", show_bool (is_imports b));
            ("text", show_str (btext (block_input b)));
            ("sp", show_pos (startpos (pb_text (block_input b))));
            ("ep", show_pos (endpos (pb_text (block_input b))))].

Fixpoint apply_inserts (k : nat) (bs : list wblock) : option (list wblock) :=
  match k with
  | O => Some bs
  | S k' => match insert_new_import_block 0%N bs with
            | None => None
            | Some bs' => apply_inserts k' bs'
            end
  end.

(* one pass of a rewriting tool over PythonBlock(s, startpos): split, group, `inserts` calls of
   insert_new_import_block, arbitrary import-set edits (relabel), print *)
Definition run_tool (s : str) (sl sc : nat) (nodes : list (nat * nat * nat * nat))
                    (inserts : nat) (renders : list str) : string :=
  let t := of_str s (mkPos sl sc) in
  let ns := mk_snodes nodes in
  match statements ns t with
  | None => "null"
  | Some ps =>
      let bs := preprocess (fun _ => 0%N) ps in
      match apply_inserts inserts bs with
      | None => show_obj [("blocks", show_list show_block bs); ("out", "null")]
      | Some bs' =>
          show_obj [("blocks", show_list show_block bs);
                    ("final", show_list show_block bs');
                    ("out", show_str (pretty (lookup renders) (relabel 0 bs')))]
      end
  end.

Definition run_from_source_str (s : str) : string := show_str (from_source_str s).

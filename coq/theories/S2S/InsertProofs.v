(* insert_frame (C01): a new import block goes right after the comment/docstring prologue,
   followed by one blank line; nothing else changes. *)
From Coq Require Import Arith Bool List NArith Lia ZifyBool.
From Verif Require Import Base.Chars Base.StrX Base.StrXProofs Text.FilePos Text.FileText Text.Split
                          Text.FileTextProofs Text.SplitProofs S2S.Blocks S2S.BlocksProofs S2S.Insert.
Import ListNotations.

Section InsertProofs.
Variable P : Type.
Variable iset : Type.
Variable empty_set : iset.

Notation block := (@block P iset).
Notation spiece := (spiece P).
Notation ptexts := (ptexts (nkind P)).
Notation frame := (frame P iset).
Notation input_text := (input_text P iset).
Notation untouched := (untouched P iset).

Lemma first_code_index_firstn : forall (sts : list spiece) seen k,
  first_code_index seen sts = Some k -> first_code_index seen (firstn k sts) = None.
Proof.
  induction sts as [|s rest IH]; intros seen k H; [discriminate|].
  cbn [first_code_index] in H.
  destruct (is_noncode_piece s) eqn:E1.
  - destruct (first_code_index seen rest) as [k'|] eqn:E; [|discriminate].
    inversion H; subst k. cbn [firstn first_code_index]. rewrite E1, (IH _ _ E). reflexivity.
  - destruct (is_string_piece s) eqn:E2.
    + destruct (seen || negb (is_str_piece s)) eqn:E3; [inversion H; reflexivity|].
      destruct (first_code_index true rest) as [k'|] eqn:E; [|discriminate].
      inversion H; subst k. cbn [firstn first_code_index]. rewrite E1, E2, E3, (IH _ _ E). reflexivity.
    + inversion H. reflexivity.
Qed.

Lemma other_of_spec (sts : list spiece) b :
  other_of (iset := iset) sts = Some b -> untouched b /\ btext (block_input b) = ptexts sts.
Proof.
  destruct sts as [|s rest]; [discriminate|]. cbn [other_of]. intros H. inversion H; subst b.
  cbn [BlocksProofs.untouched block_input]. split; [reflexivity|]. apply pb_concat_text.
Qed.

(* the text of the maximal leading run of comment / blank / string-literal statements of the
   first block (comments, blank lines and at most one leading str-literal statement: F9; a bytes literal
   statement is never part of it: 226d64c) *)
Definition is_prologue_text (bs : list block) (pro : str) : Prop :=
  match bs with
  | BOther inp _ :: _ =>
      exists sts, statements (pb_nodes inp) (pb_text inp) = Some sts /\
      exists k, pro = ptexts (firstn k sts) /\ first_code_index false (firstn k sts) = None /\
                (first_code_index false sts = Some k \/ (first_code_index false sts = None /\ k = length sts))
  | _ => pro = []
  end.

Section WithR.
Variable R : iset -> str.

Lemma pretty_app (a b : list block) : pretty R (a ++ b) = pretty R a ++ pretty R b.
Proof. unfold pretty. rewrite map_app, concat_app. reflexivity. Qed.

Lemma pretty_news : pretty R [new_import_block empty_set; sep_block : block] = R empty_set ++ [c_nl].
Proof. unfold pretty. cbn. rewrite ?app_nil_r. reflexivity. Qed.

Lemma pretty_news_cons (bs : list block) :
  pretty R (new_import_block empty_set :: sep_block :: bs) = R empty_set ++ [c_nl] ++ pretty R bs.
Proof. reflexivity. Qed.

Lemma pretty_other_cons inp o (bs : list block) : pretty R (BOther inp o :: bs) = o ++ pretty R bs.
Proof. reflexivity. Qed.

Theorem insert_frame (bs bs' : list block) :
  Forall untouched bs ->
  insert_new_import_block empty_set bs = Some bs' ->
  exists pro term rest o',
    input_text bs = pro ++ rest /\
    pretty R bs' = pro ++ term ++ R empty_set ++ [c_nl] ++ o' /\
    (exists brest, frame brest rest o') /\
    is_prologue_text bs pro /\
    (term = [] \/ (term = [c_nl] /\ needs_terminator pro = true)).
Proof.
  intros Hu H. unfold insert_new_import_block, insert_new_blocks_after_comments in H.
  destruct bs as [|b0 rest]; [discriminate|].
  destruct b0 as [inp set|inp out].
  - (* the file starts with an import block: position 0 *)
    inversion H; subst bs'. exists [], [], (input_text (BImports inp set :: rest)), (pretty R (BImports inp set :: rest)).
    split; [reflexivity|]. split.
    + rewrite pretty_news_cons. reflexivity.
    + split; [eexists; apply frame_of_untouched; exact Hu|]. split; [reflexivity|left; reflexivity].
  - destruct (statements (pb_nodes inp) (pb_text inp)) as [sts|] eqn:Est; [|discriminate].
    pose proof (split_lossless _ _ _ _ Est) as Hl.
    inversion Hu as [|? ? Hu0 Hur]; subst. cbn in Hu0. subst out.
    destruct (first_code_index false sts) as [idx|] eqn:Ei.
    + destruct idx as [|idx'].
      * (* first statement is code: position 0 *)
        inversion H; subst bs'.
        exists [], [], (input_text (BOther inp (btext inp) :: rest)), (pretty R (BOther inp (btext inp) :: rest)).
        split; [reflexivity|]. split.
        -- rewrite pretty_news_cons. reflexivity.
        -- split; [eexists; apply frame_of_untouched; exact Hu|].
           split; [|left; reflexivity].
           cbn [is_prologue_text]. exists sts. split; [exact Est|]. exists 0.
           split; [reflexivity|]. split; [reflexivity|]. left. exact Ei.
      * (* the first block is split between prologue and code *)
        destruct (other_of (firstn (S idx') sts)) as [b1|] eqn:E1; [|discriminate].
        destruct (other_of (skipn (S idx') sts)) as [b2|] eqn:E2; [|discriminate].
        inversion H; subst bs'.
        destruct (other_of_spec _ _ E1) as [U1 T1]. destruct (other_of_spec _ _ E2) as [U2 T2].
        exists (ptexts (firstn (S idx') sts)), [], (ptexts (skipn (S idx') sts) ++ input_text rest), (pretty R (b2 :: rest)).
        split.
        { unfold BlocksProofs.input_text at 1. cbn [map concat block_input].
          fold (input_text rest). rewrite app_assoc. f_equal.
          rewrite <- ptexts_app, firstn_skipn. unfold btext. symmetry. exact Hl. }
        split.
        { destruct b1 as [|i1 o1]; [destruct (firstn (S idx') sts); discriminate|].
          cbn in U1. subst o1. cbn [app]. rewrite pretty_other_cons, pretty_news_cons.
          cbn [block_input] in T1. rewrite T1. reflexivity. }
        split.
        { exists (b2 :: rest). rewrite <- T2.
          change (btext (block_input b2) ++ input_text rest) with (input_text (b2 :: rest)).
          apply frame_of_untouched. constructor; assumption. }
        split; [|left; reflexivity].
        cbn [is_prologue_text]. exists sts. split; [exact Est|]. exists (S idx').
        split; [reflexivity|]. split; [apply first_code_index_firstn; exact Ei|]. left. exact Ei.
    + (* the whole first block is prologue: right after it, after terminating its last line if needed *)
      assert (Hpro : is_prologue_text (BOther inp (btext inp) :: rest) (btext inp)).
      { cbn [is_prologue_text]. exists sts. split; [exact Est|]. exists (length sts).
        rewrite firstn_all. split; [unfold btext; symmetry; exact Hl|]. split; [exact Ei|]. right. auto. }
      destruct (needs_terminator (btext inp)) eqn:Ent; inversion H; subst bs'.
      * exists (btext inp), [c_nl], (input_text rest), (pretty R rest).
        split; [reflexivity|]. split.
        { cbn [app]. rewrite pretty_other_cons. unfold newline_block. rewrite pretty_other_cons, pretty_news_cons. reflexivity. }
        split; [eexists; apply frame_of_untouched; exact Hur|]. split; [exact Hpro|]. right. auto.
      * exists (btext inp), [], (input_text rest), (pretty R rest).
        split; [reflexivity|]. split.
        { cbn [app]. rewrite pretty_other_cons, pretty_news_cons. reflexivity. }
        split; [eexists; apply frame_of_untouched; exact Hur|]. split; [exact Hpro|]. left. reflexivity.
Qed.

End WithR.
End InsertProofs.

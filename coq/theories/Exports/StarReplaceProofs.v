(* Proofs about Exports/StarReplace.v (C19: star_replace_conservative, last-wins shadowing). *)
From Coq Require Import NArith List Bool Lia.
From Verif Require Import Base.Chars Base.StrX Base.StrXProofs Exports.StarReplace.
Import ListNotations.

(* a star import cannot be replaced: relative, exports raised, or nothing exported *)
Definition star_fails (exports_of : str -> option (list str)) (m : str) : Prop :=
  is_relative m = true \/ exports_of m = None \/ exports_of m = Some [].

Lemma replace_stars_app ex a b : replace_stars ex (a ++ b) = replace_stars ex a ++ replace_stars ex b.
Proof.
  induction a as [|i a IH]; simpl; [reflexivity|].
  destruct i as [m|f x].
  - destruct (is_relative m); [simpl; rewrite IH; reflexivity|].
    destruct (ex m) as [[|y l]|]; simpl; try (rewrite IH; reflexivity).
    rewrite IH, app_assoc. reflexivity.
  - rewrite IH. reflexivity.
Qed.

Lemma replace_star_fails ex m : star_fails ex m -> replace_stars ex [Star m] = [Star m].
Proof.
  intros [H|[H|H]]; simpl; rewrite H; [reflexivity| |]; destruct (is_relative m); reflexivity.
Qed.

(* if every star import of the block fails, the import list is kept verbatim *)
Theorem verbatim_when_all_fail ex imps :
  (forall m, In (Star m) imps -> star_fails ex m) -> replace_stars ex imps = imps.
Proof.
  induction imps as [|i r IH]; intros H; [reflexivity|].
  change (i :: r) with ([i] ++ r). rewrite replace_stars_app, IH by (intros m Hm; apply H; right; exact Hm).
  destruct i as [m|f x]; [|reflexivity].
  rewrite replace_star_fails by (apply H; left; reflexivity). reflexivity.
Qed.

(* ---------- shadow ---------- *)

Lemma same_key_refl i : same_key i i = true.
Proof. destruct i; simpl; apply str_eqb_refl. Qed.

Lemma same_key_sym a b : same_key a b = same_key b a.
Proof. destruct a, b; simpl; try reflexivity; apply str_eqb_sym. Qed.

Lemma same_key_trans a b c : same_key a b = true -> same_key b c = true -> same_key a c = true.
Proof.
  destruct a, b, c; simpl; try discriminate; rewrite !str_eqb_eq; congruence.
Qed.

Lemma same_key_star m j : same_key (Star m) j = true -> j = Star m.
Proof. destruct j; simpl; [|discriminate]. rewrite str_eqb_eq. congruence. Qed.

Lemma shadow_subset i l : In i (shadow l) -> In i l.
Proof.
  induction l as [|j r IH]; simpl; [auto|].
  destruct (existsb (same_key j) r); simpl; intuition.
Qed.

(* every key of the list survives (through its last holder) *)
Lemma shadow_keeps_key i l : In i l -> exists j, In j (shadow l) /\ same_key i j = true.
Proof.
  revert i. induction l as [|k r IH]; intros i Hin; [destruct Hin|]. simpl.
  destruct Hin as [->|Hin].
  - destruct (existsb (same_key i) r) eqn:E.
    + apply existsb_exists in E. destruct E as [j [Hj Hk]].
      destruct (IH j Hj) as [j' [Hj' Hk']]. exists j'. split; [exact Hj'|].
      eapply same_key_trans; eassumption.
    + exists i. split; [left; reflexivity|apply same_key_refl].
  - destruct (IH i Hin) as [j [Hj Hk]]. exists j. split; [|exact Hk].
    destruct (existsb (same_key k) r); [exact Hj|right; exact Hj].
Qed.

(* no two surviving imports share a key *)
Fixpoint keys_distinct (l : list imp) : Prop :=
  match l with
  | [] => True
  | i :: r => (forall j, In j r -> same_key i j = false) /\ keys_distinct r
  end.

Lemma shadow_keys_distinct l : keys_distinct (shadow l).
Proof.
  induction l as [|i r IH]; simpl; [exact I|].
  destruct (existsb (same_key i) r) eqn:E; [exact IH|]. simpl. split; [|exact IH].
  intros j Hj. apply shadow_subset in Hj.
  destruct (same_key i j) eqn:Ek; [|reflexivity].
  assert (existsb (same_key i) r = true) as Ht by (apply existsb_exists; exists j; split; assumption).
  congruence.
Qed.

Lemma binding_of_none_no_key x l :
  binding_of x l = None -> forall f, existsb (same_key (Plain f x)) l = false.
Proof.
  induction l as [|i r IH]; intros H f; simpl in *; [reflexivity|].
  destruct (binding_of x r) eqn:E; [discriminate|].
  rewrite (IH eq_refl f), orb_false_r.
  destruct i as [m|g a]; simpl; [reflexivity|].
  destruct (str_eqb a x) eqn:Ea; [discriminate|]. rewrite str_eqb_sym. exact Ea.
Qed.

Lemma existsb_key_binding f x r :
  existsb (same_key (Plain f x)) r = true -> binding_of x r <> None.
Proof.
  intros H Hn. rewrite (binding_of_none_no_key x r Hn f) in H. discriminate.
Qed.

(* shadowing is last-wins: the import that binds a name when the statements run in order is the
   one that survives *)
Theorem shadow_last_wins x l : binding_of x (shadow l) = binding_of x l.
Proof.
  induction l as [|i r IH]; simpl; [reflexivity|].
  destruct (existsb (same_key i) r) eqn:E.
  - rewrite IH. destruct (binding_of x r) eqn:Eb; [reflexivity|].
    destruct i as [m|f a]; [reflexivity|].
    destruct (str_eqb a x) eqn:Ea; [|reflexivity].
    apply str_eqb_eq in Ea. subst a. exfalso. exact (existsb_key_binding f x r E Eb).
  - simpl. rewrite IH. reflexivity.
Qed.

(* ---------- star_replace_conservative ---------- *)

(* (a) a star import that cannot be inspected / exports nothing / is relative stays in the block *)
Theorem star_kept_on_failure ex imps m :
  In (Star m) imps -> star_fails ex m -> In (Star m) (replace_block ex imps).
Proof.
  intros Hin Hf. unfold replace_block.
  assert (In (Star m) (replace_stars ex imps)) as H.
  { apply in_split in Hin. destruct Hin as [a [b ->]].
    change (a ++ Star m :: b) with (a ++ [Star m] ++ b).
    rewrite !replace_stars_app, replace_star_fails by exact Hf.
    apply in_or_app. right. left. reflexivity. }
  destruct (shadow_keeps_key _ _ H) as [j [Hj Hk]].
  apply same_key_star in Hk. subst j. exact Hj.
Qed.

(* (a') and nothing else changes when all of them fail *)
Theorem block_unchanged_when_all_fail ex imps x :
  (forall m, In (Star m) imps -> star_fails ex m) ->
  binding_of x (replace_block ex imps) = binding_of x imps /\
  (forall i, In i (replace_block ex imps) -> In i imps).
Proof.
  intros H. unfold replace_block. rewrite (verbatim_when_all_fail ex imps H). split.
  - apply shadow_last_wins.
  - intros i. apply shadow_subset.
Qed.

Lemma replace_star_ok ex m l :
  is_relative m = false -> ex m = Some l -> l <> [] ->
  replace_stars ex [Star m] = map (export_import m) l.
Proof.
  intros Hr He Hl. simpl. rewrite Hr, He. destruct l; [contradiction|]. rewrite app_nil_r. reflexivity.
Qed.

Lemma binding_of_app x a b :
  binding_of x (a ++ b) = match binding_of x b with Some j => Some j | None => binding_of x a end.
Proof.
  induction a as [|i a IH]; simpl.
  - destruct (binding_of x b); reflexivity.
  - rewrite IH. destruct (binding_of x b); reflexivity.
Qed.

Lemma binding_of_exports x m l :
  binding_of x (map (export_import m) l) = if existsb (str_eqb x) l then Some (export_import m x) else None.
Proof.
  induction l as [|y l IH]; simpl; [reflexivity|].
  rewrite IH. destruct (existsb (str_eqb x) l); [rewrite orb_true_r; reflexivity|].
  rewrite orb_false_r, str_eqb_sym.
  destruct (str_eqb x y) eqn:E; [|reflexivity]. apply str_eqb_eq in E. subst. reflexivity.
Qed.

Lemma no_star_in_exports m' m l : ~ In (Star m') (map (export_import m) l).
Proof. intros H. apply in_map_iff in H. destruct H as [y [Hy _]]. discriminate. Qed.

(* (b) a star import whose module exports l <> [] is replaced by exactly  from M import x  for
   x in l, at the star's position: every exported name is bound afterwards - by the export, or by
   a later import of the block that shadows it (last wins) - and the star import is gone *)
Theorem star_replaced ex a m b l x :
  is_relative m = false -> ex m = Some l -> l <> [] -> In x l ->
  binding_of x (replace_block ex (a ++ Star m :: b)) =
    match binding_of x (replace_stars ex b) with
    | Some j => Some j
    | None => Some (export_import m x)
    end.
Proof.
  intros Hr He Hl Hx. unfold replace_block. rewrite shadow_last_wins.
  change (a ++ Star m :: b) with (a ++ [Star m] ++ b).
  rewrite !replace_stars_app, (replace_star_ok ex m l Hr He Hl), !binding_of_app.
  destruct (binding_of x (replace_stars ex b)); [reflexivity|].
  rewrite binding_of_exports.
  assert (existsb (str_eqb x) l = true) as ->; [|reflexivity].
  apply existsb_exists. exists x. split; [exact Hx|apply str_eqb_refl].
Qed.

Theorem star_gone ex imps m l :
  is_relative m = false -> ex m = Some l -> l <> [] -> ~ In (Star m) (replace_block ex imps).
Proof.
  intros Hr He Hl H. unfold replace_block in H. apply shadow_subset in H.
  induction imps as [|i r IH]; simpl in H; [exact H|].
  destruct i as [m'|f y].
  - destruct (is_relative m') eqn:Er.
    + destruct H as [H|H]; [inversion H; subst; congruence|exact (IH H)].
    + destruct (ex m') as [[|z l']|] eqn:Ee.
      * destruct H as [H|H]; [inversion H; subst|exact (IH H)]. rewrite He in Ee. inversion Ee. subst. contradiction.
      * apply in_app_or in H. destruct H as [H|H]; [exact (no_star_in_exports _ _ _ H)|exact (IH H)].
      * destruct H as [H|H]; [inversion H; subst; congruence|exact (IH H)].
  - destruct H as [H|H]; [discriminate|exact (IH H)].
Qed.

(* (c) an ordinary import is touched by nothing but shadowing *)
Theorem plain_kept ex imps f x :
  In (Plain f x) imps -> exists j, binding_of x (replace_block ex imps) = Some j.
Proof.
  intros Hin. unfold replace_block. rewrite shadow_last_wins.
  apply in_split in Hin. destruct Hin as [a [b ->]].
  change (a ++ Plain f x :: b) with (a ++ [Plain f x] ++ b).
  rewrite !replace_stars_app, !binding_of_app.
  destruct (binding_of x (replace_stars ex b)) as [j|]; [exists j; reflexivity|].
  simpl. rewrite str_eqb_refl. eexists. reflexivity.
Qed.

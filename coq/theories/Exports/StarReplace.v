(* M17 (b): pyflyby._imports2s.replace_star_imports, per import block, and the
   ImportSet(..., ignore_shadowed=True) it ends with.  Model only; proofs in StarReplaceProofs.v.

   An import of the block is either  `from M import *`  (Star M)  or anything else (Plain fullname
   import_as).  `exports_of M` is ModuleHandle(M).exports:  None = an exception escaped,
   Some [] = Python None / empty, Some l = the export list (Exports/Scan.v). *)
From Coq Require Import NArith List Bool.
From Verif Require Import Base.Chars Base.StrX.
Import ListNotations.

Inductive imp :=
| Star (m : str)
| Plain (full as_ : str).

Definition is_relative (m : str) : bool :=
  match m with c :: _ => (c =? c_dot)%N | [] => false end.

Definition export_import (m x : str) : imp := Plain (m ++ c_dot :: x) x.

(*  new_imports = []
    for imp in imports:
        if imp.split.member_name != "*": new_imports.append(imp)
        elif imp.split.module_name.startswith("."): new_imports.append(imp)      # warning
        else:
            try: exports = module.exports
            except Exception: new_imports.append(imp); continue                   # warning
            if not exports: new_imports.append(imp)                               # warning
            else: new_imports.extend(exports)                                                *)
Fixpoint replace_stars (exports_of : str -> option (list str)) (imps : list imp) : list imp :=
  match imps with
  | [] => []
  | Plain f a :: r => Plain f a :: replace_stars exports_of r
  | Star m :: r =>
      if is_relative m then Star m :: replace_stars exports_of r
      else match exports_of m with
           | None => Star m :: replace_stars exports_of r
           | Some [] => Star m :: replace_stars exports_of r
           | Some l => map (export_import m) l ++ replace_stars exports_of r
           end
  end.

(*  by_import_as = {}
    for imp in _imports:
        if imp.import_as == "*": by_import_as[imp] = imp        # keep all unique star imports
        else: by_import_as[imp.import_as] = imp                 # later imports take precedence
    filtered_imports = list(by_import_as.values());  self._importset = frozenset(filtered_imports)
   A dict keeps one value per key - the last one stored.  The result is a set: the model keeps an
   import iff no later import of the list has the same key (for a Plain: the same import_as; for a
   Star: is the same star import). *)
Definition same_key (a b : imp) : bool :=
  match a, b with
  | Star m, Star m' => str_eqb m m'
  | Plain _ x, Plain _ y => str_eqb x y
  | _, _ => false
  end.

Fixpoint shadow (l : list imp) : list imp :=
  match l with
  | [] => []
  | i :: r => if existsb (same_key i) r then shadow r else i :: shadow r
  end.

(*  block.importset = ImportSet(new_imports, ignore_shadowed=True)  *)
Definition replace_block (exports_of : str -> option (list str)) (imps : list imp) : list imp :=
  shadow (replace_stars exports_of imps).

(* which import of a list binds the local name x when the statements run in order: the last one *)
Fixpoint binding_of (x : str) (l : list imp) : option imp :=
  match l with
  | [] => None
  | i :: r => match binding_of x r with
              | Some j => Some j
              | None => match i with
                        | Plain _ a => if str_eqb a x then Some i else None
                        | Star _ => None
                        end
              end
  end.

(* Entry points evaluated by the correspondence harness (harness/c19.py). *)
From Coq Require Import NArith List String Bool.
From Verif Require Import Base.Chars Base.StrX Base.Show Exports.Scan Exports.StarReplace.
Import ListNotations.
Open Scope string_scope.

(* an oracle given as an association list; a name that was not supplied is reported by the
   harness (it checks that every queried name is in the list), the default is never relied on *)
Fixpoint assoc {B} (d : B) (l : list (str * B)) (k : str) : B :=
  match l with
  | [] => d
  | (k', v) :: r => if str_eqb k k' then v else assoc d r k
  end.

Definition show_exports (r : option (list str)) : string :=
  match r with
  | None => """EXC"""
  | Some [] => "null"
  | Some l => show_list show_str l
  end.

Definition run_exports (name : str) (is_init : bool) (ex : list (str * bool)) (summary : option (list node)) : string :=
  show_obj [("exports", show_exports (module_exports name is_init (assoc false ex) summary));
            ("queried", show_list show_str
               (match summary with
                | Some ns => flat_map (fun n => match n with
                     | NImportFrom level md names =>
                         match from_mod_of name is_init level md with
                         | Some fm => map (fun na => dot_add fm (local_name na))
                                          (filter (fun na => negb (str_eqb (fst na) c_star_name)) names)
                         | None => []
                         end
                     | _ => [] end) ns
                | None => [] end));
            ("bound", show_list show_str (match summary with Some ns => bound_after ns | None => [] end))].

Definition show_imp (i : imp) : string :=
  match i with
  | Star m => show_list show_str [(m ++ [c_dot; c_star])%list; [c_star]]
  | Plain f a => show_list show_str [f; a]
  end.

Definition run_replace (exports_of : list (str * option (list str))) (imps : list imp) : string :=
  show_list show_imp (replace_block (assoc None exports_of) imps).

(* M17 (a): pyflyby._modules.ModuleHandle._member_from_node and ModuleHandle.exports
   (the static scan behind collect-exports and replace-star-imports), as repaired by
   fixes/F18-exports-member-from-node.diff and fixes/C19a-exports-annotated-all.diff.  Model only; proofs are in ScanProofs.v.

   The module source enters as a *summary*: the list of top-level `ast` nodes reduced to what the
   scan looks at.  It is produced by the harness from CPython's `ast` on the very file the
   implementation reads (oracle argument); `ast.literal_eval` + `list(...)` on the value of an
   assignment is part of that oracle (constructor `lit`); `ModuleHandle(d).exists` is the oracle
   `ex : str -> bool`. *)
From Coq Require Import NArith List Bool.
From Verif Require Import Base.Chars Base.StrX.
Import ListNotations.

(* assignment targets: ast.Name | ast.Tuple / ast.List | ast.Starred | anything else *)
Inductive target :=
| TName (n : str)
| TSeq (ts : list target)
| TStar (t : target)
| TOther.

(* list(ast.literal_eval(value)):  LitOK entries (an entry that is not a `str` is None)
   | LitFail (ValueError / TypeError, i.e. "not a literal") *)
Inductive lit :=
| LitOK (entries : list (option str))
| LitFail.

Inductive node :=
| NAssign (ts : list target) (v : lit)                 (* t1 = t2 = ... = value *)
| NAnnAssign (t : target) (v : option lit)             (* t: ann [= value]; None: no value *)
| NClassDef (n : str)
| NFunctionDef (n : str)
| NAsyncFunctionDef (n : str)
| NImportFrom (level : nat) (md : option str) (names : list (str * option str))
| NAugAssign (t : target) (v : lit)                    (* t op= value *)
| NDel (ts : list target)                              (* del t1, t2 : only in the mini-semantics *)
| NOther.

Definition all_name : str := [95; 95; 97; 108; 108; 95; 95]%N.      (* "__all__" *)

Definition mem_str (x : str) (l : list str) : bool := existsb (str_eqb x) l.

(*  def target_names(t):
        if isinstance(t, ast.Name): return [t.id]
        if isinstance(t, (ast.Tuple, ast.List)): return [n for e in t.elts for n in target_names(e)]
        if isinstance(t, ast.Starred): return target_names(t.value)
        return []                                                                          *)
Fixpoint target_names (t : target) : list str :=
  match t with
  | TName n => [n]
  | TSeq ts => (fix go (l : list target) : list str :=
                  match l with [] => [] | x :: r => target_names x ++ go r end) ts
  | TStar t' => target_names t'
  | TOther => []
  end.

(*  extractors = {
      ast.Assign: lambda x: [n for t in x.targets for n in target_names(t)],
      ast.AnnAssign: lambda x: target_names(x.target) if x.value is not None else [],
      ast.ClassDef: lambda x: [x.name], ast.FunctionDef: lambda x: [x.name],
      ast.AsyncFunctionDef: lambda x: [x.name] }
    if isinstance(node, tuple(extractors.keys())): return extractors[type(node)](node)
    return []                                                                              *)
Definition member_from_node (n : node) : list str :=
  match n with
  | NAssign ts _ => flat_map target_names ts
  | NAnnAssign t v => match v with Some _ => target_names t | None => [] end
  | NClassDef x => [x]
  | NFunctionDef x => [x]
  | NAsyncFunctionDef x => [x]
  | _ => []
  end.

(* the code before the F18 repair (kept for the F18 witness only):
      ast.Assign: lambda x: [t.id for t in x.targets if isinstance(t, ast.Name)],
      ast.ClassDef / ast.FunctionDef: [x.name]                                            *)
Definition member_from_node_v0 (n : node) : list str :=
  match n with
  | NAssign ts _ => flat_map (fun t => match t with TName x => [x] | _ => [] end) ts
  | NClassDef x => [x]
  | NFunctionDef x => [x]
  | _ => []
  end.

(*  members = list(itertools.chain( *[self._member_from_node(n) for n in ast_mod]))  *)
Definition members_with (mfn : node -> list str) (ns : list node) : list str := flat_map mfn ns.
Definition members := members_with member_from_node.

(*  for n in ast_mod:
        if isinstance(n, (ast.Assign, ast.AnnAssign)):                   (AnnAssign: C19-a repair)
            if "__all__" in self._member_from_node(n):
                try: all_members = list(ast.literal_eval(n.value)); all_is_good = True
                except (ValueError, TypeError): all_is_good = False
        elif isinstance(n, ast.AugAssign) and isinstance(n.target, ast.Name) and \
             n.target.id == "__all__" and all_is_good:
            try: all_members += list(ast.literal_eval(n.value))
            except (ValueError, TypeError): all_is_good = False                               *)
Definition is_all_aug (t : target) : bool :=
  match t with TName x => str_eqb x all_name | _ => false end.

(* the value assigned to __all__ by a plain or annotated assignment statement, if n is one *)
Definition all_assign_of (mfn : node -> list str) (n : node) : option lit :=
  match n with
  | NAssign _ v => if mem_str all_name (mfn n) then Some v else None
  | NAnnAssign _ (Some v) => if mem_str all_name (mfn n) then Some v else None
  | _ => None
  end.

Fixpoint scan_all (mfn : node -> list str) (ns : list node) (good : bool) (acc : list (option str))
  : bool * list (option str) :=
  match ns with
  | [] => (good, acc)
  | n :: r =>
      match all_assign_of mfn n with
      | Some (LitOK l) => scan_all mfn r true l
      | Some LitFail => scan_all mfn r false acc
      | None =>
          match n with
          | NAugAssign t v =>
              if is_all_aug t && good then
                match v with
                | LitOK l => scan_all mfn r true (acc ++ l)
                | LitFail => scan_all mfn r false acc
                end
              else scan_all mfn r good acc
          | _ => scan_all mfn r good acc
          end
      end
  end.

(*  all_is_good = False; all_members = []
    if "__all__" in members: <loop above>                                                 *)
Definition all_scan (mfn : node -> list str) (ns : list node) : bool * list (option str) :=
  if mem_str all_name (members_with mfn ns) then scan_all mfn ns false [] else (false, []).

(* DottedIdentifier.startswith:  self.parts[:len(o.parts)] == o.parts *)
Fixpoint parts_prefix (p l : list str) : bool :=
  match p, l with
  | [], _ => true
  | x :: p', y :: l' => str_eqb x y && parts_prefix p' l'
  | _ :: _, [] => false
  end.
Definition dotted_startswith (s o : str) : bool := parts_prefix (split_on c_dot o) (split_on c_dot s).

(* DottedIdentifier.__add__:  "%s.%s" % (self, suffix) *)
Definition dot_add (a b : str) : str := a ++ c_dot :: b.

(*  if imp_node.level == 0:
        from_mod = DottedIdentifier(imp_node.module)
        if not from_mod.startswith(self.name): continue
    elif imp_node.level == 1 and filename.base == "__init__.py":
        from_mod = self.name
        if imp_node.module: from_mod += imp_node.module
    else: continue                                                                         *)
Definition from_mod_of (name : str) (is_init : bool) (level : nat) (md : option str) : option str :=
  match level with
  | O => match md with
         | Some m => if dotted_startswith m name then Some m else None
         | None => None
         end
  | S O => if is_init then Some (match md with Some m => dot_add name m | None => name end) else None
  | _ => None
  end.

Definition c_star_name : str := [c_star].

(*  for n in imp_node.names:
        m  = n.asname or n.name
        if n.name != "*" and not ModuleHandle(from_mod + m).exists: members.append(m)      *)
Definition local_name (na : str * option str) : str :=
  match snd na with Some a => a | None => fst na end.

Definition import_members_of (ex : str -> bool) (from_mod : str) (names : list (str * option str)) : list str :=
  flat_map (fun na => let m := local_name na in
                      if negb (str_eqb (fst na) c_star_name) && negb (ex (dot_add from_mod m)) then [m] else [])
           names.

Definition import_members (name : str) (is_init : bool) (ex : str -> bool) (ns : list node) : list str :=
  flat_map (fun n => match n with
                     | NImportFrom level md names =>
                         match from_mod_of name is_init level md with
                         | Some fm => import_members_of ex fm names
                         | None => []
                         end
                     | _ => []
                     end) ns.

(*  members = [n for n in members if not n.startswith("_")]      (raises on a non-str entry)
    members = tuple([(n, None) for n in members if "." not in n])                         *)
Definition is_private (x : str) : bool := match x with c :: _ => (c =? c_us)%N | [] => false end.
Definition has_dot (x : str) : bool := mem_ch c_dot x.

Fixpoint all_str (l : list (option str)) : option (list str) :=
  match l with
  | [] => Some []
  | None :: _ => None
  | Some x :: r => match all_str r with Some r' => Some (x :: r') | None => None end
  end.

Definition public_filter (l : list str) : list str :=
  filter (fun x => negb (has_dot x)) (filter (fun x => negb (is_private x)) l).

(* ModuleHandle.exports on an inspectable module.
   None = an exception escapes (non-string entry in a literal __all__);
   Some [] = Python `None` ("nothing exported");
   Some l  = ImportSet([ImportStatement.from_parts(name, l)]) - a set: order and repetitions of l
             are not observable. *)
Definition exports_with (mfn : node -> list str) (name : str) (is_init : bool) (ex : str -> bool)
                        (ns : list node) : option (list str) :=
  let '(good, allm) := all_scan mfn ns in
  if good then
    match all_str allm with
    | Some l => Some (public_filter l)
    | None => None
    end
  else Some (public_filter (members_with mfn ns ++ import_members name is_init ex ns)).

Definition exports := exports_with member_from_node.
Definition exports_v0 := exports_with member_from_node_v0.

(* the module cannot be inspected (no file / import error / SyntaxError in ast.parse): summary = None *)
Definition module_exports (name : str) (is_init : bool) (ex : str -> bool) (summary : option (list node))
  : option (list str) :=
  match summary with
  | None => None
  | Some ns => exports name is_init ex ns
  end.

(* ---------- mini-semantics of top-level binding (used by the `importable` theorem) ----------
   A state is the list of names bound in the module namespace; statements are executed in order,
   every statement completes.  `NOther` and star imports bind/unbind nothing that matters here
   (additional bindings only make more names importable). *)
Definition binds (n : node) : list str :=
  match n with
  | NAssign ts _ => flat_map target_names ts
  | NAnnAssign t v => match v with Some _ => target_names t | None => [] end
  | NClassDef x => [x]
  | NFunctionDef x => [x]
  | NAsyncFunctionDef x => [x]
  | NImportFrom _ _ names => flat_map (fun na => if str_eqb (fst na) c_star_name then [] else [local_name na]) names
  | NAugAssign t _ => []
  | NDel _ => []
  | NOther => []
  end.

Definition unbinds (n : node) : list str :=
  match n with NDel ts => flat_map target_names ts | _ => [] end.

Definition exec_node (bound : list str) (n : node) : list str :=
  filter (fun x => negb (mem_str x (unbinds n))) bound ++ binds n.

Definition bound_after (ns : list node) : list str := fold_left exec_node ns [].

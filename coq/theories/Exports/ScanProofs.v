(* Proofs about Exports/Scan.v (C19: all_literal, no_all, never_private, never_foreign, importable). *)
From Coq Require Import NArith List Bool Lia.
From Verif Require Import Base.Chars Base.StrX Base.StrXProofs Exports.Scan.
Import ListNotations.

(* ---------- small facts ---------- *)

Lemma mem_str_In x l : mem_str x l = true <-> In x l.
Proof.
  unfold mem_str. rewrite existsb_exists. split.
  - intros [y [Hy He]]. apply str_eqb_eq in He. subst. exact Hy.
  - intros H. exists x. split; [exact H|apply str_eqb_refl].
Qed.

Lemma mem_str_false x l : mem_str x l = false <-> ~ In x l.
Proof.
  rewrite <- mem_str_In. destruct (mem_str x l); split; intros H; try congruence.
Qed.

Lemma all_str_Some l l' : all_str l = Some l' <-> l = map Some l'.
Proof.
  revert l'. induction l as [|e l IH]; intros l'; simpl.
  - split.
    + intros H. inversion H. reflexivity.
    + intros H. destruct l'; [reflexivity|discriminate].
  - destruct e as [x|].
    + destruct (all_str l) as [r|] eqn:E.
      * split.
        -- intros H. inversion H; subst. simpl. f_equal. apply IH. reflexivity.
        -- intros H. destruct l' as [|y l']; [discriminate|]. simpl in H. inversion H; subst.
           f_equal. f_equal. assert (Some r = Some l') as Hr by (apply IH; reflexivity).
           inversion Hr. reflexivity.
      * split; [discriminate|].
        intros H. destruct l' as [|y l']; [discriminate|]. simpl in H. inversion H; subst.
        assert (None = Some l') as Hr by (apply IH; reflexivity). discriminate.
    + split; [discriminate|]. intros H. destruct l'; discriminate.
Qed.

Lemma all_str_None l : all_str l = None <-> In None l.
Proof.
  induction l as [|e l IH]; simpl.
  - split; [discriminate|intros []].
  - destruct e as [x|].
    + destruct (all_str l) eqn:E.
      * split; [discriminate|]. intros [H|H]; [discriminate|]. apply IH in H. discriminate.
      * split; [|reflexivity]. intros _. right. apply IH. reflexivity.
    + split; [|reflexivity]. intros _. left. reflexivity.
Qed.

Lemma public_filter_In x l :
  In x (public_filter l) <-> In x l /\ is_private x = false /\ has_dot x = false.
Proof.
  unfold public_filter. rewrite !filter_In, !negb_true_iff. tauto.
Qed.

(* ---------- the __all__ scan ---------- *)

Lemma all_assign_mem mfn n v : all_assign_of mfn n = Some v -> In all_name (mfn n).
Proof.
  destruct n; simpl; try discriminate.
  - destruct (mem_str all_name (mfn (NAssign ts v0))) eqn:E; [|discriminate]. intros _. apply mem_str_In. exact E.
  - destruct v0 as [v0|]; [|discriminate].
    destruct (mem_str all_name (mfn (NAnnAssign t (Some v0)))) eqn:E; [|discriminate]. intros _. apply mem_str_In. exact E.
Qed.

Lemma scan_all_app mfn a b g acc :
  scan_all mfn (a ++ b) g acc = scan_all mfn b (fst (scan_all mfn a g acc)) (snd (scan_all mfn a g acc)).
Proof.
  revert g acc. induction a as [|n a IH]; intros g acc; simpl; [reflexivity|].
  destruct (all_assign_of mfn n) as [[l|]|]; try apply IH.
  destruct n; try apply IH.
  destruct (is_all_aug t && g); [destruct v|]; apply IH.
Qed.

(* no later plain or annotated assignment binds __all__ *)
Definition no_all_assign (mfn : node -> list str) (ns : list node) : Prop :=
  forall n, In n ns -> all_assign_of mfn n = None.

(* the entries appended by the `__all__ += <literal>` statements of ns;
   None if one of them is not a literal *)
Fixpoint aug_literals (ns : list node) : option (list (option str)) :=
  match ns with
  | [] => Some []
  | NAugAssign t v :: r =>
      if is_all_aug t then
        match v with
        | LitOK l => match aug_literals r with Some ls => Some (l ++ ls) | None => None end
        | LitFail => None
        end
      else aug_literals r
  | _ :: r => aug_literals r
  end.

Lemma no_all_assign_cons mfn n ns : no_all_assign mfn (n :: ns) -> no_all_assign mfn ns.
Proof. intros H n' Hin. apply H. right. exact Hin. Qed.

Lemma scan_all_good_tail mfn post acc ls :
  no_all_assign mfn post -> aug_literals post = Some ls ->
  scan_all mfn post true acc = (true, acc ++ ls).
Proof.
  revert acc ls. induction post as [|n post IH]; intros acc ls Hno Haug; simpl in *.
  - inversion Haug. rewrite app_nil_r. reflexivity.
  - pose proof (no_all_assign_cons _ _ _ Hno) as Hno'.
    rewrite (Hno n (or_introl eq_refl)).
    destruct n; try (apply IH; assumption).
    destruct (is_all_aug t) eqn:Et; simpl.
    + destruct v as [l|]; [|discriminate].
      destruct (aug_literals post) as [ls'|] eqn:El; [|discriminate].
      inversion Haug; subst. rewrite (IH (acc ++ l) ls' Hno' eq_refl), app_assoc. reflexivity.
    + apply IH; assumption.
Qed.

Lemma scan_all_bad_tail mfn post acc :
  no_all_assign mfn post -> fst (scan_all mfn post false acc) = false.
Proof.
  revert acc. induction post as [|n post IH]; intros acc Hno; simpl; [reflexivity|].
  pose proof (no_all_assign_cons _ _ _ Hno) as Hno'.
  rewrite (Hno n (or_introl eq_refl)).
  destruct n; try (apply IH; assumption).
  rewrite andb_false_r. apply IH; assumption.
Qed.

(* a failing `__all__ += ...` after a good assignment spoils it for good *)
Lemma scan_all_aug_fail mfn post acc :
  no_all_assign mfn post -> aug_literals post = None ->
  fst (scan_all mfn post true acc) = false.
Proof.
  revert acc. induction post as [|n post IH]; intros acc Hno Haug; simpl in *; [discriminate|].
  pose proof (no_all_assign_cons _ _ _ Hno) as Hno'.
  rewrite (Hno n (or_introl eq_refl)).
  destruct n; try (apply IH; assumption).
  destruct (is_all_aug t) eqn:Et; simpl.
  - destruct v as [l|].
    + destruct (aug_literals post) eqn:El; [discriminate|]. apply IH; [assumption|reflexivity].
    + apply scan_all_bad_tail. assumption.
  - apply IH; assumption.
Qed.

Lemma members_app mfn a b : members_with mfn (a ++ b) = members_with mfn a ++ members_with mfn b.
Proof. unfold members_with. apply flat_map_app. Qed.

Lemma gate_open mfn pre n v post :
  all_assign_of mfn n = Some v -> mem_str all_name (members_with mfn (pre ++ n :: post)) = true.
Proof.
  intros H. apply mem_str_In. rewrite members_app. apply in_or_app. right.
  unfold members_with. simpl. apply in_or_app. left. eapply all_assign_mem. exact H.
Qed.

Lemma all_scan_last_literal mfn pre n l0 post ls :
  all_assign_of mfn n = Some (LitOK l0) ->
  no_all_assign mfn post -> aug_literals post = Some ls ->
  all_scan mfn (pre ++ n :: post) = (true, l0 ++ ls).
Proof.
  intros Hin Hno Haug. unfold all_scan. rewrite (gate_open mfn pre n _ post Hin).
  rewrite scan_all_app. simpl. rewrite Hin.
  apply scan_all_good_tail; assumption.
Qed.

(* ---------- all_literal ---------- *)

(* n is the last statement assigning __all__ - plain (`__all__ = v`, also as one of several targets) or
   annotated (`__all__: T = v`) - and v is a literal *)
Theorem all_literal name is_init ex pre n l0 post ls entries :
  all_assign_of member_from_node n = Some (LitOK l0) ->
  no_all_assign member_from_node post ->
  aug_literals post = Some ls ->
  all_str (l0 ++ ls) = Some entries ->
  exists l, exports name is_init ex (pre ++ n :: post) = Some l /\
            forall x, In x l <-> (In x entries /\ is_private x = false /\ has_dot x = false).
Proof.
  intros Hin Hno Haug Hstr. unfold exports, exports_with.
  rewrite (all_scan_last_literal member_from_node pre n l0 post ls Hin Hno Haug).
  rewrite Hstr. eexists. split; [reflexivity|]. intros x. apply public_filter_In.
Qed.

(* a non-string entry makes the scan raise (AttributeError on n.startswith) *)
Theorem all_literal_nonstring name is_init ex pre n l0 post ls :
  all_assign_of member_from_node n = Some (LitOK l0) ->
  no_all_assign member_from_node post ->
  aug_literals post = Some ls ->
  In None (l0 ++ ls) ->
  exports name is_init ex (pre ++ n :: post) = None.
Proof.
  intros Hin Hno Haug Hnone. unfold exports, exports_with.
  rewrite (all_scan_last_literal member_from_node pre n l0 post ls Hin Hno Haug).
  apply all_str_None in Hnone. rewrite Hnone. reflexivity.
Qed.

(* what all_assign_of means on the two statement forms *)
Lemma all_assign_plain ts v :
  In all_name (flat_map target_names ts) -> all_assign_of member_from_node (NAssign ts v) = Some v.
Proof. intros H. simpl. apply mem_str_In in H. rewrite H. reflexivity. Qed.

Lemma all_assign_annotated t v :
  In all_name (target_names t) -> all_assign_of member_from_node (NAnnAssign t (Some v)) = Some v.
Proof. intros H. simpl. apply mem_str_In in H. rewrite H. reflexivity. Qed.

Lemma all_assign_forms : forall ts t v,
  (In all_name (flat_map target_names ts) -> all_assign_of member_from_node (NAssign ts v) = Some v) /\
  (In all_name (target_names t) -> all_assign_of member_from_node (NAnnAssign t (Some v)) = Some v).
Proof. intros ts t v. split; [apply all_assign_plain|apply all_assign_annotated]. Qed.

(* ---------- when is __all__ "not good" ---------- *)

Lemma not_good_no_all_name mfn ns :
  ~ In all_name (members_with mfn ns) -> fst (all_scan mfn ns) = false.
Proof.
  intros H. unfold all_scan. apply mem_str_false in H. rewrite H. reflexivity.
Qed.

Lemma not_good_nonliteral mfn pre n post :
  all_assign_of mfn n = Some LitFail -> no_all_assign mfn post ->
  fst (all_scan mfn (pre ++ n :: post)) = false.
Proof.
  intros Hin Hno. unfold all_scan. rewrite (gate_open mfn pre n _ post Hin).
  rewrite scan_all_app. simpl. rewrite Hin. apply scan_all_bad_tail. exact Hno.
Qed.

Lemma not_good_aug_nonliteral mfn pre n l0 post :
  all_assign_of mfn n = Some (LitOK l0) -> no_all_assign mfn post -> aug_literals post = None ->
  fst (all_scan mfn (pre ++ n :: post)) = false.
Proof.
  intros Hin Hno Haug. unfold all_scan. rewrite (gate_open mfn pre n _ post Hin).
  rewrite scan_all_app. simpl. rewrite Hin. apply scan_all_aug_fail; assumption.
Qed.

Lemma not_good_cases : forall ns,
  (~ In all_name (members ns) -> fst (all_scan member_from_node ns) = false) /\
  (forall pre n post, ns = pre ++ n :: post ->
     all_assign_of member_from_node n = Some LitFail -> no_all_assign member_from_node post ->
     fst (all_scan member_from_node ns) = false) /\
  (forall pre n l0 post, ns = pre ++ n :: post ->
     all_assign_of member_from_node n = Some (LitOK l0) -> no_all_assign member_from_node post ->
     aug_literals post = None ->
     fst (all_scan member_from_node ns) = false).
Proof.
  intros ns. split; [|split].
  - exact (not_good_no_all_name member_from_node ns).
  - intros pre n post ->. exact (not_good_nonliteral member_from_node pre n post).
  - intros pre n l0 post ->. exact (not_good_aug_nonliteral member_from_node pre n l0 post).
Qed.

(* ---------- no_all ---------- *)

(* x is from-imported (under the local name x) from the module's own package subtree and
   <from_mod>.x is not itself a module *)
Definition reexported (name : str) (is_init : bool) (ex : str -> bool) (ns : list node) (x : str) : Prop :=
  exists level md names na fm,
    In (NImportFrom level md names) ns /\ In na names /\
    from_mod_of name is_init level md = Some fm /\
    fst na <> c_star_name /\ local_name na = x /\ ex (dot_add fm x) = false.

Lemma import_members_of_In ex fm names x :
  In x (import_members_of ex fm names) <->
  exists na, In na names /\ fst na <> c_star_name /\ local_name na = x /\ ex (dot_add fm x) = false.
Proof.
  unfold import_members_of. rewrite in_flat_map. split.
  - intros [na [Hna Hx]]. exists na.
    destruct (str_eqb (fst na) c_star_name) eqn:Es; simpl in Hx; [destruct Hx|].
    destruct (ex (dot_add fm (local_name na))) eqn:Ee; simpl in Hx; [destruct Hx|].
    destruct Hx as [Hx|[]]. subst x. repeat split; try assumption.
    intros Heq. apply str_eqb_eq in Heq. congruence.
  - intros [na [Hna [Hs [Hl He]]]]. exists na. split; [exact Hna|].
    assert (str_eqb (fst na) c_star_name = false) as ->.
    { destruct (str_eqb (fst na) c_star_name) eqn:Es; [|reflexivity]. apply str_eqb_eq in Es. contradiction. }
    rewrite Hl, He. simpl. left. reflexivity.
Qed.

Lemma import_members_In name is_init ex ns x :
  In x (import_members name is_init ex ns) <-> reexported name is_init ex ns x.
Proof.
  unfold import_members, reexported. rewrite in_flat_map. split.
  - intros [n [Hn Hx]]. destruct n; try (destruct Hx).
    destruct (from_mod_of name is_init level md) as [fm|] eqn:Ef; [|destruct Hx].
    apply import_members_of_In in Hx. destruct Hx as [na [H1 [H2 [H3 H4]]]].
    exists level, md, names, na, fm. repeat split; assumption.
  - intros [level [md [names [na [fm [H1 [H2 [H3 [H4 [H5 H6]]]]]]]]]].
    exists (NImportFrom level md names). split; [exact H1|]. rewrite H3.
    apply import_members_of_In. exists na. repeat split; assumption.
Qed.

Theorem no_all name is_init ex ns :
  fst (all_scan member_from_node ns) = false ->
  exists l, exports name is_init ex ns = Some l /\
            forall x, In x l <-> (is_private x = false /\ has_dot x = false /\
                                  (In x (members ns) \/ reexported name is_init ex ns x)).
Proof.
  intros Hbad. unfold exports, exports_with.
  destruct (all_scan member_from_node ns) as [g allm]. simpl in Hbad. subst g.
  eexists. split; [reflexivity|]. intros x.
  rewrite public_filter_In, in_app_iff, import_members_In. unfold members. tauto.
Qed.

(* whatever the branch, no private name is exported *)
Theorem never_private name is_init ex ns l x :
  exports name is_init ex ns = Some l -> In x l -> is_private x = false.
Proof.
  unfold exports, exports_with. destruct (all_scan member_from_node ns) as [g allm].
  destruct g.
  - destruct (all_str allm); [|discriminate]. intros H Hx. inversion H; subst.
    apply public_filter_In in Hx. tauto.
  - intros H Hx. inversion H; subst. apply public_filter_In in Hx. tauto.
Qed.

(* "own package subtree" on plain strings *)
Lemma parts_prefix_iff p l : parts_prefix p l = true <-> exists r, l = p ++ r.
Proof.
  revert l; induction p as [|x p IH]; intros l; simpl.
  - split; [intros _; exists l; reflexivity|reflexivity].
  - destruct l as [|y l].
    + split; [discriminate|intros [r Hr]; discriminate].
    + rewrite andb_true_iff, str_eqb_eq, IH. split.
      * intros [-> [r ->]]. exists r. reflexivity.
      * intros [r Hr]. inversion Hr; subst. split; [reflexivity|exists r; reflexivity].
Qed.

Lemma dotted_startswith_iff s o :
  dotted_startswith s o = true <-> (s = o \/ exists r, s = o ++ c_dot :: r).
Proof.
  unfold dotted_startswith. rewrite parts_prefix_iff. split.
  - intros [r Hr]. destruct r as [|x r].
    + left. rewrite app_nil_r in Hr.
      rewrite <- (join_split c_dot s), <- (join_split c_dot o), Hr. reflexivity.
    + right. exists (join_with c_dot (x :: r)).
      rewrite <- (join_split c_dot s), Hr, join_with_app by (apply split_on_nonempty || discriminate).
      rewrite join_split. reflexivity.
  - intros [->|[r ->]].
    + exists []. rewrite app_nil_r. reflexivity.
    + exists (split_on c_dot r). apply split_on_app_sep.
Qed.

Lemma from_mod_own_subtree name is_init level md fm :
  from_mod_of name is_init level md = Some fm ->
  (fm = name \/ exists r, fm = name ++ c_dot :: r) /\
  (level = 0 \/ (level = 1 /\ is_init = true)).
Proof.
  unfold from_mod_of. destruct level as [|[|k]].
  - destruct md as [m|]; [|discriminate].
    destruct (dotted_startswith m name) eqn:E; [|discriminate].
    intros H. inversion H; subst. apply dotted_startswith_iff in E. split; [exact E|left; reflexivity].
  - destruct is_init; [|discriminate]. intros H. inversion H; subst. split; [|right; split; reflexivity].
    destruct md as [m|]; [right; exists m; reflexivity|left; reflexivity].
  - discriminate.
Qed.

(* never a name merely imported from elsewhere: an exported name that no top-level
   assignment / def / class binds comes from a `from <own subtree> import`, and is not a submodule *)
Theorem never_foreign name is_init ex ns l x :
  fst (all_scan member_from_node ns) = false ->
  exports name is_init ex ns = Some l -> In x l -> ~ In x (members ns) ->
  exists level md names na fm,
    In (NImportFrom level md names) ns /\ In na names /\ local_name na = x /\ fst na <> c_star_name /\
    from_mod_of name is_init level md = Some fm /\
    (fm = name \/ exists r, fm = name ++ c_dot :: r) /\
    ex (dot_add fm x) = false.
Proof.
  intros Hbad He Hx Hnm. destruct (no_all name is_init ex ns Hbad) as [l' [He' Hl']].
  rewrite He in He'. inversion He'; subst l'. apply Hl' in Hx.
  destruct Hx as [_ [_ [Hm|Hr]]]; [contradiction|].
  destruct Hr as [level [md [names [na [fm [H1 [H2 [H3 [H4 [H5 H6]]]]]]]]]].
  exists level, md, names, na, fm. repeat split; try assumption.
  apply (from_mod_own_subtree _ _ _ _ _ H3).
Qed.

(* ---------- importable (mini-semantics of top-level binding) ---------- *)

Lemma member_binds n x : In x (member_from_node n) -> In x (binds n).
Proof. destruct n; simpl; intros H; try exact H; destruct H. Qed.

Lemma exec_keeps x b n : In x b -> ~ In x (unbinds n) -> In x (exec_node b n).
Proof.
  intros Hb Hu. unfold exec_node. apply in_or_app. left. apply filter_In. split; [exact Hb|].
  apply negb_true_iff. apply mem_str_false. exact Hu.
Qed.

Lemma fold_keeps x ns b :
  In x b -> (forall n, In n ns -> ~ In x (unbinds n)) -> In x (fold_left exec_node ns b).
Proof.
  revert b. induction ns as [|n ns IH]; intros b Hb Hu; simpl; [exact Hb|].
  apply IH.
  - apply exec_keeps; [exact Hb|]. apply Hu. left. reflexivity.
  - intros n' Hn'. apply Hu. right. exact Hn'.
Qed.

Lemma fold_binds x n ns b :
  In n ns -> In x (binds n) -> (forall n', In n' ns -> ~ In x (unbinds n')) ->
  In x (fold_left exec_node ns b).
Proof.
  revert b. induction ns as [|n0 ns IH]; intros b Hn Hb Hu; simpl; [destruct Hn|].
  destruct Hn as [->|Hn].
  - apply fold_keeps.
    + unfold exec_node. apply in_or_app. right. exact Hb.
    + intros n' Hn'. apply Hu. right. exact Hn'.
  - apply IH; [exact Hn|exact Hb|]. intros n' Hn'. apply Hu. right. exact Hn'.
Qed.

Definition never_deleted (x : str) (ns : list node) : Prop :=
  forall ts, In (NDel ts) ns -> ~ In x (flat_map target_names ts).

Lemma never_deleted_unbinds x ns : never_deleted x ns -> forall n, In n ns -> ~ In x (unbinds n).
Proof.
  intros H n Hn. destruct n; simpl; try (intros []). apply H. exact Hn.
Qed.

Theorem importable name is_init ex ns l x :
  fst (all_scan member_from_node ns) = false ->
  exports name is_init ex ns = Some l -> In x l -> never_deleted x ns ->
  In x (bound_after ns).
Proof.
  intros Hbad He Hx Hdel. destruct (no_all name is_init ex ns Hbad) as [l' [He' Hl']].
  rewrite He in He'. inversion He'; subst l'. apply Hl' in Hx.
  destruct Hx as [_ [_ [Hm|Hr]]]; unfold bound_after.
  - unfold members, members_with in Hm. apply in_flat_map in Hm. destruct Hm as [n [Hn Hxn]].
    apply (fold_binds x n); [exact Hn|apply member_binds; exact Hxn|].
    apply never_deleted_unbinds. exact Hdel.
  - destruct Hr as [level [md [names [na [fm [H1 [H2 [H3 [H4 [H5 H6]]]]]]]]]].
    apply (fold_binds x (NImportFrom level md names)); [exact H1| |apply never_deleted_unbinds; exact Hdel].
    simpl. apply in_flat_map. exists na. split; [exact H2|].
    assert (str_eqb (fst na) c_star_name = false) as ->.
    { destruct (str_eqb (fst na) c_star_name) eqn:Es; [|reflexivity]. apply str_eqb_eq in Es. contradiction. }
    left. exact H5.
Qed.

(* with a literal __all__ the exports are importable iff the module really binds its entries *)
Theorem importable_all name is_init ex ns l :
  exports name is_init ex ns = Some l ->
  fst (all_scan member_from_node ns) = true ->
  (forall e, In (Some e) (snd (all_scan member_from_node ns)) -> In e (bound_after ns)) ->
  forall x, In x l -> In x (bound_after ns).
Proof.
  unfold exports, exports_with. destruct (all_scan member_from_node ns) as [g allm]. simpl.
  intros He Hg Hb x Hx. subst g. destruct (all_str allm) as [es|] eqn:Es; [|discriminate].
  inversion He; subst. apply public_filter_In in Hx. destruct Hx as [Hx _].
  apply Hb. apply all_str_Some in Es. subst allm. apply in_map. exact Hx.
Qed.

(* ---------- witnesses ---------- *)

Definition s_a : str := [97]%N.
Definition s_b : str := [98]%N.
Definition s_c : str := [99]%N.
Definition s_af : str := [97; 102]%N.
Definition s__x : str := [95; 120]%N.
Definition s_y : str := [121]%N.
Definition s_m : str := [109]%N.

(* F18: before the repair, `async def af(): ...`, `c: int = 3`, `a, b = 1, 2` were not scanned
   although the names are public, top-level and bound *)
Definition f18_module : list node :=
  [NAsyncFunctionDef s_af; NAnnAssign (TName s_c) (Some LitFail); NAssign [TSeq [TName s_a; TName s_b]] LitFail].

Example F18_v0_misses_bound_public_names :
  exports_v0 s_m false (fun _ => false) f18_module = Some [] /\
  bound_after f18_module = [s_af; s_c; s_a; s_b] /\
  exports s_m false (fun _ => false) f18_module = Some [s_af; s_c; s_a; s_b].
Proof. vm_compute. repeat split. Qed.

(* F19: the full statement "every name the real star import binds (= every entry of a literal
   __all__) is exported" is false of the code: private entries are dropped. *)
Definition f19_module : list node :=
  [NAssign [TName all_name] (LitOK [Some s__x; Some s_y]); NAssign [TName s__x] LitFail; NAssign [TName s_y] LitFail].

Theorem all_entries_exported_refuted :
  exists ns e l, fst (all_scan member_from_node ns) = true /\
                 In (Some e) (snd (all_scan member_from_node ns)) /\ In e (bound_after ns) /\
                 exports s_m false (fun _ => false) ns = Some l /\ ~ In e l.
Proof.
  exists f19_module, s__x, [s_y]. vm_compute. repeat split; auto.
  intros [H|[]]. discriminate.
Qed.

(* importable needs "never deleted": `a = 1; del a` exports a name that is not bound *)
Example importable_needs_never_deleted :
  exports s_m false (fun _ => false) [NAssign [TName s_a] LitFail; NDel [TName s_a]] = Some [s_a] /\
  bound_after [NAssign [TName s_a] LitFail; NDel [TName s_a]] = [].
Proof. vm_compute. split; reflexivity. Qed.

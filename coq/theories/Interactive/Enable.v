(* M12 (a): pyflyby._util.Aspect.advise/unadvise and pyflyby._interactive.AutoImporter
   enable / _enable_internal / _enable_*_hook / disable / _safe_call / _advise /
   reset_state_new_cell, load_ipython_extension / unload_ipython_extension.
   Model only; proofs are in EnableProofs.v.

   What IPython offers (which attributes exist on the shell, the completer, the magics manager)
   enters as the record [env]: the harness fills it by `hasattr` probes on the very shell it drives.
   IPython's own ExtensionManager (load/unload/reload bookkeeping) is modelled, not verified. *)
From Coq Require Import NArith List Bool.
Import ListNotations.

(* ------------------------------------------------------------------------------------------ *)
(* joinpoints: the container slots pyflyby may monkey-patch *)

Inductive jp :=
| JSplitterReset      (* ip.input_splitter.reset            (IPython 0.13 reset hook) *)
| JOfind              (* ip._ofind *)
| JRunAstNodes        (* ip.run_ast_nodes                   (IPython 0.11-0.13) *)
| JCompile            (* (ip, "compile")                    (IPython 0.10) *)
| JTime               (* (line_magics, 'time') *)
| JTimeit             (* (line_magics, 'timeit') *)
| JProfiler           (* execmgr._run_with_profiler *)
| JPrun               (* (line_magics, 'prun') *)
| JMatchersProp       (* type(completer).matchers           (jedi work-around) *)
| JGlobalMatches      (* completer.global_matches *)
| JAttrMatches        (* completer.attr_matches *)
| JExecfile           (* ip.safe_execfile *)
| JDebugger           (* ip.InteractiveTB.debugger *)
| JRunWithDebugger    (* execmgr._run_with_debugger *)
| JInitShell          (* app.init_shell                     (enable before the shell exists) *)
| JInitSubcommand.    (* app.initialize_subcommand *)

Definition jp_index (j : jp) : N :=
  match j with
  | JSplitterReset => 0 | JOfind => 1 | JRunAstNodes => 2 | JCompile => 3 | JTime => 4 | JTimeit => 5
  | JProfiler => 6 | JPrun => 7 | JMatchersProp => 8 | JGlobalMatches => 9 | JAttrMatches => 10
  | JExecfile => 11 | JDebugger => 12 | JRunWithDebugger => 13 | JInitShell => 14 | JInitSubcommand => 15
  end%N.
Definition jp_eqb (a b : jp) : bool := (jp_index a =? jp_index b)%N.
Definition all_jps : list jp :=
  [JSplitterReset; JOfind; JRunAstNodes; JCompile; JTime; JTimeit; JProfiler; JPrun; JMatchersProp;
   JGlobalMatches; JAttrMatches; JExecfile; JDebugger; JRunWithDebugger; JInitShell; JInitSubcommand].

(* what `container.get(name, _UNSET)` yields: nothing (an instance __dict__ without the entry: the
   class attribute shows through), a value without `__aspect__` (identity id), or an advice wrapper
   (a FunctionWithGlobals carrying `__aspect__`; identity id) *)
Inductive val := VUnset | VPlain (id : N) | VAdvice (id : N).
Definition val_eqb (a b : val) : bool :=
  match a, b with
  | VUnset, VUnset => true
  | VPlain x, VPlain y => (x =? y)%N
  | VAdvice x, VAdvice y => (x =? y)%N
  | _, _ => false
  end.
(*  getattr(self._previous, "__aspect__", None)  *)
Definition is_advice (v : val) : bool := match v with VAdvice _ => true | _ => false end.

(* the hook lists pyflyby appends to *)
Inductive hooklist := LAst | LCleanup | LLineTransforms.
Definition hooklist_eqb (a b : hooklist) : bool :=
  match a, b with LAst, LAst | LCleanup, LCleanup | LLineTransforms, LLineTransforms => true | _, _ => false end.

(* entries of AutoImporter._disablers *)
Inductive disabler :=
| DUnadvise (j : jp) (wrapped previous : val)   (* aspect.unadvise of an Aspect with these _wrapped/_previous *)
| DRemove (l : hooklist) (item : N).            (* unregister_ast_transformer / unregister_input_transformer / unregister_reset_hook *)

Inductive estate := DISABLED | ENABLING | ENABLED | DISABLING.
Definition estate_eqb (a b : estate) : bool :=
  match a, b with DISABLED, DISABLED | ENABLING, ENABLING | ENABLED, ENABLED | DISABLING, DISABLING => true | _, _ => false end.

(* exception classes: SyntaxError (treated specially by auto_import), any other subclass of Exception
   (class id), a BaseException that is not an Exception (KeyboardInterrupt, SystemExit, ...) *)
Inductive exc := ESyntax | EExc (cls : N) | EBase (cls : N).
Definition is_Exception (e : exc) : bool := match e with EBase _ => false | _ => true end.
Definition cls_AttributeError : N := 1%N.

Record state := mkState {
  st : estate;                 (* self._state *)
  errored : bool;              (* self._errored *)
  disablers : list disabler;   (* self._disablers, most recently appended first *)
  slot : jp -> val;            (* container.get(name, _UNSET) of every joinpoint *)
  ast_l : list N;              (* ip.ast_transformers (object identities) *)
  cleanup_l : list N;          (* ip.input_transformers_cleanup *)
  line_l : list N;             (* ip.input_transformer_manager.python_line_transforms (IPython 1-6) *)
  ast_tr : option N;           (* self._ast_transformer *)
  attempted : list (N * bool); (* self._autoimported_this_cell *)
  user_ns : list N;            (* names bound in ip.user_ns by auto-imports (IPython's side; used by SafeCall.v) *)
  log_pre : bool;              (* pyflyby._log handler: _pre_log_function is set (inside a HookCtx, or left set by one whose post() raised) *)
  log_dirty : bool;            (* pyflyby._log handler: _logged_anything_during_context *)
  has_shell : bool;            (* app.shell is not None                  (IPython's side) *)
  pending : bool;              (* self._pending_initializers *)
  registered : list N;         (* names registered with pyflyby.add_import() in self.db, the session-local database *)
  next : N                     (* allocator of object identities *)
}.

Definition set_st (x : estate) (s : state) : state :=
  mkState x (errored s) (disablers s) (slot s) (ast_l s) (cleanup_l s) (line_l s) (ast_tr s) (attempted s) (user_ns s) (log_pre s) (log_dirty s) (has_shell s) (pending s) (registered s) (next s).
Definition set_errored (b : bool) (s : state) : state :=
  mkState (st s) b (disablers s) (slot s) (ast_l s) (cleanup_l s) (line_l s) (ast_tr s) (attempted s) (user_ns s) (log_pre s) (log_dirty s) (has_shell s) (pending s) (registered s) (next s).
Definition set_disablers (d : list disabler) (s : state) : state :=
  mkState (st s) (errored s) d (slot s) (ast_l s) (cleanup_l s) (line_l s) (ast_tr s) (attempted s) (user_ns s) (log_pre s) (log_dirty s) (has_shell s) (pending s) (registered s) (next s).
Definition set_slot (j : jp) (v : val) (s : state) : state :=
  mkState (st s) (errored s) (disablers s) (fun k => if jp_eqb k j then v else slot s k)
          (ast_l s) (cleanup_l s) (line_l s) (ast_tr s) (attempted s) (user_ns s) (log_pre s) (log_dirty s) (has_shell s) (pending s) (registered s) (next s).
Definition set_ast_tr (o : option N) (s : state) : state :=
  mkState (st s) (errored s) (disablers s) (slot s) (ast_l s) (cleanup_l s) (line_l s) o (attempted s) (user_ns s) (log_pre s) (log_dirty s) (has_shell s) (pending s) (registered s) (next s).
Definition set_attempted (a : list (N * bool)) (s : state) : state :=
  mkState (st s) (errored s) (disablers s) (slot s) (ast_l s) (cleanup_l s) (line_l s) (ast_tr s) a (user_ns s) (log_pre s) (log_dirty s) (has_shell s) (pending s) (registered s) (next s).
Definition set_user_ns (u : list N) (s : state) : state :=
  mkState (st s) (errored s) (disablers s) (slot s) (ast_l s) (cleanup_l s) (line_l s) (ast_tr s) (attempted s) u (log_pre s) (log_dirty s) (has_shell s) (pending s) (registered s) (next s).
Definition set_log (pre dirty : bool) (s : state) : state :=
  mkState (st s) (errored s) (disablers s) (slot s) (ast_l s) (cleanup_l s) (line_l s) (ast_tr s) (attempted s) (user_ns s) pre dirty (has_shell s) (pending s) (registered s) (next s).
(*  _PyflybyHandler.emit: if self._pre_log_function is not None:
                              if not self._logged_anything_during_context: self._pre_log_function(); self._logged_anything_during_context = True *)
Definition log_emit (s : state) : state := if log_pre s then set_log true true s else s.
Definition set_has_shell (b : bool) (s : state) : state :=
  mkState (st s) (errored s) (disablers s) (slot s) (ast_l s) (cleanup_l s) (line_l s) (ast_tr s) (attempted s) (user_ns s) (log_pre s) (log_dirty s) b (pending s) (registered s) (next s).
Definition set_pending (b : bool) (s : state) : state :=
  mkState (st s) (errored s) (disablers s) (slot s) (ast_l s) (cleanup_l s) (line_l s) (ast_tr s) (attempted s) (user_ns s) (log_pre s) (log_dirty s) (has_shell s) b (registered s) (next s).
Definition set_registered (r : list N) (s : state) : state :=
  mkState (st s) (errored s) (disablers s) (slot s) (ast_l s) (cleanup_l s) (line_l s) (ast_tr s) (attempted s) (user_ns s) (log_pre s) (log_dirty s) (has_shell s) (pending s) r (next s).
Definition bump_next (s : state) : state :=
  mkState (st s) (errored s) (disablers s) (slot s) (ast_l s) (cleanup_l s) (line_l s) (ast_tr s) (attempted s) (user_ns s) (log_pre s) (log_dirty s) (has_shell s) (pending s) (registered s) (next s + 1)%N.

Definition get_list (l : hooklist) (s : state) : list N :=
  match l with LAst => ast_l s | LCleanup => cleanup_l s | LLineTransforms => line_l s end.
Definition set_list (l : hooklist) (x : list N) (s : state) : state :=
  match l with
  | LAst => mkState (st s) (errored s) (disablers s) (slot s) x (cleanup_l s) (line_l s) (ast_tr s) (attempted s) (user_ns s) (log_pre s) (log_dirty s) (has_shell s) (pending s) (registered s) (next s)
  | LCleanup => mkState (st s) (errored s) (disablers s) (slot s) (ast_l s) x (line_l s) (ast_tr s) (attempted s) (user_ns s) (log_pre s) (log_dirty s) (has_shell s) (pending s) (registered s) (next s)
  | LLineTransforms => mkState (st s) (errored s) (disablers s) (slot s) (ast_l s) (cleanup_l s) x (ast_tr s) (attempted s) (user_ns s) (log_pre s) (log_dirty s) (has_shell s) (pending s) (registered s) (next s)
  end.
Definition push_disabler (d : disabler) (s : state) : state := set_disablers (d :: disablers s) s.

(* results of computations that may raise *)
Inductive res (A : Type) := Ret (s : state) (a : A) | Raise (s : state) (e : exc).
Arguments Ret {A} s a.
Arguments Raise {A} s e.
Definition bind {A B} (m : res A) (f : state -> A -> res B) : res B :=
  match m with Ret s a => f s a | Raise s e => Raise s e end.
Definition res_state {A} (m : res A) : state := match m with Ret s _ => s | Raise s _ => s end.

(* ------------------------------------------------------------------------------------------ *)
(* _util.Aspect *)

(*  def advise(self, hook, once=False):
        self._previous = self._container.get(self._name, _UNSET)
        if once and getattr(self._previous, "__aspect__", None): return None
        ... wrapped = FunctionWithGlobals(hook, __original__=self._original); wrapped.__aspect__ = self
        self._wrapped = wrapped; self._container[self._name] = wrapped; return self
    AutoImporter._advise:  aspect = Aspect(joinpoint)
                           if aspect.advise(f, once=True): self._disablers.append(aspect.unadvise)
    (the `assert self._previous is _UNSET or self._previous == self._original` cannot fail when
     nobody but pyflyby writes the slot: not modelled) *)
Definition advise_once (j : jp) (s : state) : state :=
  let previous := slot s j in
  if is_advice previous then s
  else
    let wrapped := VAdvice (next s) in
    push_disabler (DUnadvise j wrapped previous) (set_slot j wrapped (bump_next s)).

(*  def unadvise(self):
        if self._wrapped is None: return
        cur = self._container.get(self._name, _UNSET)
        if cur is self._wrapped:
            if self._previous is _UNSET: del self._container[self._name]
            else: self._container[self._name] = self._previous
        elif cur == self._previous: pass
        else: logger.debug("%s seems modified; not unadvising it", self._name)
        self._wrapped = None                                                        *)
Definition unadvise (j : jp) (wrapped previous : val) (s : state) : state :=
  let cur := slot s j in
  if val_eqb cur wrapped then set_slot j previous s
  else if val_eqb cur previous then s
  else s.

(*  try: lst.remove(t)   except ValueError: logger.info("Couldn't remove ...")  *)
Fixpoint remove_first (x : N) (l : list N) : list N :=
  match l with
  | [] => []
  | y :: r => if (y =? x)%N then r else y :: remove_first x r
  end.

Definition run_disabler (d : disabler) (s : state) : state :=
  match d with
  | DUnadvise j w p => unadvise j w p s
  | DRemove l x =>
      let s1 := set_list l (remove_first x (get_list l s)) s in
      (* unregister_ast_transformer also does  self._ast_transformer = None *)
      match l with LAst => set_ast_tr None s1 | _ => s1 end
  end.

(*  def disable(self):
        if self._state is DISABLED: return
        self._state = DISABLING
        while self._disablers:
            f = self._disablers.pop(-1)
            try: f()
            except Exception as e: self._errored = True; ...   (no disabler of the model raises:
                                   list.remove's ValueError is caught inside, unadvise only touches a dict)
        self._state = DISABLED                                                            *)
Fixpoint run_disablers (ds : list disabler) (s : state) : state :=
  match ds with
  | [] => set_disablers [] s
  | d :: r => run_disablers r (run_disabler d (set_disablers r s))
  end.
Definition disable (s : state) : state :=
  if estate_eqb (st s) DISABLED then s
  else let s1 := set_st DISABLING s in
       set_st DISABLED (run_disablers (disablers s1) s1).

(*  def reset_state_new_cell(self): self._autoimported_this_cell = {}  *)
Definition reset_state_new_cell (s : state) : state := set_attempted [] s.

(* ------------------------------------------------------------------------------------------ *)
(* _safe_call *)

Inductive rmode := RTrue | RIfDebug | RFalse.     (* raise_on_error *)

(*  def _safe_call(self, function, *args, **kwargs):
        on_error = kwargs.pop("on_error", None); raise_on_error = kwargs.pop("raise_on_error", "if_debug")
        if self._errored: pass
        else:
            try: return function( *args, **kwargs)
            except Exception as e:
                self._errored = True; ...log...
                try: self.disable()
                except Exception as e2: ...log...
                if raise_on_error is True: raise
                elif raise_on_error == 'if_debug':
                    if logger.debug_enabled: raise
                elif raise_on_error is False: ...print traceback in debug mode...
        if on_error: return on_error( *args, **kwargs)
        else: return None
   [f] is the function, [on_error] the fallback; the result is [Some a] when the function returned
   [a], and whatever the fallback returns ([None] when there is none) otherwise. *)
Definition safe_call {A} (debug : bool) (mode : rmode) (f : state -> res A)
           (on_error : option (state -> res A)) (s : state) : res (option A) :=
  let fallback (s : state) : res (option A) :=
    match on_error with
    | Some g => bind (g s) (fun s' a => Ret s' (Some a))
    | None => Ret s None
    end in
  if errored s then fallback s
  else match f s with
       | Ret s' a => Ret s' (Some a)
       | Raise s' e =>
           if is_Exception e then
             let s2 := disable (log_emit (set_errored true s')) in      (* logger.error(...) is emitted at every level *)
             match mode with
             | RTrue => Raise s2 e
             | RIfDebug => if debug then Raise s2 e else fallback s2
             | RFalse => fallback s2
             end
           else Raise s' e       (* a BaseException is not caught by `except Exception` *)
       end.

(* ------------------------------------------------------------------------------------------ *)
(* what the running IPython offers, and which variant of the pyflyby code is running *)

Inductive reset_kind := RPost | RManager | RSplitter | RNone.
Inductive ast_kind := AstTransformers | AstRunNodes | AstCompile | AstNone.
Inductive compl_kind := ComplGlobal | ComplZMQ | ComplNone.
(* completer.python_matches: attribute missing / present and already among completer.matchers / present, not among them *)
Inductive pm_kind := PmMissing | PmListed | PmUnlisted.

Record env := mkEnv {
  e_reset : reset_kind;        (* hasattr(ip,"input_transformers_post") / "input_transformer_manager" / "input_splitter" *)
  e_ofind : bool;              (* hasattr(ip, "_ofind") *)
  e_ast : ast_kind;            (* hasattr(ip,'ast_transformers') / "run_ast_nodes" / 'compile' *)
  e_magics : bool;             (* hasattr(ip, 'magics_manager') *)
  e_profiler : bool;           (* hasattr(execmgr, "_run_with_profiler") *)
  e_compl : compl_kind;        (* hasattr(completer,"global_matches") / "complete_request" *)
  e_jedi : bool;               (* getattr(completer, 'use_jedi', False) *)
  e_pm : pm_kind;
  e_execfile : bool;           (* hasattr(ip, "safe_execfile") *)
  e_ipdb : bool;               (* _get_IPdb_class() succeeds *)
  e_tb_debugger : bool;        (* hasattr(ip.InteractiveTB, "debugger") *)
  e_rwd : bool;                (* hasattr(execmgr, "_run_with_debugger") *)
  e_level : N;                 (* pyflyby's log level: 10 DEBUG, 20 INFO, 30 WARNING, 40 ERROR *)
  f6_fixed : bool;             (* code variant: the IPython>=7 reset hook registers a disabler (fixes/F06) *)
  f14_fixed : bool;            (* code variant: getattr(completer, "python_matches", None) (fixes/F14) *)
  e_init_subcmd : bool         (* hasattr(app, "initialize_subcommand") *)
}.

(*  logger.debug_enabled  *)
Definition e_debug (E : env) : bool := (e_level E <=? 10)%N.

Section WithEnv.
Variable E : env.

Definition ok_and (b : bool) (m : res bool) : res bool := bind m (fun s b' => Ret s (b && b')).

(* append an object to a hook list; [remover] = a disabler removing it is registered *)
Definition append_hook (l : hooklist) (remover : bool) (s : state) : state * N :=
  let x := next s in
  let s1 := set_list l (get_list l s ++ [x]) (bump_next s) in
  (if remover then push_disabler (DRemove l x) s1 else s1, x).

(*  _enable_reset_hook:
      if hasattr(ip, "input_transformers_post"):
          ... ip.input_transformers_cleanup.append(reset_auto_importer_state); return True
              [unchanged tree: no disabler - F6;  fixes/F06: self._disablers.append(unregister_reset_hook)]
      elif hasattr(ip, "input_transformer_manager"):
          transforms.append(t); self._disablers.append(unregister_input_transformer); return True
      elif hasattr(ip, "input_splitter"): @self._advise(ip.input_splitter.reset) ...; return True
      else: return False                                                                    *)
Definition enable_reset_hook (s : state) : res bool :=
  match e_reset E with
  | RPost => Ret (fst (append_hook LCleanup (f6_fixed E) s)) true
  | RManager => Ret (fst (append_hook LLineTransforms true s)) true
  | RSplitter => Ret (advise_once JSplitterReset s) true
  | RNone => Ret s false
  end.

(*  _enable_ofind_hook: if hasattr(ip, "_ofind"): @self._advise(ip._ofind) ...; return True   else: return False *)
Definition enable_ofind_hook (s : state) : res bool :=
  if e_ofind E then Ret (advise_once JOfind s) true else Ret s false.

(*  _enable_ast_hook:
      if hasattr(ip, 'ast_transformers'):
          self._ast_transformer = t = _AutoImporter_ast_transformer(); ip.ast_transformers.append(t)
          self._disablers.append(unregister_ast_transformer); return True
      elif hasattr(ip, "run_ast_nodes"): @self._advise(ip.run_ast_nodes) ...; return True
      elif hasattr(ip, 'compile'): @self._advise((ip, "compile")) ...; return True
      else: return False                                                                    *)
Definition enable_ast_hook (s : state) : res bool :=
  match e_ast E with
  | AstTransformers =>
      (* self._ast_transformer is assigned before the append *)
      let '(s1, t) := append_hook LAst true s in Ret (set_ast_tr (Some t) s1) true
  | AstRunNodes => Ret (advise_once JRunAstNodes s) true
  | AstCompile => Ret (advise_once JCompile s) true
  | AstNone => Ret s false
  end.

(*  _enable_time_hook / _enable_timeit_hook:
      if self._ast_transformer: return True
      if hasattr(ip, 'magics_manager'): @self._advise((line_magics, 'time')) ...; return True
      else: return False                                                                    *)
Definition enable_magic_hook (j : jp) (s : state) : res bool :=
  match ast_tr s with
  | Some _ => Ret s true
  | None => if e_magics E then Ret (advise_once j s) true else Ret s false
  end.

(*  _enable_prun_hook:
      if hasattr(ip, 'magics_manager'):
          if hasattr(execmgr, "_run_with_profiler"): @self._advise(execmgr._run_with_profiler) ...; return True
          else: @self._advise((line_magics, 'prun')) ...; return True
      else: return False                                                                    *)
Definition enable_prun_hook (s : state) : res bool :=
  if e_magics E then
    if e_profiler E then Ret (advise_once JProfiler s) true else Ret (advise_once JPrun s) true
  else Ret s false.

(*  _enable_completer_hooks(completer):
      if hasattr(completer, "global_matches"):
          if getattr(completer, 'use_jedi', False):
              if completer.python_matches not in completer.matchers:        [unchanged tree: AttributeError when the
                  @self._advise(type(completer).matchers) ...                attribute is missing - F14;  fixes/F14:
                                                                             python_matches = getattr(completer, "python_matches", None)
                                                                             if python_matches is not None and python_matches not in completer.matchers]
          @self._advise(completer.global_matches) ...
          @self._advise(completer.attr_matches) ...
          return True
      elif hasattr(completer, "complete_request"): return True
      else: return False                                                                    *)
Definition enable_completion_hook (s : state) : res bool :=
  match e_compl E with
  | ComplGlobal =>
      let after_jedi : res unit :=
        if e_jedi E then
          match e_pm E with
          | PmMissing => if f14_fixed E then Ret s tt else Raise s (EExc cls_AttributeError)
          | PmListed => Ret s tt
          | PmUnlisted => Ret (advise_once JMatchersProp s) tt
          end
        else Ret s tt in
      bind after_jedi (fun s1 _ => Ret (advise_once JAttrMatches (advise_once JGlobalMatches s1)) true)
  | ComplZMQ => Ret s true
  | ComplNone => Ret s false
  end.

(*  _enable_run_hook: if hasattr(ip, "safe_execfile"): @self._advise(ip.safe_execfile) ...; return True  else: return False *)
Definition enable_run_hook (s : state) : res bool :=
  if e_execfile E then Ret (advise_once JExecfile s) true else Ret s false.

(*  _enable_debugger_hook:
      try: Pdb = _get_IPdb_class()   except Exception: return False
      ok = True
      if hasattr(iptb, "debugger"): @self._advise(iptb.debugger) ...   else: ok = False
      if hasattr(ip, 'magics_manager'):
          if hasattr(execmgr, "_run_with_debugger"): @self._advise(execmgr._run_with_debugger) ...
      else: ok = False
      return ok                                                                             *)
Definition enable_debugger_hook (s : state) : res bool :=
  if negb (e_ipdb E) then Ret s false
  else
    let '(s1, ok1) := if e_tb_debugger E then (advise_once JDebugger s, true) else (s, false) in
    if e_magics E then
      Ret (if e_rwd E then advise_once JRunWithDebugger s1 else s1) ok1
    else Ret s1 false.

(*  _enable_shell_hooks(app):
      if self._state != ENABLING: return False
      ip = app.shell   [the app is initialised: a shell exists; checked by the harness]
      ok = True
      ok &= self._enable_reset_hook(ip);  ok &= self._enable_ofind_hook(ip);  ok &= self._enable_ast_hook(ip)
      ok &= self._enable_time_hook(ip);   ok &= self._enable_timeit_hook(ip); ok &= self._enable_prun_hook(ip)
      ok &= self._enable_completion_hook(ip); ok &= self._enable_run_hook(ip); ok &= self._enable_debugger_hook(ip)
      ok &= self._enable_ipython_shell_bugfixes(ip)   [returns True]
      return ok                                                                             *)
Definition shell_hooks : list (state -> res bool) :=
  [enable_reset_hook; enable_ofind_hook; enable_ast_hook; enable_magic_hook JTime; enable_magic_hook JTimeit;
   enable_prun_hook; enable_completion_hook; enable_run_hook; enable_debugger_hook].

Fixpoint run_hooks (hs : list (state -> res bool)) (ok : bool) (s : state) : res bool :=
  match hs with
  | [] => Ret s ok
  | h :: r => bind (h s) (fun s' b => run_hooks r (ok && b) s')
  end.

Definition enable_shell_hooks (s : state) : res bool :=
  if negb (estate_eqb (st s) ENABLING) then Ret s false
  else if negb (has_shell s) then Ret s false     (* ip is None: "no shell yet" *)
  else run_hooks shell_hooks true s.

(*  _enable_initializer_hooks(app):
        ok = True; pending = False
        ip = getattr(app, "shell", None)
        if ip is None:
            if hasattr(app, "init_shell"):
                @self._advise(app.init_shell)
                def init_shell_enable_auto_importer(): __original__(); ...; self._continue_enable()
            ...
            if hasattr(app, "initialize_subcommand"): @self._advise(app.initialize_subcommand) ...
            pending = True
        (post_config_initialization: IPython 0.10 only)
        self._pending_initializers = pending
        return ok                                                                           *)
Definition enable_initializer_hooks (s : state) : state :=
  if has_shell s then set_pending false s
  else
    let s1 := advise_once JInitShell s in
    let s2 := if e_init_subcmd E then advise_once JInitSubcommand s1 else s1 in
    set_pending true s2.

(*  _enable_internal:
      ok = True
      ok &= self._enable_initializer_hooks(app)   [returns True for a BaseIPythonApplication]
      ok &= self._enable_kernel_manager_hook(app) [terminal app: no kernel manager: True, nothing advised]
      ok &= self._enable_shell_hooks(app)
      if ok: self._state = ENABLED
      elif self._pending_initializers: pass       [stays ENABLING until init_shell() has run]
      else: self._state = ENABLED                                                           *)
Definition enable_internal (s : state) : res unit :=
  bind (enable_shell_hooks (enable_initializer_hooks s)) (fun s' ok =>
    if ok then Ret (set_st ENABLED s') tt
    else if pending s' then Ret s' tt
    else Ret (set_st ENABLED s') tt).

(*  def _continue_enable(self):
        if self._state != ENABLING: return
        self._safe_call(self._enable_internal)                                              *)
Definition continue_enable (s : state) : res unit :=
  if negb (estate_eqb (st s) ENABLING) then Ret s tt
  else bind (safe_call (e_debug E) RIfDebug enable_internal None s) (fun s' _ => Ret s' tt).

(*  def enable(self, even_if_previously_errored=False):
        if self._state is DISABLED: pass
        elif ENABLED / ENABLING / DISABLING: return
        self.reset_state_new_cell()
        if self._errored:
            if even_if_previously_errored: self._errored = False
            else: return
        self._errored = False
        self._state = ENABLING
        self._safe_call(self._enable_internal)                                              *)
Definition enable (force : bool) (s : state) : res unit :=
  match st s with
  | DISABLED =>
      let s1 := reset_state_new_cell s in
      if errored s1 && negb force then Ret s1 tt
      else
        let s2 := set_st ENABLING (set_errored false s1) in
        bind (safe_call (e_debug E) RIfDebug enable_internal None s2) (fun s' _ => Ret s' tt)
  | _ => Ret s tt
  end.

(* ------------------------------------------------------------------------------------------ *)
(* operations on one shell *)

Record shell := mkShell {
  ai : state;
  ext_loaded : bool;          (* "pyflyby" in ip.extension_manager.loaded   (IPython's bookkeeping) *)
  escaped : option exc;       (* exception that left the last operation, if any *)
  ext_attr : bool             (* hasattr(ip, "_auto_importer"): load_ipython_extension has been called *)
}.

Inductive op :=
| Enable        (* pyflyby.enable_auto_importer()                      -> AutoImporter(app).enable() *)
| EnableAgain   (* the same call twice in a row *)
| Disable       (* pyflyby.disable_auto_importer()                     -> AutoImporter(app).disable() *)
| LoadExt       (* ip.extension_manager.load_extension("pyflyby")      (%load_ext) *)
| UnloadExt     (* ip.extension_manager.unload_extension("pyflyby")    (%unload_ext) *)
| ReloadExt     (* ip.extension_manager.reload_extension("pyflyby")    (%reload_ext) *)
| LoadFn        (* pyflyby.load_ipython_extension(ip) called directly *)
| UnloadFn      (* pyflyby.unload_ipython_extension(ip) called directly *)
| Initialize    (* app.initialize(argv): [IPython] creates the shell through app.init_shell() *)
| AddImport (id : N)    (* pyflyby.add_import(name, code): registers a name in the session-local database *)
| UserFileOp.          (* the user edits a file (breaks / repairs an import database file): nothing of the importer changes *)

(*  load_ipython_extension: auto_importer.enable(even_if_previously_errored=True); cache clears; debug tools
    unload_ipython_extension: auto_importer.disable(); remove_comms()                       *)
Definition load_fn (s : state) : res unit := enable true s.
Definition unload_fn (s : state) : res unit := Ret (disable s) tt.

Definition finish (sh : shell) (m : res unit) (loaded_if_ok attr : bool) : shell :=
  match m with
  | Ret s _ => mkShell s loaded_if_ok None attr
  | Raise s e => mkShell s (ext_loaded sh) (Some e) attr
  end.

(*  [IPython] app.initialize() calls self.init_shell(); advised by pyflyby:
        def init_shell_enable_auto_importer():
            __original__(); ...; ip = app.shell; if ip is None: return
            self._continue_enable()                                                         *)
Definition initialize (s : state) : res unit :=
  if has_shell s then Ret s tt
  else if is_advice (slot s JInitShell) then continue_enable (set_has_shell true s)
  else Ret (set_has_shell true s) tt.

Definition cls_ValueError : N := 10%N.

(*  ExtensionManager._load_extension: if module_str in self.loaded: return "already loaded"
                                      ... mod.load_ipython_extension(self.shell); self.loaded.add(module_str)
    unload_extension: if module_str not in self.loaded: return "not loaded"
                      mod.unload_ipython_extension(self.shell); self.loaded.discard(module_str)
    reload_extension: if module_str in self.loaded: self.unload_extension(module_str); reload(mod);
                          mod.load_ipython_extension(self.shell); self.loaded.add(module_str)
                      else: self.load_extension(module_str)
    load_ipython_extension(arg): auto_importer = AutoImporter(arg); arg._auto_importer = auto_importer; ...
    _dynimp.add_import: if not hasattr(ip, "_auto_importer"): raise ValueError(...)
                        ip._auto_importer.db.known_imports = ... | from <mangled> import <names>
                        (AutoImporter.db is created once per application, in _from_app)     *)
Definition step (sh : shell) (o : op) : shell :=
  let s := ai sh in
  let ld := ext_loaded sh in
  let at_ := ext_attr sh in
  match o with
  | Enable => finish sh (enable false s) ld at_
  | EnableAgain => finish sh (bind (enable false s) (fun s' _ => enable false s')) ld at_
  | Disable => mkShell (disable s) ld None at_
  | LoadExt => if ld then mkShell s ld None at_ else finish sh (load_fn s) true true
  | UnloadExt => if ld then finish sh (unload_fn s) false at_ else mkShell s ld None at_
  | ReloadExt =>
      if ld then finish (mkShell s false None at_) (bind (unload_fn s) (fun s' _ => load_fn s')) true true
      else finish sh (load_fn s) true true
  | LoadFn => finish sh (load_fn s) ld true
  | UnloadFn => finish sh (unload_fn s) ld at_
  | Initialize => finish sh (initialize s) ld at_
  | AddImport id =>
      if at_ then mkShell (set_registered (id :: registered s) s) ld None at_
      else mkShell s ld (Some (EExc cls_ValueError)) at_
  | UserFileOp => mkShell s ld None at_
  end.

Definition run (ops : list op) (sh : shell) : shell := fold_left step ops sh.

(* every intermediate shell, for the correspondence *)
Fixpoint trace (ops : list op) (sh : shell) : list shell :=
  match ops with
  | [] => []
  | o :: r => let sh' := step sh o in sh' :: trace r sh'
  end.

End WithEnv.

(* the shell before pyflyby touched it *)
Definition init_state (slots : jp -> val) (ast cleanup line : list N) (shell : bool) (nxt : N) : state :=
  mkState DISABLED false [] slots ast cleanup line None [] [] false false shell false [] nxt.
Definition init_shell (s : state) : shell := mkShell s false None false.

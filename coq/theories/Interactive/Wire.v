(* Entry points evaluated by the correspondence harnesses (harness/c14.py, harness/c13.py). *)
From Coq Require Import NArith List String Bool.
From Verif Require Import Base.Chars Base.Show Interactive.Enable Interactive.SafeCall.
Import ListNotations.
Open Scope string_scope.

Definition show_estate (x : estate) : string :=
  match x with DISABLED => """DISABLED""" | ENABLING => """ENABLING""" | ENABLED => """ENABLED""" | DISABLING => """DISABLING""" end.
Definition show_val (v : val) : string :=
  match v with
  | VUnset => """U"""
  | VPlain n => """P" ++ show_N n ++ """"
  | VAdvice n => """A" ++ show_N n ++ """"
  end.
Definition show_exc (e : exc) : string :=
  match e with
  | ESyntax => """SyntaxError"""
  | EExc n => """E" ++ show_N n ++ """"
  | EBase n => """B" ++ show_N n ++ """"
  end.
Definition show_hooklist (l : hooklist) : string :=
  match l with LAst => """ast""" | LCleanup => """cleanup""" | LLineTransforms => """line""" end.
Definition show_disabler (d : disabler) : string :=
  match d with
  | DUnadvise j w p => "[""unadvise""," ++ show_N (jp_index j) ++ "," ++ show_val w ++ "," ++ show_val p ++ "]"
  | DRemove l x => "[""remove""," ++ show_hooklist l ++ "," ++ show_N x ++ "]"
  end.

Definition show_state (s : state) : string :=
  show_obj [("st", show_estate (st s)); ("errored", show_bool (errored s));
            ("disablers", show_list show_disabler (disablers s));
            ("slots", show_list (fun j => show_val (slot s j)) all_jps);
            ("ast", show_list show_N (ast_l s)); ("cleanup", show_list show_N (cleanup_l s));
            ("line", show_list show_N (line_l s)); ("ast_tr", show_option show_N (ast_tr s));
            ("attempted", show_list (show_pair show_N show_bool) (attempted s));
            ("user_ns", show_list show_N (user_ns s));
            ("log_pre", show_bool (log_pre s)); ("log_dirty", show_bool (log_dirty s));
            ("has_shell", show_bool (has_shell s)); ("registered", show_list show_N (registered s))].

Definition show_shell (sh : shell) : string :=
  show_obj [("ai", show_state (ai sh)); ("loaded", show_bool (ext_loaded sh));
            ("escaped", show_option show_exc (escaped sh)); ("attr", show_bool (ext_attr sh))].

Definition slots_of (l : list (jp * val)) : jp -> val :=
  fun j => match find (fun p => jp_eqb (fst p) j) l with Some p => snd p | None => VUnset end.

(* the trace of shells after every operation *)
Definition run_ops (E : env) (slots : list (jp * val)) (ast cleanup line : list N) (shell : bool) (nxt : N) (ops : list op) : string :=
  let sh0 := init_shell (init_state (slots_of slots) ast cleanup line shell nxt) in
  show_list show_shell (sh0 :: trace E ops sh0).

Definition show_via (v : via) : string := match v with ViaPyflyby => """pyflyby""" | ViaOriginal => """original""" end.
Definition show_cout (o : cout) : string :=
  show_obj [("path", show_bool (co_path o)); ("via", show_option show_via (co_via o));
            ("ok", show_bool (co_ok o)); ("escaped", show_option show_exc (co_escaped o))].

(* the trace of (shell, outcome of the interaction) after every session step *)
Definition run_session (E : env) (IO : io_env) (slots : list (jp * val)) (ast cleanup line : list N) (shell : bool) (nxt : N)
           (ops : list sop) : string :=
  let sh0 := init_shell (init_state (slots_of slots) ast cleanup line shell nxt) in
  show_list (fun p => "[" ++ show_shell (fst p) ++ "," ++ show_option show_cout (snd p) ++ "]")
            ((sh0, None) :: strace E IO nxt ops sh0).

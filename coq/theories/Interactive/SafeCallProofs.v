(* Proofs about Interactive/SafeCall.v: every hook absorbs every Exception raised at a fault site inside
   _safe_call, withdraws all hooks (C14's disable lemma), and a withdrawn importer is not on the path of
   any later interaction. *)
From Coq Require Import NArith List Bool Lia.
From Verif Require Import Interactive.Enable Interactive.EnableProofs Interactive.SafeCall.
Import ListNotations.

(* the part of the state the hook bodies never touch *)
Definition same_core (s s' : state) : Prop :=
  slot s' = slot s /\ (forall l, get_list l s' = get_list l s) /\ disablers s' = disablers s /\
  next s' = next s /\ ast_tr s' = ast_tr s /\ st s' = st s /\ errored s' = errored s.

Lemma same_core_refl : forall s, same_core s s.
Proof. intros s. repeat split. Qed.

Lemma same_core_trans : forall a b c, same_core a b -> same_core b c -> same_core a c.
Proof.
  intros a b c (A1 & A2 & A3 & A4 & A5 & A6 & A7) (B1 & B2 & B3 & B4 & B5 & B6 & B7).
  repeat split; try congruence; try (intros l; rewrite B2; apply A2).
Qed.

Ltac core_tac := repeat split; try reflexivity; try (intros l; destruct l; reflexivity).

Lemma same_core_log_emit : forall s, same_core s (log_emit s).
Proof. intros s. unfold log_emit. destruct (log_pre s); core_tac. Qed.

Lemma same_core_set_attempted : forall a s, same_core s (set_attempted a s).
Proof. intros; core_tac. Qed.
Lemma same_core_set_user_ns : forall a s, same_core s (set_user_ns a s).
Proof. intros; core_tac. Qed.
Lemma same_core_set_log : forall a b s, same_core s (set_log a b s).
Proof. intros; core_tac. Qed.

Definition res_core {A} (s : state) (m : res A) : Prop := same_core s (res_state m).

Lemma visit_core : forall F x s, res_core s (visit F x s).
Proof. intros F x s. unfold res_core, visit. destruct (fault_at F x); apply same_core_refl. Qed.

Lemma bind_core : forall {A B} (m : res A) (f : state -> A -> res B) s,
  res_core s m -> (forall s' a, same_core s s' -> res_core s' (f s' a)) -> res_core s (bind m f).
Proof.
  intros A B m f s Hm Hf. unfold res_core in *. destruct m as [s1 a|s1 e]; cbn in *; [|exact Hm].
  eapply same_core_trans; [exact Hm|]. apply Hf. exact Hm.
Qed.

Section WithEnv.
Variable E : env.
Variable IO : io_env.
Variable n0 : N.

Lemma log_at_core : forall lv s, same_core s (log_at E lv s).
Proof. intros lv s. unfold log_at. destruct (e_level E <=? lv)%N; [apply same_core_log_emit|apply same_core_refl]. Qed.

Lemma import_ok_core : forall F id s, res_core s (import_ok E F id s).
Proof.
  intros F id s. unfold import_ok. apply bind_core; [apply visit_core|]. intros s2 _ _. unfold res_core. cbn [res_state].
  eapply same_core_trans; [apply (log_at_core 20)|].
  eapply same_core_trans; [apply same_core_set_user_ns|apply same_core_set_attempted].
Qed.

Lemma import_one_core : forall F n s, res_core s (import_one E F n s).
Proof.
  intros F n s. unfold import_one. apply bind_core; [apply visit_core|]. intros s0 _ _.
  apply bind_core; [apply visit_core|]. intros s1 _ _.
  destruct (memN (nm_id n) (user_ns s1)); [apply same_core_refl|].
  destruct (has_key (nm_id n) (attempted s1)); [apply same_core_refl|].
  destruct n as [i|i e|i|i].
  - apply import_ok_core.
  - apply bind_core; [apply visit_core|]. intros s2 _ _. unfold res_core.
    destruct (is_Exception e); cbn [res_state].
    + eapply same_core_trans; [apply (log_at_core 20)|].
      eapply same_core_trans; [apply (log_at_core 30)|apply same_core_set_attempted].
    + apply (log_at_core 20).
  - unfold res_core. cbn. apply same_core_set_attempted.
  - cbn [nm_id]. destruct (memN i (registered s1)); [apply import_ok_core|].
    unfold res_core. cbn. apply same_core_set_attempted.
Qed.

Lemma import_all_core : forall F ns ok s, res_core s (import_all E F ns ok s).
Proof.
  intros F ns. induction ns as [|n r IH]; intros ok s; cbn; [apply same_core_refl|].
  apply bind_core; [apply import_one_core|]. intros s' b _. apply IH.
Qed.

Lemma auto_import_body_core : forall F names s, res_core s (auto_import_body E F names s).
Proof.
  intros F names s. unfold auto_import_body. apply bind_core; [apply visit_core|]. intros s1 _ _.
  pose proof (visit_core F SAnalysis s1) as Hv. unfold res_core in *.
  destruct (visit F SAnalysis s1) as [s2 u|s2 e]; cbn in Hv.
  - destruct (filter _ names) as [|m ms]; [exact Hv|].
    eapply same_core_trans; [exact Hv|].
    apply (bind_core (visit F SDbLoad s2)); [apply visit_core|]. intros s3 _ _. apply import_all_core.
  - destruct e; exact Hv.
Qed.

(* ------------------------------------------------------------------------------------------ *)
(* which exceptions a body can raise *)

(* every armed stub raises a subclass of Exception, and so does every failing known import *)
Definition exception_faults (F : faults) : Prop := forall x e, fault_at F x = Some e -> is_Exception e = true.
Definition exception_names (names : list nm) : Prop :=
  forall i e, In (NKnownRaises i e) names -> is_Exception e = true.

Lemma visit_raise : forall F x s s' e, exception_faults F -> visit F x s = Raise s' e -> is_Exception e = true.
Proof.
  intros F x s s' e HF H. unfold visit in H. destruct (fault_at F x) eqn:Hx; [|discriminate H].
  inversion H; subst. eapply HF; eauto.
Qed.

Lemma bind_raise : forall {A B} (m : res A) (f : state -> A -> res B) s' e (P : exc -> Prop),
  (forall s1 e1, m = Raise s1 e1 -> P e1) -> (forall s1 a s2 e2, f s1 a = Raise s2 e2 -> P e2) ->
  bind m f = Raise s' e -> P e.
Proof.
  intros A B m f s' e P Hm Hf H. destruct m as [s1 a|s1 e1]; cbn in H.
  - eapply Hf; eauto.
  - inversion H; subst. eapply Hm; eauto.
Qed.

Lemma import_ok_raise : forall F id s s' e,
  exception_faults F -> import_ok E F id s = Raise s' e -> is_Exception e = true.
Proof.
  intros F id s s' e HF H. unfold import_ok in H.
  eapply (bind_raise _ _ _ _ (fun e => is_Exception e = true)); [| |exact H].
  - intros s3 e3 X. eapply visit_raise; eauto.
  - intros s3 ? s4 e4 X. cbn beta in X. discriminate X.
Qed.

Lemma import_one_raise : forall F n s s' e,
  exception_faults F -> (forall i e0, n = NKnownRaises i e0 -> is_Exception e0 = true) ->
  import_one E F n s = Raise s' e -> is_Exception e = true.
Proof.
  intros F n s s' e HF Hn H. unfold import_one in H.
  eapply (bind_raise _ _ _ _ (fun e => is_Exception e = true)); [| |exact H].
  - intros s1 e1 X. eapply visit_raise; eauto.
  - clear H. intros s0 ? s0' e0' H0. cbn beta in H0.
    eapply (bind_raise _ _ _ _ (fun e => is_Exception e = true)); [| |exact H0].
    + intros s1 e1 X. eapply visit_raise; eauto.
    + clear H0. intros s1 ? s2 e2 H. cbn beta in H.
      destruct (memN (nm_id n) (user_ns s1)); [discriminate H|].
      destruct (has_key (nm_id n) (attempted s1)); [discriminate H|].
      destruct n as [i|i e0|i|i]; [| |discriminate H|].
      * eapply import_ok_raise; eauto.
      * eapply (bind_raise _ _ _ _ (fun e => is_Exception e = true)); [| |exact H].
        -- intros s3 e3 X. eapply visit_raise; eauto.
        -- intros s3 ? s4 e4 X. cbn beta in X. rewrite (Hn i e0 eq_refl) in X. discriminate X.
      * cbn [nm_id] in H. destruct (memN i (registered s1)); [eapply import_ok_raise; eauto|discriminate H].
Qed.

Lemma import_all_raise : forall F ns ok s s' e,
  exception_faults F -> exception_names ns -> import_all E F ns ok s = Raise s' e -> is_Exception e = true.
Proof.
  intros F ns. induction ns as [|n r IH]; intros ok s s' e HF Hn H; cbn in H; [discriminate H|].
  eapply (bind_raise _ _ _ _ (fun e => is_Exception e = true)); [| |exact H].
  - intros s1 e1 X. eapply import_one_raise; [exact HF| |exact X]. intros i e0 ->. eapply Hn. left. reflexivity.
  - intros s1 b s2 e2 X. eapply IH; [exact HF| |exact X]. intros i e0 Hin. eapply Hn. right. exact Hin.
Qed.

Lemma auto_import_body_raise : forall F names s s' e,
  exception_faults F -> exception_names names -> auto_import_body E F names s = Raise s' e -> is_Exception e = true.
Proof.
  intros F names s s' e HF Hn H. unfold auto_import_body in H.
  eapply (bind_raise _ _ _ _ (fun e => is_Exception e = true)); [| |exact H].
  - intros s1 e1 X. eapply visit_raise; eauto.
  - clear H. intros s1 ? s2 e2 H. cbn beta in H.
    destruct (visit F SAnalysis s1) as [s3 u|s3 e3] eqn:Hv.
    + destruct (filter _ names) as [|m ms] eqn:Hf; [discriminate H|].
      eapply (bind_raise _ _ _ _ (fun e => is_Exception e = true)); [| |exact H].
      * intros s4 e4 X. eapply visit_raise; eauto.
      * intros s4 ? s5 e5 X. cbn beta in X. eapply import_all_raise; [exact HF| |exact X].
        intros i e0 Hin. eapply Hn. rewrite <- Hf in Hin. apply filter_In in Hin. exact (proj1 Hin).
    + destruct e3; try discriminate H; inversion H; subst; eapply visit_raise; eauto.
Qed.

(* ------------------------------------------------------------------------------------------ *)
(* _safe_call: absorbs, and withdraws *)

(* outside debug mode a function that raises only Exceptions never gets an exception through _safe_call
   (raise_on_error "if_debug" or False), provided the fallback does not raise *)
Lemma safe_call_absorbs : forall {A} mode (f : state -> res A) (on_error : option (state -> res A)) s,
  mode <> RTrue ->
  (forall s1 s2 e, f s1 = Raise s2 e -> is_Exception e = true) ->
  (forall g s1, on_error = Some g -> exists s2 a, g s1 = Ret s2 a) ->
  exists s' r, safe_call false mode f on_error s = Ret s' r.
Proof.
  intros A mode f on_error s Hm Hf Hg. unfold safe_call.
  assert (Hfb : forall s1, exists s' r,
             match on_error with Some g => bind (g s1) (fun s' a => Ret s' (Some a)) | None => Ret s1 None end = Ret s' r).
  { intros s1. destruct on_error as [g|]; [|eauto]. destruct (Hg g s1 eq_refl) as (s2 & a & X). rewrite X. cbn. eauto. }
  destruct (errored s); [apply Hfb|].
  destruct (f s) as [s1 a|s1 e] eqn:Hfs; [eauto|].
  rewrite (Hf _ _ _ Hfs). destruct mode; [contradiction| |]; apply Hfb.
Qed.

(* raise_on_error=False never re-raises, at any log level (this is why the AST transformer passes it) *)
Lemma safe_call_absorbs_false : forall {A} d (f : state -> res A) (on_error : option (state -> res A)) s,
  (forall s1 s2 e, f s1 = Raise s2 e -> is_Exception e = true) ->
  (forall g s1, on_error = Some g -> exists s2 a, g s1 = Ret s2 a) ->
  exists s' r, safe_call d RFalse f on_error s = Ret s' r.
Proof.
  intros A d f on_error s Hf Hg. unfold safe_call.
  assert (Hfb : forall s1, exists s' r,
             match on_error with Some g => bind (g s1) (fun s' a => Ret s' (Some a)) | None => Ret s1 None end = Ret s' r).
  { intros s1. destruct on_error as [g|]; [|eauto]. destruct (Hg g s1 eq_refl) as (s2 & a & X). rewrite X. cbn. eauto. }
  destruct (errored s); [apply Hfb|].
  destruct (f s) as [s1 a|s1 e] eqn:Hfs; [eauto|].
  rewrite (Hf _ _ _ Hfs). apply Hfb.
Qed.

(* when the function raised, the importer is errored, DISABLED, and every joinpoint and hook list is back at
   its base value (C14's disable lemma) *)
Lemma safe_call_withdraws : forall {A} b mode (f : state -> res A) on_error s s1 e,
  no_advice b -> good E b s -> st s <> DISABLED -> errored s = false ->
  f s = Raise s1 e -> is_Exception e = true -> same_core s s1 ->
  (forall g s2, on_error = Some g -> same_core s2 (res_state (g s2))) ->
  let s' := res_state (safe_call false mode f on_error s) in
  errored s' = true /\ st s' = DISABLED /\ at_base E b s' /\ good E b s'.
Proof.
  intros A b mode f on_error s s1 e Hb Hg Hst Herr Hf He Hc Hon. unfold safe_call. rewrite Herr, Hf, He.
  set (s2 := log_emit (set_errored true s1)).
  assert (Hc2 : slot s2 = slot s /\ (forall l, get_list l s2 = get_list l s) /\ disablers s2 = disablers s /\
                next s2 = next s /\ ast_tr s2 = ast_tr s /\ st s2 = st s /\ errored s2 = true).
  { destruct Hc as (C1 & C2 & C3 & C4 & C5 & C6 & C7). unfold s2, log_emit.
    destruct (log_pre (set_errored true s1)); cbn; repeat split; try assumption;
      intros l; rewrite <- C2; destruct l; reflexivity. }
  destruct Hc2 as (C1 & C2 & C3 & C4 & C5 & C6 & C7).
  assert (Hg2 : good E b s2) by (eapply good_ext; eauto).
  assert (Hst2 : st s2 <> DISABLED) by (rewrite C6; exact Hst).
  pose proof (disable_good E b s2 Hb Hg2 Hst2) as (G & AB & S & Er & _). cbn zeta in *.
  set (s3 := disable s2) in *.
  assert (Hfinal : forall s4, same_core s3 s4 -> errored s4 = true /\ st s4 = DISABLED /\ at_base E b s4 /\ good E b s4).
  { intros s4 (D1 & D2 & D3 & D4 & D5 & D6 & D7). split; [|split; [|split]].
    - rewrite D7, Er. exact C7.
    - rewrite D6. exact S.
    - destruct AB as (A1 & A2 & A3 & A4 & A5 & A6). unfold at_base. rewrite D1, D3, D5.
      change (ast_l s4) with (get_list LAst s4). change (line_l s4) with (get_list LLineTransforms s4).
      change (cleanup_l s4) with (get_list LCleanup s4). rewrite !D2. repeat split; assumption.
    - eapply good_ext; eauto. }
  assert (Hfb : forall s4, s4 = s3 ->
     let r := match on_error with Some g => bind (g s4) (fun s' a => Ret s' (Some a)) | None => Ret s4 None end in
     errored (res_state r) = true /\ st (res_state r) = DISABLED /\ at_base E b (res_state r) /\ good E b (res_state r)).
  { intros s4 ->. destruct on_error as [g|]; cbn zeta.
    - specialize (Hon g s3 eq_refl). destruct (g s3) as [s5 a|s5 e5]; cbn in *; apply Hfinal; exact Hon.
    - apply Hfinal. apply same_core_refl. }
  destruct mode; cbn [res_state]; [apply Hfinal; apply same_core_refl| |]; apply Hfb; reflexivity.
Qed.

(* ------------------------------------------------------------------------------------------ *)
(* the hooks: no exception reaches IPython *)

Definition absorbing (c : cell) : Prop :=
  exception_faults (c_faults c) /\ exception_names (c_names c) /\ fault_at (c_faults c) SNamespaces = None.

(* the logging context manager around completion does not raise: NullCtx, or a working prompt redisplay,
   and no earlier completion left the handler hooked *)
Definition intercept_ok (s : state) : Prop :=
  match intercept_ctx IO with INull => True | IHook post_raises => post_raises = false /\ log_pre s = false end.

Theorem hook_ast_absorbs : forall F names s,
  e_debug E = false -> exception_faults F -> exception_names names -> fault_at F SNamespaces = None ->
  exists s', hook_ast E F names s = Ret s' tt.
Proof.
  intros F names s Hd HF Hn Hns. unfold hook_ast, ai_auto_import, visit. rewrite Hns. cbn [bind]. rewrite Hd.
  destruct (safe_call_absorbs RFalse (auto_import_body E F names) None s) as (s' & r & H).
  - discriminate.
  - intros s1 s2 e X. eapply auto_import_body_raise; eauto.
  - intros g s1 X. discriminate X.
  - rewrite H. cbn. eauto.
Qed.

(* ... at every log level, DEBUG included *)
Theorem hook_ast_absorbs_any_level : forall F names s,
  exception_faults F -> exception_names names -> fault_at F SNamespaces = None ->
  exists s', hook_ast E F names s = Ret s' tt.
Proof.
  intros F names s HF Hn Hns. unfold hook_ast, ai_auto_import, visit. rewrite Hns. cbn [bind].
  destruct (safe_call_absorbs_false (e_debug E) (auto_import_body E F names) None s) as (s' & r & H).
  - intros s1 s2 e X. eapply auto_import_body_raise; eauto.
  - intros g s1 X. discriminate X.
  - rewrite H. cbn. eauto.
Qed.

Theorem hook_given_ns_absorbs : forall F names s,
  e_debug E = false -> exception_faults F -> exception_names names ->
  exists s', hook_given_ns E F names s = Ret s' tt.
Proof.
  intros F names s Hd HF Hn. unfold hook_given_ns, ai_auto_import. cbn [bind]. rewrite Hd.
  destruct (safe_call_absorbs RIfDebug (auto_import_body E F names) None s) as (s' & r & H).
  - discriminate.
  - intros s1 s2 e X. eapply auto_import_body_raise; eauto.
  - intros g s1 X. discriminate X.
  - rewrite H. cbn. eauto.
Qed.

Theorem hook_execfile_absorbs : forall F names s,
  e_debug E = false -> exception_faults F -> exception_names names ->
  exists s', hook_execfile E F names s = Ret s' tt.
Proof.
  intros F names s Hd HF Hn. unfold hook_execfile.
  destruct (bind (visit F SParse s) (fun s0 _ => ai_auto_import E F true RIfDebug names s0)) as [s1 u|s1 e] eqn:H.
  - destruct u. eauto.
  - assert (He : is_Exception e = true).
    { eapply (bind_raise _ _ _ _ (fun e => is_Exception e = true)); [| |exact H].
      - intros s2 e2 X. eapply visit_raise; eauto.
      - intros s2 ? s3 e3 X. cbn beta in X. destruct (hook_given_ns_absorbs F names s2 Hd HF Hn) as (s4 & Y).
        unfold hook_given_ns in Y. rewrite Y in X. discriminate X. }
    rewrite He. eauto.
Qed.

(* completion: no exception escapes, and whenever a stub fired inside _safe_call the answer is the original
   completer's *)
Theorem hook_complete_absorbs : forall F attr names s,
  e_debug E = false -> exception_faults F -> exception_names names -> fault_at F SNamespaces = None ->
  intercept_ok s ->
  exists s' v, hook_complete E IO F attr names s = Ret s' v.
Proof.
  intros F attr names s Hd HF Hn Hns Hi. unfold hook_complete.
  set (inner := fun s0 : state =>
     bind (visit F SNamespaces s0) (fun s1 _ =>
     bind (safe_call (e_debug E) RIfDebug (complete_body E F attr names) (Some (fun s2 => Ret s2 ViaOriginal)) s1)
          (fun s2 o => Ret s2 match o with Some v => v | None => ViaOriginal end))).
  assert (Hinner : forall s0, exists s' v, inner s0 = Ret s' v).
  { intros s0. unfold inner, visit. rewrite Hns. cbn [bind]. rewrite Hd.
    destruct (safe_call_absorbs RIfDebug (complete_body E F attr names) (Some (fun s2 => Ret s2 ViaOriginal)) s0) as (s' & r & H).
    - discriminate.
    - intros s1 s2 e X. unfold complete_body in X.
      eapply (bind_raise _ _ _ _ (fun e => is_Exception e = true)); [| |exact X].
      + intros s3 e3 Y. eapply visit_raise; eauto.
      + intros s3 ? s4 e4 Y. cbn beta in Y.
        eapply (bind_raise _ _ _ _ (fun e => is_Exception e = true)); [| |exact Y].
        * intros s5 e5 Z. eapply visit_raise; eauto.
        * intros s5 ? s6 e6 Z. cbn beta in Z.
          eapply (bind_raise _ _ _ _ (fun e => is_Exception e = true)); [| |exact Z].
          -- intros s7 e7 W. eapply visit_raise; eauto.
          -- intros s7 ? s8 e8 W. cbn beta in W. destruct attr.
             2:{ eapply (bind_raise _ _ _ _ (fun e => is_Exception e = true)); [| |exact W].
                 - intros sa ea Q. eapply visit_raise; eauto.
                 - intros sa ? sb eb Q. cbn beta in Q. discriminate Q. }
             destruct (bind (visit F SParse s7) (fun s9 _ => auto_import_body E F names (set_attempted [] s9))) as [s9 u|s9 e9] eqn:V;
               [discriminate W|].
             assert (He9 : is_Exception e9 = true).
             { eapply (bind_raise _ _ _ _ (fun e => is_Exception e = true)); [| |exact V].
               - intros sa ea Q. eapply visit_raise; eauto.
               - intros sa ? sb eb Q. cbn beta in Q. eapply auto_import_body_raise; eauto. }
             rewrite He9 in W. discriminate W.
    - intros g s1 X. inversion X; subst. eauto.
    - rewrite H. cbn. eauto. }
  unfold with_intercept. unfold intercept_ok in Hi. fold inner.
  destruct (intercept_ctx IO) as [|post_raises]; [apply Hinner|].
  destruct Hi as [-> Hpre]. rewrite Hpre.
  destruct (Hinner (set_log true false s)) as (s' & v & H). rewrite H. cbn [res_state].
  destruct (log_dirty s'); eauto.
Qed.

(* ------------------------------------------------------------------------------------------ *)
(* either nothing happened to the importer, or it has withdrawn completely *)

Lemma safe_call_dichotomy : forall {A} b mode (f : state -> res A) on_error s,
  no_advice b -> good E b s -> st s <> DISABLED -> errored s = false -> mode <> RTrue ->
  (forall s1, res_core s1 (f s1)) ->
  (forall s1 s2 e, f s1 = Raise s2 e -> is_Exception e = true) ->
  (forall g s2, on_error = Some g -> same_core s2 (res_state (g s2))) ->
  let s' := res_state (safe_call false mode f on_error s) in
  (same_core s s' /\ errored s' = false) \/
  (errored s' = true /\ st s' = DISABLED /\ at_base E b s' /\ good E b s').
Proof.
  intros A b mode f on_error s Hb Hg Hst Herr Hm Hcore Hexc Hon.
  destruct (f s) as [s1 a|s1 e] eqn:Hf.
  - left. unfold safe_call. rewrite Herr, Hf. cbn. pose proof (Hcore s) as Hc. unfold res_core in Hc. rewrite Hf in Hc.
    cbn in Hc. split; [exact Hc|]. destruct Hc as (_ & _ & _ & _ & _ & _ & X). rewrite X. exact Herr.
  - right. pose proof (Hcore s) as Hc. unfold res_core in Hc. rewrite Hf in Hc. cbn in Hc.
    eapply safe_call_withdraws; eauto.
Qed.

(* the AST-transformer hook: after it ran, the importer is untouched, or errored and fully withdrawn *)
Theorem hook_ast_withdraws : forall b F names s,
  e_debug E = false -> exception_faults F -> exception_names names -> fault_at F SNamespaces = None ->
  no_advice b -> good E b s -> st s <> DISABLED -> errored s = false ->
  let s' := res_state (hook_ast E F names s) in
  (same_core s s' /\ errored s' = false) \/
  (errored s' = true /\ st s' = DISABLED /\ at_base E b s' /\ good E b s').
Proof.
  intros b F names s Hd HF Hn Hns Hb Hg Hst Herr. unfold hook_ast, ai_auto_import, visit. rewrite Hns. cbn [bind]. rewrite Hd.
  pose proof (safe_call_dichotomy b RFalse (auto_import_body E F names) None s Hb Hg Hst Herr) as H.
  cbn zeta in H.
  assert (X : forall (m : res (option bool)), res_state (bind m (fun s0 _ => Ret s0 tt)) = res_state m)
    by (intros [? ?|? ?]; reflexivity).
  rewrite X. apply H.
  - discriminate.
  - intros s1. apply auto_import_body_core.
  - intros s1 s2 e Y. eapply auto_import_body_raise; eauto.
  - intros g s2 Y. discriminate Y.
Qed.

(* ------------------------------------------------------------------------------------------ *)
(* a withdrawn importer is on the path of no later interaction *)

Record withdrawn (b : base) (s : state) : Prop := mkWithdrawn {
  w_base : at_base E b s;
  w_noadv : no_advice b;
  w_ast : forall x, In x (b_ast b) -> ours n0 x = false;
  w_cleanup : forall x, In x (b_cleanup b) -> ours n0 x = false;
  w_f6 : f6_fixed E = true
}.

Lemma existsb_ours_false : forall l, (forall x, In x l -> ours n0 x = false) -> existsb (ours n0) l = false.
Proof.
  induction l as [|y r IH]; intros H; cbn; [reflexivity|].
  rewrite (H y (or_introl eq_refl)). cbn. apply IH. intros x Hx. apply H. right. exact Hx.
Qed.

Lemma transform_ast_none : forall F names ts s,
  (forall x, In x ts -> ours n0 x = false) -> transform_ast E IO n0 F names ts s = Ret s false.
Proof.
  intros F names ts. induction ts as [|t r IH]; intros s H; cbn; [reflexivity|].
  rewrite (H t (or_introl eq_refl)). apply IH. intros x Hx. apply H. right. exact Hx.
Qed.

Lemma withdrawn_user_ns : forall b s u, withdrawn b s -> withdrawn b (set_user_ns u s).
Proof. intros b s u [Hb H1 H2 H3 H4]. constructor; assumption. Qed.

Theorem withdrawn_plain : forall b c s,
  withdrawn b s ->
  let '(s', o) := interact E IO n0 c s in
  co_path o = false /\ co_escaped o = None /\ withdrawn b s'.
Proof.
  intros b c s W. pose proof W as [(A1 & A2 & A3 & A4 & A5 & A6) Hb Hast Hcl F6].
  rewrite F6 in A4.
  assert (Hadv : forall j, is_advice (slot s j) = false) by (intros j; rewrite A1; apply Hb).
  assert (Hres : existsb (ours n0) (cleanup_l s) = false) by (rewrite A4; apply existsb_ours_false; exact Hcl).
  assert (Hts : forall F names, transform_ast E IO n0 F names (ast_l s) s = Ret s false)
    by (intros F names; apply transform_ast_none; rewrite A2; exact Hast).
  unfold interact.
  assert (Hmain : let '(s1, o) := interact_main E IO n0 c s in s1 = s /\ co_path o = false /\ co_escaped o = None).
  { unfold interact_main. rewrite Hres. cbn [orb].
    destruct (c_act c); rewrite ?Hts; cbn [bind]; rewrite ?Hadv; cbn; repeat split. }
  destruct (interact_main E IO n0 c s) as [s1 o]. destruct Hmain as (-> & P & Q).
  destruct (c_del c && co_ok o); (split; [exact P|split; [exact Q|]]); [apply withdrawn_user_ns|]; exact W.
Qed.

(* ... for every sequence of later interactions, whatever stubs are armed during them *)
Fixpoint run_cells (cs : list cell) (s : state) : list cout :=
  match cs with
  | [] => []
  | c :: r => let '(s', o) := interact E IO n0 c s in o :: run_cells r s'
  end.

Theorem later_cells_plain : forall b cs s,
  withdrawn b s -> Forall (fun o => co_path o = false /\ co_escaped o = None) (run_cells cs s).
Proof.
  intros b cs. induction cs as [|c r IH]; intros s W; cbn; [constructor|].
  pose proof (withdrawn_plain b c s W) as H. destruct (interact E IO n0 c s) as [s' o].
  destruct H as (P & Q & W'). constructor; [split; assumption|]. apply IH. exact W'.
Qed.

(* ------------------------------------------------------------------------------------------ *)
(* what is NOT absorbed, stated separately *)

(* a BaseException that is not an Exception goes through _safe_call untouched: nothing is disabled *)
Lemma safe_call_base_escapes : forall {A} d mode (f : state -> res A) on_error s s1 n,
  errored s = false -> f s = Raise s1 (EBase n) -> safe_call d mode f on_error s = Raise s1 (EBase n).
Proof. intros A d mode f on_error s s1 n He Hf. unfold safe_call. rewrite He, Hf. reflexivity. Qed.

(* the preludes: get_global_namespaces is called outside _safe_call, so a fault there leaves the hook *)
Lemma hook_ast_prelude_escapes : forall F names s e,
  fault_at F SNamespaces = Some e -> hook_ast E F names s = Raise s e.
Proof. intros F names s e H. unfold hook_ast, ai_auto_import, visit. rewrite H. reflexivity. Qed.

(* %debug <statement> on the unrepaired code: the database load and the analysis run outside _safe_call *)
Lemma hook_run_with_debugger_escapes : forall F names s e,
  f35_fixed IO = false -> fault_at F SDbLoad = Some e -> hook_run_with_debugger E IO F names s = Raise s e.
Proof. intros F names s e H35 H. unfold hook_run_with_debugger, debugger_body, visit. rewrite H35, H. destruct s; reflexivity. Qed.

(* ... and absorbed on the repaired code *)
Theorem hook_run_with_debugger_absorbs : forall F names s,
  f35_fixed IO = true -> e_debug E = false -> exception_faults F -> exception_names names ->
  exists s', hook_run_with_debugger E IO F names s = Ret s' tt.
Proof.
  intros F names s H35 Hd HF Hn. unfold hook_run_with_debugger. rewrite H35, Hd.
  destruct (safe_call_absorbs RIfDebug (debugger_body E F names) None s) as (s' & r & H).
  - discriminate.
  - intros s1 s2 e X. unfold debugger_body in X.
    destruct (bind (visit F SDbLoad s1) (fun s0 _ => auto_import_body E F names (set_attempted [] s0))) as [s5 b5|s5 e5] eqn:V;
      [discriminate X|].
    inversion X; subst.
    eapply (bind_raise _ _ _ _ (fun e => is_Exception e = true)); [| |exact V].
    + intros s3 e3 Y. eapply visit_raise; eauto.
    + intros s3 ? s4 e4 Y. cbn beta in Y. eapply auto_import_body_raise; eauto.
  - intros g s1 X. discriminate X.
  - rewrite H. cbn. eauto.
Qed.
End WithEnv.

(* Proofs about Interactive/Enable.v: the disabler stack is an undo log (LIFO), `once` keeps one advice
   per joinpoint, a disabled importer has left nothing behind. *)
From Coq Require Import NArith List Bool Lia ZifyBool Arith.
From Verif Require Import Interactive.Enable.
Import ListNotations.

(* ------------------------------------------------------------------------------------------ *)
(* basic facts *)

Lemma jp_eqb_refl : forall j, jp_eqb j j = true.
Proof. intros j. unfold jp_eqb. apply N.eqb_refl. Qed.

Lemma jp_eqb_eq : forall a b, jp_eqb a b = true <-> a = b.
Proof.
  intros a b. unfold jp_eqb. rewrite N.eqb_eq. split.
  - destruct a, b; cbn; intros H; try reflexivity; discriminate H.
  - intros ->. reflexivity.
Qed.

Lemma val_eqb_refl : forall v, val_eqb v v = true.
Proof. destruct v; cbn; auto using N.eqb_refl. Qed.

Lemma estate_eqb_eq : forall a b, estate_eqb a b = true <-> a = b.
Proof. destruct a, b; cbn; split; intros H; try reflexivity; discriminate H. Qed.

(* ------------------------------------------------------------------------------------------ *)
(* what running a stack of disablers does, component by component *)

Definition upd (j : jp) (v : val) (f : jp -> val) : jp -> val := fun k => if jp_eqb k j then v else f k.

Definition undo_slot1 (d : disabler) (f : jp -> val) : jp -> val :=
  match d with
  | DUnadvise j w p => if val_eqb (f j) w then upd j p f else f
  | DRemove _ _ => f
  end.
Fixpoint undo_slots (ds : list disabler) (f : jp -> val) : jp -> val :=
  match ds with [] => f | d :: r => undo_slots r (undo_slot1 d f) end.

Definition undo_list1 (l : hooklist) (d : disabler) (L : list N) : list N :=
  match d with
  | DRemove l' x => if hooklist_eqb l' l then remove_first x L else L
  | DUnadvise _ _ _ => L
  end.
Fixpoint undo_list (l : hooklist) (ds : list disabler) (L : list N) : list N :=
  match ds with [] => L | d :: r => undo_list l r (undo_list1 l d L) end.

Definition removes_ast (d : disabler) : bool := match d with DRemove LAst _ => true | _ => false end.

Lemma run_disabler_slot : forall d s j, slot (run_disabler d s) j = undo_slot1 d (slot s) j.
Proof.
  intros [jj w p | l x] s j; cbn.
  - unfold unadvise. destruct (val_eqb (slot s jj) w); cbn; [reflexivity|].
    destruct (val_eqb (slot s jj) p); reflexivity.
  - destruct l; reflexivity.
Qed.

Lemma run_disabler_list : forall d s l, get_list l (run_disabler d s) = undo_list1 l d (get_list l s).
Proof.
  intros [jj w p | l' x] s l; cbn.
  - unfold unadvise. destruct (val_eqb (slot s jj) w); [destruct l; reflexivity|].
    destruct (val_eqb (slot s jj) p); reflexivity.
  - destruct l', l; reflexivity.
Qed.

Lemma run_disabler_misc : forall d s,
  st (run_disabler d s) = st s /\ errored (run_disabler d s) = errored s /\
  disablers (run_disabler d s) = disablers s /\ next (run_disabler d s) = next s /\
  attempted (run_disabler d s) = attempted s /\ user_ns (run_disabler d s) = user_ns s /\
  log_pre (run_disabler d s) = log_pre s /\ log_dirty (run_disabler d s) = log_dirty s /\
  ast_tr (run_disabler d s) = (if removes_ast d then None else ast_tr s) /\
  has_shell (run_disabler d s) = has_shell s /\ pending (run_disabler d s) = pending s /\
  registered (run_disabler d s) = registered s.
Proof.
  intros [jj w p | l x] s; cbn.
  - unfold unadvise. destruct (val_eqb (slot s jj) w); [cbn; repeat split|].
    destruct (val_eqb (slot s jj) p); repeat split.
  - destruct l; cbn; repeat split.
Qed.

Lemma undo_slots_ext : forall ds f g, (forall j, f j = g j) -> forall j, undo_slots ds f j = undo_slots ds g j.
Proof.
  induction ds as [|d r IH]; intros f g H j; cbn; [apply H|].
  apply IH. intros k. destruct d as [jj w p | l x]; cbn; [|apply H].
  rewrite (H jj). destruct (val_eqb (g jj) w); [|apply H].
  unfold upd. destruct (jp_eqb k jj); [reflexivity|apply H].
Qed.

Lemma run_disablers_spec : forall ds s,
  let s' := run_disablers ds s in
  (forall j, slot s' j = undo_slots ds (slot s) j) /\
  (forall l, get_list l s' = undo_list l ds (get_list l s)) /\
  st s' = st s /\ errored s' = errored s /\ disablers s' = [] /\ next s' = next s /\
  attempted s' = attempted s /\ user_ns s' = user_ns s /\ log_pre s' = log_pre s /\ log_dirty s' = log_dirty s /\
  ast_tr s' = (if existsb removes_ast ds then None else ast_tr s) /\
  has_shell s' = has_shell s /\ pending s' = pending s /\ registered s' = registered s.
Proof.
  induction ds as [|d r IH]; intros s; cbn.
  - repeat split; intros; try destruct l; reflexivity.
  - specialize (IH (run_disabler d (set_disablers r s))).
    cbn in IH. destruct IH as (Hs & Hl & H1 & H2 & H3 & H4 & H5 & H6 & H7 & H8 & H9 & H10 & H11 & H12).
    pose proof (run_disabler_misc d (set_disablers r s)) as (M1 & M2 & M3 & M4 & M5 & M6 & M7 & M8 & M9 & M10 & M11 & M12).
    repeat split.
    + intros j. rewrite Hs. apply undo_slots_ext. intros k. rewrite run_disabler_slot. reflexivity.
    + intros l. rewrite Hl. rewrite run_disabler_list. destruct l; reflexivity.
    + rewrite H1, M1. reflexivity.
    + rewrite H2, M2. reflexivity.
    + exact H3.
    + rewrite H4, M4. reflexivity.
    + rewrite H5, M5. reflexivity.
    + rewrite H6, M6. reflexivity.
    + rewrite H7, M7. reflexivity.
    + rewrite H8, M8. reflexivity.
    + rewrite H9, M9. cbn. destruct (removes_ast d); cbn; [destruct (existsb removes_ast r); reflexivity|reflexivity].
    + rewrite H10, M10. reflexivity.
    + rewrite H11, M11. reflexivity.
    + rewrite H12, M12. reflexivity.
Qed.

(* ------------------------------------------------------------------------------------------ *)
(* the invariants *)

Definition fresh (s : state) : Prop := forall l x, In x (get_list l s) -> (x < next s)%N.

Definition count_unadvise (j : jp) (ds : list disabler) : nat :=
  length (filter (fun d => match d with DUnadvise k _ _ => jp_eqb k j | _ => false end) ds).
Definition count_remove (l : hooklist) (ds : list disabler) : nat :=
  length (filter (fun d => match d with DRemove l' _ => hooklist_eqb l' l | _ => false end) ds).

(* exactly the advised joinpoints have an unadvise on the stack, each exactly one *)
Definition once_adv (s : state) : Prop :=
  forall j, count_unadvise j (disablers s) = if is_advice (slot s j) then 1 else 0.

(* self._ast_transformer is set only while its remover is on the stack *)
Definition ast_tr_ok (s : state) : Prop := ast_tr s = None \/ existsb removes_ast (disablers s) = true.

Section WithEnv.
Variable E : env.

(* [base]: the slots and lists pyflyby found (their values before it was ever enabled) *)
Record base := mkBase { b_slot : jp -> val; b_ast : list N; b_cleanup : list N; b_line : list N }.
Definition base_of (s : state) : base := mkBase (slot s) (ast_l s) (cleanup_l s) (line_l s).

Definition no_cleanup_remover (ds : list disabler) : Prop := count_remove LCleanup ds = 0.

(* running the stack now would give back the base: the stack is an undo log *)
Definition undo_ok (b : base) (s : state) : Prop :=
  (forall j, undo_slots (disablers s) (slot s) j = b_slot b j) /\
  undo_list LAst (disablers s) (ast_l s) = b_ast b /\
  undo_list LLineTransforms (disablers s) (line_l s) = b_line b /\
  (if f6_fixed E then undo_list LCleanup (disablers s) (cleanup_l s) = b_cleanup b
   else no_cleanup_remover (disablers s) /\ exists extra, cleanup_l s = b_cleanup b ++ extra).

(* one installation step *)
Inductive inst : state -> state -> Prop :=
| inst_refl s : inst s s
| inst_adv s j : inst s (advise_once j s)
| inst_app s l : (l = LCleanup -> f6_fixed E = true) -> inst s (fst (append_hook l true s))
| inst_app_ast s : inst s (let '(s1, t) := append_hook LAst true s in set_ast_tr (Some t) s1)
| inst_leak s : f6_fixed E = false -> inst s (fst (append_hook LCleanup false s))
| inst_trans s1 s2 s3 : inst s1 s2 -> inst s2 s3 -> inst s1 s3.

Record good (b : base) (s : state) : Prop := mkGood {
  g_fresh : fresh s;
  g_undo : undo_ok b s;
  g_once : once_adv s;
  g_asttr : ast_tr_ok s
}.

Lemma remove_first_app_fresh : forall x L, ~ In x L -> remove_first x (L ++ [x]) = L.
Proof.
  induction L as [|y r IH]; intros H; cbn.
  - rewrite N.eqb_refl. reflexivity.
  - destruct (N.eqb_spec y x) as [->|Hne]; [exfalso; apply H; left; reflexivity|].
    rewrite IH; [reflexivity|]. intros Hin. apply H. right. exact Hin.
Qed.

Lemma fresh_not_in : forall s l, fresh s -> ~ In (next s) (get_list l s).
Proof. intros s l Hf Hin. apply Hf in Hin. lia. Qed.

Lemma count_unadvise_cons : forall j d ds,
  count_unadvise j (d :: ds) =
  (match d with DUnadvise k _ _ => if jp_eqb k j then 1 else 0 | _ => 0 end) + count_unadvise j ds.
Proof.
  intros j d ds. unfold count_unadvise. cbn [filter].
  destruct d as [k w p|l x]; [destruct (jp_eqb k j)|]; reflexivity.
Qed.

Lemma count_remove_cons : forall l d ds,
  count_remove l (d :: ds) =
  (match d with DRemove l' _ => if hooklist_eqb l' l then 1 else 0 | _ => 0 end) + count_remove l ds.
Proof.
  intros l d ds. unfold count_remove. cbn [filter].
  destruct d as [k w p|l' x]; [|destruct (hooklist_eqb l' l)]; reflexivity.
Qed.

Lemma undo_list_no_remover : forall l ds L, count_remove l ds = 0 -> undo_list l ds L = L.
Proof.
  induction ds as [|d r IH]; intros L H; cbn; [reflexivity|].
  rewrite count_remove_cons in H. destruct d as [k w p|l' x]; cbn.
  - apply IH. cbn in H. exact H.
  - destruct (hooklist_eqb l' l); [discriminate H|]. apply IH. exact H.
Qed.

(* --- advise_once keeps the invariants --- *)
Lemma undo_advise_step : forall ds f j w k,
  undo_slots (DUnadvise j w (f j) :: ds) (upd j w f) k = undo_slots ds f k.
Proof.
  intros ds f j w k. cbn [undo_slots undo_slot1].
  assert (H : val_eqb (upd j w f j) w = true).
  { unfold upd. rewrite jp_eqb_refl. apply val_eqb_refl. }
  rewrite H. apply undo_slots_ext. intros k'. unfold upd.
  destruct (jp_eqb k' j) eqn:Hk; [apply jp_eqb_eq in Hk; subst; reflexivity|reflexivity].
Qed.

Lemma good_advise : forall b s j, good b s -> good b (advise_once j s).
Proof.
  intros b s j [Hf Hu Ho Ha]. unfold advise_once.
  destruct (is_advice (slot s j)) eqn:Hadv; [constructor; assumption|].
  set (w := VAdvice (next s)).
  set (s' := push_disabler (DUnadvise j w (slot s j)) (set_slot j w (bump_next s))).
  assert (Hs : slot s' = upd j w (slot s)) by reflexivity.
  assert (Hd : disablers s' = DUnadvise j w (slot s j) :: disablers s) by reflexivity.
  assert (Hl : forall l, get_list l s' = get_list l s) by (intros l; destruct l; reflexivity).
  assert (Hn : next s' = (next s + 1)%N) by reflexivity.
  assert (Ht : ast_tr s' = ast_tr s) by reflexivity.
  constructor.
  - intros l x Hin. rewrite Hl in Hin. apply Hf in Hin. rewrite Hn. lia.
  - destruct Hu as (U1 & U2 & U3 & U4). unfold undo_ok. rewrite Hs, Hd.
    change (ast_l s') with (ast_l s). change (line_l s') with (line_l s). change (cleanup_l s') with (cleanup_l s).
    repeat split.
    + intros k. rewrite undo_advise_step. apply U1.
    + exact U2.
    + exact U3.
    + destruct (f6_fixed E); [exact U4|]. destruct U4 as [U4 U5]. split; [|exact U5].
      unfold no_cleanup_remover in *. rewrite count_remove_cons. exact U4.
  - intros k. rewrite Hs, Hd, count_unadvise_cons. unfold upd.
    destruct (jp_eqb j k) eqn:Hjk.
    + apply jp_eqb_eq in Hjk. subst k. rewrite jp_eqb_refl. cbn. rewrite Ho, Hadv. reflexivity.
    + assert (Hkj : jp_eqb k j = false).
      { destruct (jp_eqb k j) eqn:X; [|reflexivity]. apply jp_eqb_eq in X. subst. rewrite jp_eqb_refl in Hjk. discriminate. }
      rewrite Hkj. cbn. apply Ho.
  - destruct Ha as [Ha|Ha]; [left; rewrite Ht; exact Ha|right; rewrite Hd; cbn; exact Ha].
Qed.

(* --- appending to a hook list with a remover keeps the invariants --- *)
Lemma append_hook_fields : forall l r s,
  let s' := fst (append_hook l r s) in
  slot s' = slot s /\ next s' = (next s + 1)%N /\ ast_tr s' = ast_tr s /\
  disablers s' = (if r then DRemove l (next s) :: disablers s else disablers s) /\
  (forall l', get_list l' s' = if hooklist_eqb l' l then get_list l' s ++ [next s] else get_list l' s).
Proof.
  intros l r s. unfold append_hook. cbn [fst].
  destruct r, l; cbn; repeat split; intros l'; destruct l'; reflexivity.
Qed.

Lemma fresh_append : forall l r s, fresh s -> fresh (fst (append_hook l r s)).
Proof.
  intros l r s Hf l' x Hin.
  pose proof (append_hook_fields l r s) as (_ & Hn & _ & _ & Hl). cbn zeta in *.
  rewrite Hn. rewrite Hl in Hin. destruct (hooklist_eqb l' l).
  - apply in_app_or in Hin. destruct Hin as [Hin|[Hin|[]]]; [apply Hf in Hin; lia|subst; lia].
  - apply Hf in Hin. lia.
Qed.

Lemma hooklist_eqb_refl : forall l, hooklist_eqb l l = true.
Proof. destruct l; reflexivity. Qed.

Lemma good_append : forall b s l, (l = LCleanup -> f6_fixed E = true) -> good b s -> good b (fst (append_hook l true s)).
Proof.
  intros b s l Hfix [Hf Hu Ho Ha].
  pose proof (append_hook_fields l true s) as (Hs & Hn & Ht & Hd & Hl). cbn zeta in *.
  constructor.
  - apply fresh_append. exact Hf.
  - destruct Hu as (U1 & U2 & U3 & U4). unfold undo_ok. rewrite Hs, Hd.
    assert (HL : forall l', undo_list l' (DRemove l (next s) :: disablers s) (get_list l' (fst (append_hook l true s)))
                          = undo_list l' (disablers s) (get_list l' s)).
    { intros l'. rewrite Hl. cbn [undo_list undo_list1].
      destruct (hooklist_eqb l' l) eqn:Hll.
      - assert (l' = l) by (destruct l', l; try discriminate; reflexivity). subst l'.
        rewrite hooklist_eqb_refl. rewrite remove_first_app_fresh; [reflexivity|apply fresh_not_in; exact Hf].
      - assert (Hll' : hooklist_eqb l l' = false) by (destruct l', l; try discriminate; reflexivity).
        rewrite Hll'. reflexivity. }
    repeat split.
    + exact U1.
    + rewrite <- U2. exact (HL LAst).
    + rewrite <- U3. exact (HL LLineTransforms).
    + destruct (f6_fixed E) eqn:F6.
      * rewrite <- U4. exact (HL LCleanup).
      * destruct U4 as [U4 [extra U5]].
        assert (Hne : hooklist_eqb l LCleanup = false).
        { destruct l; try reflexivity. specialize (Hfix eq_refl). discriminate Hfix. }
        split.
        -- unfold no_cleanup_remover in *. rewrite count_remove_cons. rewrite Hne. exact U4.
        -- exists extra.
           assert (Hne' : hooklist_eqb LCleanup l = false) by (destruct l; try discriminate; reflexivity).
           change (get_list LCleanup (fst (append_hook l true s)) = b_cleanup b ++ extra).
           rewrite Hl, Hne'. exact U5.
  - intros k. rewrite Hs, Hd, count_unadvise_cons. cbn. apply Ho.
  - destruct Ha as [Ha|Ha].
    + left. rewrite Ht. exact Ha.
    + right. rewrite Hd. cbn. rewrite Ha. apply orb_true_r.
Qed.

Lemma good_append_ast : forall b s, good b s ->
  good b (let '(s1, t) := append_hook LAst true s in set_ast_tr (Some t) s1).
Proof.
  intros b s Hg.
  pose proof (good_append b s LAst (fun H => ltac:(discriminate H)) Hg) as [Hf Hu Ho Ha].
  unfold append_hook in *. cbn [fst] in *.
  constructor.
  - exact Hf.
  - exact Hu.
  - exact Ho.
  - right. reflexivity.
Qed.

Lemma good_leak : forall b s, f6_fixed E = false -> good b s -> good b (fst (append_hook LCleanup false s)).
Proof.
  intros b s F6 [Hf Hu Ho Ha].
  pose proof (append_hook_fields LCleanup false s) as (Hs & Hn & Ht & Hd & Hl). cbn zeta in *.
  constructor.
  - apply fresh_append. exact Hf.
  - destruct Hu as (U1 & U2 & U3 & U4). unfold undo_ok. rewrite Hs, Hd, F6 in *.
    repeat split.
    + exact U1.
    + exact U2.
    + exact U3.
    + exact (proj1 U4).
    + destruct U4 as [_ [extra U5]]. exists (extra ++ [next s]).
      change (get_list LCleanup (fst (append_hook LCleanup false s)) = b_cleanup b ++ extra ++ [next s]).
      rewrite Hl. cbn. rewrite U5, app_assoc. reflexivity.
  - intros k. rewrite Hs, Hd. apply Ho.
  - destruct Ha as [Ha|Ha]; [left; rewrite Ht; exact Ha|right; rewrite Hd; exact Ha].
Qed.

Lemma good_inst : forall b s s', inst s s' -> good b s -> good b s'.
Proof.
  intros b s s' H. induction H; intros Hg.
  - exact Hg.
  - apply good_advise. exact Hg.
  - apply good_append; assumption.
  - apply good_append_ast. exact Hg.
  - apply good_leak; assumption.
  - auto.
Qed.

(* installation steps do not touch the state machine, the error flag, the namespace *)
Lemma inst_misc : forall s s', inst s s' ->
  st s' = st s /\ errored s' = errored s /\ user_ns s' = user_ns s /\ attempted s' = attempted s /\
  log_pre s' = log_pre s /\ log_dirty s' = log_dirty s /\
  has_shell s' = has_shell s /\ pending s' = pending s /\ registered s' = registered s.
Proof.
  intros s s' H. induction H.
  - repeat split.
  - unfold advise_once. destruct (is_advice (slot s j)); repeat split.
  - unfold append_hook. destruct l; repeat split.
  - repeat split.
  - repeat split.
  - destruct IHinst1 as (A1 & A2 & A3 & A4 & A5 & A6 & A7 & A8 & A9), IHinst2 as (B1 & B2 & B3 & B4 & B5 & B6 & B7 & B8 & B9).
    repeat split; congruence.
Qed.

(* ------------------------------------------------------------------------------------------ *)
(* every _enable_*_hook is a sequence of installation steps, whether it returns or raises *)

Ltac inst_tac :=
  repeat first [ apply inst_refl | apply inst_adv | apply inst_app_ast
               | (apply inst_app; intros X; discriminate X)
               | (eapply inst_trans; [|apply inst_adv]) ].

Lemma inst_reset : forall s, inst s (res_state (enable_reset_hook E s)).
Proof.
  intros s. unfold enable_reset_hook. destruct (e_reset E); cbn [res_state].
  - destruct (f6_fixed E) eqn:F6.
    + apply inst_app. intros _. exact F6.
    + apply inst_leak. exact F6.
  - apply inst_app. intros X. discriminate X.
  - apply inst_adv.
  - apply inst_refl.
Qed.

Lemma inst_ofind : forall s, inst s (res_state (enable_ofind_hook E s)).
Proof. intros s. unfold enable_ofind_hook. destruct (e_ofind E); cbn; inst_tac. Qed.

Lemma inst_ast : forall s, inst s (res_state (enable_ast_hook E s)).
Proof.
  intros s. unfold enable_ast_hook. destruct (e_ast E); cbn [res_state]; try (inst_tac; fail).
Qed.

Lemma inst_magic : forall j s, inst s (res_state (enable_magic_hook E j s)).
Proof. intros j s. unfold enable_magic_hook. destruct (ast_tr s); [apply inst_refl|]. destruct (e_magics E); cbn; inst_tac. Qed.

Lemma inst_prun : forall s, inst s (res_state (enable_prun_hook E s)).
Proof. intros s. unfold enable_prun_hook. destruct (e_magics E); [destruct (e_profiler E)|]; cbn; inst_tac. Qed.

Lemma inst_completion : forall s, inst s (res_state (enable_completion_hook E s)).
Proof.
  intros s. unfold enable_completion_hook.
  destruct (e_compl E); cbn; try apply inst_refl.
  destruct (e_jedi E); [destruct (e_pm E); [destruct (f14_fixed E)| |]|]; cbn; inst_tac.
Qed.

Lemma inst_run : forall s, inst s (res_state (enable_run_hook E s)).
Proof. intros s. unfold enable_run_hook. destruct (e_execfile E); cbn; inst_tac. Qed.

Lemma inst_debugger : forall s, inst s (res_state (enable_debugger_hook E s)).
Proof.
  intros s. unfold enable_debugger_hook.
  destruct (e_ipdb E); cbn; [|apply inst_refl].
  destruct (e_tb_debugger E), (e_magics E), (e_rwd E); cbn; inst_tac.
Qed.

Lemma inst_run_hooks : forall hs, Forall (fun h => forall s, inst s (res_state (h s))) hs ->
  forall ok s, inst s (res_state (run_hooks hs ok s)).
Proof.
  induction hs as [|h r IH]; intros HF ok s; cbn; [apply inst_refl|].
  inversion HF as [|? ? Hh Hr]; subst.
  specialize (Hh s). destruct (h s) as [s' b|s' e]; cbn in *; [|exact Hh].
  eapply inst_trans; [exact Hh|]. apply IH. exact Hr.
Qed.

Lemma inst_shell_hooks : forall s, inst s (res_state (enable_shell_hooks E s)).
Proof.
  intros s. unfold enable_shell_hooks. destruct (negb (estate_eqb (st s) ENABLING)); [apply inst_refl|].
  destruct (negb (has_shell s)); [apply inst_refl|].
  apply inst_run_hooks. unfold shell_hooks.
  repeat constructor; auto using inst_reset, inst_ofind, inst_ast, inst_magic, inst_prun, inst_completion, inst_run, inst_debugger.
Qed.

(* ------------------------------------------------------------------------------------------ *)
(* disable *)

Definition no_advice (b : base) : Prop := forall j, is_advice (b_slot b j) = false.

(* pyflyby's hooks are gone *)
Definition at_base (b : base) (s : state) : Prop :=
  (forall j, slot s j = b_slot b j) /\ ast_l s = b_ast b /\ line_l s = b_line b /\
  (if f6_fixed E then cleanup_l s = b_cleanup b else exists extra, cleanup_l s = b_cleanup b ++ extra) /\
  disablers s = [] /\ ast_tr s = None.

Lemma remove_first_incl : forall x L y, In y (remove_first x L) -> In y L.
Proof.
  induction L as [|z r IH]; intros y H; cbn in *; [exact H|].
  destruct (z =? x)%N; [right; exact H|]. destruct H as [H|H]; [left; exact H|right; apply IH; exact H].
Qed.

Lemma undo_list_incl : forall l ds L y, In y (undo_list l ds L) -> In y L.
Proof.
  induction ds as [|d r IH]; intros L y H; cbn in *; [exact H|].
  apply IH in H. destruct d as [j w p|l' x]; cbn in H; [exact H|].
  destruct (hooklist_eqb l' l); [eapply remove_first_incl; exact H|exact H].
Qed.

Lemma good_empty_at_base : forall b s, good b s -> disablers s = [] -> ast_tr s = None -> at_base b s.
Proof.
  intros b s [Hf (U1 & U2 & U3 & U4) Ho Ha] Hd Ht. unfold at_base. rewrite Hd in *. cbn in *.
  repeat split; try assumption.
  destruct (f6_fixed E); [exact U4|exact (proj2 U4)].
Qed.

Lemma disable_good : forall b s, no_advice b -> good b s -> st s <> DISABLED ->
  let s' := disable s in
  good b s' /\ at_base b s' /\ st s' = DISABLED /\ errored s' = errored s /\ user_ns s' = user_ns s /\
  attempted s' = attempted s /\ log_pre s' = log_pre s /\ log_dirty s' = log_dirty s /\ next s' = next s /\
  has_shell s' = has_shell s /\ registered s' = registered s.
Proof.
  intros b s Hb Hg Hst. unfold disable.
  destruct (estate_eqb (st s) DISABLED) eqn:He; [apply estate_eqb_eq in He; contradiction|].
  cbn zeta.
  pose proof (run_disablers_spec (disablers (set_st DISABLING s)) (set_st DISABLING s)) as
    (Rs & Rl & R1 & R2 & R3 & R4 & R5 & R6 & R7 & R8 & R9 & R10 & R11 & R12).
  cbn zeta in *. change (disablers (set_st DISABLING s)) with (disablers s) in *.
  change (has_shell (set_st DISABLING s)) with (has_shell s) in R10.
  change (registered (set_st DISABLING s)) with (registered s) in R12.
  set (r := run_disablers (disablers s) (set_st DISABLING s)) in *.
  destruct Hg as [Hf (U1 & U2 & U3 & U4) Ho Ha].
  assert (Htr : ast_tr r = None).
  { rewrite R9. destruct Ha as [Ha|Ha]; [|rewrite Ha; reflexivity].
    destruct (existsb removes_ast (disablers s)); [reflexivity|exact Ha]. }
  assert (Hslot : forall j, slot r j = b_slot b j) by (intros j; rewrite Rs; apply U1).
  assert (Hast : ast_l r = b_ast b) by (rewrite <- U2; exact (Rl LAst)).
  assert (Hline : line_l r = b_line b) by (rewrite <- U3; exact (Rl LLineTransforms)).
  assert (Hcl : if f6_fixed E then cleanup_l r = b_cleanup b else exists extra, cleanup_l r = b_cleanup b ++ extra).
  { destruct (f6_fixed E).
    - rewrite <- U4. exact (Rl LCleanup).
    - destruct U4 as [U4 U5]. pose proof (Rl LCleanup) as X. cbn in X.
      rewrite undo_list_no_remover in X by exact U4. change (cleanup_l r = cleanup_l s) in X. rewrite X. exact U5. }
  assert (Hgood : good b (set_st DISABLED r)).
  { constructor.
    - intros l x Hin. change (In x (get_list l r)) in Hin. rewrite Rl in Hin.
      apply undo_list_incl in Hin. change (next (set_st DISABLED r)) with (next r). rewrite R4.
      change (next (set_st DISABLING s)) with (next s). apply (Hf l x).
      destruct l; exact Hin.
    - unfold undo_ok. change (disablers (set_st DISABLED r)) with (disablers r). rewrite R3. cbn.
      repeat split; try assumption.
      destruct (f6_fixed E); [exact Hcl|]. split; [reflexivity|exact Hcl].
    - intros j. change (disablers (set_st DISABLED r)) with (disablers r). rewrite R3. cbn.
      change (slot (set_st DISABLED r) j) with (slot r j). rewrite Hslot, Hb. reflexivity.
    - left. exact Htr. }
  split; [exact Hgood|].
  unfold at_base. repeat split; try assumption; try (cbn; congruence).
Qed.

Lemma disable_noop : forall s, st s = DISABLED -> disable s = s.
Proof. intros s H. unfold disable. rewrite H. reflexivity. Qed.

(* ------------------------------------------------------------------------------------------ *)
(* how many removers one enable pushes *)

Definition cr (l : hooklist) (s : state) : nat := count_remove l (disablers s).

Lemma cr_advise : forall l j s, cr l (advise_once j s) = cr l s.
Proof.
  intros l j s. unfold cr, advise_once. destruct (is_advice (slot s j)); [reflexivity|].
  cbn [disablers push_disabler set_disablers]. rewrite count_remove_cons. reflexivity.
Qed.

Lemma cr_append : forall l l' r s,
  cr l (fst (append_hook l' r s)) = cr l s + (if r then if hooklist_eqb l' l then 1 else 0 else 0).
Proof.
  intros l l' r s. unfold cr. pose proof (append_hook_fields l' r s) as (_ & _ & _ & Hd & _). cbn zeta in Hd.
  rewrite Hd. destruct r; [rewrite count_remove_cons; lia|lia].
Qed.

Definition d_reset (l : hooklist) : nat := match l with LAst => 0 | _ => 1 end.
Definition d_ast (l : hooklist) : nat := match l with LAst => 1 | _ => 0 end.

Ltac cr_tac := cbn [res_state]; rewrite ?cr_advise, ?cr_append; try lia.

Lemma cr_reset : forall l s, cr l (res_state (enable_reset_hook E s)) <= cr l s + d_reset l.
Proof.
  intros l s. unfold enable_reset_hook. destruct (e_reset E); cr_tac.
  - destruct (f6_fixed E), l; cbn; lia.
  - destruct l; cbn; lia.
Qed.
Lemma cr_ofind : forall l s, cr l (res_state (enable_ofind_hook E s)) <= cr l s + 0.
Proof. intros l s. unfold enable_ofind_hook. destruct (e_ofind E); cr_tac. Qed.
Lemma cr_ast : forall l s, cr l (res_state (enable_ast_hook E s)) <= cr l s + d_ast l.
Proof.
  intros l s. unfold enable_ast_hook. destruct (e_ast E); cr_tac.
  pose proof (cr_append l LAst true s) as H. destruct (append_hook LAst true s) as [s1 t]. cbn [fst] in H.
  cbn [res_state]. change (cr l (set_ast_tr (Some t) s1)) with (cr l s1). rewrite H. destruct l; cbn; lia.
Qed.
Lemma cr_magic : forall j l s, cr l (res_state (enable_magic_hook E j s)) <= cr l s + 0.
Proof. intros j l s. unfold enable_magic_hook. destruct (ast_tr s); [cbn; lia|]. destruct (e_magics E); cr_tac. Qed.
Lemma cr_prun : forall l s, cr l (res_state (enable_prun_hook E s)) <= cr l s + 0.
Proof. intros l s. unfold enable_prun_hook. destruct (e_magics E); [destruct (e_profiler E)|]; cr_tac. Qed.
Lemma cr_completion : forall l s, cr l (res_state (enable_completion_hook E s)) <= cr l s + 0.
Proof.
  intros l s. unfold enable_completion_hook. destruct (e_compl E); cbn; try lia.
  destruct (e_jedi E); [destruct (e_pm E); [destruct (f14_fixed E)| |]|]; cbn; rewrite ?cr_advise; lia.
Qed.
Lemma cr_run : forall l s, cr l (res_state (enable_run_hook E s)) <= cr l s + 0.
Proof. intros l s. unfold enable_run_hook. destruct (e_execfile E); cr_tac. Qed.
Lemma cr_debugger : forall l s, cr l (res_state (enable_debugger_hook E s)) <= cr l s + 0.
Proof.
  intros l s. unfold enable_debugger_hook. destruct (e_ipdb E); cbn; [|lia].
  destruct (e_tb_debugger E), (e_magics E), (e_rwd E); cbn; rewrite ?cr_advise; lia.
Qed.

Lemma cr_run_hooks : forall l hs ds,
  Forall2 (fun h d => forall s, cr l (res_state (h s)) <= cr l s + d) hs ds ->
  forall ok s, cr l (res_state (run_hooks hs ok s)) <= cr l s + fold_right plus 0 ds.
Proof.
  intros l hs ds H. induction H as [|h d hs ds Hh _ IH]; intros ok s; cbn; [lia|].
  specialize (Hh s). destruct (h s) as [s' b|s' e]; cbn in *; [|lia].
  specialize (IH (ok && b) s'). lia.
Qed.

Lemma cr_shell_hooks : forall l s, cr l (res_state (enable_shell_hooks E s)) <= cr l s + 1.
Proof.
  intros l s. unfold enable_shell_hooks. destruct (negb (estate_eqb (st s) ENABLING)); [cbn; lia|].
  destruct (negb (has_shell s)); [cbn; lia|].
  pose proof (cr_run_hooks l (shell_hooks E) [d_reset l; 0; d_ast l; 0; 0; 0; 0; 0; 0]) as H.
  assert (HF : Forall2 (fun h d => forall s, cr l (res_state (h s)) <= cr l s + d) (shell_hooks E)
                       [d_reset l; 0; d_ast l; 0; 0; 0; 0; 0; 0]).
  { unfold shell_hooks. repeat constructor;
      auto using cr_reset, cr_ofind, cr_ast, cr_magic, cr_prun, cr_completion, cr_run, cr_debugger. }
  specialize (H HF true s). cbn [fold_right] in H. unfold d_reset, d_ast in H. destruct l; lia.
Qed.

(* the enable hooks raise Exceptions only (the AttributeError of F14) *)
Lemma run_hooks_raise : forall hs, Forall (fun h => forall s s' e, h s = Raise s' e -> is_Exception e = true) hs ->
  forall ok s s' e, run_hooks hs ok s = Raise s' e -> is_Exception e = true.
Proof.
  induction hs as [|h r IH]; intros HF ok s s' e H; cbn in H; [discriminate H|].
  inversion HF as [|? ? Hh Hr]; subst.
  destruct (h s) as [s1 b|s1 e1] eqn:Hhs; cbn in H.
  - eapply IH; eauto.
  - inversion H; subst. eapply Hh; eauto.
Qed.

Lemma shell_hooks_raise : forall s s' e, enable_shell_hooks E s = Raise s' e -> is_Exception e = true.
Proof.
  intros s s' e H. unfold enable_shell_hooks in H.
  destruct (negb (estate_eqb (st s) ENABLING)); [discriminate H|].
  destruct (negb (has_shell s)); [discriminate H|].
  eapply run_hooks_raise; [|exact H]. unfold shell_hooks.
  repeat constructor; intros s0 s1 e0 H0.
  - unfold enable_reset_hook in H0. destruct (e_reset E); discriminate H0.
  - unfold enable_ofind_hook in H0. destruct (e_ofind E); discriminate H0.
  - unfold enable_ast_hook in H0. destruct (e_ast E); try discriminate H0.
  - unfold enable_magic_hook in H0. destruct (ast_tr s0); [discriminate H0|]. destruct (e_magics E); discriminate H0.
  - unfold enable_magic_hook in H0. destruct (ast_tr s0); [discriminate H0|]. destruct (e_magics E); discriminate H0.
  - unfold enable_prun_hook in H0. destruct (e_magics E); [destruct (e_profiler E)|]; discriminate H0.
  - unfold enable_completion_hook in H0. destruct (e_compl E); try discriminate H0.
    destruct (e_jedi E); [destruct (e_pm E); [destruct (f14_fixed E)| |]|]; cbn in H0; try discriminate H0.
    inversion H0. reflexivity.
  - unfold enable_run_hook in H0. destruct (e_execfile E); discriminate H0.
  - unfold enable_debugger_hook in H0. destruct (e_ipdb E); cbn in H0; [|discriminate H0].
    destruct (e_tb_debugger E), (e_magics E), (e_rwd E); discriminate H0.
Qed.

(* ------------------------------------------------------------------------------------------ *)
(* ENABLED -> the hooks are installed *)

Definition ast_installed (s : state) : Prop := exists t, ast_tr s = Some t /\ In t (ast_l s).

Lemma inst_mono : forall s s', inst s s' ->
  (forall j, is_advice (slot s j) = true -> is_advice (slot s' j) = true) /\
  (forall l x, In x (get_list l s) -> In x (get_list l s')) /\
  (ast_installed s -> ast_installed s').
Proof.
  intros s s' H. induction H.
  - auto.
  - unfold advise_once. destruct (is_advice (slot s j)) eqn:Ha; [auto|].
    repeat split.
    + intros k Hk. cbn. destruct (jp_eqb k j); [reflexivity|exact Hk].
    + intros l x Hin. destruct l; exact Hin.
    + intros Hx. exact Hx.
  - pose proof (append_hook_fields l true s) as (Hs & _ & Ht & _ & Hl). cbn zeta in *. repeat split.
    + intros k Hk. rewrite Hs. exact Hk.
    + intros l' x Hin. rewrite Hl. destruct (hooklist_eqb l' l); [apply in_or_app; left; exact Hin|exact Hin].
    + intros [t [H1 H2]]. exists t. rewrite Ht. split; [exact H1|].
      change (In t (get_list LAst (fst (append_hook l true s)))). rewrite Hl.
      destruct (hooklist_eqb LAst l); [apply in_or_app; left; exact H2|exact H2].
  - pose proof (append_hook_fields LAst true s) as (Hs & _ & Ht & _ & Hl). cbn zeta in *.
    unfold append_hook in *. cbn [fst] in *. repeat split.
    + intros k Hk. exact Hk.
    + intros l' x Hin. destruct l'; cbn in *; [apply in_or_app; left; exact Hin|exact Hin|exact Hin].
    + intros _. exists (next s). split; [reflexivity|]. cbn. apply in_or_app. right. left. reflexivity.
  - pose proof (append_hook_fields LCleanup false s) as (Hs & _ & Ht & _ & Hl). cbn zeta in *. repeat split.
    + intros k Hk. rewrite Hs. exact Hk.
    + intros l' x Hin. rewrite Hl. destruct (hooklist_eqb l' LCleanup); [apply in_or_app; left; exact Hin|exact Hin].
    + intros [t [H1 H2]]. exists t. rewrite Ht. split; [exact H1|].
      change (In t (get_list LAst (fst (append_hook LCleanup false s)))). rewrite Hl. exact H2.
  - destruct IHinst1 as (A1 & A2 & A3), IHinst2 as (B1 & B2 & B3). repeat split; auto.
Qed.

(* if the whole list of hooks returned, each of them returned, in a state reached by installation
   steps, and what it installed survives the later ones *)
Lemma run_hooks_split : forall pre h post ok s s' b,
  Forall (fun h => forall s, inst s (res_state (h s))) (pre ++ h :: post) ->
  run_hooks (pre ++ h :: post) ok s = Ret s' b ->
  exists s1 s2 b1, h s1 = Ret s2 b1 /\ inst s s1 /\ inst s2 s'.
Proof.
  induction pre as [|p r IH]; intros h post ok s s' b HF H; cbn in *.
  - inversion HF as [|? ? Hh Hr]; subst.
    destruct (h s) as [s2 b1|s2 e] eqn:Hhs; cbn in H; [|discriminate H].
    exists s, s2, b1. split; [exact Hhs|]. split; [apply inst_refl|].
    pose proof (inst_run_hooks post Hr (ok && b1) s2) as X. rewrite H in X. exact X.
  - inversion HF as [|? ? Hp Hr]; subst.
    specialize (Hp s). destruct (p s) as [sp bp|sp e] eqn:Hps; cbn in *; [|discriminate H].
    destruct (IH h post (ok && bp) sp s' b Hr H) as (s1 & s2 & b1 & E1 & I1 & I2).
    exists s1, s2, b1. split; [exact E1|]. split; [|exact I2]. eapply inst_trans; eassumption.
Qed.

Lemma shell_hooks_inst_all : Forall (fun h => forall s, inst s (res_state (h s))) (shell_hooks E).
Proof.
  unfold shell_hooks.
  repeat constructor; auto using inst_reset, inst_ofind, inst_ast, inst_magic, inst_prun, inst_completion, inst_run, inst_debugger.
Qed.

Lemma advise_once_advised : forall j s, is_advice (slot (advise_once j s) j) = true.
Proof.
  intros j s. unfold advise_once. destruct (is_advice (slot s j)) eqn:H; [exact H|].
  cbn. rewrite jp_eqb_refl. reflexivity.
Qed.

Lemma advise_once_keeps : forall j k s, is_advice (slot s k) = true -> is_advice (slot (advise_once j s) k) = true.
Proof.
  intros j k s H. unfold advise_once. destruct (is_advice (slot s j)); [exact H|].
  cbn. destruct (jp_eqb k j); [reflexivity|exact H].
Qed.

(* what a successful enable on this IPython leaves installed *)
Record installed (s : state) : Prop := mkInstalled {
  i_ofind : e_ofind E = true -> is_advice (slot s JOfind) = true;
  i_ast : e_ast E = AstTransformers -> ast_installed s;
  i_gm : e_compl E = ComplGlobal -> is_advice (slot s JGlobalMatches) = true;
  i_am : e_compl E = ComplGlobal -> is_advice (slot s JAttrMatches) = true;
  i_run : e_execfile E = true -> is_advice (slot s JExecfile) = true;
  i_prof : e_magics E = true -> e_profiler E = true -> is_advice (slot s JProfiler) = true;
  i_dbg : e_ipdb E = true -> e_tb_debugger E = true -> is_advice (slot s JDebugger) = true;
  i_rwd : e_ipdb E = true -> e_magics E = true -> e_rwd E = true -> is_advice (slot s JRunWithDebugger) = true
}.

Ltac split_at pre h post Hall H :=
  destruct (run_hooks_split pre h post _ _ _ _ Hall H) as (?s1 & ?s2 & ?b1 & ?E1 & _ & ?I2).

Lemma shell_hooks_installed : forall s s' b, run_hooks (shell_hooks E) true s = Ret s' b -> installed s'.
Proof.
  intros s s' b H. pose proof shell_hooks_inst_all as Hall. unfold shell_hooks in *.
  constructor.
  - intros C.
    split_at [enable_reset_hook E] (enable_ofind_hook E)
             [enable_ast_hook E; enable_magic_hook E JTime; enable_magic_hook E JTimeit; enable_prun_hook E;
              enable_completion_hook E; enable_run_hook E; enable_debugger_hook E] Hall H.
    apply (proj1 (inst_mono _ _ I2)). unfold enable_ofind_hook in E1. rewrite C in E1. inversion E1; subst.
    apply advise_once_advised.
  - intros C.
    split_at [enable_reset_hook E; enable_ofind_hook E] (enable_ast_hook E)
             [enable_magic_hook E JTime; enable_magic_hook E JTimeit; enable_prun_hook E;
              enable_completion_hook E; enable_run_hook E; enable_debugger_hook E] Hall H.
    apply (proj2 (proj2 (inst_mono _ _ I2))). unfold enable_ast_hook in E1. rewrite C in E1.
    unfold append_hook in E1. cbn in E1. inversion E1; subst.
    exists (next s1). split; [reflexivity|]. cbn. apply in_or_app. right. left. reflexivity.
  - intros C.
    split_at [enable_reset_hook E; enable_ofind_hook E; enable_ast_hook E; enable_magic_hook E JTime;
              enable_magic_hook E JTimeit; enable_prun_hook E] (enable_completion_hook E)
             [enable_run_hook E; enable_debugger_hook E] Hall H.
    apply (proj1 (inst_mono _ _ I2)). unfold enable_completion_hook in E1. rewrite C in E1.
    destruct (e_jedi E); [destruct (e_pm E); [destruct (f14_fixed E)| |]|]; cbn in E1; inversion E1; subst;
      apply advise_once_keeps; apply advise_once_advised.
  - intros C.
    split_at [enable_reset_hook E; enable_ofind_hook E; enable_ast_hook E; enable_magic_hook E JTime;
              enable_magic_hook E JTimeit; enable_prun_hook E] (enable_completion_hook E)
             [enable_run_hook E; enable_debugger_hook E] Hall H.
    apply (proj1 (inst_mono _ _ I2)). unfold enable_completion_hook in E1. rewrite C in E1.
    destruct (e_jedi E); [destruct (e_pm E); [destruct (f14_fixed E)| |]|]; cbn in E1; inversion E1; subst;
      apply advise_once_advised.
  - intros C.
    split_at [enable_reset_hook E; enable_ofind_hook E; enable_ast_hook E; enable_magic_hook E JTime;
              enable_magic_hook E JTimeit; enable_prun_hook E; enable_completion_hook E] (enable_run_hook E)
             [enable_debugger_hook E] Hall H.
    apply (proj1 (inst_mono _ _ I2)). unfold enable_run_hook in E1. rewrite C in E1. inversion E1; subst.
    apply advise_once_advised.
  - intros C1 C2.
    split_at [enable_reset_hook E; enable_ofind_hook E; enable_ast_hook E; enable_magic_hook E JTime;
              enable_magic_hook E JTimeit] (enable_prun_hook E)
             [enable_completion_hook E; enable_run_hook E; enable_debugger_hook E] Hall H.
    apply (proj1 (inst_mono _ _ I2)). unfold enable_prun_hook in E1. rewrite C1, C2 in E1. inversion E1; subst.
    apply advise_once_advised.
  - intros C1 C2.
    split_at [enable_reset_hook E; enable_ofind_hook E; enable_ast_hook E; enable_magic_hook E JTime;
              enable_magic_hook E JTimeit; enable_prun_hook E; enable_completion_hook E; enable_run_hook E]
             (enable_debugger_hook E) (@nil (state -> res bool)) Hall H.
    apply (proj1 (inst_mono _ _ I2)). unfold enable_debugger_hook in E1. rewrite C1, C2 in E1. cbn in E1.
    destruct (e_magics E); [destruct (e_rwd E)|]; inversion E1; subst;
      first [apply advise_once_advised | (apply advise_once_keeps; apply advise_once_advised)].
  - intros C1 C2 C3.
    split_at [enable_reset_hook E; enable_ofind_hook E; enable_ast_hook E; enable_magic_hook E JTime;
              enable_magic_hook E JTimeit; enable_prun_hook E; enable_completion_hook E; enable_run_hook E]
             (enable_debugger_hook E) (@nil (state -> res bool)) Hall H.
    apply (proj1 (inst_mono _ _ I2)). unfold enable_debugger_hook in E1. rewrite C1, C2, C3 in E1. cbn in E1.
    destruct (e_tb_debugger E); inversion E1; subst; apply advise_once_advised.
Qed.

Lemma installed_ext : forall s s', slot s' = slot s -> ast_l s' = ast_l s -> ast_tr s' = ast_tr s -> installed s -> installed s'.
Proof.
  intros s s' Hs Ha Ht [I1 I2 I3 I4 I5 I6 I7 I8]. constructor; rewrite ?Hs; auto.
  intros C. destruct (I2 C) as [t [X Y]]. exists t. rewrite Ht, Ha. auto.
Qed.

(* ------------------------------------------------------------------------------------------ *)
(* the invariant of a shell between operations *)

Definition once_lists (s : state) : Prop := forall l, cr l s <= 1.

(* between operations: DISABLED with nothing left; ENABLED (a shell exists) with every hook installed once;
   or ENABLING - enabled before the shell exists, waiting for init_shell() - with only the initializer
   advice on the stack *)
Definition Inv (b : base) (s : state) : Prop :=
  good b s /\
  ((st s = DISABLED /\ disablers s = [] /\ ast_tr s = None) \/
   (st s = ENABLED /\ has_shell s = true /\ once_lists s /\ installed s) \/
   (st s = ENABLING /\ has_shell s = false /\ errored s = false /\ is_advice (slot s JInitShell) = true /\
    forall l, cr l s = 0)).

Lemma good_ext : forall b s s',
  slot s' = slot s -> (forall l, get_list l s' = get_list l s) -> disablers s' = disablers s ->
  next s' = next s -> ast_tr s' = ast_tr s -> good b s -> good b s'.
Proof.
  intros b s s' Hs Hl Hd Hn Ht [Hf (U1 & U2 & U3 & U4) Ho Ha]. constructor.
  - intros l x Hin. rewrite Hl in Hin. rewrite Hn. apply Hf in Hin. exact Hin.
  - unfold undo_ok. rewrite Hs, Hd.
    change (ast_l s') with (get_list LAst s'). change (line_l s') with (get_list LLineTransforms s').
    change (cleanup_l s') with (get_list LCleanup s'). rewrite !Hl. repeat split; assumption.
  - intros j. rewrite Hs, Hd. apply Ho.
  - unfold ast_tr_ok. rewrite Ht, Hd. exact Ha.
Qed.

Lemma Inv_disabled_at_base : forall b s, Inv b s -> st s = DISABLED -> at_base b s.
Proof.
  intros b s [Hg [[_ [Hd Ht]]|[[He _]|[He _]]]] Hst; try congruence.
  apply good_empty_at_base; assumption.
Qed.

Lemma disable_inv : forall b s, no_advice b -> Inv b s -> Inv b (disable s) /\ st (disable s) = DISABLED.
Proof.
  intros b s Hb [Hg Hc].
  assert (Hgen : st s <> DISABLED -> Inv b (disable s) /\ st (disable s) = DISABLED).
  { intros Hne. pose proof (disable_good b s Hb Hg Hne) as (G & (A1 & A2 & A3 & A4 & A5 & A6) & S & _). cbn zeta in *.
    split; [|exact S]. split; [exact G|left; auto]. }
  destruct Hc as [[Hst [Hd Ht]]|[[Hst _]|[Hst _]]].
  - rewrite disable_noop by exact Hst. split; [|exact Hst]. split; [exact Hg|left; auto].
  - apply Hgen. congruence.
  - apply Hgen. congruence.
Qed.

Lemma cr_initializer : forall l s, cr l (enable_initializer_hooks E s) = cr l s.
Proof.
  intros l s. unfold enable_initializer_hooks. destruct (has_shell s); [reflexivity|].
  change (cr l (set_pending true ?x)) with (cr l x).
  destruct (e_init_subcmd E); rewrite ?cr_advise; reflexivity.
Qed.

(* the initializer hooks are installation steps followed by the assignment of _pending_initializers *)
Lemma initializer_spec : forall s, exists s1,
  inst s s1 /\ enable_initializer_hooks E s = set_pending (negb (has_shell s)) s1 /\
  (has_shell s = false -> is_advice (slot s1 JInitShell) = true).
Proof.
  intros s. unfold enable_initializer_hooks. destruct (has_shell s) eqn:Hs.
  - exists s. split; [apply inst_refl|]. split; [reflexivity|discriminate].
  - destruct (e_init_subcmd E).
    + eexists. split; [eapply inst_trans; apply inst_adv|]. split; [reflexivity|].
      intros _. apply advise_once_keeps. apply advise_once_advised.
    + eexists. split; [apply inst_adv|]. split; [reflexivity|]. intros _. apply advise_once_advised.
Qed.

(* one run of _enable_internal through _safe_call, from a state in ENABLING with no list remover on the stack
   (reached from enable() and from init_shell()'s _continue_enable()) *)
Lemma enable_internal_inv : forall b s2, no_advice b ->
  good b s2 -> errored s2 = false -> st s2 = ENABLING -> (forall l, cr l s2 = 0) ->
  Inv b (res_state (safe_call (e_debug E) RIfDebug (enable_internal E) None s2)).
Proof.
  intros b s2 Hb Hg2 He2 Hst2 Hcr2.
  unfold safe_call. rewrite He2. unfold enable_internal.
  destruct (initializer_spec s2) as (s1 & Hi1 & Heq & Hadv1).
  set (s3 := enable_initializer_hooks E s2) in *.
  pose proof (inst_misc s2 s1 Hi1) as (N1 & N2 & _ & _ & _ & _ & N7 & _ & _).
  assert (Hg3 : good b s3).
  { rewrite Heq. eapply good_ext; [..|exact (good_inst b s2 s1 Hi1 Hg2)]; try reflexivity; try (intros l; destruct l; reflexivity). }
  assert (Hst3 : st s3 = ENABLING) by (rewrite Heq; cbn; congruence).
  assert (He3 : errored s3 = false) by (rewrite Heq; cbn; congruence).
  assert (Hsh3 : has_shell s3 = has_shell s2) by (rewrite Heq; cbn; exact N7).
  assert (Hp3 : pending s3 = negb (has_shell s2)) by (rewrite Heq; reflexivity).
  assert (Hcr3 : forall l, cr l s3 = 0) by (intros l; unfold s3; rewrite cr_initializer; apply Hcr2).
  pose proof (inst_shell_hooks s3) as Hinst.
  pose proof (fun l => cr_shell_hooks l s3) as Hcr.
  destruct (enable_shell_hooks E s3) as [s' ok|s' e] eqn:Hh; cbn [bind res_state] in *.
  - pose proof (good_inst b s3 s' Hinst Hg3) as Hg'.
    pose proof (inst_misc s3 s' Hinst) as (M1 & M2 & _ & _ & _ & _ & M7 & M8 & _).
    assert (Henabled : has_shell s2 = true -> Inv b (set_st ENABLED s')).
    { intros Hsh. split.
      - eapply good_ext; [..|exact Hg']; try reflexivity; try (intros l; destruct l; reflexivity).
      - right. left. split; [reflexivity|]. split; [cbn; congruence|]. split.
        + intros l. specialize (Hcr l). rewrite Hcr3 in Hcr. change (cr l (set_st ENABLED s')) with (cr l s'). lia.
        + unfold enable_shell_hooks in Hh. rewrite Hst3, Hsh3, Hsh in Hh. cbn [estate_eqb negb] in Hh.
          eapply installed_ext; [..|exact (shell_hooks_installed s3 s' ok Hh)]; reflexivity. }
    destruct (has_shell s2) eqn:Hsh.
    + (* a shell exists: ENABLED whatever ok says, because nothing is pending *)
      assert (Hp' : pending s' = false) by (rewrite M8, Hp3; reflexivity).
      destruct ok; [|rewrite Hp']; cbn [res_state]; apply Henabled; reflexivity.
    + (* no shell yet: the shell hooks returned False at once, the initializers are pending: stay ENABLING *)
      unfold enable_shell_hooks in Hh. rewrite Hst3, Hsh3 in Hh. cbn [estate_eqb negb] in Hh.
      inversion Hh; subst s' ok. rewrite Hp3. cbn [negb res_state].
      split; [exact Hg3|]. right. right. repeat split; try assumption; try congruence.
      rewrite Heq. exact (Hadv1 eq_refl).
  - (* a hook raised (F14): errored, disable *)
    rewrite (shell_hooks_raise s3 s' e Hh).
    pose proof (good_inst b s3 s' Hinst Hg3) as Hg'.
    pose proof (inst_misc s3 s' Hinst) as (M1 & _).
    set (s4 := log_emit (set_errored true s')).
    assert (Hg4 : good b s4).
    { eapply good_ext; [..|exact Hg']; unfold s4, log_emit; destruct (log_pre (set_errored true s')); try reflexivity;
        try (intros l; destruct l; reflexivity). }
    assert (Hst4 : st s4 <> DISABLED).
    { unfold s4, log_emit. destruct (log_pre (set_errored true s')); cbn; rewrite M1, Hst3; discriminate. }
    pose proof (disable_good b s4 Hb Hg4 Hst4) as (G & (A1 & A2 & A3 & A4 & A5 & A6) & S & _). cbn zeta in *.
    assert (HI' : Inv b (disable s4)) by (split; [exact G|left; auto]).
    destruct (e_debug E); cbn [bind res_state]; exact HI'.
Qed.

Lemma res_state_bind_unit : forall (m : res (option unit)),
  res_state (bind m (fun s' _ => Ret s' tt)) = res_state m.
Proof. intros [? ?|? ?]; reflexivity. Qed.

Lemma enable_inv : forall b force s, no_advice b -> Inv b s -> Inv b (res_state (enable E force s)).
Proof.
  intros b force s Hb HI. pose proof HI as [Hg Hc]. unfold enable.
  destruct (st s) eqn:Hst; try exact HI.
  destruct Hc as [[_ [Hd Ht]]|[[X _]|[X _]]]; try congruence.
  destruct (errored (reset_state_new_cell s) && negb force).
  - cbn [res_state]. split.
    + eapply good_ext; [..|exact Hg]; try reflexivity; try (intros l; destruct l; reflexivity).
    + left. repeat split; assumption.
  - set (s2 := set_st ENABLING (set_errored false (reset_state_new_cell s))).
    rewrite res_state_bind_unit. apply enable_internal_inv; try reflexivity; try assumption.
    + eapply good_ext; [..|exact Hg]; try reflexivity; try (intros l; destruct l; reflexivity).
    + intros l. unfold cr. change (disablers s2) with (disablers s). rewrite Hd. reflexivity.
Qed.

Lemma initialize_inv : forall b s, no_advice b -> Inv b s -> Inv b (res_state (initialize E s)).
Proof.
  intros b s Hb HI. pose proof HI as [Hg Hc]. unfold initialize.
  destruct (has_shell s) eqn:Hsh; [exact HI|].
  assert (Hg' : good b (set_has_shell true s)).
  { eapply good_ext; [..|exact Hg]; try reflexivity; try (intros l; destruct l; reflexivity). }
  destruct Hc as [[Hst [Hd Ht]]|[[Hst [X _]]|[Hst [_ [Herr [Hadv Hcr]]]]]]; try congruence.
  - (* DISABLED: whether init_shell is still advised or not, nothing happens besides the shell coming to exist *)
    assert (HI' : Inv b (set_has_shell true s)) by (split; [exact Hg'|left; auto]).
    destruct (is_advice (slot s JInitShell)); [|exact HI'].
    unfold continue_enable. change (st (set_has_shell true s)) with (st s). rewrite Hst. exact HI'.
  - (* ENABLING: init_shell is advised: the continuation runs _enable_internal *)
    rewrite Hadv.
    unfold continue_enable. change (st (set_has_shell true s)) with (st s). rewrite Hst. cbn [estate_eqb negb].
    rewrite res_state_bind_unit. apply enable_internal_inv; try assumption; reflexivity.
Qed.
Definition ShInv (b : base) (sh : shell) : Prop := Inv b (ai sh).

Lemma finish_ai : forall sh m ld' a, ai (finish sh m ld' a) = res_state m.
Proof. intros sh [s u|s e] ld' a; reflexivity. Qed.

Lemma Inv_set_registered : forall b r s, Inv b s -> Inv b (set_registered r s).
Proof.
  intros b r s [Hg Hc]. split.
  - eapply good_ext; [..|exact Hg]; try reflexivity; try (intros l; destruct l; reflexivity).
  - destruct Hc as [H|[(H1 & H2 & H3 & H4)|H]]; [left; exact H| |right; right; exact H].
    right. left. split; [exact H1|]. split; [exact H2|]. split; [exact H3|].
    eapply installed_ext; [..|exact H4]; reflexivity.
Qed.

Lemma step_inv : forall b o sh, no_advice b -> ShInv b sh -> ShInv b (step E sh o).
Proof.
  intros b o sh Hb HI. unfold ShInv in *. unfold step, load_fn, unload_fn.
  destruct o; cbn zeta.
  - rewrite finish_ai. apply enable_inv; assumption.
  - rewrite finish_ai. pose proof (enable_inv b false (ai sh) Hb HI) as H1.
    destruct (enable E false (ai sh)) as [s1 u|s1 e]; cbn [bind res_state] in *; [|exact H1].
    apply enable_inv; assumption.
  - cbn [ai]. apply disable_inv; assumption.
  - destruct (ext_loaded sh); [exact HI|]. rewrite finish_ai. apply enable_inv; assumption.
  - destruct (ext_loaded sh); [|exact HI]. rewrite finish_ai. cbn [res_state]. apply disable_inv; assumption.
  - destruct (ext_loaded sh); rewrite finish_ai.
    + cbn [bind]. apply enable_inv; [assumption|]. apply disable_inv; assumption.
    + apply enable_inv; assumption.
  - rewrite finish_ai. apply enable_inv; assumption.
  - rewrite finish_ai. cbn [res_state]. apply disable_inv; assumption.
  - rewrite finish_ai. apply initialize_inv; assumption.
  - destruct (ext_attr sh); cbn [ai]; [apply Inv_set_registered|]; exact HI.
  - exact HI.
Qed.

Lemma run_inv : forall b ops sh, no_advice b -> ShInv b sh -> ShInv b (run E ops sh).
Proof.
  intros b ops. induction ops as [|o r IH]; intros sh Hb HI; cbn; [exact HI|].
  apply IH; [exact Hb|]. apply step_inv; assumption.
Qed.

(* a shell pyflyby has not touched yet *)
Definition clean (s : state) : Prop :=
  st s = DISABLED /\ disablers s = [] /\ ast_tr s = None /\ fresh s /\ (forall j, is_advice (slot s j) = false).

Lemma clean_inv : forall s, clean s -> Inv (base_of s) s /\ no_advice (base_of s).
Proof.
  intros s (H1 & H2 & H3 & H4 & H5). split; [|exact H5]. split.
  - constructor.
    + exact H4.
    + unfold undo_ok. rewrite H2. cbn. repeat split.
      destruct (f6_fixed E); [reflexivity|]. split; [reflexivity|]. exists []. rewrite app_nil_r. reflexivity.
    + intros j. rewrite H2, H5. reflexivity.
    + left. exact H3.
  - left. auto.
Qed.

(* ------------------------------------------------------------------------------------------ *)
(* the theorems *)

(* after any history, whenever the importer is DISABLED (after a disable, an unload, a failed enable),
   every joinpoint and every hook list has the value it had before pyflyby was first enabled *)
Theorem disable_restores_any : forall ops s0 ld esc at_,
  clean s0 ->
  let s := ai (run E ops (mkShell s0 ld esc at_)) in
  st s = DISABLED ->
  (forall j, slot s j = slot s0 j) /\ ast_l s = ast_l s0 /\ line_l s = line_l s0 /\
  (f6_fixed E = true -> cleanup_l s = cleanup_l s0) /\
  (exists extra, cleanup_l s = cleanup_l s0 ++ extra) /\
  disablers s = [] /\ ast_tr s = None.
Proof.
  intros ops s0 ld esc at_ Hc s Hst.
  destruct (clean_inv s0 Hc) as [HI Hb].
  pose proof (run_inv (base_of s0) ops (mkShell s0 ld esc at_) Hb HI) as HR.
  pose proof (Inv_disabled_at_base _ _ HR Hst) as (A1 & A2 & A3 & A4 & A5 & A6). fold s in A1, A2, A3, A4, A5, A6.
  cbn in *. repeat split; try assumption.
  - intros F6. rewrite F6 in A4. exact A4.
  - destruct (f6_fixed E); [exists []; rewrite app_nil_r; exact A4|exact A4].
Qed.

Lemma run_app : forall ops1 ops2 sh, run E (ops1 ++ ops2) sh = run E ops2 (run E ops1 sh).
Proof. intros. unfold run. apply fold_left_app. Qed.

Theorem disable_restores : forall ops s0 ld esc at_,
  clean s0 -> f6_fixed E = true ->
  let s := ai (run E (ops ++ [Disable]) (mkShell s0 ld esc at_)) in
  st s = DISABLED /\ (forall j, slot s j = slot s0 j) /\
  ast_l s = ast_l s0 /\ cleanup_l s = cleanup_l s0 /\ line_l s = line_l s0 /\
  disablers s = [] /\ ast_tr s = None.
Proof.
  intros ops s0 ld esc at_ Hc F6 s.
  destruct (clean_inv s0 Hc) as [HI Hb].
  pose proof (run_inv (base_of s0) ops (mkShell s0 ld esc at_) Hb HI) as HR.
  assert (Hst : st s = DISABLED).
  { unfold s. rewrite run_app. cbn. apply (disable_inv _ _ Hb HR). }
  pose proof (disable_restores_any (ops ++ [Disable]) s0 ld esc at_ Hc Hst) as (A1 & A2 & A3 & A4 & _ & A6 & A7).
  fold s in A1, A2, A3, A4, A6, A7. repeat split; auto.
Qed.

(* in state ENABLED: one unadvise per advised joinpoint, none for the others, at most one remover per hook
   list, and each hook list holds exactly as many extra entries as it has removers - whatever the history *)
Theorem enable_once : forall ops s0 ld esc at_,
  clean s0 ->
  let s := ai (run E ops (mkShell s0 ld esc at_)) in
  st s = ENABLED ->
  (forall j, count_unadvise j (disablers s) = if is_advice (slot s j) then 1 else 0) /\
  (forall j, count_unadvise j (disablers s) <= 1) /\
  (forall l, count_remove l (disablers s) <= 1).
Proof.
  intros ops s0 ld esc at_ Hc s Hst.
  destruct (clean_inv s0 Hc) as [HI Hb].
  pose proof (run_inv (base_of s0) ops (mkShell s0 ld esc at_) Hb HI) as [Hg Hcase]. fold s in Hg, Hcase.
  destruct Hcase as [[X _]|[[_ [_ [Hl _]]]|[X _]]]; try congruence.
  destruct Hg as [_ _ Ho _]. repeat split.
  - exact Ho.
  - intros j. rewrite Ho. destruct (is_advice (slot s j)); lia.
  - exact Hl.
Qed.

(* between operations the importer is DISABLED or ENABLED; it is ENABLING only while it waits for the shell
   (enabled before app.initialize()), with init_shell advised; ENABLED implies that a shell exists *)
Theorem state_machine : forall ops s0 ld esc at_,
  clean s0 -> let s := ai (run E ops (mkShell s0 ld esc at_)) in
  st s = DISABLED \/ (st s = ENABLED /\ has_shell s = true) \/
  (st s = ENABLING /\ has_shell s = false /\ is_advice (slot s JInitShell) = true).
Proof.
  intros ops s0 ld esc at_ Hc s.
  destruct (clean_inv s0 Hc) as [HI Hb].
  pose proof (run_inv (base_of s0) ops (mkShell s0 ld esc at_) Hb HI) as [_ Hcase]. fold s in Hcase.
  destruct Hcase as [[X _]|[[X [Y _]]|[X [Y [_ [Z _]]]]]]; auto.
Qed.

(* while ENABLED the hooks this IPython can take are installed (the behavioural clause rests on this) *)
Theorem enabled_hooks_installed : forall ops s0 ld esc at_,
  clean s0 -> let s := ai (run E ops (mkShell s0 ld esc at_)) in st s = ENABLED -> installed s.
Proof.
  intros ops s0 ld esc at_ Hc s Hst.
  destruct (clean_inv s0 Hc) as [HI Hb].
  pose proof (run_inv (base_of s0) ops (mkShell s0 ld esc at_) Hb HI) as [_ Hcase]. fold s in Hcase.
  destruct Hcase as [[X _]|[[_ [_ [_ Hi]]]|[X _]]]; try congruence; exact Hi.
Qed.

(* everything the property names, as one comparable value *)
Definition snapshot (s : state) :=
  (st s, disablers s, map (slot s) all_jps, ast_l s, cleanup_l s, line_l s, ast_tr s).

Theorem no_residue : forall ops s0 ld esc at_,
  clean s0 -> f6_fixed E = true ->
  snapshot (ai (run E (ops ++ [Disable]) (mkShell s0 ld esc at_))) = snapshot s0.
Proof.
  intros ops s0 ld esc at_ Hc F6.
  pose proof (disable_restores ops s0 ld esc at_ Hc F6) as (A0 & A1 & A2 & A3 & A4 & A5 & A6). cbn zeta in *.
  destruct Hc as (C1 & C2 & C3 & _).
  unfold snapshot. rewrite A0, A2, A3, A4, A5, A6, C1, C2, C3.
  rewrite (map_ext _ _ A1). reflexivity.
Qed.

(* enabling succeeds unless this is the environment of F14 on the unrepaired code *)
Definition enable_ok : bool :=
  negb (match e_compl E with ComplGlobal => true | _ => false end && e_jedi E &&
        match e_pm E with PmMissing => true | _ => false end && negb (f14_fixed E)).

Lemma run_hooks_total : forall hs, Forall (fun h => forall s, exists s' b, h s = Ret s' b) hs ->
  forall ok s, exists s' b, run_hooks hs ok s = Ret s' b.
Proof.
  induction hs as [|h r IH]; intros HF ok s; cbn; [eauto|].
  inversion HF as [|? ? Hh Hr]; subst. destruct (Hh s) as (s1 & b1 & Hs). rewrite Hs. cbn. apply IH. exact Hr.
Qed.

Lemma shell_hooks_total : enable_ok = true -> forall s, st s = ENABLING -> has_shell s = true ->
  exists s' b, enable_shell_hooks E s = Ret s' b.
Proof.
  intros Hok s Hst Hsh. unfold enable_shell_hooks. rewrite Hst, Hsh. cbn [estate_eqb negb].
  apply run_hooks_total. unfold shell_hooks. repeat constructor; intros s0.
  - unfold enable_reset_hook. destruct (e_reset E); eauto.
  - unfold enable_ofind_hook. destruct (e_ofind E); eauto.
  - unfold enable_ast_hook, append_hook. destruct (e_ast E); cbn; eauto.
  - unfold enable_magic_hook. destruct (ast_tr s0); [eauto|]. destruct (e_magics E); eauto.
  - unfold enable_magic_hook. destruct (ast_tr s0); [eauto|]. destruct (e_magics E); eauto.
  - unfold enable_prun_hook. destruct (e_magics E); [destruct (e_profiler E)|]; eauto.
  - unfold enable_completion_hook, enable_ok in *. destruct (e_compl E); eauto.
    destruct (e_jedi E); [destruct (e_pm E); [destruct (f14_fixed E); [|discriminate Hok]| |]|]; cbn; eauto.
  - unfold enable_run_hook. destruct (e_execfile E); eauto.
  - unfold enable_debugger_hook. destruct (e_ipdb E); cbn; [|eauto].
    destruct (e_tb_debugger E), (e_magics E), (e_rwd E); eauto.
Qed.

Theorem enable_succeeds : forall force s,
  enable_ok = true -> st s = DISABLED -> has_shell s = true -> (errored s = false \/ force = true) ->
  exists s', enable E force s = Ret s' tt /\ st s' = ENABLED /\ errored s' = false.
Proof.
  intros force s Hok Hst Hsh Herr. unfold enable. rewrite Hst.
  assert (X : errored (reset_state_new_cell s) && negb force = false).
  { change (errored (reset_state_new_cell s)) with (errored s). destruct Herr as [->| ->]; [reflexivity|apply andb_false_r]. }
  rewrite X. set (s2 := set_st ENABLING (set_errored false (reset_state_new_cell s))).
  assert (Hsh2 : has_shell s2 = true) by exact Hsh.
  unfold safe_call. change (errored s2) with false. cbn iota. unfold enable_internal, enable_initializer_hooks.
  rewrite Hsh2. set (s3 := set_pending false s2).
  destruct (shell_hooks_total Hok s3 eq_refl Hsh2) as (s' & b & Hs). rewrite Hs. cbn [bind].
  pose proof (inst_shell_hooks s3) as Hi. rewrite Hs in Hi. cbn in Hi.
  destruct (inst_misc _ _ Hi) as (_ & M2 & _ & _ & _ & _ & _ & M8 & _).
  assert (Hp : pending s' = false) by (rewrite M8; reflexivity).
  rewrite Hp. destruct b; cbn; (eexists; split; [reflexivity|]; split; [reflexivity|]; cbn; rewrite M2; reflexivity).
Qed.

(* ------------------------------------------------------------------------------------------ *)
(* the session-local database (names registered with add_import) survives every operation *)

Lemma disable_registered : forall s, registered (disable s) = registered s.
Proof.
  intros s. unfold disable. destruct (estate_eqb (st s) DISABLED); [reflexivity|].
  pose proof (run_disablers_spec (disablers (set_st DISABLING s)) (set_st DISABLING s)) as H. cbn zeta in H.
  destruct H as (_ & _ & _ & _ & _ & _ & _ & _ & _ & _ & _ & _ & _ & H). cbn. exact H.
Qed.

Lemma safe_enable_internal_registered : forall s,
  registered (res_state (safe_call (e_debug E) RIfDebug (enable_internal E) None s)) = registered s.
Proof.
  intros s. unfold safe_call. destruct (errored s); [reflexivity|].
  unfold enable_internal.
  destruct (initializer_spec s) as (s1 & Hi1 & Heq & _).
  destruct (inst_misc _ _ Hi1) as (_ & _ & _ & _ & _ & _ & _ & _ & R1).
  assert (R3 : registered (enable_initializer_hooks E s) = registered s) by (rewrite Heq; exact R1).
  pose proof (inst_shell_hooks (enable_initializer_hooks E s)) as Hi.
  destruct (enable_shell_hooks E (enable_initializer_hooks E s)) as [s' ok|s' e]; cbn [bind res_state] in *.
  - destruct (inst_misc _ _ Hi) as (_ & _ & _ & _ & _ & _ & _ & _ & R).
    destruct ok; [|destruct (pending s')]; cbn; congruence.
  - destruct (inst_misc _ _ Hi) as (_ & _ & _ & _ & _ & _ & _ & _ & R).
    assert (Hd : registered (disable (log_emit (set_errored true s'))) = registered s).
    { rewrite disable_registered. unfold log_emit. destruct (log_pre (set_errored true s')); cbn; congruence. }
    destruct (is_Exception e); [|cbn; congruence].
    destruct (e_debug E); cbn; exact Hd.
Qed.

Lemma enable_registered : forall force s, registered (res_state (enable E force s)) = registered s.
Proof.
  intros force s. unfold enable. destruct (st s); try reflexivity.
  destruct (errored (reset_state_new_cell s) && negb force); [reflexivity|].
  rewrite res_state_bind_unit, safe_enable_internal_registered. reflexivity.
Qed.

Lemma initialize_registered : forall s, registered (res_state (initialize E s)) = registered s.
Proof.
  intros s. unfold initialize. destruct (has_shell s); [reflexivity|].
  destruct (is_advice (slot s JInitShell)); [|reflexivity].
  unfold continue_enable. destruct (negb (estate_eqb (st (set_has_shell true s)) ENABLING)); [reflexivity|].
  rewrite res_state_bind_unit, safe_enable_internal_registered. reflexivity.
Qed.

Lemma step_registered : forall sh o,
  registered (ai (step E sh o)) =
  match o with
  | AddImport id => if ext_attr sh then id :: registered (ai sh) else registered (ai sh)
  | _ => registered (ai sh)
  end.
Proof.
  intros sh o. unfold step, load_fn, unload_fn. destruct o; cbn zeta; rewrite ?finish_ai.
  - apply enable_registered.
  - destruct (enable E false (ai sh)) as [s1 u|s1 e] eqn:H; cbn [bind res_state].
    + rewrite enable_registered. pose proof (enable_registered false (ai sh)) as X. rewrite H in X. exact X.
    + pose proof (enable_registered false (ai sh)) as X. rewrite H in X. exact X.
  - cbn [ai]. apply disable_registered.
  - destruct (ext_loaded sh); [reflexivity|]. rewrite finish_ai. apply enable_registered.
  - destruct (ext_loaded sh); [|reflexivity]. rewrite finish_ai. cbn. apply disable_registered.
  - destruct (ext_loaded sh); rewrite finish_ai; cbn [bind].
    + rewrite enable_registered. apply disable_registered.
    + apply enable_registered.
  - apply enable_registered.
  - cbn. apply disable_registered.
  - apply initialize_registered.
  - destruct (ext_attr sh); reflexivity.
  - reflexivity.
Qed.

(* no enable / disable / load / unload / reload / initialize ever forgets a registered name *)
Theorem registered_kept : forall ops sh id,
  In id (registered (ai sh)) -> In id (registered (ai (run E ops sh))).
Proof.
  intros ops. induction ops as [|o r IH]; intros sh id H; cbn; [exact H|].
  apply IH. rewrite step_registered. destruct o; try exact H.
  destruct (ext_attr sh); [right|]; exact H.
Qed.
End WithEnv.

(* M12 (b): the hooks pyflyby installs into IPython, as
       prelude ; _safe_call body on_error ; original
   with the body a computation that may raise at named fault sites, and the IPython interactions
   (run a cell, inspect a name, complete a name, %run, %prun, %debug stmt) that reach them.
   Model only; proofs are in SafeCallProofs.v.

   IPython's side (which hook it calls for which interaction, what it does with an exception that
   leaves a hook) is modelled from IPython 9.17's source, not verified; every use is marked [IPython]. *)
From Coq Require Import NArith List Bool.
From Verif Require Import Interactive.Enable.
Import ListNotations.

(* ------------------------------------------------------------------------------------------ *)
(* fault sites = the pyflyby function the harness replaces by a raising stub *)

Inductive site :=
| SNamespaces    (* pyflyby._interactive.get_global_namespaces        - called OUTSIDE _safe_call (prelude) *)
| SScopeStack    (* pyflyby._autoimp.ScopeStack.__init__              - scope analysis, outside auto_import's SyntaxError guard *)
| SAnalysis      (* pyflyby._autoimp.find_missing_imports             - parse + scope analysis, inside the SyntaxError guard *)
| SParse         (* pyflyby._parse.PythonBlock.ast_node               - parsing the file of %run *)
| SDbLoad        (* pyflyby._importdb.ImportDB.get_default            - database load *)
| STryImport     (* pyflyby._autoimp._try_import                      - import execution (pyflyby's own function failing) *)
| SCompletion    (* pyflyby._interactive.complete_symbol              - completion lookup *)
| SNeedsImport   (* pyflyby._autoimp.symbol_needs_import, k-th call   - when the call falls inside find_missing_imports
                    (mid-visit of the user's AST) the harness reports it as SAnalysis; this site is the call
                    made by auto_import_symbol *)
| SModuleList.   (* pyflyby._modules.ModuleHandle.list                - module enumeration of a global completion
                    (natural source: a sys.path entry whose finder's iter_modules() raises) *)

Definition site_index (x : site) : N :=
  match x with SNamespaces => 0 | SScopeStack => 1 | SAnalysis => 2 | SParse => 3 | SDbLoad => 4
             | STryImport => 5 | SCompletion => 6 | SNeedsImport => 7 | SModuleList => 8 end%N.
Definition site_eqb (a b : site) : bool := (site_index a =? site_index b)%N.

(* the fault plan of one interaction: which stubs are armed, and what each raises *)
Definition faults := list (site * exc).
Fixpoint fault_at (F : faults) (x : site) : option exc :=
  match F with
  | [] => None
  | (y, e) :: r => if site_eqb y x then Some e else fault_at r x
  end.
Definition visit (F : faults) (x : site) (s : state) : res unit :=
  match fault_at F x with Some e => Raise s e | None => Ret s tt end.

(* a name the interaction reads and the user has not defined: what the import database and the
   import system say about it (an oracle of the generator, which writes the database and the modules) *)
Inductive nm :=
| NKnownOk (id : N)                  (* unique known import, importing succeeds *)
| NKnownRaises (id : N) (e : exc)    (* unique known import, the module raises e when imported *)
| NUnknown (id : N)                  (* no known import, no such module *)
| NRegistered (id : N).              (* known only if registered with pyflyby.add_import() in this session *)
Definition nm_id (n : nm) : N := match n with NKnownOk i | NKnownRaises i _ | NUnknown i | NRegistered i => i end.

Definition memN (x : N) (l : list N) : bool := existsb (N.eqb x) l.
Definition has_key (x : N) (l : list (N * bool)) : bool := existsb (fun p => N.eqb x (fst p)) l.
Definition cls_AssertionError : N := 2%N.

Section WithEnv.
Variable E : env.

(*  auto_import_symbol(fullname, namespaces, db, autoimported, post_import_hook):
        namespaces = ScopeStack(namespaces)
        if not symbol_needs_import(fullname, namespaces): return True
        if DottedIdentifier(fullname) in autoimported: return False
        imports = get_known_import(fullname, db=db)
        ... imp, = imports
            if not _try_import(imp, namespaces[-1]): autoimported[fullname] = False; return False
            autoimported[imp.import_as] = True; ...; return True
        ... for pmodule in ModuleHandle(fullname).ancestors:
                if not pmodule.exists: autoimported[pmodule_name] = False; return False
    _try_import(imp, namespace):
        logger.info(stmt)
        try: exec(stmt, scratch_namespace); imported = scratch_namespace[name0]
        except Exception as e: logger.warning(...); _IMPORT_FAILED.add(imp); return False
        namespace[name0] = imported; return True                                            *)
Definition log_at (level : N) (s : state) : state := if (e_level E <=? level)%N then log_emit s else s.

Definition import_ok (F : faults) (id : N) (s : state) : res bool :=
  bind (visit F STryImport s) (fun s _ =>
  let s := log_at 20 s in
  Ret (set_attempted ((id, true) :: attempted s) (set_user_ns (id :: user_ns s) s)) true).

Definition import_one (F : faults) (n : nm) (s : state) : res bool :=
  bind (visit F SScopeStack s) (fun s _ =>
  bind (visit F SNeedsImport s) (fun s _ =>
  let id := nm_id n in
  if memN id (user_ns s) then Ret s true
  else if has_key id (attempted s) then Ret s false
  else match n with
       | NUnknown _ => Ret (set_attempted ((id, false) :: attempted s) s) false
       | NKnownOk _ => import_ok F id s
       | NRegistered _ =>
           (* extra_db=self.db: the names add_import() registered; the dynamic-import finder serves the module *)
           if memN id (registered s) then import_ok F id s
           else Ret (set_attempted ((id, false) :: attempted s) s) false
       | NKnownRaises _ e =>
           bind (visit F STryImport s) (fun s _ =>
           let s := log_at 20 s in
           if is_Exception e then Ret (set_attempted ((id, false) :: attempted s) (log_at 30 s)) false
           else Raise s e)
       end)).

(*  for fullname in fullnames: ok &= auto_import_symbol(...)  *)
Fixpoint import_all (F : faults) (ns : list nm) (ok : bool) (s : state) : res bool :=
  match ns with
  | [] => Ret s ok
  | n :: r => bind (import_one F n s) (fun s' b => import_all F r (ok && b) s')
  end.

(*  pyflyby._autoimp.auto_import(arg, namespaces, db=None, autoimported=None, ...):
        namespaces = ScopeStack(namespaces)
        try: fullnames = find_missing_imports(arg, namespaces)
        except SyntaxError: return False
        if not fullnames: return True
        db = ImportDB.interpret_arg(db, target_filename=filename)
        ok = True
        for fullname in fullnames: ok &= auto_import_symbol(...)
        return ok                                                                           *)
Definition auto_import_body (F : faults) (names : list nm) (s : state) : res bool :=
  bind (visit F SScopeStack s) (fun s _ =>
  match visit F SAnalysis s with
  | Raise s' ESyntax => Ret s' false
  | Raise s' e => Raise s' e
  | Ret s _ =>
      let missing := filter (fun n => negb (memN (nm_id n) (user_ns s))) names in
      match missing with
      | [] => Ret s true
      | _ => bind (visit F SDbLoad s) (fun s _ => import_all F missing true s)
      end
  end).

(*  AutoImporter.auto_import(self, arg, namespaces=None, raise_on_error="if_debug", on_error=None):
        if namespaces is None: namespaces = get_global_namespaces(self._ip)        <- prelude
        return self._safe_call(auto_import, arg=arg, namespaces=namespaces, ...,
                               raise_on_error=raise_on_error, on_error=on_error)            *)
Definition ai_auto_import (F : faults) (ns_given : bool) (mode : rmode) (names : list nm) (s : state) : res unit :=
  bind (if ns_given then Ret s tt else visit F SNamespaces s) (fun s _ =>
  bind (safe_call (e_debug E) mode (auto_import_body F names) None s) (fun s _ => Ret s tt)).

(* the hooks *)
Inductive hook := HAst | HOfind | HGlobalMatches | HAttrMatches | HExecfile | HProfiler | HRunWithDebugger.

(*  _AutoImporter_ast_transformer.visit(node): self.auto_import(node, raise_on_error=False); return node  *)
Definition hook_ast (F : faults) (names : list nm) (s : state) : res unit :=
  ai_auto_import F false RFalse names s.

(*  ofind_with_autoimport(oname, namespaces=None):
        if namespaces is None: namespaces = _ipython_namespaces(ip)
        ... self.auto_import(str(oname), [ns for nsname, ns in namespaces][::-1])
        return __original__(oname, namespaces=namespaces)
    run_with_profiler_with_autoimport(code, opts, namespace):
        self.auto_import(code, [namespace]); return __original__(code, opts, namespace)    *)
Definition hook_given_ns (F : faults) (names : list nm) (s : state) : res unit :=
  ai_auto_import F true RIfDebug names s.

(*  safe_execfile_with_autoimport(filename, ...):
        try:
            block = PythonBlock(Filename(filename)); ast_node = block.ast_node
            self.auto_import(ast_node, namespaces)
        except Exception as e: logger.error("%s: %s", type(e).__name__, e)
        return __original__(filename, *namespaces, **kwargs)                                *)
Definition hook_execfile (F : faults) (names : list nm) (s : state) : res unit :=
  match bind (visit F SParse s) (fun s _ => ai_auto_import F true RIfDebug names s) with
  | Ret s' _ => Ret s' tt
  | Raise s' e => if is_Exception e then Ret (log_emit s') tt else Raise s' e
  end.

(*  InterceptPrintsDuringPromptCtx(ip)   [ip is a shell without `readline`]:
        if type(sys.stdout).__module__.startswith("prompt_toolkit."): return NullCtx()
        if not hasattr(ip, "prompts_class"): return NullCtx()
        [fixes/F30: if not hasattr(ip, "pt_cli"): return NullCtx()]
        def post(): ... ip.pt_cli.print_tokens(t) ...            <- AttributeError without pt_cli
        return logger.HookCtx(pre=pre, post=post)                                           *)
Record io_env := mkIo {
  io_stdout_proxy : bool;      (* sys.stdout is prompt_toolkit's proxy *)
  io_prompts_class : bool;     (* hasattr(ip, "prompts_class") *)
  io_pt_cli : bool;            (* hasattr(ip, "pt_cli") *)
  f30_fixed : bool;            (* code variant: fixes/F30 (NullCtx without pt_cli; HookCtx resets in a finally) *)
  f35_fixed : bool;            (* code variant: fixes/F35 (%debug <statement> auto-imports through _safe_call) *)
  io_stderr_closed : bool      (* sys.stderr is a closed file during the interaction *)
}.
Variable IO : io_env.

(*  run_with_debugger_with_autoimport(code, code_ns, filename=None, ...):
        db = ImportDB.get_default(filename or ".")
        auto_import(code, namespaces=[code_ns], db=db)          <- the module-level function: no _safe_call
        [fixes/F35: both lines inside  self._safe_call(auto_import_for_debugger)]
        with HookPdbCtx(): return __original__(...)
   (no `autoimported` dictionary is passed: the importer's per-cell record is not written) *)
Definition debugger_body (F : faults) (names : list nm) (s : state) : res bool :=
  let a0 := attempted s in
  match bind (visit F SDbLoad s) (fun s _ => auto_import_body F names (set_attempted [] s)) with
  | Ret s' b => Ret (set_attempted a0 s') b
  | Raise s' e => Raise (set_attempted a0 s') e
  end.
Definition hook_run_with_debugger (F : faults) (names : list nm) (s : state) : res unit :=
  if f35_fixed IO then
    bind (safe_call (e_debug E) RIfDebug (debugger_body F names) None s) (fun s _ => Ret s tt)
  else bind (debugger_body F names s) (fun s _ => Ret s tt).

Inductive ictx := INull | IHook (post_raises : bool).
Definition intercept_ctx : ictx :=
  if io_stdout_proxy IO then INull
  else if negb (io_prompts_class IO) then INull
  else if f30_fixed IO && negb (io_pt_cli IO) then INull
  else IHook (negb (io_pt_cli IO)).

(*  _PyflybyHandler.HookCtx(pre, post):
        assert self._pre_log_function is None
        self._pre_log_function = pre
        try: yield
        finally:
            if self._logged_anything_during_context:
                post()                                            [fixes/F30: try: post()
                self._logged_anything_during_context = False                  finally: both resets]
            self._pre_log_function = None                                                   *)
Definition with_intercept {A} (inner : state -> res A) (s : state) : res A :=
  match intercept_ctx with
  | INull => inner s
  | IHook post_raises =>
      if log_pre s then Raise s (EExc cls_AssertionError)
      else
        let r := inner (set_log true false s) in
        let s1 := res_state r in
        if log_dirty s1 then
          if post_raises then
            (* the exception of post() replaces whatever the block returned or raised *)
            Raise (if f30_fixed IO then set_log false false s1 else s1) (EExc cls_AttributeError)
          else match r with Ret _ a => Ret (set_log false false s1) a | Raise _ e => Raise (set_log false false s1) e end
        else match r with Ret _ a => Ret (set_log false false s1) a | Raise _ e => Raise (set_log false false s1) e end
  end.

(* who produced the answer of a completion *)
Inductive via := ViaPyflyby | ViaOriginal.

(*  pyflyby._interactive.complete_symbol(fullname, namespaces, db=None, autoimported=None, ip=None, allow_eval=False):
        namespaces = ScopeStack(namespaces)
        ... db = ImportDB.interpret_arg(db, target_filename=".")
        if len(splt) == 1: ... names of the namespaces, known imports, importable modules
        elif len(splt) == 2:
            try: parent = auto_eval(pname, globals=ns_g, locals=ns_l, db=db)       (auto-imports the parent)
            except Exception as e: return []
            ...                                                                             *)
Definition complete_body (F : faults) (attr : bool) (names : list nm) (s : state) : res via :=
  bind (visit F SCompletion s) (fun s _ =>
  bind (visit F SScopeStack s) (fun s _ =>
  bind (visit F SDbLoad s) (fun s _ =>
  if attr then
    (* auto_eval(pname, ...) builds a PythonBlock of the parent expression (parse), auto-imports, evaluates
       (auto_eval passes no `autoimported` dictionary: the importer's per-cell record is not written) *)
    let a0 := attempted s in
    match bind (visit F SParse s) (fun s _ => auto_import_body F names (set_attempted [] s)) with
    | Ret s' _ => Ret (set_attempted a0 s') ViaPyflyby
    | Raise s' e => if is_Exception e then Ret (set_attempted a0 s') ViaPyflyby else Raise (set_attempted a0 s') e
    end
  else
    (* results.update([str(m) for m in ModuleHandle.list()]) *)
    bind (visit F SModuleList s) (fun s _ => Ret s ViaPyflyby)))).

(*  global_matches_with_autoimport(fullname) / attr_matches_with_autoimport(fullname):
        namespaces = get_completer_namespaces()      [None without pt_cli]
        return self.complete_symbol(fullname, namespaces, on_error=__original__)
    AutoImporter.complete_symbol(self, fullname, namespaces, raise_on_error='if_debug', on_error=None):
        with InterceptPrintsDuringPromptCtx(self._ip):
            if namespaces is None: namespaces = get_global_namespaces(self._ip)     <- prelude
            ... return self._safe_call(complete_symbol, fullname, namespaces, ...,
                                       raise_on_error=raise_on_error, on_error=on_error1)   *)
Definition hook_complete (F : faults) (attr : bool) (names : list nm) (s : state) : res via :=
  with_intercept (fun s =>
    bind (visit F SNamespaces s) (fun s _ =>
    bind (safe_call (e_debug E) RIfDebug (complete_body F attr names) (Some (fun s => Ret s ViaOriginal)) s)
         (fun s o => Ret s (match o with Some v => v | None => ViaOriginal end)))) s.

(* ------------------------------------------------------------------------------------------ *)
(* [IPython] interactions *)

Inductive act := ARunCell | AInspect | ACompleteGlobal | ACompleteAttr | ARunFile | APrun | ADebugStmt.

(* c_del: the cell text ends with `del <names>` (so that the same cell can be tried again unbound) *)
Record cell := mkCell { c_act : act; c_names : list nm; c_faults : faults; c_del : bool }.

Record cout := mkOut {
  co_path : bool;             (* some pyflyby callable was invoked by IPython during the interaction *)
  co_via : option via;        (* completions: who answered *)
  co_ok : bool;               (* every name the interaction reads is bound when the user's code runs / is looked up *)
  co_escaped : option exc     (* exception that left a pyflyby hook into IPython *)
}.

(* objects pyflyby created have identities >= n0, the allocator's value before pyflyby touched the shell *)
Variable n0 : N.
Definition ours (x : N) : bool := (n0 <=? x)%N.

Definition all_bound (names : list nm) (s : state) : bool :=
  forallb (fun n => memN (nm_id n) (user_ns s)) names.

(*  [IPython] InteractiveShell.transform_ast:
        for transformer in self.ast_transformers:
            try: node = transformer.visit(node)
            except InputRejected: raise
            except Exception: warn("AST transformer %r threw an error. It will be unregistered."); self.ast_transformers.remove(transformer)
    (a BaseException leaves run_cell_async and is reported by _run_cell as error_in_exec)   *)
Fixpoint transform_ast (F : faults) (names : list nm) (ts : list N) (s : state) : res bool :=
  match ts with
  | [] => Ret s false
  | t :: r =>
      if ours t then
        match hook_ast F names s with
        | Ret s' _ => bind (transform_ast F names r s') (fun s'' _ => Ret s'' true)
        | Raise s' e =>
            if is_Exception e then
              (* [IPython] warn("AST transformer %r threw an error. It will be unregistered. %s") comes first:
                 warnings.warn writes to sys.stderr and tolerates only OSError - on a closed sys.stderr the
                 ValueError leaves transform_ast before the transformer is unregistered *)
              if io_stderr_closed IO then Raise s' (EExc cls_ValueError)
              else bind (transform_ast F names r (set_list LAst (remove_first t (ast_l s')) s')) (fun s'' _ => Ret s'' true)
            else Raise s' e
        end
      else transform_ast F names r s
  end.

(*  [IPython] run_cell: transform_cell applies input_transformers_cleanup (our reset_auto_importer_state,
    when present, calls self.reset_state_new_cell()), then the AST transformers, then the code runs. *)
Definition interact_main (c : cell) (s : state) : state * cout :=
  let F := c_faults c in
  let names := c_names c in
  let run_hook (path0 : bool) (j : jp) (h : state -> res unit) (s : state) : state * cout :=
    if is_advice (slot s j) then
      match h s with
      | Ret s' _ => (s', mkOut true None (all_bound names s') None)
      | Raise s' e => (s', mkOut true None false (Some e))
      end
    else (s, mkOut path0 None (all_bound names s) None) in
  let run_compl (j : jp) (attr : bool) : state * cout :=
    if is_advice (slot s j) then
      match hook_complete F attr names s with
      | Ret s' v => (s', mkOut true (Some v) (all_bound names s') None)
      | Raise s' e => (s', mkOut true None false (Some e))
      end
    else (s, mkOut false (Some ViaOriginal) (all_bound names s) None) in
  (* the part every run_cell goes through; [cell_names] = the names the cell's own AST reads *)
  let cell_phase (cell_names : list nm) : res bool :=
    let resets := existsb ours (cleanup_l s) in
    let s1 := if resets then reset_state_new_cell s else s in
    bind (transform_ast F cell_names (ast_l s1) s1) (fun s' visited => Ret s' (resets || visited)) in
  (* a magic: the cell is the magic's line (it reads no unknown name), then the magic calls the hooked function *)
  let magic (j : jp) (h : state -> res unit) : state * cout :=
    match cell_phase [] with
    | Ret s' path0 => run_hook path0 j h s'
    | Raise s' e => (s', mkOut true None false (Some e))
    end in
  match c_act c with
  | ARunCell =>
      match cell_phase names with
      | Ret s' path0 => (s', mkOut path0 None (all_bound names s') None)
      | Raise s' e => (s', mkOut true None false (Some e))
      end
  | AInspect => run_hook false JOfind (hook_given_ns F names) s
  | ACompleteGlobal => run_compl JGlobalMatches false
  | ACompleteAttr => run_compl JAttrMatches true
  | ARunFile => magic JExecfile (hook_execfile F names)
  | APrun => magic JProfiler (hook_given_ns F names)
  | ADebugStmt => magic JRunWithDebugger (hook_run_with_debugger F names)
  end.

Definition interact (c : cell) (s : state) : state * cout :=
  let '(s', o) := interact_main c s in
  if c_del c && co_ok o then
    (set_user_ns (filter (fun x => negb (existsb (fun n => N.eqb (nm_id n) x) (c_names c))) (user_ns s')) s', o)
  else (s', o).

(* ------------------------------------------------------------------------------------------ *)
(* sessions: enable/disable operations interleaved with interactions *)

Inductive sop := SOp (o : op) | SCell (c : cell).

Definition sstep (sh : shell) (o : sop) : shell * option cout :=
  match o with
  | SOp o => (step E sh o, None)
  | SCell c => let '(s', out) := interact c (ai sh) in (mkShell s' (ext_loaded sh) None (ext_attr sh), Some out)
  end.

Fixpoint strace (ops : list sop) (sh : shell) : list (shell * option cout) :=
  match ops with
  | [] => []
  | o :: r => let p := sstep sh o in p :: strace r (fst p)
  end.
Definition srun (ops : list sop) (sh : shell) : shell := fold_left (fun sh o => fst (sstep sh o)) ops sh.

End WithEnv.

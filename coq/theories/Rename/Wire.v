(* Entry points evaluated by the correspondence harness (harness/c18.py). *)
From Coq Require Import NArith List String.
From Verif Require Import Base.Chars Base.Show Rename.Replace Rename.WordSub.
Import ListNotations.

Definition run_replace (m : list (str * str)) (full as_ : str) : string :=
  let i := transform_import m (mkImport full as_) in
  show_list show_str [fullname i; import_as i].

Definition run_text (extra : list ch) (m : list (str * str)) (t : str) : string :=
  show_str (transform_text (W_of extra) m t).

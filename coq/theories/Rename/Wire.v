(* Entry points evaluated by the correspondence harness (harness/c18.py). *)
From Coq Require Import NArith List String.
From Verif Require Import Base.Chars Base.Show Rename.Replace Rename.WordSub.
Import ListNotations.

Definition run_replace (m : list (str * str)) (full as_ : str) : string :=
  let i := transform_import m (mkImport full as_) in
  show_list show_str [fullname i; import_as i].

Definition run_text (extra : list ch) (m : list (str * str)) (t : str) : string :=
  show_str (transform_text (W_of extra) m t).

(* ---- program level (Rename/Program.v over Scope/PySem.v) ---- *)
From Coq Require Import Bool.
From Verif Require Import Scope.PySyntax Scope.PySem Rename.Program.
Open Scope string_scope.

Definition show_dotted (d : dotted) : string := show_list show_N d.
Definition show_res (r : res) : string :=
  match r with
  | Bound (BImp l i) => "[""imp""," ++ show_nat l ++ "," ++ show_dotted (fst i) ++ "," ++ show_dotted (snd i) ++ "]"
  | Bound BOther => "[""other""]"
  | Unbound => "[""unbound""]"
  | UnboundLocal => "[""unboundlocal""]"
  end.
Definition show_rd (x : rd) : string :=
  "[" ++ show_nat (fst (fst x)) ++ "," ++ show_N (snd (fst x)) ++ "," ++ show_res (snd x) ++ "]".
Definition unbound_roots (t : list rd) : list name :=
  map (fun x : rd => snd (fst x)) (filter (fun x : rd => match snd x with Unbound => true | _ => false end) t).

(* the renamed program's resolution trace against the renamed trace of the program *)
Definition run_rename_flat (old new : dotted) (p : program) : string :=
  let q := rename_program old new p in
  let tp := pysem [] [] p in
  let tq := pysem [] [] q in
  show_obj [("in_domain", show_bool (in_domain old new [] [] p));
            ("unbound_before", show_list show_N (unbound_roots tp));
            ("unbound_after", show_list show_N (unbound_roots tq));
            ("trace_after", show_list show_rd tq);
            ("renamed_trace", show_list show_rd (map (rename_rd old new) tp))].

(* C18, body substitution for ANY old whose first and last characters are word characters - in particular a
   dotted name of identifiers (`\bpkg\.sub\b`): relational specification (Rewrites), functional correctness,
   determinism, and the leftmost-occurrence decomposition theorems. *)
From Coq Require Import NArith Arith List Bool Lia.
From Verif Require Import Base.Chars Base.StrX Base.StrXProofs Rename.WordSub.
Import ListNotations.

Section Dotted.
  Variable W : ch -> bool.
  Variables old new : str.

  Notation ws := (ws W old new).
  Notation Wopt := (Wopt W).

  (* the last character seen after reading w, starting from prev *)
  Definition lastopt (prev : option ch) (w : str) : option ch := fold_left (fun _ c => Some c) w prev.
  (* rest is empty or starts with a non-word character *)
  Definition boundary (rest : str) : Prop := Wopt (hd_error rest) = false.

  (* OLD begins and ends with a word character (every dotted name of identifiers does: dotted_edge below) *)
  Definition edge_word : Prop :=
    old <> [] /\ Wopt (hd_error old) = true /\ Wopt (hd_error (rev old)) = true.

  (* a delimited occurrence of OLD at the head of t, prev being the character before t *)
  Definition occurs_at (prev : option ch) (t : str) : Prop :=
    exists post, t = old ++ post /\ Wopt prev = false /\ boundary post.

  Lemma skipn_length_app' {A} (a b : list A) : skipn (length a) (a ++ b) = b.
  Proof. induction a; simpl; auto. Qed.

  Lemma lastopt_cons prev c w : lastopt prev (c :: w) = lastopt (Some c) w.
  Proof. reflexivity. Qed.
  Lemma lastopt_app prev a b : lastopt prev (a ++ b) = lastopt (lastopt prev a) b.
  Proof. unfold lastopt. apply fold_left_app. Qed.

  Hypothesis Hedge : edge_word.

  (* the regex test \bOLD\b at one position is exactly "a delimited occurrence starts here" *)
  Lemma match_here_iff prev t : match_here W old prev t = true <-> occurs_at prev t.
  Proof.
    destruct Hedge as (Hne & Hh & Hl). unfold match_here, bnd, occurs_at. rewrite Hh, Hl. split.
    - intros H. apply andb_true_iff in H as [H H3]. apply andb_true_iff in H as [H1 H2].
      apply starts_with_iff in H1 as [post ->]. exists post. split; [reflexivity|].
      rewrite skipn_length_app' in H3. unfold boundary.
      destruct (Wopt prev); [discriminate|]. destruct (Wopt (hd_error post)); [discriminate|]. auto.
    - intros (post & -> & Hp & Hb). rewrite starts_with_app, skipn_length_app', Hp. unfold boundary in Hb. rewrite Hb. reflexivity.
  Qed.

  Lemma match_here_false prev t : ~ occurs_at prev t -> match_here W old prev t = false.
  Proof. intros H. destruct (match_here W old prev t) eqn:E; [|reflexivity]. exfalso. apply H, match_here_iff, E. Qed.

  Lemma ws_skip rest w prev : ws prev (w ++ rest) (length w) = ws (lastopt prev w) rest 0.
  Proof. revert prev; induction w as [|c w IH]; intros prev; simpl; [reflexivity|apply IH]. Qed.

  (* the two steps of the scan *)
  Lemma ws_match prev post : occurs_at prev (old ++ post) ->
    ws prev (old ++ post) 0 = new ++ ws (lastopt None old) post 0.
  Proof.
    intros Ho. apply match_here_iff in Ho. destruct Hedge as (Hne & _ & _).
    assert (Hex : exists c o', old = c :: o') by (destruct old as [|c o']; [congruence|eauto]).
    destruct Hex as (c & o' & E).
    assert (Et : old ++ post = c :: (o' ++ post)) by (rewrite E; reflexivity).
    rewrite Et in *. cbn [WordSub.ws]. rewrite Ho. f_equal.
    replace (length old - 1) with (length o') by (rewrite E; simpl; lia).
    rewrite ws_skip. rewrite E. reflexivity.
  Qed.

  Lemma ws_copy prev c rest : ~ occurs_at prev (c :: rest) -> ws prev (c :: rest) 0 = c :: ws (Some c) rest 0.
  Proof. intros H. cbn [WordSub.ws]. rewrite (match_here_false _ _ H). reflexivity. Qed.

  (* ---------- relational specification: leftmost, non-overlapping, nothing else changes ---------- *)
  Inductive Rewrites : option ch -> str -> str -> Prop :=
  | RW_nil prev : Rewrites prev [] []
  | RW_match prev post out : Wopt prev = false -> boundary post ->
      Rewrites (lastopt None old) post out -> Rewrites prev (old ++ post) (new ++ out)
  | RW_copy prev c rest out : ~ occurs_at prev (c :: rest) ->
      Rewrites (Some c) rest out -> Rewrites prev (c :: rest) (c :: out).

  Lemma occurs_dec prev t : occurs_at prev t \/ ~ occurs_at prev t.
  Proof. destruct (match_here W old prev t) eqn:E; [left; apply match_here_iff, E|right; intros H; apply match_here_iff in H; congruence]. Qed.

  Theorem ws_rewrites : forall n text prev, length text <= n -> Rewrites prev text (ws prev text 0).
  Proof.
    induction n as [|n IH]; intros text prev Hn.
    - destruct text; [constructor|simpl in Hn; lia].
    - destruct text as [|c rest]; [constructor|].
      destruct (occurs_dec prev (c :: rest)) as [Ho|Ho].
      + destruct Ho as (post & E & Hp & Hb).
        assert (Ho : occurs_at prev (old ++ post)) by (exists post; auto).
        assert (Hlen : length post <= n).
        { apply (f_equal (@length ch)) in E. rewrite app_length in E. simpl in E, Hn.
          destruct Hedge as (Hne & _ & _). destruct old; [congruence|]. simpl in E. lia. }
        rewrite E, (ws_match prev post Ho). constructor; try assumption. apply IH. exact Hlen.
      + rewrite (ws_copy prev c rest Ho). constructor; [exact Ho|]. apply IH. simpl in Hn. lia.
  Qed.

  Theorem wordsub_rewrites text : Rewrites None text (wordsub W old new text).
  Proof. unfold wordsub. apply (ws_rewrites (length text)). lia. Qed.

  Lemma rewrites_inv prev t o : Rewrites prev t o ->
    (t = [] /\ o = []) \/
    (exists post out, t = old ++ post /\ o = new ++ out /\ Wopt prev = false /\ boundary post /\
                      Rewrites (lastopt None old) post out) \/
    (exists c rest out, t = c :: rest /\ o = c :: out /\ ~ occurs_at prev t /\ Rewrites (Some c) rest out).
  Proof.
    destruct 1 as [prev|prev post out Hp Hb Hr|prev c rest out Ho Hr].
    - left. auto.
    - right. left. exists post, out. auto.
    - right. right. exists c, rest, out. auto.
  Qed.

  Theorem rewrites_det prev text o1 : Rewrites prev text o1 -> forall o2, Rewrites prev text o2 -> o1 = o2.
  Proof.
    destruct Hedge as (Hne & _ & _).
    assert (Hold : forall post, old ++ post <> []) by (intros post E; destruct old; [congruence|discriminate]).
    induction 1 as [prev|prev post out Hp Hb Hr IH|prev c rest out Ho Hr IH]; intros o2 H2;
      apply rewrites_inv in H2 as [[E ->]|[(post' & out' & E & -> & Hp' & Hb' & Hr')|(c' & rest' & out' & E & -> & Ho' & Hr')]].
    - reflexivity.
    - exfalso. apply (Hold post'). auto.
    - discriminate.
    - exfalso. apply (Hold post). exact E.
    - apply app_inv_head in E. subst post'. f_equal. apply IH. exact Hr'.
    - exfalso. apply Ho'. exists post. auto.
    - discriminate.
    - exfalso. apply Ho. exists post'. auto.
    - inversion E; subst. f_equal. apply IH. exact Hr'.
  Qed.

  (* the scan is the unique function meeting the specification *)
  Corollary rewrites_iff text out : Rewrites None text out <-> out = wordsub W old new text.
  Proof.
    split; [intros H; apply (rewrites_det None text out H), wordsub_rewrites|intros ->; apply wordsub_rewrites].
  Qed.

  (* ---------- decomposition ---------- *)
  (* no delimited occurrence starts at any position of `text`, read in front of `tail` *)
  Definition no_occurrence_in (prev : option ch) (text tail : str) : Prop :=
    forall p1 p2, text = p1 ++ p2 -> p2 <> [] -> ~ occurs_at (lastopt prev p1) (p2 ++ tail).

  Lemma no_occurrence_tail prev c text tail :
    no_occurrence_in prev (c :: text) tail -> no_occurrence_in (Some c) text tail.
  Proof. intros H p1 p2 E Hne. apply (H (c :: p1) p2); [rewrite E; reflexivity|exact Hne]. Qed.

  (* a text without occurrences is copied *)
  Theorem ws_no_occurrence : forall text prev, no_occurrence_in prev text [] -> ws prev text 0 = text.
  Proof.
    induction text as [|c text IH]; intros prev H; [reflexivity|].
    rewrite ws_copy.
    - f_equal. apply IH. eapply no_occurrence_tail. exact H.
    - specialize (H [] (c :: text) eq_refl). rewrite app_nil_r in H. apply H. discriminate.
  Qed.

  (* text = pre ++ OLD ++ post, the occurrence is delimited, none starts inside pre:
     pre is copied, OLD becomes NEW, the scan continues behind the occurrence *)
  Theorem ws_leftmost : forall pre prev post,
    no_occurrence_in prev pre (old ++ post) -> occurs_at (lastopt prev pre) (old ++ post) ->
    ws prev (pre ++ old ++ post) 0 = pre ++ new ++ ws (lastopt None old) post 0.
  Proof.
    induction pre as [|c pre IH]; intros prev post Hno Ho.
    - apply ws_match. exact Ho.
    - change ((c :: pre) ++ old ++ post) with (c :: (pre ++ old ++ post)). rewrite ws_copy.
      + cbn [app]. f_equal. apply IH; [eapply no_occurrence_tail; exact Hno|exact Ho].
      + apply (Hno [] (c :: pre) eq_refl). discriminate.
  Qed.

  Corollary wordsub_no_occurrence text : no_occurrence_in None text [] -> wordsub W old new text = text.
  Proof. apply ws_no_occurrence. Qed.

  Corollary wordsub_leftmost pre post :
    no_occurrence_in None pre (old ++ post) ->
    Wopt (lastopt None pre) = false -> boundary post ->
    wordsub W old new (pre ++ old ++ post) = pre ++ new ++ ws (lastopt None old) post 0.
  Proof. intros Hno Hp Hb. apply ws_leftmost; [exact Hno|]. exists post. auto. Qed.

  (* `.` (any non-word character) delimits: OLD inside a longer dotted chain IS an occurrence;
     OLD followed or preceded by a word character is NOT *)
  Lemma occurs_between_nonword c1 c2 post : W c1 = false -> W c2 = false -> occurs_at (Some c1) (old ++ c2 :: post).
  Proof. intros H1 H2. exists (c2 :: post). repeat split; assumption. Qed.

  Lemma no_occurrence_word_after prev c post : W c = true -> ~ occurs_at prev (old ++ c :: post).
  Proof. intros Hc (post' & E & _ & Hb). apply app_inv_head in E. subst post'. unfold boundary in Hb. simpl in Hb. congruence. Qed.

  Lemma no_occurrence_word_before c t : W c = true -> ~ occurs_at (Some c) t.
  Proof. intros Hc (post & _ & Hp & _). simpl in Hp. congruence. Qed.
End Dotted.

(* a dotted name of identifiers has word characters at both ends *)
Definition dotted_name (W : ch -> bool) (s : str) : Prop :=
  exists comps, comps <> [] /\ Forall (fun c => c <> [] /\ Forall (fun x => W x = true) c) comps /\ s = join_with c_dot comps.

Lemma dotted_edge W s : dotted_name W s -> edge_word W s.
Proof.
  intros (comps & Hne & Hc & ->). unfold edge_word.
  destruct comps as [|c0 l]; [congruence|]. inversion Hc as [|? ? [Hc0 Hw0] Hl]; subst.
  assert (Hhd : exists x y, join_with c_dot (c0 :: l) = x :: y /\ W x = true).
  { destruct c0 as [|x r]; [congruence|]. inversion Hw0; subst.
    destruct l as [|c1 l]; [exists x, r; auto|].
    exists x, (r ++ c_dot :: join_with c_dot (c1 :: l)). auto. }
  destruct Hhd as (x & y & E & Hx). rewrite E. split; [discriminate|]. split; [exact Hx|]. rewrite <- E. clear E Hx x y.
  destruct (exists_last (l := c0 :: l)) as (pre & cl & E); [discriminate|]. rewrite E in *. clear E.
  apply Forall_app in Hc as [_ Hcl]. inversion Hcl as [|? ? [Hcne Hcw] _]; subst.
  assert (Hj : exists y, join_with c_dot (pre ++ [cl]) = y ++ cl).
  { destruct pre as [|p0 pre']; [exists []; reflexivity|].
    exists (join_with c_dot (p0 :: pre') ++ [c_dot]). rewrite join_with_app by discriminate.
    rewrite <- app_assoc. reflexivity. }
  destruct Hj as (y & ->). rewrite rev_app_distr.
  assert (Hr : Forall (fun x => W x = true) (rev cl)) by (apply Forall_rev; exact Hcw).
  destruct (rev cl) as [|z q] eqn:Er.
  - apply (f_equal (@rev ch)) in Er. rewrite rev_involutive in Er. simpl in Er. congruence.
  - inversion Hr; subst. simpl. assumption.
Qed.

(* M16 (a): pyflyby._importstmt.Import.replace and the per-import part of
   pyflyby._imports2s.transform_imports.  Model only; proofs are in ReplaceProofs.v. *)
From Coq Require Import NArith List Bool.
From Verif Require Import Base.Chars Base.StrX.
Import ListNotations.

Record import := mkImport { fullname : str; import_as : str }.

Definition parts (s : str) : list str := split_on c_dot s.
Definition unparts (l : list str) : str := join_with c_dot l.

(*  prefix_parts = prefix.split('.'); replacement_parts = replacement.split('.')
    fullname_parts = self.fullname.split('.')
    if fullname_parts[:len(prefix_parts)] != prefix_parts: return self
    fullname_parts[:len(prefix_parts)] = replacement_parts
    import_as_parts = self.import_as.split('.')
    if import_as_parts[:len(prefix_parts)] == prefix_parts:
        import_as_parts[:len(prefix_parts)] = replacement_parts
    return self.from_parts('.'.join(fullname_parts), '.'.join(import_as_parts))       *)
Definition replace (old new : str) (i : import) : import :=
  let pp := parts old in
  let rp := parts new in
  let fp := parts (fullname i) in
  let n := length pp in
  if negb (strs_eqb (firstn n fp) pp) then i
  else
    let fp' := rp ++ skipn n fp in
    let ap := parts (import_as i) in
    let ap' := if strs_eqb (firstn n ap) pp then rp ++ skipn n ap else ap in
    mkImport (unparts fp') (unparts ap').

(*  for k, v in transformations.items(): imp = imp.replace(k, v)  *)
Definition transform_import (m : list (str * str)) (i : import) : import :=
  fold_left (fun acc kv => replace (fst kv) (snd kv) acc) m i.

(* component-wise prefix: the specification-side notion *)
Fixpoint is_prefix (p l : list str) : bool :=
  match p, l with
  | [], _ => true
  | x :: p', y :: l' => str_eqb x y && is_prefix p' l'
  | _ :: _, [] => false
  end.

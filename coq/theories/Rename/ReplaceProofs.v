From Coq Require Import NArith List Bool Lia.
From Verif Require Import Base.Chars Base.StrX Base.StrXProofs Rename.Replace.
Import ListNotations.

Lemma is_prefix_iff p l : is_prefix p l = true <-> exists r, l = p ++ r.
Proof.
  revert l; induction p as [|x p IH]; intros l; simpl.
  - split; [intros _; exists l; reflexivity|reflexivity].
  - destruct l as [|y l].
    + split; [discriminate|intros [r Hr]; discriminate].
    + rewrite andb_true_iff, str_eqb_eq, IH. split.
      * intros [-> [r ->]]. exists r. reflexivity.
      * intros [r Hr]. inversion Hr; subst. split; [reflexivity|exists r; reflexivity].
Qed.

Lemma firstn_eqb_is_prefix p l : strs_eqb (firstn (length p) l) p = is_prefix p l.
Proof.
  revert l; induction p as [|x p IH]; intros l; simpl; [reflexivity|].
  destruct l as [|y l]; simpl; [reflexivity|]. rewrite IH, str_eqb_sym. reflexivity.
Qed.

(* component-wise prefix = "the dotted path is OLD or begins with OLD followed by a dot" *)
Lemma component_prefix_iff_string old full :
  is_prefix (parts old) (parts full) = true <-> (full = old \/ exists r, full = old ++ c_dot :: r).
Proof.
  unfold parts. rewrite is_prefix_iff. split.
  - intros [r Hr]. destruct r as [|x r].
    + left. rewrite app_nil_r in Hr.
      rewrite <- (join_split c_dot full), <- (join_split c_dot old), Hr. reflexivity.
    + right. exists (join_with c_dot (x :: r)).
      rewrite <- (join_split c_dot full), Hr, join_with_app by (apply split_on_nonempty || discriminate).
      rewrite join_split. reflexivity.
  - intros [->|[r ->]].
    + exists []. rewrite app_nil_r. reflexivity.
    + exists (split_on c_dot r). apply split_on_app_sep.
Qed.

Lemma skipn_length_app {A} (a b : list A) : skipn (length a) (a ++ b) = b.
Proof. induction a; simpl; auto. Qed.

Lemma subst_prefix_string old new s :
  let n := length (parts old) in
  (s = old -> unparts (parts new ++ skipn n (parts s)) = new) /\
  (forall r, s = old ++ c_dot :: r -> unparts (parts new ++ skipn n (parts s)) = new ++ c_dot :: r).
Proof.
  unfold parts, unparts. split.
  - intros ->. rewrite skipn_all, app_nil_r. apply join_split.
  - intros r ->. rewrite split_on_app_sep, skipn_length_app.
    rewrite join_with_app by apply split_on_nonempty. rewrite !join_split. reflexivity.
Qed.

Lemma replace_no_prefix old new i :
  is_prefix (parts old) (parts (fullname i)) = false -> replace old new i = i.
Proof. intros H. unfold replace. rewrite firstn_eqb_is_prefix, H. reflexivity. Qed.

Lemma replace_prefix old new i :
  is_prefix (parts old) (parts (fullname i)) = true ->
  replace old new i =
    mkImport (unparts (parts new ++ skipn (length (parts old)) (parts (fullname i))))
             (if is_prefix (parts old) (parts (import_as i))
              then unparts (parts new ++ skipn (length (parts old)) (parts (import_as i)))
              else unparts (parts (import_as i))).
Proof.
  intros H. unfold replace. rewrite !firstn_eqb_is_prefix, H. simpl.
  destruct (is_prefix (parts old) (parts (import_as i))); reflexivity.
Qed.

Definition extends (old s : str) : Prop := s = old \/ exists r, s = old ++ c_dot :: r.
Definition subst_prefix (old new s : str) : str :=
  unparts (parts new ++ skipn (length (parts old)) (parts s)).

Lemma not_extends_not_prefix old s : ~ extends old s -> is_prefix (parts old) (parts s) = false.
Proof.
  intros H. destruct (is_prefix (parts old) (parts s)) eqn:E; [|reflexivity].
  exfalso. apply H. apply component_prefix_iff_string. exact E.
Qed.

(* C18 headline: prefix-exactness, stated on plain strings *)
Theorem replace_exact old new i :
  (~ extends old (fullname i) -> replace old new i = i) /\
  (fullname i = old -> fullname (replace old new i) = new) /\
  (forall r, fullname i = old ++ c_dot :: r -> fullname (replace old new i) = new ++ c_dot :: r).
Proof.
  split; [|split].
  - intros H. apply replace_no_prefix, not_extends_not_prefix, H.
  - intros H. rewrite replace_prefix by (apply component_prefix_iff_string; left; exact H).
    simpl. apply (subst_prefix_string old new (fullname i)). exact H.
  - intros r H. rewrite replace_prefix by (apply component_prefix_iff_string; right; exists r; exact H).
    simpl. apply (subst_prefix_string old new (fullname i)). exact H.
Qed.

(* C18: the local name is kept unless it itself is OLD or begins with OLD-dot, in which case it is
   renamed the same way *)
Theorem local_name_kept old new i :
  extends old (fullname i) ->
  (~ extends old (import_as i) -> import_as (replace old new i) = import_as i) /\
  (import_as i = old -> import_as (replace old new i) = new) /\
  (forall r, import_as i = old ++ c_dot :: r -> import_as (replace old new i) = new ++ c_dot :: r).
Proof.
  intros Hf. apply component_prefix_iff_string in Hf.
  rewrite (replace_prefix _ _ _ Hf). simpl. split; [|split].
  - intros H. rewrite (not_extends_not_prefix _ _ H). apply join_split.
  - intros H. assert (E : is_prefix (parts old) (parts (import_as i)) = true)
      by (apply component_prefix_iff_string; left; exact H).
    rewrite E. apply (subst_prefix_string old new (import_as i)). exact H.
  - intros r H. assert (E : is_prefix (parts old) (parts (import_as i)) = true)
      by (apply component_prefix_iff_string; right; exists r; exact H).
    rewrite E. apply (subst_prefix_string old new (import_as i)). exact H.
Qed.

(* A path that merely shares leading characters is never rewritten:  a.b  vs  a.bb *)
Theorem shares_leading_chars_untouched old new i c r :
  fullname i = old ++ c :: r -> (c =? c_dot)%N = false -> replace old new i = i.
Proof.
  intros Hf Hc. apply replace_exact. intros [H|[r' H]]; rewrite Hf in H.
  - apply (f_equal (@length ch)) in H. rewrite app_length in H. simpl in H. lia.
  - apply app_inv_head in H. inversion H; subst. rewrite N.eqb_refl in Hc. discriminate.
Qed.

(* Behaviour: in a world where NEW paths alias OLD paths, the rewritten import yields the same object *)
Section Alias.
  Variable obj : Type.
  Variable resolve : list str -> option obj.      (* the import system: dotted path -> object *)
  Variables old new : str.
  Hypothesis alias : forall rest, resolve (parts new ++ rest) = resolve (parts old ++ rest).

  Definition imported_object (i : import) : option obj := resolve (parts (fullname i)).

  Lemma parts_unparts l : l <> [] -> Forall (no_sep c_dot) l -> parts (unparts l) = l.
  Proof. apply split_join. Qed.

  Theorem replace_preserves_object i : imported_object (replace old new i) = imported_object i.
  Proof.
    unfold imported_object.
    destruct (is_prefix (parts old) (parts (fullname i))) eqn:E.
    - rewrite (replace_prefix _ _ _ E). cbn [fullname].
      rewrite parts_unparts.
      + rewrite alias. apply is_prefix_iff in E as [rest E]. rewrite E.
        rewrite skipn_length_app. reflexivity.
      + pose proof (split_on_nonempty c_dot new) as Hn. unfold parts.
        destruct (split_on c_dot new); [congruence|discriminate].
      + apply Forall_app. split; [apply split_on_no_sep|apply Forall_skipn, split_on_no_sep].
    - rewrite replace_no_prefix by exact E. reflexivity.
  Qed.
End Alias.

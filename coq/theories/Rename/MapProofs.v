(* C18, multi-entry maps: transform_import / transform_text apply the entries sequentially in map order
   (`for k, v in transformations.items(): imp = imp.replace(k, v)`).  What that does:
   - composition law; independent entries commute, so the order of an independent map is irrelevant and the
     map acts as "the unique matching entry";
   - nested keys: the shorter key listed first shadows the longer one; the longer key listed first gives
     most-specific-wins;
   - order dependence for nested prefixes is real (refuted examples, for imports and for the body text). *)
From Coq Require Import NArith List Bool Lia Permutation.
From Verif Require Import Base.Chars Base.StrX Base.StrXProofs Rename.Replace Rename.ReplaceProofs Rename.WordSub.
Import ListNotations.

Definition entry := (str * str)%type.

(* ---------- composition ---------- *)
Theorem transform_import_app m1 m2 i : transform_import (m1 ++ m2) i = transform_import m2 (transform_import m1 i).
Proof. unfold transform_import. apply fold_left_app. Qed.

Theorem transform_text_app W m1 m2 s : transform_text W (m1 ++ m2) s = transform_text W m2 (transform_text W m1 s).
Proof. unfold transform_text. apply fold_left_app. Qed.

Lemma transform_import_cons e m i : transform_import (e :: m) i = transform_import m (replace (fst e) (snd e) i).
Proof. reflexivity. Qed.

(* ---------- component prefixes ---------- *)
Lemma is_prefix_refl p : is_prefix p p = true.
Proof. apply is_prefix_iff. exists []. symmetry. apply app_nil_r. Qed.

Lemma is_prefix_trans a b c : is_prefix a b = true -> is_prefix b c = true -> is_prefix a c = true.
Proof.
  rewrite !is_prefix_iff. intros [r1 ->] [r2 ->]. exists (r1 ++ r2). symmetry. apply app_assoc.
Qed.

(* two prefixes of the same list are comparable *)
Lemma prefixes_comparable : forall a b x, is_prefix a x = true -> is_prefix b x = true ->
  is_prefix a b = true \/ is_prefix b a = true.
Proof.
  induction a as [|u a IH]; intros b x Ha Hb; [left; reflexivity|].
  destruct b as [|v b]; [right; reflexivity|].
  destruct x as [|w x]; [discriminate|]. cbn [is_prefix] in *.
  apply andb_true_iff in Ha as [Hu Ha]. apply andb_true_iff in Hb as [Hv Hb].
  apply str_eqb_eq in Hu, Hv. subst. rewrite str_eqb_refl. cbn [andb]. eapply IH; eassumption.
Qed.

(* a prefix of n ++ r is comparable with n *)
Lemma prefix_of_app_comparable p n r : is_prefix p (n ++ r) = true -> is_prefix p n = true \/ is_prefix n p = true.
Proof.
  intros H. apply (prefixes_comparable p n (n ++ r) H). apply is_prefix_iff. exists r. reflexivity.
Qed.

Definition incomparable (a b : list str) : Prop := is_prefix a b = false /\ is_prefix b a = false.

Lemma incomparable_no_match p n r : incomparable p n -> is_prefix p (n ++ r) = false.
Proof.
  intros [H1 H2]. destruct (is_prefix p (n ++ r)) eqn:E; [|reflexivity].
  apply prefix_of_app_comparable in E as [E|E]; congruence.
Qed.

(* ---------- the effect of one entry on the parts ---------- *)
Definition matches (k : str) (i : import) : bool := is_prefix (parts k) (parts (fullname i)).

Lemma parts_nonempty s : parts s <> [].
Proof. apply split_on_nonempty. Qed.

Lemma replace_fullname_parts k v i : matches k i = true ->
  parts (fullname (replace k v i)) = parts v ++ skipn (length (parts k)) (parts (fullname i)).
Proof.
  intros H. unfold matches in H. rewrite (replace_prefix _ _ _ H). cbn [fullname]. apply parts_unparts.
  - pose proof (parts_nonempty v). destruct (parts v); [congruence|discriminate].
  - apply Forall_app. split; [apply split_on_no_sep|apply Forall_skipn, split_on_no_sep].
Qed.

Lemma replace_not_matching k v i : matches k i = false -> replace k v i = i.
Proof. apply replace_no_prefix. Qed.

(* after an entry fired, an entry whose key is incomparable with the replacement does not fire *)
Lemma no_match_after k v k' i : matches k i = true -> incomparable (parts k') (parts v) ->
  matches k' (replace k v i) = false.
Proof.
  intros Hm Hinc. unfold matches. rewrite (replace_fullname_parts k v i Hm). apply incomparable_no_match. exact Hinc.
Qed.

(* ---------- independent entries commute ---------- *)
(* neither key extends the other key, and neither key extends (or is extended by) the other's replacement *)
Definition indep (e1 e2 : entry) : Prop :=
  incomparable (parts (fst e1)) (parts (fst e2)) /\
  incomparable (parts (fst e2)) (parts (snd e1)) /\
  incomparable (parts (fst e1)) (parts (snd e2)).

Lemma indep_sym e1 e2 : indep e1 e2 -> indep e2 e1.
Proof. intros ([A B] & C & D). split; [split; assumption|split; assumption]. Qed.

Lemma indep_not_both e1 e2 i : indep e1 e2 -> matches (fst e1) i = true -> matches (fst e2) i = false.
Proof.
  intros ([A B] & _) H1. destruct (matches (fst e2) i) eqn:H2; [|reflexivity].
  destruct (prefixes_comparable _ _ _ H1 H2); congruence.
Qed.

Theorem replace_commute e1 e2 i : indep e1 e2 ->
  replace (fst e1) (snd e1) (replace (fst e2) (snd e2) i) = replace (fst e2) (snd e2) (replace (fst e1) (snd e1) i).
Proof.
  intros Hi. destruct (matches (fst e1) i) eqn:H1.
  - pose proof (indep_not_both e1 e2 i Hi H1) as H2.
    rewrite (replace_not_matching _ (snd e2) i H2).
    rewrite (replace_not_matching (fst e2) (snd e2)); [reflexivity|].
    apply no_match_after; [exact H1|apply Hi].
  - rewrite (replace_not_matching _ (snd e1) i H1).
    destruct (matches (fst e2) i) eqn:H2.
    + rewrite (replace_not_matching (fst e1) (snd e1)); [reflexivity|].
      apply no_match_after; [exact H2|apply Hi].
    + rewrite (replace_not_matching _ (snd e2) i H2). apply replace_not_matching. exact H1.
Qed.

(* the order of a pairwise independent map is irrelevant *)
Definition pairwise_indep (m : list entry) : Prop := forall e1 e2, In e1 m -> In e2 m -> e1 <> e2 -> indep e1 e2.

Lemma entry_eq_dec (a b : entry) : {a = b} + {a <> b}.
Proof. repeat decide equality. Qed.

Theorem transform_import_order_irrelevant m m' : Permutation m m' -> pairwise_indep m ->
  forall i, transform_import m i = transform_import m' i.
Proof.
  induction 1 as [|e l l' Hp IH|x y l|l1 l2 l3 H12 IH12 H23 IH23]; intros Hind i.
  - reflexivity.
  - rewrite !transform_import_cons. apply IH. intros e1 e2 H1 H2. apply Hind; right; assumption.
  - rewrite !transform_import_cons. destruct (entry_eq_dec x y) as [->|Hne]; [reflexivity|].
    f_equal. apply replace_commute. apply Hind; [right; left; reflexivity|left; reflexivity|exact Hne].
  - rewrite IH12 by exact Hind. apply IH23.
    intros e1 e2 H1 H2. apply Hind; eapply Permutation_in; try eassumption; apply Permutation_sym; exact H12.
Qed.

(* ... and an independent map acts as its unique matching entry *)
Lemma transform_import_no_match m i : Forall (fun e : entry => matches (fst e) i = false) m -> transform_import m i = i.
Proof.
  induction 1 as [|e m He Hm IH]; [reflexivity|]. rewrite transform_import_cons, (replace_not_matching _ _ _ He). exact IH.
Qed.

Theorem transform_import_unique_match m i : ForallOrdPairs indep m ->
  transform_import m i =
  match find (fun e : entry => matches (fst e) i) m with
  | Some e => replace (fst e) (snd e) i
  | None => i
  end.
Proof.
  induction 1 as [|e m He Hm IH]; [reflexivity|]. rewrite transform_import_cons. cbn [find].
  destruct (matches (fst e) i) eqn:H1.
  - apply transform_import_no_match. eapply Forall_impl; [|exact He]. intros e' Hi.
    apply no_match_after; [exact H1|apply Hi].
  - rewrite (replace_not_matching _ _ _ H1). exact IH.
Qed.

(* ---------- nested keys ---------- *)
(* k2 extends k1 and k1 comes first: the longer key never fires (provided it is incomparable with v1) *)
Theorem nested_shorter_first_shadows k1 v1 k2 v2 i :
  is_prefix (parts k1) (parts k2) = true -> incomparable (parts k2) (parts v1) ->
  transform_import [(k1, v1); (k2, v2)] i = replace k1 v1 i.
Proof.
  intros Hn Hinc. rewrite !transform_import_cons. cbn [fst snd transform_import fold_left].
  destruct (matches k1 i) eqn:H1.
  - apply replace_not_matching. apply no_match_after; assumption.
  - rewrite (replace_not_matching _ _ _ H1). apply replace_not_matching.
    destruct (matches k2 i) eqn:H2; [|reflexivity]. unfold matches in *.
    rewrite (is_prefix_trans _ _ _ Hn H2) in H1. discriminate.
Qed.

(* the longer key first: most specific wins (provided k1 is incomparable with v2) *)
Theorem nested_longer_first_specific k1 v1 k2 v2 i : incomparable (parts k1) (parts v2) ->
  transform_import [(k2, v2); (k1, v1)] i = if matches k2 i then replace k2 v2 i else replace k1 v1 i.
Proof.
  intros Hinc. rewrite !transform_import_cons. cbn [fst snd transform_import fold_left].
  destruct (matches k2 i) eqn:H2.
  - apply replace_not_matching. apply no_match_after; assumption.
  - rewrite (replace_not_matching _ _ _ H2). reflexivity.
Qed.

(* ---------- order dependence is real for nested prefixes ---------- *)
From Coq Require Import String.
Open Scope string_scope.
Theorem order_irrelevant_refuted :
  exists m m' i, Permutation m m' /\ transform_import m i <> transform_import m' i.
Proof.
  exists [(dec "a.b", dec "x"); (dec "a.b.c", dec "y")], [(dec "a.b.c", dec "y"); (dec "a.b", dec "x")],
         (mkImport (dec "a.b.c.d") (dec "a.b.c.d")).
  split; [apply perm_swap|]. vm_compute. discriminate.
Qed.

Theorem text_order_irrelevant_refuted :
  exists m m' s, Permutation m m' /\ transform_text is_ident_char m s <> transform_text is_ident_char m' s.
Proof.
  exists [(dec "a.b", dec "x"); (dec "a.b.c", dec "y")], [(dec "a.b.c", dec "y"); (dec "a.b", dec "x")],
         (dec "a.b.c.f()").
  split; [apply perm_swap|]. vm_compute. discriminate.
Qed.
Close Scope string_scope.

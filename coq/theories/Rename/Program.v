(* C18, program level: the rename on PySyntax programs (names are ids, dotted names id lists), for the
   module-level fragment: import statements rewritten with Import.replace lifted to id lists and re-expressed at
   the same line (one statement per imported item, as ImportSet prints them), whole-word body occurrences = Name /
   attribute chains whose dotted prefix is OLD.  Nested scopes (def / class / lambda / comprehension) and compound
   statements are left unchanged by these definitions: the theorems of ProgramProofs.v are about the fragment.
   No proofs here. *)
From Coq Require Import NArith List Bool.
From Verif Require Import Scope.PySyntax Scope.PySem.
Import ListNotations.

Section Rename.
  Variables old new : dotted.

  (* Import.replace on id lists (Rename/Replace.v on strings, through parts/unparts) *)
  Definition subst_prefix (d : dotted) : dotted := new ++ skipn (length old) d.
  Definition replace_d (i : import) : import :=
    if is_prefix old (fst i)
    then (subst_prefix (fst i), if is_prefix old (snd i) then subst_prefix (snd i) else snd i)
    else i.

  (* the Import of one item of an import statement *)
  Definition import_of_item (it : dotted * option name) : import :=
    (fst it, match snd it with Some a => [a] | None => fst it end).
  Definition import_of_from (m : dotted) (it : name * option name) : import :=
    (m ++ [fst it], [match snd it with Some a => a | None => fst it end]).

  (* ImportStatement of one Import, at line ln:  import a.b  |  import a as c  |  from a import b [as c] *)
  Definition stmt_of_import (ln : nat) (i : import) : stmt :=
    if dotted_eqb (fst i) (snd i) then SImport ln [(fst i, None)]
    else match snd i with
         | [a] => match fst i with
                  | [] => SPass ln
                  | [_] => SImport ln [(fst i, Some a)]
                  | _ => SImportFrom ln (removelast (fst i))
                                     [(last (fst i) 0%N, if N.eqb a (last (fst i) 0%N) then None else Some a)]
                  end
         | _ => SPass ln          (* `as a.b` is not expressible: C03's domain *)
         end.

  (* a Name / attribute chain n.attrs whose dotted prefix is OLD *)
  Definition rename_load (n : name) (attrs : list name) : name * list name :=
    if is_prefix old (n :: attrs)
    then match subst_prefix (n :: attrs) with [] => (n, attrs) | n' :: a' => (n', a') end
    else (n, attrs).

  Fixpoint rename_expr (x : expr) : expr :=
    match x with
    | ELoad n attrs => ELoad (fst (rename_load n attrs)) (snd (rename_load n attrs))
    | EOp es => EOp ((fix go (l : list expr) : list expr :=
                        match l with [] => [] | y :: r => rename_expr y :: go r end) es)
    | EAttr y a => EAttr (rename_expr y) a
    | ELambda _ _ _ => x
    | EComp _ _ => x
    end.

  Definition rename_stmt (s : stmt) : list stmt :=
    match s with
    | SImport ln items => map (fun it => stmt_of_import ln (replace_d (import_of_item it))) items
    | SImportFrom ln m items => map (fun it => stmt_of_import ln (replace_d (import_of_from m it))) items
    | SExpr ln x => [SExpr ln (rename_expr x)]
    | SAssign ln ts v => [SAssign ln ts (rename_expr v)]
    | _ => [s]
    end.
  Definition rename_program (p : program) : program := flat_map rename_stmt p.

  (* the corresponding renaming of a resolution trace *)
  Definition rename_bsrc (b : bsrc) : bsrc := match b with BImp l i => BImp l (replace_d i) | BOther => BOther end.
  Definition rename_res (r : res) : res := match r with Bound b => Bound (rename_bsrc b) | _ => r end.
  Definition rename_root (n : name) : name := if N.eqb n (hd 0%N old) then hd 0%N new else n.
  Definition rename_rd (x : rd) : rd := (fst (fst x), rename_root (snd (fst x)), rename_res (snd x)).

  (* ---------- the fragment and the domain ---------- *)
  (* a read n.attrs: the root of OLD is read only as OLD itself (or a path under it); the root of NEW is not read *)
  Definition good_read (n : name) (attrs : list name) : bool :=
    (negb (N.eqb n (hd 0%N old)) || is_prefix old (n :: attrs)) &&
    (N.eqb (hd 0%N new) (hd 0%N old) || negb (N.eqb n (hd 0%N new))).

  Fixpoint good_expr (x : expr) : bool :=
    match x with
    | ELoad n attrs => good_read n attrs
    | EOp es => (fix go (l : list expr) : bool := match l with [] => true | y :: r => good_expr y && go r end) es
    | EAttr y _ => good_expr y
    | ELambda _ _ _ => false
    | EComp _ _ => false
    end.

  (* a name bound by something that is not an import: neither the root of OLD nor (a fresh) root of NEW *)
  Definition good_other (x : name) : bool :=
    negb (N.eqb x (hd 0%N old)) && (N.eqb (hd 0%N new) (hd 0%N old) || negb (N.eqb x (hd 0%N new))).

  (* an import: expressible before and after the rename; if it binds the root of OLD then its path and its
     local name are OLD or under OLD ("such imports"); otherwise it does not bind a fresh root of NEW *)
  Definition expressible (i : import) : bool :=
    match fst i with [] => false | _ :: _ => true end &&
    negb (N.eqb (last (fst i) 0%N) n_star) &&
    (dotted_eqb (fst i) (snd i) || match snd i with [_] => true | _ => false end).
  Definition good_import (i : import) : bool :=
    expressible i && expressible (replace_d i) &&
    (if N.eqb (hd 0%N (snd i)) (hd 0%N old) then is_prefix old (fst i) && is_prefix old (snd i)
     else N.eqb (hd 0%N new) (hd 0%N old) || negb (N.eqb (hd 0%N (snd i)) (hd 0%N new))).

  Definition good_stmt (s : stmt) : bool :=
    match s with
    | SImport _ items => forallb (fun it => good_import (import_of_item it)) items
    | SImportFrom _ m items => forallb (fun it => good_import (import_of_from m it)) items
    | SExpr _ x => good_expr x
    | SAssign _ [TName t] v => good_other t && good_expr v
    | SPass _ => true
    | _ => false
    end.

  (* old_reached_only_through_matching_toplevel_imports, for the module-level fragment *)
  Definition in_domain (bi : list name) (ns : list (list name)) (p : program) : bool :=
    match old, new with
    | _ :: _, _ :: _ => forallb good_other (concat ns ++ bi) && forallb good_stmt p
    | _, _ => false
    end.
End Rename.

(* C18, program level (module-level fragment): the resolution trace of the renamed program is the renamed
   trace of the program, for programs that reach OLD only through matching top-level imports. *)
From Coq Require Import NArith List Bool Lia.
From Verif Require Import Scope.PySyntax Scope.PySem Rename.Program.
Import ListNotations.

(* induction over expressions with the nested list of EOp *)
Section ExprInd.
  Variable P : expr -> Prop.
  Hypothesis HLoad : forall n a, P (ELoad n a).
  Hypothesis HOp : forall es, Forall P es -> P (EOp es).
  Hypothesis HAttr : forall y a, P y -> P (EAttr y a).
  Hypothesis HLam : forall ps ds b, P (ELambda ps ds b).
  Hypothesis HComp : forall g e, P (EComp g e).
  Fixpoint expr_ind' (x : expr) : P x :=
    match x with
    | ELoad n a => HLoad n a
    | EOp es => HOp es ((fix go (l : list expr) : Forall P l :=
                           match l with [] => Forall_nil P | y :: r => Forall_cons y (expr_ind' y) (go r) end) es)
    | EAttr y a => HAttr y a (expr_ind' y)
    | ELambda ps ds b => HLam ps ds b
    | EComp g e => HComp g e
    end.
End ExprInd.

Lemma dotted_eqb_eq : forall a b, dotted_eqb a b = true -> a = b.
Proof.
  induction a as [|x a IH]; intros [|y b] H; cbn in H; try discriminate; [reflexivity|].
  apply andb_true_iff in H as [H1 H2]. apply N.eqb_eq in H1. subst. f_equal. auto.
Qed.

Lemma sem_block_app : forall a b e,
  sem_block (a ++ b) e = let '(e1, r1) := sem_block a e in let '(e2, r2) := sem_block b e1 in (e2, r1 ++ r2).
Proof.
  induction a as [|s a IH]; intros b e.
  - cbn [app sem_block]. destruct (sem_block b e). reflexivity.
  - cbn [app sem_block]. destruct (sem_stmt e s) as [e1 r1]. rewrite IH.
    destruct (sem_block a e1) as [e2 r2]. destruct (sem_block b e2) as [e3 r3]. rewrite app_assoc. reflexivity.
Qed.

Section Sim.
  Variables o0 n0 : name.
  Variables orest nrest : dotted.
  Let old : dotted := o0 :: orest.
  Let new : dotted := n0 :: nrest.

  Notation replace_d := (replace_d old new).
  Notation rename_root := (rename_root old new).
  Notation rename_rd := (rename_rd old new).
  Notation rename_res := (rename_res old new).
  Notation rename_bsrc := (rename_bsrc old new).
  Notation rename_expr := (rename_expr old new).

  Definition fresh (x : name) : Prop := N.eqb n0 o0 || negb (N.eqb x n0) = true.

  Lemma rename_root_eqb x y : (x = o0 \/ fresh x) -> fresh y ->
    N.eqb (rename_root y) (rename_root x) = N.eqb y x.
  Proof.
    unfold rename_root, fresh. cbn [hd old new]. intros Hx Hy.
    destruct (N.eqb_spec y o0) as [->|Hyo]; destruct (N.eqb_spec x o0) as [->|Hxo].
    - rewrite !N.eqb_refl. reflexivity.
    - destruct Hx as [Hx|Hx]; [congruence|].
      destruct (N.eqb_spec n0 o0) as [->|Hno].
      + reflexivity.
      + cbn in Hx. apply negb_true_iff in Hx. apply N.eqb_neq in Hx.
        transitivity false; [apply N.eqb_neq; congruence|symmetry; apply N.eqb_neq; congruence].
    - destruct (N.eqb_spec n0 o0) as [->|Hno].
      + reflexivity.
      + cbn in Hy. apply negb_true_iff in Hy. apply N.eqb_neq in Hy.
        transitivity false; [apply N.eqb_neq; congruence|symmetry; apply N.eqb_neq; congruence].
    - reflexivity.
  Qed.

  Lemma prefix_old_head d : is_prefix old d = true -> hd 0%N d = o0.
  Proof. destruct d as [|x d]; cbn; [discriminate|]. intros H. apply andb_true_iff in H as [H _]. apply N.eqb_eq in H. auto. Qed.

  Lemma not_head_not_prefix d : hd 0%N d <> o0 -> is_prefix old d = false.
  Proof. intros H. destruct (is_prefix old d) eqn:E; [|reflexivity]. apply prefix_old_head in E. congruence. Qed.

  (* ---------- binding entries ---------- *)
  Definition ren_entry (xb : name * bsrc) : name * bsrc :=
    match snd xb with
    | BImp l i => (hd 0%N (snd (replace_d i)), BImp l (replace_d i))
    | BOther => xb
    end.
  Definition good_entry (xb : name * bsrc) : Prop :=
    match snd xb with
    | BImp l i => fst xb = hd 0%N (snd i) /\ good_import old new i = true
    | BOther => good_other old new (fst xb) = true
    end.

  Lemma good_other_fresh x : good_other old new x = true -> x <> o0 /\ fresh x.
  Proof.
    unfold good_other, fresh. cbn [hd old new]. intros H. apply andb_true_iff in H as [H1 H2].
    apply negb_true_iff in H1. apply N.eqb_neq in H1. auto.
  Qed.

  Lemma ren_entry_spec xb : good_entry xb ->
    ren_entry xb = (rename_root (fst xb), rename_bsrc (snd xb)) /\ (fst xb = o0 \/ fresh (fst xb)).
  Proof.
    destruct xb as [x b]. unfold good_entry, ren_entry. cbn [fst snd]. destruct b as [l i|].
    - intros [Hx Hg]. unfold good_import in Hg. apply andb_true_iff in Hg as [_ Hg]. cbn [hd old new] in Hg.
      unfold rename_root. cbn [hd old new rename_bsrc]. rewrite <- Hx in Hg.
      destruct (N.eqb_spec x o0) as [->|Hxo].
      + apply andb_true_iff in Hg as [H1 H2]. split; [|left; reflexivity].
        unfold Program.replace_d. fold old. rewrite H1, H2. reflexivity.
      + split; [|right; exact Hg]. f_equal.
        assert (Hs : is_prefix old (snd i) = false) by (apply not_head_not_prefix; congruence).
        unfold Program.replace_d. fold old. rewrite Hs. destruct (is_prefix old (fst i)); cbn [snd]; congruence.
    - intros H. apply good_other_fresh in H as [Hx Hf]. split; [|right; exact Hf].
      unfold rename_root. cbn [hd old new rename_bsrc]. apply N.eqb_neq in Hx. rewrite Hx. reflexivity.
  Qed.

  Lemma lookup_rename l y : Forall good_entry l -> fresh y ->
    lookup_b (rename_root y) (map ren_entry l) = option_map rename_bsrc (lookup_b y l).
  Proof.
    intros Hl Hy. induction Hl as [|xb l Hxb Hl IH]; [reflexivity|].
    destruct (ren_entry_spec xb Hxb) as [E Hx]. cbn [map]. rewrite E. destruct xb as [x b]. cbn [fst snd lookup_b] in *.
    rewrite (rename_root_eqb x y Hx Hy). destruct (N.eqb y x); [reflexivity|exact IH].
  Qed.

  (* ---------- frames ---------- *)
  Definition rel (f f' : frame) : Prop := fdyn f' = map ren_entry (fdyn f) /\ Forall good_entry (fdyn f).

  Lemma resolve_flat y f : resolve y [f] = match lookup_b y (fdyn f) with Some b => Bound b | None => Unbound end.
  Proof. reflexivity. Qed.

  Lemma resolve_rename y f f' : rel f f' -> fresh y -> resolve (rename_root y) [f'] = rename_res (resolve y [f]).
  Proof.
    intros [E G] Hy. rewrite !resolve_flat, E, (lookup_rename _ y G Hy). destruct (lookup_b y (fdyn f)); reflexivity.
  Qed.

  Lemma rel_bind x b f f' : rel f f' -> good_entry (x, b) ->
    rel (bind x b f) (bind (fst (ren_entry (x, b))) (snd (ren_entry (x, b))) f').
  Proof.
    intros [E G] Hg. split; cbn [bind fdyn map].
    - rewrite E. destruct (ren_entry (x, b)); reflexivity.
    - constructor; assumption.
  Qed.

  (* ---------- expressions ---------- *)
  Lemma sem_op ln e es : sem_expr ln e (EOp es) = flat_map (sem_expr ln e) es.
  Proof. reflexivity. Qed.

  Lemma rename_op es : rename_expr (EOp es) = EOp (map rename_expr es).
  Proof. reflexivity. Qed.

  Lemma good_op es : good_expr old new (EOp es) = forallb (good_expr old new) es.
  Proof. reflexivity. Qed.

  Lemma good_read_spec n attrs : good_read old new n attrs = true ->
    fst (rename_load old new n attrs) = rename_root n /\ fresh n.
  Proof.
    unfold good_read, fresh, rename_load, rename_root. cbn [hd old new]. intros H.
    apply andb_true_iff in H as [H1 H2]. split; [|exact H2].
    destruct (is_prefix old (n :: attrs)) eqn:E.
    - pose proof (prefix_old_head _ E) as Hh. cbn in Hh. subst n. rewrite N.eqb_refl. reflexivity.
    - rewrite orb_false_r in H1. apply negb_true_iff in H1. rewrite H1. reflexivity.
  Qed.

  Lemma sem_rename_expr ln f f' : rel f f' -> forall x, good_expr old new x = true ->
    sem_expr ln [f'] (rename_expr x) = map rename_rd (sem_expr ln [f] x).
  Proof.
    intros Hrel. apply (expr_ind' (fun x => good_expr old new x = true ->
                   sem_expr ln [f'] (rename_expr x) = map rename_rd (sem_expr ln [f] x))).
    - intros n attrs Hg. cbn [good_expr] in Hg. destruct (good_read_spec n attrs Hg) as [E Hf].
      cbn [Program.rename_expr sem_expr map]. rewrite E, (resolve_rename n f f' Hrel Hf). reflexivity.
    - intros es IH Hg. rewrite good_op in Hg. rewrite rename_op, !sem_op.
      induction IH as [|y r Hy Hr IHr]; [reflexivity|]. cbn [forallb] in Hg. apply andb_true_iff in Hg as [G1 G2].
      cbn [map flat_map]. rewrite map_app, (Hy G1), (IHr G2). reflexivity.
    - intros y a IH Hg. cbn [good_expr] in Hg. cbn [Program.rename_expr sem_expr]. apply IH. exact Hg.
    - intros ps ds b Hg. discriminate Hg.
    - intros g e Hg. discriminate Hg.
  Qed.

  (* ---------- import statements ---------- *)
  Lemma one_import ln i f : expressible i = true ->
    sem_stmt [f] (stmt_of_import ln i) = ([bind (hd 0%N (snd i)) (BImp ln i) f], []).
  Proof.
    destruct i as [full as_]. unfold expressible, stmt_of_import. cbn [fst snd]. intros H.
    apply andb_true_iff in H as [H Hform]. apply andb_true_iff in H as [Hne Hstar]. apply negb_true_iff in Hstar.
    destruct (dotted_eqb full as_) eqn:E.
    - apply dotted_eqb_eq in E. subst as_. destruct full as [|r q]; [discriminate|]. reflexivity.
    - cbn [orb] in Hform. destruct as_ as [|a [|a2 q]]; try discriminate.
      destruct full as [|x [|x2 q]]; [discriminate|reflexivity|].
      cbn [sem_stmt flat_map app]. unfold importfrom_bsrcs. cbn [fst snd]. rewrite Hstar.
      assert (Ea : (match (if N.eqb a (last (x :: x2 :: q) 0%N) then None else Some a) with Some a0 => a0 | None => last (x :: x2 :: q) 0%N end) = a).
      { destruct (N.eqb_spec a (last (x :: x2 :: q) 0%N)); [symmetry; assumption|reflexivity]. }
      rewrite Ea. rewrite <- (app_removelast_last 0%N) by discriminate. reflexivity.
  Qed.

  Lemma item_bsrcs ln it : expressible (import_of_item it) = true ->
    import_bsrcs ln it = [(hd 0%N (snd (import_of_item it)), BImp ln (import_of_item it))].
  Proof.
    destruct it as [d o]. unfold expressible, import_of_item, import_bsrcs. cbn [fst snd]. intros H.
    apply andb_true_iff in H as [H _]. apply andb_true_iff in H as [Hne _].
    destruct o as [a|]; [reflexivity|]. destruct d; [discriminate|reflexivity].
  Qed.

  Lemma from_bsrcs ln m it : expressible (import_of_from m it) = true ->
    importfrom_bsrcs ln m it = [(hd 0%N (snd (import_of_from m it)), BImp ln (import_of_from m it))].
  Proof.
    destruct it as [x o]. unfold expressible, import_of_from, importfrom_bsrcs. cbn [fst snd hd]. intros H.
    apply andb_true_iff in H as [H _]. apply andb_true_iff in H as [_ Hs]. rewrite last_last in Hs.
    apply negb_true_iff in Hs. rewrite Hs. reflexivity.
  Qed.

  Lemma good_import_parts i : good_import old new i = true ->
    expressible i = true /\ expressible (replace_d i) = true.
  Proof. unfold good_import. intros H. apply andb_true_iff in H as [H _]. apply andb_true_iff in H. exact H. Qed.

  (* a list of imports, each bound at line ln: before in one statement, after one statement per import *)
  Lemma imports_sim ln (is_ : list import) : forall f f', Forall (fun i => good_import old new i = true) is_ -> rel f f' ->
    exists f1', sem_block (map (fun i => stmt_of_import ln (replace_d i)) is_) [f'] = ([f1'], []) /\
                rel (bind_all (map (fun i => (hd 0%N (snd i), BImp ln i)) is_) f) f1'.
  Proof.
    induction is_ as [|i r IH]; intros f f' Hg Hrel.
    - exists f'. split; [reflexivity|exact Hrel].
    - inversion Hg as [|? ? Hi Hr]; subst. destruct (good_import_parts i Hi) as [He He'].
      cbn [map sem_block]. rewrite (one_import ln (replace_d i) f' He').
      assert (Hrel1 : rel (bind (hd 0%N (snd i)) (BImp ln i) f) (bind (hd 0%N (snd (replace_d i))) (BImp ln (replace_d i)) f')).
      { apply (rel_bind (hd 0%N (snd i)) (BImp ln i) f f' Hrel). split; [reflexivity|exact Hi]. }
      destruct (IH _ _ Hr Hrel1) as (f1' & E & R). exists f1'. rewrite E. split; [reflexivity|exact R].
  Qed.

  (* ---------- statements ---------- *)
  Lemma sem_rename_stmt s f f' : good_stmt old new s = true -> rel f f' ->
    exists f1 f1' r, sem_stmt [f] s = ([f1], r) /\
                     sem_block (rename_stmt old new s) [f'] = ([f1'], map rename_rd r) /\ rel f1 f1'.
  Proof.
    intros Hg Hrel. destruct s; try discriminate Hg.
    - (* SExpr *)
      cbn [good_stmt] in Hg. exists f, f', (sem_expr ln [f] e). split; [reflexivity|]. split; [|exact Hrel].
      cbn [rename_stmt sem_block sem_stmt]. rewrite (sem_rename_expr ln f f' Hrel e Hg), app_nil_r. reflexivity.
    - (* SAssign ln [TName t] v *)
      cbn [good_stmt] in Hg. destruct targets as [|[t| |] [|]]; try discriminate Hg.
      apply andb_true_iff in Hg as [Ht Hv].
      exists (bind t BOther f), (bind t BOther f'), (sem_expr ln [f] value ++ []). split; [reflexivity|]. split.
      + cbn [rename_stmt sem_block]. cbn. rewrite (sem_rename_expr ln f f' Hrel value Hv), !app_nil_r. reflexivity.
      + apply (rel_bind t BOther f f' Hrel). exact Ht.
    - (* SImport *)
      cbn [good_stmt] in Hg. rewrite forallb_forall in Hg.
      destruct (imports_sim ln (map (import_of_item) items) f f') as (f1' & E & R).
      { apply Forall_forall. intros i Hi. apply in_map_iff in Hi as (it & <- & Hit). auto. }
      { exact Hrel. }
      exists (bind_all (flat_map (import_bsrcs ln) items) f), f1', []. split; [reflexivity|]. split.
      + cbn [rename_stmt]. rewrite map_map in E. exact E.
      + replace (flat_map (import_bsrcs ln) items)
          with (map (fun i : import => (hd 0%N (snd i), BImp ln i)) (map import_of_item items)); [exact R|].
        rewrite map_map. clear - Hg. induction items as [|it r IH]; [reflexivity|]. cbn [map flat_map].
        rewrite item_bsrcs by (apply good_import_parts, Hg; left; reflexivity).
        cbn [app]. f_equal. apply IH. intros x Hx. apply Hg. right. exact Hx.
    - (* SImportFrom *)
      cbn [good_stmt] in Hg. rewrite forallb_forall in Hg.
      destruct (imports_sim ln (map (import_of_from modname) items) f f') as (f1' & E & R).
      { apply Forall_forall. intros i Hi. apply in_map_iff in Hi as (it & <- & Hit). auto. }
      { exact Hrel. }
      exists (bind_all (flat_map (importfrom_bsrcs ln modname) items) f), f1', []. split; [reflexivity|]. split.
      + cbn [rename_stmt]. rewrite map_map in E. exact E.
      + replace (flat_map (importfrom_bsrcs ln modname) items)
          with (map (fun i : import => (hd 0%N (snd i), BImp ln i)) (map (import_of_from modname) items)); [exact R|].
        rewrite map_map. clear - Hg. induction items as [|it r IH]; [reflexivity|]. cbn [map flat_map].
        rewrite from_bsrcs by (apply good_import_parts, Hg; left; reflexivity).
        cbn [app]. f_equal. apply IH. intros x Hx. apply Hg. right. exact Hx.
    - (* SPass *)
      exists f, f', []. split; [reflexivity|]. split; [reflexivity|exact Hrel].
  Qed.

  Lemma sem_rename_block : forall p f f', forallb (good_stmt old new) p = true -> rel f f' ->
    exists f1 f1' r, sem_block p [f] = ([f1], r) /\
                     sem_block (rename_program old new p) [f'] = ([f1'], map rename_rd r) /\ rel f1 f1'.
  Proof.
    induction p as [|s p IH]; intros f f' Hg Hrel.
    - exists f, f', []. repeat split; try reflexivity; apply Hrel.
    - cbn [forallb] in Hg. apply andb_true_iff in Hg as [Hs Hp].
      destruct (sem_rename_stmt s f f' Hs Hrel) as (f1 & f1' & r1 & E1 & E1' & R1).
      destruct (IH f1 f1' Hp R1) as (f2 & f2' & r2 & E2 & E2' & R2).
      exists f2, f2', (r1 ++ r2). split; [|split; [|exact R2]].
      + cbn [sem_block]. rewrite E1, E2. reflexivity.
      + unfold rename_program in *. cbn [flat_map]. rewrite sem_block_app, E1', E2', map_app. reflexivity.
  Qed.
End Sim.

(* trace (rename p) = rename_trace (trace p) on the module-level fragment, for programs that reach OLD only
   through matching top-level imports *)
Theorem behaviour_preserved_flat old new bi ns p : in_domain old new bi ns p = true ->
  pysem bi ns (rename_program old new p) = map (rename_rd old new) (pysem bi ns p).
Proof.
  unfold in_domain. destruct old as [|o0 orest]; [discriminate|]. destruct new as [|n0 nrest]; [discriminate|].
  intros H. apply andb_true_iff in H as [Hinit Hp]. unfold pysem.
  set (f := module_frame bi ns p). set (f' := module_frame bi ns (rename_program (o0 :: orest) (n0 :: nrest) p)).
  assert (Hrel : rel o0 n0 orest nrest f f').
  { unfold rel, f, f', module_frame. cbn [fdyn]. rewrite forallb_forall in Hinit. split.
    - unfold others. rewrite map_map. apply map_ext. intros x. reflexivity.
    - apply Forall_forall. intros xb Hxb. unfold others in Hxb. apply in_map_iff in Hxb as (x & <- & Hx).
      unfold good_entry. cbn [fst snd]. auto. }
  destruct (sem_rename_block o0 n0 orest nrest p f f' Hp Hrel) as (f1 & f1' & r & E & E' & _).
  rewrite E, E'. reflexivity.
Qed.

(* outside the domain the clause fails: `import pkg; pkg.sub.f` with pkg.sub -> zz.qq reads the unbound name zz *)
Definition hazard_program : program := [SImport 1 [([10%N], None)]; SExpr 2 (ELoad 10%N [20%N; 30%N])].
Theorem behaviour_preserved_refuted :
  exists old new p, pysem [] [] (rename_program old new p) <> map (rename_rd old new) (pysem [] [] p) /\
                    pysem [] [] p = [(2, 10%N, Bound (BImp 1 ([10%N], [10%N])))] /\
                    pysem [] [] (rename_program old new p) = [(2, 40%N, Unbound)].
Proof.
  exists [10%N; 20%N], [40%N; 50%N], hazard_program. split; [vm_compute; discriminate|]. split; vm_compute; reflexivity.
Qed.

(* C18-a (known finding): inside "mentions OLD only through such imports and whole-word references" but outside
   in_domain: `import pkg.sub; pkg.k` with pkg.sub -> zz.qq: the renamed import no longer binds pkg *)
Definition root_unbound_program : program := [SImport 1 [([10%N; 20%N], None)]; SExpr 2 (ELoad 10%N [60%N])].
Theorem root_unbound_refuted :
  exists old new p, in_domain old new [] [] p = false /\
    pysem [] [] p = [(2, 10%N, Bound (BImp 1 ([10%N; 20%N], [10%N; 20%N])))] /\
    pysem [] [] (rename_program old new p) = [(2, 10%N, Unbound)].
Proof.
  exists [10%N; 20%N], [40%N; 50%N], root_unbound_program. split; [vm_compute; reflexivity|]. split; vm_compute; reflexivity.
Qed.

(* non-vacuity: `import pkg.sub; from pkg.sub import f as g; t = (pkg.sub.h, g)` with pkg.sub -> zz.qq is in the
   domain, and its trace is renamed non-trivially (root pkg -> zz, both imports rewritten) *)
Definition example_program : program :=
  [SImport 1 [([10%N; 20%N], None)]; SImportFrom 2 [10%N; 20%N] [(30%N, Some 31%N)];
   SAssign 3 [TName 60%N] (EOp [ELoad 10%N [20%N; 32%N]; ELoad 31%N []])].
Example behaviour_preserved_nonvacuous :
  in_domain [10%N; 20%N] [40%N; 50%N] [] [] example_program = true /\
  pysem [] [] (rename_program [10%N; 20%N] [40%N; 50%N] example_program) =
    [(3, 40%N, Bound (BImp 1 ([40%N; 50%N], [40%N; 50%N]))); (3, 31%N, Bound (BImp 2 ([40%N; 50%N; 30%N], [31%N])))].
Proof. split; vm_compute; reflexivity. Qed.

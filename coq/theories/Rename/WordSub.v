(* M16 (b): the body substitution of transform_imports:
       s = re.sub("\\b%s\\b" % re.escape(k), v, s)
   as a leftmost, non-overlapping scan.  W is the regex engine's \w predicate (an oracle
   argument: for ASCII text it is is_ident_char; the harness passes the extra Unicode word
   characters that occur in the text). *)
From Coq Require Import NArith List Bool.
From Verif Require Import Base.Chars Base.StrX.
Import ListNotations.

Section WordSub.
  Variable W : ch -> bool.

  Definition Wopt (o : option ch) : bool := match o with Some c => W c | None => false end.
  (* \b between two adjacent positions *)
  Definition bnd (before after : option ch) : bool := xorb (Wopt before) (Wopt after).

  Definition match_here (old : str) (prev : option ch) (t : str) : bool :=
    starts_with old t
    && bnd prev (hd_error old)
    && bnd (hd_error (rev old)) (hd_error (skipn (length old) t)).

  (* skip > 0: we are inside a match that was already replaced *)
  Fixpoint ws (old new : str) (prev : option ch) (t : str) (skip : nat) : str :=
    match t with
    | [] => []
    | c :: r =>
        match skip with
        | S k => ws old new (Some c) r k
        | O => if match_here old prev t
               then new ++ ws old new (Some c) r (length old - 1)
               else c :: ws old new (Some c) r 0
        end
    end.

  Definition wordsub (old new text : str) : str := ws old new None text 0.

  (*  for k, v in transformations.items(): s = re.sub(...)  *)
  Definition transform_text (m : list (str * str)) (s : str) : str :=
    fold_left (fun acc kv => wordsub (fst kv) (snd kv) acc) m s.
End WordSub.

Definition W_of (extra : list ch) (c : ch) : bool := is_ident_char c || mem_ch c extra.

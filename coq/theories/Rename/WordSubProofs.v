From Coq Require Import NArith Arith List Bool Lia.
From Verif Require Import Base.Chars Base.StrX Base.StrXProofs Rename.WordSub.
Import ListNotations.

Section Proofs.
  Variable W : ch -> bool.
  Variables old new : str.
  Hypothesis old_word : Forall (fun c => W c = true) old.    (* OLD is a single identifier *)
  Hypothesis old_nonempty : old <> [].

  Notation ws := (ws W old new).
  Notation Wopt := (Wopt W).
  Notation bnd := (bnd W).

  Definition lastopt (prev : option ch) (w : str) : option ch := fold_left (fun _ c => Some c) w prev.

  (* rest is empty or starts with a non-word character *)
  Definition boundary (rest : str) : Prop := Wopt (hd_error rest) = false.

  Lemma hd_old_word : Wopt (hd_error old) = true.
  Proof. destruct old as [|c r]; [congruence|]. inversion old_word; subst. assumption. Qed.

  Lemma last_old_word : Wopt (hd_error (rev old)) = true.
  Proof.
    assert (H : Forall (fun c => W c = true) (rev old)) by (apply Forall_rev; exact old_word).
    destruct (rev old) as [|c r] eqn:E.
    - apply (f_equal (@rev ch)) in E. rewrite rev_involutive in E. simpl in E. congruence.
    - inversion H; subst. assumption.
  Qed.

  Lemma lastopt_word prev w : w <> [] -> Forall (fun c => W c = true) w -> Wopt (lastopt prev w) = true.
  Proof.
    revert prev; induction w as [|c w IH]; intros prev Hne Hw; [congruence|].
    inversion Hw; subst. simpl. destruct w as [|d w]; [simpl; assumption|].
    apply IH; [discriminate|assumption].
  Qed.

  Lemma ws_skip rest w prev : ws prev (w ++ rest) (length w) = ws (lastopt prev w) rest 0.
  Proof. revert prev; induction w as [|c w IH]; intros prev; simpl; [reflexivity|apply IH]. Qed.

  Lemma ws_sep prev s rest : W s = false -> ws prev (s :: rest) 0 = s :: ws (Some s) rest 0.
  Proof.
    intros Hs. simpl. unfold match_here.
    destruct old as [|o r] eqn:E; [congruence|].
    simpl. destruct (o =? s)%N eqn:Eo; [|reflexivity].
    apply N.eqb_eq in Eo; subst o. inversion old_word; subst. congruence.
  Qed.

  Lemma ws_inside_word w : forall prev rest,
    Wopt prev = true -> Forall (fun c => W c = true) w ->
    ws prev (w ++ rest) 0 = w ++ ws (lastopt prev w) rest 0.
  Proof.
    induction w as [|c w IH]; intros prev rest Hp Hw; [reflexivity|].
    inversion Hw; subst.
    change ((c :: w) ++ rest) with (c :: (w ++ rest)).
    cbn [WordSub.ws]. unfold match_here, WordSub.bnd. fold Wopt. rewrite Hp, hd_old_word. simpl xorb.
    rewrite andb_false_r. simpl. f_equal. apply IH; [simpl; assumption|assumption].
  Qed.

  Lemma prefix_of_word_boundary : forall o w rest,
    Forall (fun c => W c = true) o -> boundary rest ->
    starts_with o (w ++ rest) = true -> exists w2, w = o ++ w2.
  Proof.
    induction o as [|a o IH]; intros w rest Ho Hb Hs; [exists w; reflexivity|].
    inversion Ho; subst.
    destruct w as [|c w].
    - simpl in Hs. destruct rest as [|s rest]; [discriminate|].
      apply andb_true_iff in Hs as [Ha _]. apply N.eqb_eq in Ha; subst s.
      unfold boundary in Hb. simpl in Hb. congruence.
    - simpl in Hs. apply andb_true_iff in Hs as [Ha Hs]. apply N.eqb_eq in Ha; subst c.
      destruct (IH w rest) as [w2 ->]; try assumption. exists w2. reflexivity.
  Qed.

  Lemma skipn_length_app' {A} (a b : list A) : skipn (length a) (a ++ b) = b.
  Proof. induction a; simpl; auto. Qed.

  Lemma ws_word_start w prev rest :
    Wopt prev = false -> w <> [] -> Forall (fun c => W c = true) w -> boundary rest ->
    ws prev (w ++ rest) 0 = (if str_eqb w old then new else w) ++ ws (lastopt prev w) rest 0.
  Proof.
    intros Hp Hne Hw Hb.
    destruct w as [|c w']; [congruence|].
    change ((c :: w') ++ rest) with (c :: (w' ++ rest)).
    cbn [WordSub.ws].
    destruct (str_eqb (c :: w') old) eqn:E.
    - apply str_eqb_eq in E.
      assert (Hm : match_here W old prev (c :: w' ++ rest) = true).
      { unfold match_here. rewrite <- E at 1.
        change (c :: w' ++ rest) with ((c :: w') ++ rest). rewrite starts_with_app.
        unfold WordSub.bnd. fold Wopt. rewrite Hp, hd_old_word, last_old_word.
        rewrite <- E at 1. rewrite skipn_length_app'. unfold boundary in Hb. rewrite Hb. reflexivity. }
      rewrite Hm. f_equal.
      replace (length old - 1) with (length w') by (rewrite <- E; simpl; lia).
      rewrite ws_skip. reflexivity.
    - assert (Hm : match_here W old prev (c :: w' ++ rest) = false).
      { unfold match_here.
        destruct (starts_with old (c :: w' ++ rest)) eqn:Es; [|reflexivity].
        change (c :: w' ++ rest) with ((c :: w') ++ rest) in Es.
        destruct (prefix_of_word_boundary old (c :: w') rest old_word Hb Es) as [w2 Hw2].
        destruct w2 as [|d w2].
        - rewrite app_nil_r in Hw2. rewrite Hw2, str_eqb_refl in E. discriminate.
        - change (c :: w' ++ rest) with ((c :: w') ++ rest). rewrite Hw2, <- app_assoc, skipn_length_app'.
          simpl hd_error. unfold WordSub.bnd at 2. fold Wopt. rewrite last_old_word.
          rewrite Hw2 in Hw. apply Forall_app in Hw as [_ Hw]. inversion Hw; subst.
          simpl. match goal with H : W d = true |- _ => rewrite H end. simpl. apply andb_false_r. }
      rewrite Hm. simpl. f_equal. inversion Hw; subst.
      apply ws_inside_word; [simpl; assumption|assumption].
  Qed.

  (* ---- token-level statement ---- *)
  Inductive tok := TWord (w : str) | TSep (c : ch).
  Definition tok_str (t : tok) : str := match t with TWord w => w | TSep c => [c] end.
  Definition flat (ts : list tok) : str := concat (map tok_str ts).
  Definition rename_tok (t : tok) : str :=
    match t with TWord w => if str_eqb w old then new else w | TSep c => [c] end.

  (* maximal words: a word never follows a word *)
  Fixpoint wf_toks (after_word : bool) (ts : list tok) : Prop :=
    match ts with
    | [] => True
    | TWord w :: r => after_word = false /\ w <> [] /\ Forall (fun c => W c = true) w /\ wf_toks true r
    | TSep c :: r => W c = false /\ wf_toks false r
    end.

  Lemma wf_after_word_boundary r : wf_toks true r -> boundary (flat r).
  Proof.
    destruct r as [|[w|c] r]; simpl; unfold boundary; simpl; [reflexivity| |].
    - intros [H _]. discriminate.
    - intros [H _]. exact H.
  Qed.

  Lemma ws_tokens ts : forall prev, wf_toks (Wopt prev) ts -> ws prev (flat ts) 0 = concat (map rename_tok ts).
  Proof.
    induction ts as [|[w|c] r IH]; intros prev Hwf; [reflexivity| |].
    - destruct Hwf as (Hp & Hne & Hw & Hr).
      change (flat (TWord w :: r)) with (w ++ flat r).
      change (concat (map rename_tok (TWord w :: r))) with ((if str_eqb w old then new else w) ++ concat (map rename_tok r)).
      rewrite ws_word_start by (assumption || apply wf_after_word_boundary; assumption).
      f_equal. apply IH. rewrite lastopt_word by assumption. exact Hr.
    - destruct Hwf as (Hc & Hr).
      change (flat (TSep c :: r)) with (c :: flat r).
      change (concat (map rename_tok (TSep c :: r))) with (c :: concat (map rename_tok r)).
      rewrite ws_sep by assumption. f_equal.
      apply IH. simpl. rewrite Hc. exact Hr.
  Qed.

  Lemma wf_toks_weaken ts : wf_toks false ts -> (match ts with TWord _ :: _ => False | _ => True end) -> wf_toks true ts.
  Proof. destruct ts as [|[w|c] r]; simpl; tauto. Qed.

  Lemma tokenize_total text : exists ts, flat ts = text /\ wf_toks false ts.
  Proof.
    induction text as [|c text [ts [Hf Hwf]]].
    - exists []. split; [reflexivity|exact I].
    - destruct (W c) eqn:Hc.
      + destruct ts as [|[w|d] r].
        * exists [TWord [c]]. simpl in Hf. subst text. split; [reflexivity|].
          simpl. repeat split; [discriminate|repeat constructor; assumption].
        * exists (TWord (c :: w) :: r). subst text. split; [reflexivity|].
          simpl in *. destruct Hwf as (_ & Hne & Hw & Hr). repeat split; [discriminate|constructor; assumption|assumption].
        * exists (TWord [c] :: TSep d :: r). subst text. split; [reflexivity|].
          simpl in *. repeat split; try tauto; [discriminate|repeat constructor; assumption].
      + exists (TSep c :: ts). subst text. split; [reflexivity|]. simpl. split; assumption.
  Qed.

  (* Every text splits into maximal words and separator characters; the substitution renames
     exactly the words equal to OLD and copies everything else. *)
  Theorem wordsub_tokens text :
    exists ts, flat ts = text /\ wf_toks false ts /\
               wordsub W old new text = concat (map rename_tok ts).
  Proof.
    destruct (tokenize_total text) as [ts [Hf Hwf]]. exists ts. repeat split; try assumption.
    unfold wordsub. rewrite <- Hf. apply ws_tokens. exact Hwf.
  Qed.
End Proofs.

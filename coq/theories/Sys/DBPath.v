(* M11 (part 1) - which database files are read for a target directory.
   Model of lib/python/pyflyby/_importdb.py: _find_etc_dirs, _get_env_var, _get_python_path,
   _ancestors_on_same_partition, _expand_tripledots; _file.py: Filename (abspath + safety check),
   Filename.list, Filename.ancestors, expand_py_files_from_args.
   The file system is a finite tree of regular files, directories and symbolic links (to files or
   directories, relative or absolute, dangling or looping); st_dev is a field of every file and
   directory.  os.stat / os.path.realpath are modelled by one component-wise resolver.  No proofs here. *)
From Coq Require Import NArith List Bool String.
From Verif Require Import Base.Chars Base.StrX.
Import ListNotations.

Definition name := str.
Definition path := list name.          (* absolute, normalised: components below "/" *)

(* ---------- constants ---------- *)
Definition c_slash : ch := 47%N.
Definition c_colon : ch := 58%N.
Definition c_tilde : ch := 126%N.
Definition s_dot : str := Eval vm_compute in dec ".".
Definition s_dotdot : str := Eval vm_compute in dec "..".
Definition s_dash : str := Eval vm_compute in dec "-".
Definition s_slash : str := Eval vm_compute in dec "/".
Definition s_dotslash : str := Eval vm_compute in dec "./".
Definition s_tripledots : str := Eval vm_compute in dec ".../".
Definition s_tildeslash : str := Eval vm_compute in dec "~/".
Definition s_tilde : str := Eval vm_compute in dec "~".
Definition s_EMPTY : str := Eval vm_compute in dec "EMPTY".
Definition s_py : str := Eval vm_compute in dec ".py".
Definition s_pycache : str := Eval vm_compute in dec "__pycache__".
Definition s_dev : str := Eval vm_compute in dec "/dev".
Definition s_etc : str := Eval vm_compute in dec "etc".
Definition s_pyflyby : str := Eval vm_compute in dec "pyflyby".
Definition s_dotpyflyby3 : str := Eval vm_compute in dec ".../.pyflyby".
Definition s_dotpyflybyH : str := Eval vm_compute in dec "~/.pyflyby".

Definition is_nil {A} (l : list A) : bool := match l with [] => true | _ => false end.
Definition ends_with (suf s : str) : bool := starts_with (rev suf) (rev s).

(* Python's comparison of str: lexicographic on code points *)
Fixpoint str_cmp (a b : str) : comparison :=
  match a, b with
  | [], [] => Eq
  | [], _ :: _ => Lt
  | _ :: _, [] => Gt
  | x :: a', y :: b' => match N.compare x y with Eq => str_cmp a' b' | c => c end
  end.
Definition str_leb (a b : str) : bool := match str_cmp a b with Gt => false | _ => true end.

Fixpoint insert_by {A} (le : A -> A -> bool) (x : A) (l : list A) : list A :=
  match l with
  | [] => [x]
  | y :: r => if le x y then x :: l else y :: insert_by le x r
  end.
Fixpoint isort {A} (le : A -> A -> bool) (l : list A) : list A :=
  match l with
  | [] => []
  | x :: r => insert_by le x (isort le r)
  end.

(* ---------- the tree ---------- *)
Section Tree.
Variable C : Type.                       (* content of a regular file *)

Inductive tree : Type :=
| File (dev : N) (c : C)
| Dir (dev : N) (es : list (name * tree))
| Link (target : str).                    (* os.readlink *)

Fixpoint assoc_name {B} (n : name) (es : list (name * B)) : option B :=
  match es with
  | [] => None
  | (m, v) :: r => if str_eqb n m then Some v else assoc_name n r
  end.

(* the node at a path, WITHOUT following symbolic links (a link in the middle: nothing) *)
Fixpoint lookup (t : tree) (p : path) : option tree :=
  match p with
  | [] => Some t
  | n :: r => match t with
              | Dir _ es => match assoc_name n es with
                            | Some s => lookup s r
                            | None => None
                            end
              | _ => None
              end
  end.

(* ---------- path resolution (the kernel's walk for os.stat; posixpath._joinrealpath) ---------- *)
(* state: `cur` = the link-free path reached so far, `rest` = components still to walk.
   A symbolic link is replaced by the components of its target (absolute target: restart at "/");
   each replacement costs one unit of fuel (Linux: at most 40 links in one resolution, ELOOP after).
   strict = true : a missing component is an error (os.stat: ENOENT / ENOTDIR / ELOOP -> None);
   strict = false: a missing component is kept as it is (os.path.realpath(strict=False)); None then
                   only means a link loop (outside the domain of the check). *)
Definition max_links : nat := 40.
Fixpoint resolve (strict : bool) (fuel : nat) (t : tree) : path -> list name -> option path :=
  match fuel with
  | O => fun _ _ => None
  | S f =>
      fix go (cur : path) (rest : list name) {struct rest} : option path :=
        match rest with
        | [] => Some cur
        | n :: r =>
            if is_nil n || str_eqb n s_dot then go cur r
            else if str_eqb n s_dotdot then go (removelast cur) r
            else match lookup t (cur ++ [n]) with
                 | Some (Link tg) =>
                     resolve strict f t (if starts_with s_slash tg then [] else cur)
                             (split_on c_slash tg ++ r)
                 | Some _ => go (cur ++ [n]) r
                 | None => if strict then None else go (cur ++ [n]) r
                 end
        end
  end.

(* os.stat(path): the file or directory the path denotes after following every link *)
Definition stat (t : tree) (p : path) : option tree :=
  match resolve true max_links t [] p with
  | Some r => match lookup t r with
              | Some (Link _) => None
              | x => x
              end
  | None => None
  end.
(* os.path.realpath(path) *)
Definition realpath (t : tree) (p : path) : option path := resolve false max_links t [] p.

Definition isdir (t : tree) (p : path) : bool :=
  match stat t p with Some (Dir _ _) => true | _ => false end.
Definition isfile (t : tree) (p : path) : bool :=
  match stat t p with Some (File _ _) => true | _ => false end.
Definition exists_ (t : tree) (p : path) : bool :=
  match stat t p with Some _ => true | None => false end.
(* _get_st_dev:  try: return os.stat(str(filename)).st_dev / except OSError: return None *)
Definition dev_of (t : tree) (p : path) : option N :=
  match stat t p with
  | Some (File d _) => Some d
  | Some (Dir d _) => Some d
  | _ => None
  end.

(* ---------- os.path.abspath (posixpath.normpath after join with the cwd) ---------- *)
(*  for comp in comps:
        if comp in ('', '.'): continue
        if (comp != '..' or (not initial_slashes and not new_comps) or (new_comps and new_comps[-1] == '..')):
            new_comps.append(comp)
        elif new_comps: new_comps.pop()
    -- for an absolute path '..' is never kept.  A path with exactly two leading slashes (kept
    by normpath) is outside the model. *)
Fixpoint norm_go (acc : list name) (cs : list name) : list name :=
  match cs with
  | [] => rev acc
  | c :: r => if is_nil c || str_eqb c s_dot then norm_go acc r
              else if str_eqb c s_dotdot then norm_go (tl acc) r
              else norm_go (c :: acc) r
  end.
Definition abspath (cwd : path) (s : str) : path :=
  if starts_with s_slash s then norm_go [] (split_on c_slash s)
  else norm_go (rev cwd) (split_on c_slash s).

Definition path_str (p : path) : str := c_slash :: join_with c_slash p.

(* ---------- Filename: abspath + character whitelist ---------- *)
(*  match = re.search("[^a-zA-Z0-9_=+{}/.,~@-]", filename) -> UnsafeFilenameError
    if re.search("(^|/)~", filename): raise UnsafeFilenameError *)
Definition safe_ch (c : ch) : bool :=
  is_alpha c || is_digit c || mem_ch c [95; 61; 43; 123; 125; 46; 44; 126; 64; 45]%N.
Definition safe_name (n : name) : bool := forallb safe_ch n && negb (starts_with s_tilde n).
Definition safe_path (p : path) : bool := forallb safe_name p.
Definition mk_filename (cwd : path) (s : str) : option path :=
  let p := abspath cwd s in if safe_path p then Some p else None.

(* Filename.ancestors: self, dirname(self), ... , "/" *)
Fixpoint ancestors_rev (rp : list name) : list path :=
  match rp with
  | [] => [[]]
  | _ :: r => rev rp :: ancestors_rev r
  end.
Definition ancestors (p : path) : list path := ancestors_rev (rev p).

(* ---------- _ancestors_on_same_partition ---------- *)
(*  result = []; dev = None
    for f in filename.ancestors:
        this_dev = _get_st_dev(f)
        if this_dev is None: continue
        if dev is None: dev = this_dev
        elif dev != this_dev: break
        result.append(f)  *)
Fixpoint asp_go (t : tree) (dev : option N) (l : list path) : list path :=
  match l with
  | [] => []
  | f :: r => match dev_of t f with
              | None => asp_go t dev r
              | Some d => match dev with
                          | None => f :: asp_go t (Some d) r
                          | Some d0 => if (d0 =? d)%N then f :: asp_go t dev r else []
                          end
              end
  end.
Definition ancestors_on_same_partition (t : tree) (p : path) : list path := asp_go t None (ancestors p).

(* ---------- _expand_tripledots ---------- *)
(*  for pathname in pathnames:
        if not pathname.startswith(".../"):
            result.append(Filename(pathname)); continue          # may raise UnsafeFilenameError
        suffix = pathname[4:]; expanded = []
        for p in _ancestors_on_same_partition(target_dirname):
            try: expanded.append(p / suffix)                       # Filename(os.path.join(p, suffix))
            except UnsafeFilenameError: continue
        result.extend(expanded[::-1])  *)
Fixpoint filter_some {A} (l : list (option A)) : list A :=
  match l with
  | [] => []
  | Some x :: r => x :: filter_some r
  | None :: r => filter_some r
  end.
Definition expand_one (t : tree) (cwd : path) (target_dir : path) (pathname : str) : option (list path) :=
  if starts_with s_tripledots pathname then
    let suffix := skipn 4 pathname in
    Some (rev (filter_some (map (fun a => mk_filename a suffix) (ancestors_on_same_partition t target_dir))))
  else match mk_filename cwd pathname with
       | Some p => Some [p]
       | None => None
       end.
Fixpoint expand_tripledots (t : tree) (cwd : path) (pathnames : list str) (target_dir : path) : option (list path) :=
  match pathnames with
  | [] => Some []
  | p :: r => match expand_one t cwd target_dir p with
              | None => None
              | Some l => match expand_tripledots t cwd r target_dir with
                          | None => None
                          | Some l' => Some (l ++ l')
                          end
              end
  end.

(* ---------- expand_py_files_from_args ---------- *)
(*  recursive step only:
        if f.base.startswith("."): continue
        if f.base == "__pycache__": continue
        if f.isfile: (if f.ext == ".py": push) / elif f.isdir: push
    Filename.list() drops names that are not safe and sorts by name; the stack discipline is a
    pre-order walk in that order.  f.ext is taken on the whole path, but for an entry that is not
    hidden it is ".py" exactly when the entry's own name ends in ".py". *)
Definition skip_name (n : name) : bool :=
  negb (safe_name n) || starts_with s_dot n || str_eqb n s_pycache.
Definition is_py (n : name) : bool := ends_with s_py n.

(* the entries of one directory, in sorted order.  Every test (isfile / isdir) is an os.stat of the
   entry's own path, so a symbolic link counts as what it points to; a dangling or looping link is
   neither and is ignored.  `rec` = the walk of a sub-directory. *)
Fixpoint collect (rec : path -> option (list path)) (t : tree) (pre : path) (names : list name)
  : option (list path) :=
  match names with
  | [] => Some []
  | n :: r =>
      match (if skip_name n then Some []
             else match stat t (pre ++ [n]) with
                  | Some (File _ _) => Some (if is_py n then [pre ++ [n]] else [])
                  | Some (Dir _ _) => rec (pre ++ [n])
                  | _ => Some []
                  end),
            collect rec t pre r with
      | Some a, Some b => Some (a ++ b)
      | _, _ => None
      end
  end.

(* fuel = nesting depth still allowed; None = out of fuel (a link to an ancestor directory makes the
   real walk run until ELOOP: outside the domain, excluded by the theorems) *)
Fixpoint walk (fuel : nat) (t : tree) (pre : path) : option (list path) :=
  match fuel with
  | O => None
  | S f => match stat t pre with
           | Some (Dir _ es) => collect (walk f t) t pre (isort str_leb (map fst es))
           | _ => Some []
           end
  end.
Definition walk_fuel : nat := 64.

(*  for pathname in reversed(pathnames):
        if pathname.isfile: stack.append((pathname, True))
        elif pathname.isdir: stack.append((pathname, False))
        else: on_error(pathname)                                   # default: ignored *)
Definition expand_arg (t : tree) (p : path) : option (list path) :=
  match stat t p with
  | Some (File _ _) => Some [p]
  | Some (Dir _ _) => walk walk_fuel t p
  | _ => Some []
  end.
Fixpoint expand_py_files (t : tree) (ps : list path) : option (list path) :=
  match ps with
  | [] => Some []
  | p :: r => match expand_arg t p, expand_py_files t r with
              | Some a, Some b => Some (a ++ b)
              | _, _ => None
              end
  end.

(* ---------- _get_env_var ---------- *)
(*  value = list(filter(None, os.environ.get(env_var_name, '').split(':')))
    if not value: return default
    try: idx = value.index('-')  except ValueError: pass  else: value[idx:idx+1] = default *)
Fixpoint splice_first_dash (value default : list str) : list str :=
  match value with
  | [] => []
  | v :: r => if str_eqb v s_dash then default ++ r else v :: splice_first_dash r default
  end.
Definition get_env_var (value : option str) (default : list str) : list str :=
  let parts := filter (fun s => negb (is_nil s))
                      (split_on c_colon (match value with Some v => v | None => [] end)) in
  if is_nil parts then default else splice_first_dash parts default.

(* os.path.expanduser with $HOME set:  ~/x -> HOME.rstrip('/') + '/x';  other strings unchanged
   (after the component check only "~/..." can start with "~") *)
Fixpoint rstrip_slash_rev (r : str) : str :=
  match r with
  | c :: r' => if (c =? c_slash)%N then rstrip_slash_rev r' else r
  | [] => []
  end.
Definition rstrip_slash (s : str) : str := rev (rstrip_slash_rev (rev s)).
Definition expanduser (home : str) (p : str) : str :=
  if starts_with s_tildeslash p then rstrip_slash home ++ tl p else p.

(* re.match("/|[.]/|[.][.][.]/|~/", p) *)
Definition component_ok (p : str) : bool :=
  starts_with s_slash p || starts_with s_dotslash p || starts_with s_tripledots p || starts_with s_tildeslash p.

Fixpoint stable_unique (seen : list path) (l : list path) : list path :=
  match l with
  | [] => []
  | p :: r => if existsb (strs_eqb p) seen then stable_unique seen r
              else p :: stable_unique (p :: seen) r
  end.

Inductive pp_result :=
| PPOk (files : list path)
| PPValueError (component : str)       (* "components should start with / or ./ or ~/ or .../" *)
| PPUnsafe                             (* UnsafeFilenameError from Filename(explicit entry) *)
| PPFuel.                              (* model out of fuel (directory nesting deeper than walk_fuel) *)

(* ---------- _get_python_path ---------- *)
Definition get_python_path (t : tree) (cwd : path) (home : str) (value : option str)
           (default : list str) (target_dir : path) : pp_result :=
  let pathnames := get_env_var value default in
  if strs_eqb pathnames [s_EMPTY] then PPOk []
  else match find (fun p => negb (component_ok p)) pathnames with
       | Some p => PPValueError p
       | None =>
           match expand_tripledots t cwd (map (expanduser home) pathnames) target_dir with
           | None => PPUnsafe
           | Some ps => match expand_py_files t (stable_unique [] ps) with
                        | Some files => PPOk files
                        | None => PPFuel
                        end
           end
       end.

(* ---------- _find_etc_dirs ---------- *)
(*  dirs = Filename(__file__).real.dir.ancestors[:-1]
    for dir in dirs:
        candidate = dir / "etc/pyflyby"
        if candidate.isdir: result.append(candidate); break
    global_dir = Filename("/etc/pyflyby");  if global_dir.exists: result.append(global_dir) *)
Definition find_etc_dirs (t : tree) (module_dir : path) : list path :=
  (match find (fun d => isdir t (d ++ [s_etc; s_pyflyby])) (removelast (ancestors module_dir)) with
   | Some d => [d ++ [s_etc; s_pyflyby]]
   | None => []
   end)
  ++ (if exists_ t [s_etc; s_pyflyby] then [[s_etc; s_pyflyby]] else []).

(*  DEFAULT_PYFLYBY_PATH = [str(p) for p in _find_etc_dirs()] + [".../.pyflyby", "~/.pyflyby"] *)
Definition default_pyflyby_path (etc : list path) : list str :=
  map path_str etc ++ [s_dotpyflyby3; s_dotpyflybyH].

End Tree.

Arguments File {C}.
Arguments Dir {C}.
Arguments Link {C}.

(* M10 - Sys/Actions: pyflyby._cmdline.parse_args (action / symlink option folding),
   process_actions, Modifier, action_*, symlink_*.   Model only; proofs in ActionsProofs.v.

   Outside the code's own logic, hence explicit data:
     modf     - the rewriting function of the tool (tidy / reformat / transform): text -> Some text
                or None when it raises (unparsable input ...), fed from the real tool on the run;
     answers  - the lines the user types at QUERY prompts;
     tty      - whether stdin and stdout are terminals (selects the default action tuple);
     the external commands run by DIFF / EXECUTE do not touch the files (assumption). *)
From Coq Require Import NArith List Bool.
From Verif Require Import Base.Chars.
Import ListNotations.

Inductive action :=
| Print | Replace | IfChanged | Query | Diff | Exit1 | Execute
| SymErr | SymFollow | SymSkip | SymReplace.

Definition is_sym (a : action) : bool :=
  match a with SymErr | SymFollow | SymSkip | SymReplace => true | _ => false end.
Definition not_sym (a : action) : bool := negb (is_sym a).

Inductive symval := SVError | SVFollow | SVSkip | SVReplace.
(* symlink_callbacks = {'error': symlink_error, 'follow': ..., 'skip': ..., 'replace': ...} *)
Definition sym_action (s : symval) : action :=
  match s with SVError => SymErr | SVFollow => SymFollow | SVSkip => SymSkip | SVReplace => SymReplace end.

(* the two repairs, independently switchable:
     fix_F4  fixes/F4-symlink-policy-survives-action-options.diff
     fix_F5  fixes/F5-symlink-error-is-an-ordinary-exception.diff *)
Record fixes := mkFixes { fix_F4 : bool; fix_F5 : bool }.
Definition unchanged_code : fixes := mkFixes false false.
Definition repaired_code : fixes := mkFixes true true.

(* ---------------------------------------------------------------------------------------------
   option folding *)

Inductive cli_option :=
| OSymlinks (s : symval) | OSymlinksBad            (* --symlinks=v ; v not one of the four *)
| OActions (l : list action) | OActionsBad         (* --actions=a,b,... ; an unknown word *)
| OPrint | ODiff | OReplace | ODiffReplace | OInteractive
| OOther.                                          (* options that leave the action tuple alone *)

(* actions_interactive = [action_ifchanged, action_diff, action_query("Replace {filename}?"), action_replace]
   if os.isatty(0) and os.isatty(1): default_actions = actions_interactive
   else:                             default_actions = [action_print] *)
Definition interactive_actions : list action := [IfChanged; Diff; Query; Replace].
Definition default_actions (tty : bool) : list action := if tty then interactive_actions else [Print].

(* def set_actions(actions):
       actions = tuple(actions)
       parser.values.actions = actions
   repaired (F4): the symlink action(s) already in the tuple stay at its head *)
Definition set_actions (fx : fixes) (cur new : list action) : list action :=
  if fix_F4 fx then filter is_sym cur ++ filter not_sym new else new.

(* def symlink_callback(option, opt_str, value, parser):
       parser.values.actions = tuple(i for i in parser.values.actions if i not in symlink_callbacks.values())
       if value in symlink_callbacks:
           parser.values.actions = (symlink_callbacks[value],) + parser.values.actions
       else: raise optparse.OptionValueError(...)                                   -> usage error *)
Definition opt_step (fx : fixes) (cur : option (list action)) (o : cli_option) : option (list action) :=
  match cur with
  | None => None
  | Some cur =>
      match o with
      | OSymlinks s => Some (sym_action s :: filter not_sym cur)
      | OSymlinksBad => None
      | OActions l => Some (set_actions fx cur l)
      | OActionsBad => None
      | OPrint => Some (set_actions fx cur [Print])
      | ODiff => Some (set_actions fx cur [Diff])
      | OReplace => Some (set_actions fx cur [IfChanged; Replace])
      | ODiffReplace => Some (set_actions fx cur [IfChanged; Diff; Replace])
      | OInteractive => Some (set_actions fx cur interactive_actions)
      | OOther => Some cur
      end
  end.

(* args = ["--symlinks=error"] + sys.argv[1:] ; None = the parser exits before any file is touched *)
Definition fold_options (fx : fixes) (tty : bool) (opts : list cli_option) : option (list action) :=
  fold_left (opt_step fx) (OSymlinks SVError :: opts) (Some (default_actions tty)).

Fixpoint last_symlinks (opts : list cli_option) (acc : symval) : symval :=
  match opts with
  | [] => acc
  | OSymlinks s :: r => last_symlinks r s
  | _ :: r => last_symlinks r acc
  end.

(* ---------------------------------------------------------------------------------------------
   files *)

Definition path := N.
(* gen: bumped whenever the path gets a new inode (the harness sees (st_ino, st_ctime_ns));
   NBin: a regular file whose bytes are not valid UTF-8 (read_file raises UnicodeDecodeError) *)
(* a directory lists its entries in sorted(os.listdir) order (the order is the harness's business); of a name
   only what expand_py_files_from_args tests is kept: starts with ".", equals "__pycache__", ends in ".py" *)
Record dirent := mkEnt { ehidden : bool; epycache : bool; epy : bool; epath : path }.
Inductive node := NFile (c : str) (gen : N) | NBin (gen : N) | NLink (t : path) | NDir (ents : list dirent).
Definition fs := path -> option node.
Definition upd (f : fs) (p : path) (v : option node) : fs := fun q => if (q =? p)%N then v else f q.

Definition islink (f : fs) (p : path) : bool := match f p with Some (NLink _) => true | _ => false end.

(* symlink chains: the kernel follows at most 40 links (ELOOP beyond, and on a loop); None = ELOOP.
   The result is the first path of the chain that is not a symlink (it may not exist). *)
Definition max_hops : nat := 41.
Fixpoint resolve (fuel : nat) (f : fs) (p : path) : option path :=
  match fuel with
  | O => None
  | S k => match f p with Some (NLink t) => resolve k f t | _ => Some p end
  end.
(* Filename.realpath = os.path.realpath; only called on names for which isfile held *)
Definition realpath (f : fs) (p : path) : path := match resolve max_hops f p with Some q => q | None => p end.
(* open(p).read() follows the chain *)
Definition read_path (f : fs) (p : path) : option str :=
  match resolve max_hops f p with
  | Some q => match f q with Some (NFile c _) => Some c | _ => None end
  | None => None
  end.
(* os.path.isfile follows the chain; a binary file is a file too *)
Definition isfile (f : fs) (p : path) : bool :=
  match resolve max_hops f p with
  | Some q => match f q with Some (NFile _ _) | Some (NBin _) => true | _ => false end
  | None => false
  end.

(* os.path.isdir follows the chain *)
Definition dir_entries (f : fs) (p : path) : option (list dirent) :=
  match resolve max_hops f p with
  | Some q => match f q with Some (NDir ents) => Some ents | _ => None end
  | None => None
  end.
Definition isdir (f : fs) (p : path) : bool := match dir_entries f p with Some _ => true | None => false end.

(* the recursive step of expand_py_files_from_args (a stack with reversed pushes = depth-first, in listing order):
       for f in reversed(pathname.list()):
           if f.base.startswith("."): continue
           if f.base == "__pycache__": continue
           if f.isfile:
               if f.ext == ".py": stack.append((f, True))          # under the entry's own name, symlink or not
           elif f.isdir: stack.append((f, False))
   The boolean is false when the fuel (nesting depth) ran out. *)
Fixpoint expand_dir (fuel : nat) (f : fs) (p : path) : list path * bool :=
  match fuel with
  | O => ([], false)
  | S k =>
      match dir_entries f p with
      | None => ([], true)
      | Some ents =>
          fold_right (fun e acc =>
                        let r := if ehidden e || epycache e then ([], true)
                                 else if isfile f (epath e) then ((if epy e then [epath e] else []), true)
                                 else if isdir f (epath e) then expand_dir k f (epath e)
                                 else ([], true) in
                        (fst r ++ fst acc, snd r && snd acc)) ([], true) ents
      end
  end.
Definition dir_fuel : nat := 64.

(* ---------------------------------------------------------------------------------------------
   Modifier: lazily computed, cached input / output of one file

   class Modifier: filename; @cached_attribute input_content = read_file(self.filename);
                   @cached_attribute output_content = FileText(self.modifier(self.input_content), ...) *)
Record mstate := mkM { mfile : path; minput : option str; moutput : option str }.
Definition fresh (p : path) : mstate := mkM p None None.

Inductive errkind := ErrBadFilename | ErrRead | ErrModify | ErrEOF | ErrSymlink | ErrDepth (* model: directory nesting beyond dir_fuel *).
Inductive outcome :=
| Normal | Abort (* AbortActions *) | ExitOne (* Exit1 *) | Error (k : errkind) (* any Exception *)
| Fatal (* SystemExit: leaves process_actions *).

Inductive event :=
| EvPrint (p : path) (c : str) | EvPrompt (p : path) | EvAborted | EvExec (p : path) | EvWrite (p : path) (c : str).

Record pstate := mkP { pfs : fs; pgen : N; pans : list str; pout : list event }.

Definition force_input (f : fs) (m : mstate) : option (mstate * str) :=
  match minput m with
  | Some c => Some (m, c)
  | None => match read_path f (mfile m) with
            | Some c => Some (mkM (mfile m) (Some c) (moutput m), c)
            | None => None
            end
  end.

Inductive forced := FOk (m : mstate) (o : str) | FErr (m : mstate) (k : errkind).
Definition force_output (modf : str -> option str) (f : fs) (m : mstate) : forced :=
  match moutput m with
  | Some o => FOk m o
  | None =>
      match force_input f m with
      | None => FErr m ErrRead
      | Some (m1, c) =>
          match modf c with
          | Some o => FOk (mkM (mfile m1) (minput m1) (Some o)) o
          | None => FErr m1 ErrModify
          end
      end
  end.

(* input().strip().lower().startswith('y') on ASCII input *)
Definition is_space (c : ch) : bool :=
  ((9 <=? c) && (c <=? 13) || (28 <=? c) && (c <=? 32))%N.
Fixpoint lstrip (s : str) : str :=
  match s with c :: r => if is_space c then lstrip r else s | [] => [] end.
Definition is_yes (s : str) : bool :=
  match lstrip s with c :: _ => ((c =? 121) || (c =? 89))%N | [] => false end.

Definition add_out (e : event) (s : pstate) : pstate := mkP (pfs s) (pgen s) (pans s) (pout s ++ [e]).

Definition act (fx : fixes) (modf : str -> option str) (a : action) (m : mstate) (s : pstate)
  : outcome * mstate * pstate :=
  match a with
  | Print =>
      (* output_content = m.output_content ; sys.stdout.write(output_content.joined) *)
      match force_output modf (pfs s) m with
      | FOk m' o => (Normal, m', add_out (EvPrint (mfile m') o) s)
      | FErr m' k => (Error k, m', s)
      end
  | IfChanged =>
      (* if m.output_content.joined == m.input_content.joined: raise AbortActions *)
      match force_output modf (pfs s) m with
      | FErr m' k => (Error k, m', s)
      | FOk m' o =>
          match force_input (pfs s) m' with
          | None => (Error ErrRead, m', s)
          | Some (m'', c) => if str_eqb o c then (Abort, m'', s) else (Normal, m'', s)
          end
      end
  | Replace =>
      (* atomic_write_file(m.filename, m.output_content)   (M9; the path gets a new regular file,
         also when it was a symlink) *)
      match force_output modf (pfs s) m with
      | FErr m' k => (Error k, m', s)
      | FOk m' o =>
          (Normal, m',
           mkP (upd (pfs s) (mfile m') (Some (NFile o (pgen s)))) (N.succ (pgen s)) (pans s)
               (pout s ++ [EvWrite (mfile m') o]))
      end
  | Query =>
      (* print prompt; if input().strip().lower().startswith('y'): return True
         print("Aborted"); raise AbortActions            (EOF on stdin: EOFError) *)
      match pans s with
      | [] => (Error ErrEOF, m, add_out (EvPrompt (mfile m)) s)
      | x :: rest =>
          let s' := mkP (pfs s) (pgen s) rest (pout s ++ [EvPrompt (mfile m)]) in
          if is_yes x then (Normal, m, s') else (Abort, m, add_out EvAborted s')
      end
  | Diff | Execute =>
      (* "%s %s %s" % (command, m.input_content_filename, m.output_content_filename) *)
      match force_output modf (pfs s) m with
      | FOk m' o => (Normal, m', add_out (EvExec (mfile m')) s)
      | FErr m' k => (Error k, m', s)
      end
  | Exit1 => (ExitOne, m, s)
  | SymErr =>
      (* if m.filename.islink: raise SystemExit(...)     repaired (F5): raise SymlinkError(...) *)
      if islink (pfs s) (mfile m) then ((if fix_F5 fx then Error ErrSymlink else Fatal), m, s)
      else (Normal, m, s)
  | SymFollow =>
      (* if m.filename.islink: m.filename = m.filename.realpath *)
      if islink (pfs s) (mfile m) then (Normal, mkM (realpath (pfs s) (mfile m)) (minput m) (moutput m), s)
      else (Normal, m, s)
  | SymSkip =>
      if islink (pfs s) (mfile m) then (Abort, m, s) else (Normal, m, s)
  | SymReplace => (Normal, m, s)
  end.

(* for action in actions: action(m) *)
Fixpoint run_actions (fx : fixes) (modf : str -> option str) (acts : list action) (m : mstate) (s : pstate)
  : outcome * mstate * pstate :=
  match acts with
  | [] => (Normal, m, s)
  | a :: rest =>
      match act fx modf a m s with
      | (Normal, m', s') => run_actions fx modf rest m' s'
      | r => r
      end
  end.

(* ---------------------------------------------------------------------------------------------
   process_actions *)

(* a command-line argument *)
Inductive arg := APath (p : path).

Record result := mkR {
  rfs : fs;
  rexit : N;                               (* exit status class: 0 / 1 *)
  rerrors : list (path * errkind);          (* the "encountered the following problems" list *)
  rlog : list (path * outcome);             (* every file the loop started on, with its outcome *)
  rfatal : bool;                            (* a SystemExit left the loop *)
  rout : list event
}.

(* filenames = filename_args(filenames, on_error=on_error_filename_arg) *)
Fixpoint expand (f : fs) (args : list arg) : list path * list (path * errkind) :=
  match args with
  | [] => ([], [])
  | APath p :: r =>
      let '(fl, er) := expand f r in
      (* expand_py_files_from_args walks reversed(pathnames): on_error fires in reverse order *)
      if isfile f p then (p :: fl, er)
      else if isdir f p then
        (let '(ms, ok) := expand_dir dir_fuel f p in if ok then (ms ++ fl, er) else (fl, er ++ [(p, ErrDepth)]))
      else (fl, er ++ [(p, ErrBadFilename)])
  end.

Record loop := mkL { lst : pstate; lexit : N; lerrs : list (path * errkind); llog : list (path * outcome); lfatal : bool }.

Definition file_step (fx : fixes) (modf : str -> option str) (acts : list action) (l : loop) (p : path) : loop :=
  if lfatal l then l
  else
    let '(oc, _, s') := run_actions fx modf acts (fresh p) (lst l) in
    match oc with
    | Normal | Abort => mkL s' (lexit l) (lerrs l) (llog l ++ [(p, oc)]) false
    | ExitOne => mkL s' 1 (lerrs l) (llog l ++ [(p, oc)]) false
    | Error k => mkL s' (lexit l) (lerrs l ++ [(p, k)]) (llog l ++ [(p, oc)]) false
    | Fatal => mkL s' (lexit l) (lerrs l) (llog l ++ [(p, oc)]) true
    end.

Definition loop0 (f : fs) (gen0 : N) (answers : list str) (bad : list (path * errkind)) : loop :=
  mkL (mkP f gen0 answers []) 0 bad [] false.

Definition process (fx : fixes) (modf : str -> option str) (acts : list action) (args : list arg)
           (answers : list str) (f : fs) (gen0 : N) : result :=
  let l := fold_left (file_step fx modf acts) (fst (expand f args)) (loop0 f gen0 answers (snd (expand f args))) in
  mkR (pfs (lst l))
      (if lfatal l then 1 else match lerrs l with [] => lexit l | _ => 1 end)
      (if lfatal l then [] else lerrs l)        (* a SystemExit discards the collected problems *)
      (llog l) (lfatal l) (pout (lst l)).

(* the whole tool: options, then files *)
Definition tool (fx : fixes) (modf : str -> option str) (tty : bool) (opts : list cli_option) (args : list arg)
           (answers : list str) (f : fs) (gen0 : N) : option result :=
  match fold_options fx tty opts with
  | None => None
  | Some acts => Some (process fx modf acts args answers f gen0)
  end.

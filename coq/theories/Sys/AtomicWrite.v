(* M9 - Sys/AtomicWrite: pyflyby._file.write_file / atomic_write_file over a POSIX file-system
   step relation.  Model only (no proofs here; see AtomicWriteProofs.v).

   What is outside the Python code's own logic enters as explicit data:
     env      - the process's default creation mode (0666 & ~umask), its effective gid and the
                set of groups it may chown to (fed by the harness with the values of the run);
     fault    - an OSError injected at (or naturally produced by) one call;
     chunking - how the bytes of the text reach the file (write(2) calls issued by the io layer). *)
From Coq Require Import NArith List Bool Arith.
Import ListNotations.

Definition byte := N.
Definition content := list byte.

(* the paths that matter: the target, the temporary sibling "<target>.tmp.<pid>", anything else *)
Inductive path := Target | Tmp (pid : N) | Other (n : N).
Definition path_eqb (a b : path) : bool :=
  match a, b with
  | Target, Target => true
  | Tmp x, Tmp y => (x =? y)%N
  | Other x, Other y => (x =? y)%N
  | _, _ => false
  end.

Record file := mkFile { fcontent : content; fmode : N; fgid : N }.
Definition fs := path -> option file.
Definition upd (f : fs) (p : path) (v : option file) : fs :=
  fun q => if path_eqb q p then v else f q.
Definition content_of (f : fs) (p : path) : option content := option_map fcontent (f p).

Record env := mkEnv { dmode : N; dgid : N; may_chown : N -> bool }.

(* ---------------------------------------------------------------------------------------------
   POSIX step relation (the seven calls; None = the call fails and has no effect) *)

Definition S_IFREG : N := 32768.          (* 0100000 *)
Definition perm_mask : N := 4096.         (* chmod keeps mode & 07777 *)

(* open(p, O_WRONLY|O_CREAT|O_TRUNC, 0666): an existing file is emptied and keeps mode and group *)
Definition sys_open_trunc (e : env) (f : fs) (p : path) : fs :=
  match f p with
  | Some x => upd f p (Some (mkFile [] (fmode x) (fgid x)))
  | None => upd f p (Some (mkFile [] (dmode e) (dgid e)))
  end.

(* write at the descriptor's offset (a hole is zero-filled) *)
Definition pwrite_at (c : content) (off : nat) (d : content) : content :=
  firstn off c ++ repeat 0%N (off - length c) ++ d ++ skipn (off + length d) c.

(* the descriptor is identified with its path: nobody renames a path while a descriptor on it is
   open in any run the theorems speak about; a write to a vanished path is invisible *)
Definition sys_write (f : fs) (p : path) (off : nat) (d : content) : fs :=
  match f p with
  | Some x => upd f p (Some (mkFile (pwrite_at (fcontent x) off d) (fmode x) (fgid x)))
  | None => f
  end.

Definition sys_stat (f : fs) (p : path) : option (N * N) :=
  match f p with Some x => Some ((S_IFREG + fmode x)%N, fgid x) | None => None end.

Definition sys_chmod (f : fs) (p : path) (m : N) : option fs :=
  match f p with
  | Some x => Some (upd f p (Some (mkFile (fcontent x) (m mod perm_mask)%N (fgid x))))
  | None => None
  end.

(* Linux: a successful chown of a regular file clears S_ISUID, and S_ISGID if the file is
   group-executable - for every caller, root included, whether or not the group changes *)
Definition sugid_free : N := 1024.        (* modes below 02000 carry neither bit *)
Definition kill_sugid (m : N) : N :=
  let m1 := if ((m / 2048) mod 2 =? 1)%N then (m - 2048)%N else m in
  if (((m1 / 1024) mod 2 =? 1) && ((m1 / 8) mod 2 =? 1))%N%bool then (m1 - 1024)%N else m1.

Definition sys_chown (e : env) (f : fs) (p : path) (g : N) : option fs :=
  match f p with
  | Some x => if may_chown e g then Some (upd f p (Some (mkFile (fcontent x) (kill_sugid (fmode x)) g))) else None
  | None => None
  end.

(* rename(p, q): atomically q := p's file, p disappears *)
Definition sys_rename (f : fs) (p q : path) : option fs :=
  match f p with
  | Some x => Some (upd (upd f q (Some x)) p None)
  | None => None
  end.

(* ---------------------------------------------------------------------------------------------
   The program.

   def write_file(filename, data):
       data = FileText(data)
       with open(str(filename), 'w') as f:            # IOpen
           f.write(data.joined)                        # IWrite c ... (the io layer's chunking)
                                                       # IClose (flushes, also when unwinding)
   def atomic_write_file(filename, data):
       temp_filename = Filename("%s.tmp.%s" % (filename, os.getpid(),))
       write_file(temp_filename, data)
       try:
           st = os.stat(str(filename)) # OSError if file didn't exit before        # IStat
           os.chmod(str(temp_filename), st.st_mode)                                # IChmod
           os.chown(str(temp_filename), -1, st.st_gid) # OSError if not member     # IChown
       except OSError:
           pass
       os.rename(str(temp_filename), str(filename))                                # IRename

   Fixed (fixes/F11-atomic-write-keeps-mode.diff): only FileNotFoundError from stat and any OSError
   from chown are tolerated; another stat error or a failing chmod propagates before the rename.
   Fixed2 (fixes/F11b-atomic-write-chown-before-chmod.diff, on top of F11): chown is called before
   chmod, because a successful chown clears the set-uid / set-gid bits:
       if st is not None:
           try: os.chown(temp, -1, st.st_gid)
           except OSError: pass
           os.chmod(temp, st.st_mode) *)

Inductive variant := Orig | Fixed | Fixed2.
Definition chown_first (v : variant) : bool := match v with Fixed2 => true | _ => false end.
Inductive instr := IOpen | IWrite (d : content) | IClose | IStat | IChmod | IChown | IRename.
Inductive fault := NoFault | FaultENOENT | FaultOther.

(* control state of the Python frame: running / an exception is propagating out of the `with`
   body (its __exit__ still closes the file) / the exception has left atomic_write_file *)
Inductive ctl := Run | Unwind | Dead.
Record plocal := mkLoc { pctl : ctl; poff : nat; pst : option (N * N) }.
Definition loc0 : plocal := mkLoc Run 0 None.
Definition set_ctl (c : ctl) (l : plocal) : plocal := mkLoc c (poff l) (pst l).
Definition set_st (s : option (N * N)) (l : plocal) : plocal := mkLoc (pctl l) (poff l) s.

Definition meta1 (v : variant) : instr := if chown_first v then IChown else IChmod.
Definition meta2 (v : variant) : instr := if chown_first v then IChmod else IChown.
Definition tail5 (v : variant) : list instr := [IClose; IStat; meta1 v; meta2 v; IRename].
Definition prog (v : variant) (chunks : list content) : list instr := IOpen :: map IWrite chunks ++ tail5 v.
(* write_file alone *)
Definition prog_write_file (chunks : list content) : list instr := IOpen :: map IWrite chunks ++ [IClose].

(* what the harness sees of one executed call *)
Inductive call := COpen | CWrite (n : nat) | CClose | CStat | CChmod (m : N) | CChown (g : N) | CRename.

Definition faulted (x : fault) : bool := match x with NoFault => false | _ => true end.

Definition exec (v : variant) (e : env) (tmp : path) (s : fs * plocal) (x : instr * fault)
  : (fs * plocal) * option (call * bool) :=
  let '(f, l) := s in
  let '(i, flt) := x in
  match pctl l with
  | Dead => (s, None)
  | Unwind =>
      match i with
      | IClose => ((f, set_ctl Dead l), Some (CClose, negb (faulted flt)))
      | _ => (s, None)
      end
  | Run =>
      match i with
      | IOpen =>
          if faulted flt then ((f, set_ctl Dead l), Some (COpen, false))
          else ((sys_open_trunc e f tmp, mkLoc Run 0 (pst l)), Some (COpen, true))
      | IWrite d =>
          if faulted flt then ((f, set_ctl Unwind l), Some (CWrite (length d), false))
          else ((sys_write f tmp (poff l) d, mkLoc Run (poff l + length d) (pst l)),
                Some (CWrite (length d), true))
      | IClose =>
          if faulted flt then ((f, set_ctl Dead l), Some (CClose, false))
          else (s, Some (CClose, true))
      | IStat =>
          match flt, sys_stat f Target with
          | NoFault, Some st => ((f, set_st (Some st) l), Some (CStat, true))
          | NoFault, None | FaultENOENT, _ => ((f, set_st None l), Some (CStat, false))
          | FaultOther, _ =>
              match v with
              | Orig => ((f, set_st None l), Some (CStat, false))
              | _ => ((f, set_ctl Dead l), Some (CStat, false))
              end
          end
      | IChmod =>
          match pst l with
          | None => (s, None)                               (* skipped *)
          | Some (m, g) =>
              match (if faulted flt then None else sys_chmod f tmp m) with
              | Some f' => ((f', l), Some (CChmod m, true))
              | None =>
                  match v with
                  | Orig => ((f, set_st None l), Some (CChmod m, false))     (* except OSError: pass *)
                  | _ => ((f, set_ctl Dead l), Some (CChmod m, false))
                  end
              end
          end
      | IChown =>
          match pst l with
          | None => (s, None)
          | Some (m, g) =>
              match (if faulted flt then None else sys_chown e f tmp g) with
              | Some f' => ((f', l), Some (CChown g, true))
              | None => (s, Some (CChown g, false))                          (* tolerated in both *)
              end
          end
      | IRename =>
          match (if faulted flt then None else sys_rename f tmp Target) with
          | Some f' => ((f', l), Some (CRename, true))
          | None => ((f, set_ctl Dead l), Some (CRename, false))
          end
      end
  end.

Definition step (v : variant) (e : env) (tmp : path) (s : fs * plocal) (x : instr * fault) : fs * plocal :=
  fst (exec v e tmp s x).
Definition run (v : variant) (e : env) (tmp : path) (s : fs * plocal) (xs : list (instr * fault)) : fs * plocal :=
  fold_left (step v e tmp) xs s.

Definition nofault (l : list instr) : list (instr * fault) := map (fun i => (i, NoFault)) l.
Fixpoint inject (k : nat) (flt : fault) (l : list instr) : list (instr * fault) :=
  match l, k with
  | [], _ => []
  | i :: r, O => (i, flt) :: nofault r
  | i :: r, S k' => (i, NoFault) :: inject k' flt r
  end.

(* atomic_write_file of process `pid`, alone, from file system f *)
Definition atomic_write (v : variant) (e : env) (pid : N) (f : fs) (xs : list (instr * fault)) : fs * plocal :=
  run v e (Tmp pid) (f, loc0) xs.

(* the exception left atomic_write_file *)
Definition raised (l : plocal) : bool := match pctl l with Run => false | _ => true end.

(* ---------------------------------------------------------------------------------------------
   Two processes: each has its own frame; the file system is shared *)

Inductive side := L | R.
Record sys := mkSys { sfs : fs; loc1 : plocal; loc2 : plocal }.
Definition sstep (v : variant) (e : env) (p1 p2 : N) (s : sys) (x : side * (instr * fault)) : sys :=
  match fst x with
  | L => let '(f', l') := step v e (Tmp p1) (sfs s, loc1 s) (snd x) in mkSys f' l' (loc2 s)
  | R => let '(f', l') := step v e (Tmp p2) (sfs s, loc2 s) (snd x) in mkSys f' (loc1 s) l'
  end.
Definition srun (v : variant) (e : env) (p1 p2 : N) (s : sys) (l : list (side * (instr * fault))) : sys :=
  fold_left (sstep v e p1 p2) l s.
Definition sys0 (f : fs) : sys := mkSys f loc0 loc0.
Definition tag {A} (sd : side) (l : list A) : list (side * A) := map (pair sd) l.

Inductive interleave {A} : list A -> list A -> list A -> Prop :=
| il_nil : interleave [] [] []
| il_l x a b l : interleave a b l -> interleave (x :: a) b (x :: l)
| il_r x a b l : interleave a b l -> interleave a (x :: b) (x :: l).

(* a schedule (true = left writer moves) merged with the two lists; used by the harness *)
Fixpoint merge {A} (sch : list bool) (a b : list A) : list (side * A) :=
  match sch with
  | [] => tag L a ++ tag R b
  | true :: r => match a with x :: a' => (L, x) :: merge r a' b | [] => merge r a b end
  | false :: r => match b with x :: b' => (R, x) :: merge r a b' | [] => merge r a b end
  end.

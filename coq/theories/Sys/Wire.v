(* Entry points evaluated by the correspondence harnesses (harness/c08.py, harness/c09.py). *)
From Coq Require Import NArith List String Bool.
From Verif Require Import Base.Chars Base.Show Sys.AtomicWrite.
Import ListNotations.
Open Scope string_scope.

(* ---------------------------------------------------------------------------------------------
   C08 *)

(* contents travel as (length, polynomial checksum): complete enough to compare, small to print *)
Definition chk (c : content) : N :=
  snd (fold_left (fun st b => let '(i, acc) := st in (N.succ i, (acc + i * (b + 1))%N)) c (1%N, 0%N)).

Definition rep (n : N) (pat : content) : content := N.iter n (fun acc => (pat ++ acc)%list) [].

Definition show_file (o : option file) : string :=
  match o with
  | None => "null"
  | Some x => "[" ++ show_nat (List.length (fcontent x)) ++ "," ++ show_N (chk (fcontent x)) ++ ","
                  ++ show_N (fmode x) ++ "," ++ show_N (fgid x) ++ "]"
  end.

Definition show_call (c : call * bool) : string :=
  let '(name, arg) :=
    match fst c with
    | COpen => ("open", 0%N) | CWrite n => ("write", N.of_nat n) | CClose => ("close", 0%N)
    | CStat => ("stat", 0%N) | CChmod m => ("chmod", m) | CChown g => ("chown", g) | CRename => ("rename", 0%N)
    end in
  "[" ++ show_string name ++ "," ++ show_N arg ++ "," ++ show_bool (snd c) ++ "]".

Definition show_ctl (c : ctl) : string :=
  show_string (match c with Run => "run" | Unwind => "unwind" | Dead => "dead" end).

Definition mk_env (dm dg : N) (allowed : option (list N)) : env :=
  mkEnv dm dg (fun g => match allowed with None => true | Some l => existsb (N.eqb g) l end).

Definition mk_fs (target : option file) (temps : list (N * file)) : fs :=
  fold_left (fun f pt => upd f (Tmp (fst pt)) (Some (snd pt))) temps (upd (fun _ => None) Target target).

Fixpoint trace (v : variant) (e : env) (pid : N) (s : fs * plocal) (xs : list (instr * fault)) : list string :=
  match xs with
  | [] => []
  | x :: r =>
      let '(s', ev) := exec v e (Tmp pid) s x in
      show_obj [("ev", show_option show_call ev);
                ("target", show_file (fst s' Target));
                ("tmp", show_file (fst s' (Tmp pid)));
                ("ctl", show_ctl (pctl (snd s')))] :: trace v e pid s' r
  end.

Definition run_single (v : variant) (e : env) (pid : N) (target : option file) (temps : list (N * file))
           (xs : list (instr * fault)) : string :=
  "[" ++ join "," (trace v e pid (mk_fs target temps, loc0) xs) ++ "]".

Definition sexec (v : variant) (e : env) (p1 p2 : N) (s : sys) (x : side * (instr * fault)) : sys * option (call * bool) :=
  match fst x with
  | L => let '((f', l'), ev) := exec v e (Tmp p1) (sfs s, loc1 s) (snd x) in (mkSys f' l' (loc2 s), ev)
  | R => let '((f', l'), ev) := exec v e (Tmp p2) (sfs s, loc2 s) (snd x) in (mkSys f' (loc1 s) l', ev)
  end.

Fixpoint strace (v : variant) (e : env) (p1 p2 : N) (s : sys) (l : list (side * (instr * fault))) : list string :=
  match l with
  | [] => []
  | x :: r =>
      let '(s', ev) := sexec v e p1 p2 s x in
      show_obj [("side", show_string (match fst x with L => "L" | R => "R" end));
                ("ev", show_option show_call ev);
                ("target", show_file (sfs s' Target));
                ("tmp1", show_file (sfs s' (Tmp p1)));
                ("tmp2", show_file (sfs s' (Tmp p2)));
                ("ctl1", show_ctl (pctl (loc1 s')));
                ("ctl2", show_ctl (pctl (loc2 s')))] :: strace v e p1 p2 s' r
  end.

Definition run_two (v : variant) (e : env) (p1 p2 : N) (target : option file) (temps : list (N * file))
           (sch : list bool) (xs1 xs2 : list (instr * fault)) : string :=
  "[" ++ join "," (strace v e p1 p2 (sys0 (mk_fs target temps)) (merge sch xs1 xs2)) ++ "]".

(* ---------------------------------------------------------------------------------------------
   C09 *)
From Verif Require Import Sys.Actions.

Fixpoint lookup_modf (tbl : list (str * option str)) (c : str) : option str :=
  match tbl with
  | [] => None
  | (k, v) :: r => if str_eqb k c then v else lookup_modf r c
  end.

Fixpoint afs_of (l : list (N * node)) : Actions.fs :=
  match l with
  | [] => fun _ => None
  | (p, n) :: r => Actions.upd (afs_of r) p (Some n)
  end.

Definition show_node (o : option node) : string :=
  match o with
  | None => "null"
  | Some (NFile c g) => show_obj [("f", show_str c); ("gen", show_N g)]
  | Some (NBin g) => show_obj [("bin", show_N g)]
  | Some (NLink t) => show_obj [("l", show_N t)]
  | Some (NDir _) => show_string "dir"
  end.

Definition show_errkind (k : errkind) : string :=
  show_string (match k with ErrBadFilename => "badfilename" | ErrRead => "read" | ErrModify => "modify"
                          | ErrEOF => "eof" | ErrSymlink => "symlink" | ErrDepth => "depth" end).

Definition show_outcome (o : outcome) : string :=
  match o with
  | Normal => show_string "normal" | Abort => show_string "abort" | ExitOne => show_string "exit1"
  | Error k => "[" ++ show_string "error" ++ "," ++ show_errkind k ++ "]" | Fatal => show_string "fatal"
  end.

Definition show_event (e : event) : string :=
  match e with
  | EvPrint p c => "[" ++ show_string "print" ++ "," ++ show_N p ++ "," ++ show_str c ++ "]"
  | EvPrompt p => "[" ++ show_string "prompt" ++ "," ++ show_N p ++ "]"
  | EvAborted => "[" ++ show_string "aborted" ++ "]"
  | EvExec p => "[" ++ show_string "exec" ++ "," ++ show_N p ++ "]"
  | EvWrite p c => "[" ++ show_string "write" ++ "," ++ show_N p ++ "," ++ show_str c ++ "]"
  end.

Definition show_action (a : action) : string :=
  show_string (match a with
               | Print => "print" | Replace => "replace" | IfChanged => "ifchanged" | Query => "query" | Diff => "diff"
               | Exit1 => "exit1" | Execute => "execute" | SymErr => "sym_error" | SymFollow => "sym_follow"
               | SymSkip => "sym_skip" | SymReplace => "sym_replace" end).

Definition run_tool (fx : fixes) (tbl : list (str * option str)) (tty : bool) (opts : list cli_option)
           (args : list arg) (answers : list str) (files : list (N * node)) (gen0 : N) (watch : list N) : string :=
  match fold_options fx tty opts with
  | None => show_obj [("parse", show_bool false)]
  | Some acts =>
      let r := process fx (lookup_modf tbl) acts args answers (afs_of files) gen0 in
      show_obj [("parse", show_bool true);
                ("actions", show_list show_action acts);
                ("exit", show_N (rexit r));
                ("errors", show_list (show_pair show_N show_errkind) (rerrors r));
                ("log", show_list (show_pair show_N show_outcome) (rlog r));
                ("fatal", show_bool (rfatal r));
                ("fs", show_list (fun p => show_pair show_N show_node (p, rfs r p)) watch);
                ("out", show_list show_event (rout r))]
  end.

(* Composition and forgetting (Sys/DBCompose.v): the database is the union of the files' imports
   minus everything named by any __forget_imports__; the lookup index honours the forget list. *)
From Coq Require Import NArith List Bool String Permutation Lia.
From Verif Require Import Base.Chars Base.StrX Base.StrXProofs Sys.DBPath Sys.DBPathProofs Sys.DBCompose.
Import ListNotations.

(* ---------- membership through the boolean tests ---------- *)
Lemma imp_eqb_eq a b : imp_eqb a b = true <-> a = b.
Proof.
  destruct a as [a1 a2], b as [b1 b2]. unfold imp_eqb; simpl. rewrite andb_true_iff, !str_eqb_eq.
  split; [intros [-> ->]; reflexivity|intros E; inversion E; auto].
Qed.

Lemma imp_eqb_refl a : imp_eqb a a = true.
Proof. apply imp_eqb_eq. reflexivity. Qed.

Lemma mem_imp_In i l : mem_imp i l = true <-> In i l.
Proof.
  unfold mem_imp. rewrite existsb_exists. split.
  - intros [x [I E]]. apply imp_eqb_eq in E. subst. exact I.
  - intros I. exists i. split; [exact I|apply imp_eqb_refl].
Qed.

Lemma mem_imp_false i l : mem_imp i l = false <-> ~ In i l.
Proof. rewrite <- mem_imp_In. destruct (mem_imp i l); split; intros; try discriminate; auto; exfalso; auto. Qed.

Lemma mem_str_In s l : mem_str s l = true <-> In s l.
Proof.
  unfold mem_str. rewrite existsb_exists. split.
  - intros [x [I E]]. apply str_eqb_eq in E. subst. exact I.
  - intros I. exists s. split; [exact I|apply str_eqb_refl].
Qed.

Lemma dedup_imps_In l i : In i (dedup_imps l) <-> In i l.
Proof.
  induction l as [|a l IH]; simpl; [tauto|].
  rewrite filter_In, IH. split.
  - intros [H|[H _]]; auto.
  - intros [H|H]; auto. destruct (imp_eqb a i) eqn:E.
    + apply imp_eqb_eq in E. auto.
    + right. split; auto.
Qed.

Lemma dedup_strs_In l i : In i (dedup_strs l) <-> In i l.
Proof.
  induction l as [|a l IH]; simpl; [tauto|].
  rewrite filter_In, IH. split.
  - intros [H|[H _]]; auto.
  - intros [H|H]; auto. destruct (str_eqb a i) eqn:E.
    + apply str_eqb_eq in E. auto.
    + right. split; auto.
Qed.

(* ---------- what "named by a forget list" means (exact entry, or covered by a star entry) ---------- *)
Definition StarForgets (F : imp -> Prop) (i : imp) : Prop :=
  exists j mj mi, F j /\ member_name j = s_star /\ module_name j = Some mj /\
                  module_name i = Some mi /\ In mj (dotted_prefixes mi).
Definition Forgotten (F : imp -> Prop) (i : imp) : Prop := F i \/ StarForgets F i.

Lemma Forgotten_ext (F G : imp -> Prop) i : (forall j, F j <-> G j) -> (Forgotten F i <-> Forgotten G i).
Proof.
  intros H. unfold Forgotten, StarForgets. rewrite H. split; intros [A|[j [mj [mi [B C]]]]]; auto;
    right; exists j, mj, mi; (split; [apply H; exact B|exact C]).
Qed.

Lemma star_modules_In R m :
  In m (star_modules R) <-> exists j, In j R /\ member_name j = s_star /\ module_name j = Some m.
Proof.
  unfold star_modules. rewrite in_flat_map. split.
  - intros [j [I H]]. destruct (str_eqb (member_name j) s_star) eqn:E; [|destruct H].
    destruct (module_name j) as [mj|] eqn:M; [|destruct H]. destruct H as [H|[]]. subst.
    exists j. apply str_eqb_eq in E. auto.
  - intros [j [I [E M]]]. exists j. split; auto. rewrite E, M. rewrite str_eqb_refl. simpl. auto.
Qed.

Lemma removed_iff R i : removed R i = true <-> Forgotten (fun j => In j R) i.
Proof.
  unfold removed, Forgotten. rewrite orb_true_iff, mem_imp_In.
  assert (S : star_hit R i = true <-> StarForgets (fun j => In j R) i).
  { unfold star_hit, StarForgets. destruct (module_name i) as [mi|] eqn:M.
    - rewrite existsb_exists. split.
      + intros [pfx [I H]]. apply mem_str_In, star_modules_In in H as [j [Ij [E Mj]]].
        exists j, pfx, mi. auto.
      + intros [j [mj [mi' [Ij [E [Mj [Mi I]]]]]]]. inversion Mi; subst mi'.
        exists mj. split; auto. apply mem_str_In, star_modules_In. exists j. auto.
    - split; [discriminate|]. intros [j [mj [mi' [_ [_ [_ [Mi _]]]]]]]. discriminate. }
  rewrite S. tauto.
Qed.

Lemma removed_nil i : removed [] i = false.
Proof.
  destruct (removed [] i) eqn:E; auto. apply removed_iff in E.
  destruct E as [[]|[j [mj [mi [[] _]]]]].
Qed.

Lemma set_without_In s R i : In i (set_without s R) <-> In i s /\ ~ Forgotten (fun j => In j R) i.
Proof.
  unfold set_without. destruct R as [|r R]; simpl is_nil; cbv iota.
  - split; [|tauto]. intros H. split; auto. rewrite <- removed_iff, removed_nil. discriminate.
  - rewrite filter_In, negb_true_iff, <- removed_iff.
    destruct (removed (r :: R) i); split; intros [A B]; split; auto; try discriminate. exfalso; auto.
Qed.

(* ---------- the union over the files ---------- *)
Definition In_union {A} (g : dbfile -> list A) (fs : list dbfile) (x : A) : Prop :=
  exists f, In f fs /\ In x (g f).

Lemma In_union_flat_map {A} (g : dbfile -> list A) fs x : In x (flat_map g fs) <-> In_union g fs x.
Proof. apply in_flat_map. Qed.

Lemma In_union_perm {A} (g : dbfile -> list A) fs fs' x :
  Permutation fs fs' -> (In_union g fs x <-> In_union g fs' x).
Proof.
  intros P. unfold In_union. split; intros [f [I H]]; exists f; split; auto.
  - eapply Permutation_in; eauto.
  - eapply Permutation_in; [apply Permutation_sym|]; eauto.
Qed.

Theorem forget_compose fs j : In j (forget (compose fs)) <-> In_union f_forget fs j.
Proof. unfold compose, from_data; simpl. rewrite dedup_imps_In. apply In_union_flat_map. Qed.

(* known = (union of the files' imports) minus (everything named by the union of the forget lists):
   the right-hand side mentions neither the order of the files nor where a forget directive stands *)
Theorem known_compose fs i :
  In i (known (compose fs)) <-> In_union f_known fs i /\ ~ Forgotten (In_union f_forget fs) i.
Proof.
  unfold compose, from_data; simpl. rewrite set_without_In, dedup_imps_In, In_union_flat_map.
  rewrite (Forgotten_ext (fun j => In j (dedup_imps (flat_map f_forget fs))) (In_union f_forget fs)); [tauto|].
  intros j. rewrite dedup_imps_In. apply In_union_flat_map.
Qed.

Theorem mandatory_compose fs i :
  In i (mandatory (compose fs)) <-> In_union f_mand fs i /\ ~ Forgotten (In_union f_forget fs) i.
Proof.
  unfold compose, from_data; simpl. rewrite set_without_In, dedup_imps_In, In_union_flat_map.
  rewrite (Forgotten_ext (fun j => In j (dedup_imps (flat_map f_forget fs))) (In_union f_forget fs)); [tauto|].
  intros j. rewrite dedup_imps_In. apply In_union_flat_map.
Qed.

(* ---------- the canonical map ---------- *)
Definition last_binding (pairs : list (str * str)) (k : str) : option str :=
  fold_left (fun acc kv => if str_eqb k (fst kv) then Some (snd kv) else acc) pairs None.

Lemma map_get_update m a v k :
  map_get (map_update m a v) k = if str_eqb k a then Some v else map_get m k.
Proof.
  induction m as [|[k' v'] r IH]; simpl; [reflexivity|].
  destruct (str_eqb a k') eqn:E; simpl.
  - apply str_eqb_eq in E. subst. destruct (str_eqb k k'); reflexivity.
  - rewrite IH. destruct (str_eqb k k') eqn:E2; [|reflexivity].
    apply str_eqb_eq in E2. subst. rewrite str_eqb_sym, E. reflexivity.
Qed.

Lemma map_get_fold pairs : forall m k,
  map_get (fold_left (fun m kv => map_update m (fst kv) (snd kv)) pairs m) k =
  fold_left (fun acc kv => if str_eqb k (fst kv) then Some (snd kv) else acc) pairs (map_get m k).
Proof.
  induction pairs as [|[a v] r IH]; intros m k; simpl; [reflexivity|].
  rewrite IH, map_get_update. reflexivity.
Qed.

Lemma map_get_merge pairs k : map_get (map_merge pairs) k = last_binding pairs k.
Proof. unfold map_merge, last_binding. rewrite map_get_fold. reflexivity. Qed.

Lemma map_update_keys m a v x : In x (map fst (map_update m a v)) <-> x = a \/ In x (map fst m).
Proof.
  induction m as [|[k' v'] r IH]; simpl; [intuition|].
  destruct (str_eqb a k') eqn:E; simpl.
  - apply str_eqb_eq in E. subst. intuition.
  - rewrite IH. intuition.
Qed.

Lemma map_update_nodup m a v : NoDup (map fst m) -> NoDup (map fst (map_update m a v)).
Proof.
  induction m as [|[k' v'] r IH]; simpl; intros H.
  - constructor; [intros []|constructor].
  - destruct (str_eqb a k') eqn:E; simpl; [exact H|].
    inversion H as [|? ? N H']; subst. constructor; [|apply IH; exact H'].
    rewrite map_update_keys. intros [X|X]; [|contradiction].
    subst. rewrite str_eqb_refl in E. discriminate.
Qed.

Lemma map_merge_nodup pairs : NoDup (map fst (map_merge pairs)).
Proof.
  unfold map_merge. assert (G : forall m, NoDup (map fst m) ->
    NoDup (map fst (fold_left (fun m kv => map_update m (fst kv) (snd kv)) pairs m))).
  { induction pairs as [|[a v] r IH]; intros m H; simpl; auto. apply IH. apply map_update_nodup. exact H. }
  apply G. constructor.
Qed.

Lemma map_get_absent m k : ~ In k (map fst m) -> map_get m k = None.
Proof.
  induction m as [|[k' v'] r IH]; simpl; intros H; [reflexivity|].
  destruct (str_eqb k k') eqn:E.
  - apply str_eqb_eq in E. subst. exfalso. auto.
  - apply IH. auto.
Qed.

Lemma map_get_filter P m k : NoDup (map fst m) ->
  map_get (filter P m) k = match map_get m k with
                           | Some v => if P (k, v) then Some v else None
                           | None => None
                           end.
Proof.
  induction m as [|[k' v'] r IH]; simpl; intros H; [reflexivity|].
  inversion H as [|? ? N H']; subst.
  destruct (str_eqb k k') eqn:E.
  - apply str_eqb_eq in E. subst k'. destruct (P (k, v')); simpl.
    + rewrite str_eqb_refl. reflexivity.
    + rewrite (IH H'). rewrite (map_get_absent r k N). reflexivity.
  - destruct (P (k', v')); simpl; [rewrite E|]; apply IH; exact H'.
Qed.

(* canonical = the files' maps merged in load order (a later file wins on a shared key), minus the
   entries whose key or value is named by any forget list *)
Theorem canonical_compose fs k v :
  map_get (canonical (compose fs)) k = Some v <->
  last_binding (flat_map f_canon fs) k = Some v /\
  ~ In_union f_forget fs (imp_of_ident k) /\ ~ In_union f_forget fs (imp_of_ident v).
Proof.
  unfold compose, from_data; simpl canonical. unfold map_without.
  set (R := dedup_imps (flat_map f_forget fs)).
  assert (HR : forall j, In j R <-> In_union f_forget fs j).
  { intros j. unfold R. rewrite dedup_imps_In. apply In_union_flat_map. }
  destruct (is_nil R) eqn:EN.
  - destruct R; [|discriminate]. rewrite map_get_merge. rewrite <- !HR. simpl. tauto.
  - rewrite map_get_filter by apply map_merge_nodup. rewrite map_get_merge. cbn [fst snd].
    destruct (last_binding (flat_map f_canon fs) k) as [w|] eqn:L.
    2:{ split; [discriminate|intros [X _]; discriminate]. }
    rewrite <- !HR. split.
    + intros H. destruct (mem_imp (imp_of_ident k) R) eqn:B1; simpl in H; [discriminate|].
      destruct (mem_imp (imp_of_ident w) R) eqn:B2; simpl in H; [discriminate|].
      inversion H; subst v. split; [reflexivity|]. split; apply mem_imp_false; assumption.
    + intros [A [B C]]. inversion A; subst w. apply mem_imp_false in B, C. rewrite B, C. reflexivity.
Qed.

(* when the files do not disagree on a key, the merged map is the plain union of the pairs *)
Lemma last_binding_fold pairs k : forall acc,
  fold_left (fun acc kv => if str_eqb k (fst kv) then Some (snd kv) else acc) pairs acc =
  match last_binding pairs k with Some v => Some v | None => acc end.
Proof.
  unfold last_binding. induction pairs as [|[a v] r IH]; intros acc; simpl; [reflexivity|].
  rewrite IH. rewrite (IH (if str_eqb k a then Some v else None)).
  destruct (fold_left _ r None); [reflexivity|]. destruct (str_eqb k a); reflexivity.
Qed.

Lemma last_binding_functional pairs k :
  (forall w w', In (k, w) pairs -> In (k, w') pairs -> w = w') ->
  forall v, (last_binding pairs k = Some v <-> In (k, v) pairs).
Proof.
  induction pairs as [|[a w] r IH]; intros F v.
  - simpl. split; [discriminate|intros []].
  - unfold last_binding. simpl. rewrite last_binding_fold.
    assert (F' : forall w w', In (k, w) r -> In (k, w') r -> w = w') by (intros; apply F; right; auto).
    specialize (IH F').
    destruct (last_binding r k) as [u|] eqn:L.
    + assert (Iu : In (k, u) r) by (apply IH; reflexivity).
      split.
      * intros E. inversion E; subst. right. exact Iu.
      * intros I. f_equal. apply F; [right; exact Iu|exact I].
    + destruct (str_eqb k a) eqn:E.
      * apply str_eqb_eq in E. subst a. split.
        -- intros X. inversion X; subst. left. reflexivity.
        -- intros [X|I]; [inversion X; reflexivity|]. apply IH in I. discriminate.
      * split; [discriminate|]. intros [X|I]; [inversion X; subst; rewrite str_eqb_refl in E; discriminate|].
        apply IH in I. discriminate.
Qed.

(* ---------- order of files and placement of the directives are irrelevant ---------- *)
Theorem compose_order_irrelevant fs fs' :
  Permutation fs fs' ->
  forall i, (In i (known (compose fs)) <-> In i (known (compose fs'))) /\
            (In i (mandatory (compose fs)) <-> In i (mandatory (compose fs'))) /\
            (In i (forget (compose fs)) <-> In i (forget (compose fs'))).
Proof.
  intros P i.
  assert (HF : forall j, In_union f_forget fs j <-> In_union f_forget fs' j) by (intros; apply In_union_perm; exact P).
  rewrite !known_compose, !mandatory_compose, !forget_compose.
  rewrite (In_union_perm f_known fs fs' i P), (In_union_perm f_mand fs fs' i P), (HF i).
  rewrite (Forgotten_ext _ _ i HF). tauto.
Qed.

Theorem canonical_order_irrelevant fs fs' :
  Permutation fs fs' ->
  (forall k w w', In_union f_canon fs (k, w) -> In_union f_canon fs (k, w') -> w = w') ->
  forall k v, map_get (canonical (compose fs)) k = Some v <-> map_get (canonical (compose fs')) k = Some v.
Proof.
  intros P F k v. rewrite !canonical_compose.
  assert (HF : forall j, In_union f_forget fs j <-> In_union f_forget fs' j) by (intros; apply In_union_perm; exact P).
  rewrite <- !HF.
  rewrite (last_binding_functional (flat_map f_canon fs) k).
  2:{ intros w w' A B. apply In_union_flat_map in A, B. eapply F; eauto. }
  rewrite (last_binding_functional (flat_map f_canon fs') k).
  2:{ intros w w' A B. apply In_union_flat_map in A, B.
      apply (In_union_perm f_canon fs fs' _ P) in A, B. eapply F; eauto. }
  rewrite !In_union_flat_map. rewrite (In_union_perm f_canon fs fs' _ P). tauto.
Qed.

(* moving a forget directive (or an import) to another file, or another place in its file, changes nothing *)
Theorem forget_placement_irrelevant fs fs' :
  (forall i, In_union f_known fs i <-> In_union f_known fs' i) ->
  (forall j, In_union f_forget fs j <-> In_union f_forget fs' j) ->
  forall i, In i (known (compose fs)) <-> In i (known (compose fs')).
Proof.
  intros HK HF i. rewrite !known_compose, (HK i), (Forgotten_ext _ _ i HF). tauto.
Qed.

(* ---------- ImportDB.__or__ agrees with loading the files together ---------- *)
Lemma from_data_known kn m c fg i :
  In i (known (from_data kn m c fg)) <-> In i kn /\ ~ Forgotten (fun j => In j fg) i.
Proof.
  unfold from_data; simpl. rewrite set_without_In, dedup_imps_In.
  rewrite (Forgotten_ext (fun j => In j (dedup_imps fg)) (fun j => In j fg)); [tauto|].
  intros j. apply dedup_imps_In.
Qed.

Lemma from_data_mandatory kn m c fg i :
  In i (mandatory (from_data kn m c fg)) <-> In i m /\ ~ Forgotten (fun j => In j fg) i.
Proof.
  unfold from_data; simpl. rewrite set_without_In, dedup_imps_In.
  rewrite (Forgotten_ext (fun j => In j (dedup_imps fg)) (fun j => In j fg)); [tauto|].
  intros j. apply dedup_imps_In.
Qed.

Lemma Forgotten_mono (F G : imp -> Prop) i : (forall j, F j -> G j) -> Forgotten F i -> Forgotten G i.
Proof.
  intros H [A|[j [mj [mi [B D]]]]]; [left; auto|]. right. exists j, mj, mi. split; auto.
Qed.

Lemma In_union_app {A} (g : dbfile -> list A) a b x :
  In_union g (a ++ b) x <-> In_union g a x \/ In_union g b x.
Proof.
  unfold In_union. split.
  - intros [f [I H]]. apply in_app_or in I as [I|I]; [left|right]; exists f; auto.
  - intros [[f [I H]]|[f [I H]]]; exists f; split; auto; apply in_or_app; auto.
Qed.

Theorem or_is_compose_app a b i :
  (In i (known (db_or (compose a) (compose b))) <-> In i (known (compose (a ++ b)))) /\
  (In i (mandatory (db_or (compose a) (compose b))) <-> In i (mandatory (compose (a ++ b)))) /\
  (In i (forget (db_or (compose a) (compose b))) <-> In i (forget (compose (a ++ b)))).
Proof.
  assert (HF : forall j, In j (forget (compose a) ++ forget (compose b)) <-> In_union f_forget (a ++ b) j).
  { intros j. rewrite in_app_iff, !forget_compose, In_union_app. tauto. }
  assert (M1 : Forgotten (In_union f_forget a) i -> Forgotten (In_union f_forget (a ++ b)) i).
  { apply Forgotten_mono. intros j H. apply In_union_app. auto. }
  assert (M2 : Forgotten (In_union f_forget b) i -> Forgotten (In_union f_forget (a ++ b)) i).
  { apply Forgotten_mono. intros j H. apply In_union_app. auto. }
  unfold db_or. split; [|split].
  - rewrite from_data_known, in_app_iff, !known_compose, In_union_app, (Forgotten_ext _ _ i HF). tauto.
  - rewrite from_data_mandatory, in_app_iff, !mandatory_compose, In_union_app, (Forgotten_ext _ _ i HF). tauto.
  - rewrite forget_compose. unfold from_data; simpl. rewrite dedup_imps_In. apply HF.
Qed.

(* ---------- the lookup index ---------- *)
Definition Cand (d : db) (k : str) (i : imp) : Prop :=
  (In i (known d) /\ import_as i = k) \/
  (i = (k, k) /\ exists j, In j (known d) /\ In k (removelast (dotted_prefixes (fullname j)))).

Lemma index_entries_In kn k i :
  In (k, i) (index_entries kn) <->
  (In i kn /\ import_as i = k) \/
  (i = (k, k) /\ exists j, In j kn /\ In k (removelast (dotted_prefixes (fullname j)))).
Proof.
  unfold index_entries. rewrite in_flat_map. split.
  - intros [j [I [H|H]]].
    + inversion H; subst. left. auto.
    + apply in_map_iff in H as [p [E Ip]]. inversion E; subst. right. split; auto. exists j. auto.
  - intros [[I E]|[E [j [I H]]]].
    + exists i. split; auto. left. subst. reflexivity.
    + exists j. split; auto. right. apply in_map_iff. exists k. subst. auto.
Qed.

Lemma values_of_In k es i : In i (values_of k es) <-> In (k, i) es.
Proof.
  unfold values_of. rewrite in_map_iff. split.
  - intros [[k' i'] [E I]]. simpl in E. subst. apply filter_In in I as [I E]. simpl in E.
    apply str_eqb_eq in E. subst. exact I.
  - intros I. exists (k, i). split; auto. apply filter_In. split; auto. simpl. apply str_eqb_refl.
Qed.

Definition index_value (d : db) (k : str) : list imp :=
  isort imp_leb (dedup_imps (filter (fun i => negb (mem_imp i (forget d)))
                                    (values_of k (index_entries (known d))))).

Lemma index_value_In d k i : In i (index_value d k) <-> Cand d k i /\ ~ In i (forget d).
Proof.
  unfold index_value. rewrite isort_In, dedup_imps_In, filter_In, values_of_In, index_entries_In.
  rewrite negb_true_iff, mem_imp_false. unfold Cand. tauto.
Qed.

Lemma index_In ver d k vs :
  In (k, vs) (index ver d) -> vs = index_value d k.
Proof.
  unfold index. intros H.
  assert (R : In (k, vs) (map (fun k => (k, index_value d k)) (dedup_strs (map fst (index_entries (known d))))) ->
              vs = index_value d k).
  { intros I. apply in_map_iff in I as [k' [E _]]. inversion E; subst. reflexivity. }
  destruct ver; [apply R; exact H|]. apply filter_In in H as [H _]. apply R; exact H.
Qed.

(* the value at a key: the known imports bound to that name, and `import k` when k is a proper dotted
   prefix of a known import's full name - each only if the forget list does not name it *)
Theorem index_spec ver d k vs :
  In (k, vs) (index ver d) -> forall i, In i vs <-> Cand d k i /\ ~ In i (forget d).
Proof. intros H i. rewrite (index_In ver d k vs H). apply index_value_In. Qed.

Theorem index_respects_forget ver d k vs i :
  In (k, vs) (index ver d) -> In i vs -> ~ In i (forget d).
Proof. intros H I. apply (index_spec ver d k vs H) in I. tauto. Qed.

(* at the level of the files: nothing named (exactly) by any forget list is offered by the index,
   parent-package entries included *)
Theorem index_respects_forget_files ver fs k vs i :
  In (k, vs) (index ver (compose fs)) -> In i vs -> ~ In_union f_forget fs i.
Proof. intros H I. rewrite <- forget_compose. eapply index_respects_forget; eauto. Qed.

(* repaired index: every key has at least one candidate *)
Theorem index_values_nonempty d k vs : In (k, vs) (index Fixed d) -> vs <> [].
Proof.
  unfold index. intros H. apply filter_In in H as [_ H]. simpl in H.
  destruct vs; [discriminate|discriminate].
Qed.

(* and the keys are exactly the names that have a candidate left *)
Theorem index_keys d k :
  (exists vs, In (k, vs) (index Fixed d)) <-> exists i, Cand d k i /\ ~ In i (forget d).
Proof.
  split.
  - intros [vs H]. pose proof (index_values_nonempty d k vs H) as N.
    destruct vs as [|i vs]; [contradiction|]. exists i. apply (index_spec Fixed d k _ H). left. reflexivity.
  - intros [i [C N]]. exists (index_value d k). unfold index. apply filter_In. split.
    + apply in_map_iff. exists k. split; auto. apply dedup_strs_In. apply in_map_iff.
      exists (k, i). split; auto. apply index_entries_In. exact C.
    + simpl. assert (I : In i (index_value d k)) by (apply index_value_In; auto).
      destruct (index_value d k); [destruct I|reflexivity].
Qed.

(* unchanged index (F21): a key can be left with the empty tuple *)
Definition f21_file : dbfile :=
  mkDbfile [(dec "pk.sub.mod", dec "pk.sub.mod")] [] [] [(dec "pk.sub", dec "pk.sub")].

Theorem index_values_nonempty_orig_refuted :
  exists d k, In (k, []) (index Orig d).
Proof. exists (compose [f21_file]), (dec "pk.sub"). vm_compute. intuition reflexivity. Qed.

Example index_fixed_f21 :
  map fst (index Fixed (compose [f21_file])) = [dec "pk.sub.mod"; dec "pk"] /\
  map fst (index Orig (compose [f21_file])) = [dec "pk.sub.mod"; dec "pk"; dec "pk.sub"].
Proof. vm_compute. split; reflexivity. Qed.

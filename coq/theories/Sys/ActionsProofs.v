(* Proofs about Sys/Actions.v (C09). *)
From Coq Require Import NArith List Bool Lia.
From Verif Require Import Base.Chars Sys.Actions.
Import ListNotations.

(* ---------------------------------------------------------------------------------------------
   option folding (policy_survives_options) *)

Lemma sym_action_is_sym s : is_sym (sym_action s) = true.
Proof. destruct s; reflexivity. Qed.

Lemma filter_not_sym_all l : Forall (fun a => not_sym a = true) (filter not_sym l).
Proof. apply Forall_forall. intros a Ha. apply filter_In in Ha. tauto. Qed.

Lemma filter_is_sym_none l : Forall (fun a => not_sym a = true) l -> filter is_sym l = [].
Proof.
  induction 1 as [|a l Ha _ IH]; cbn; auto.
  unfold not_sym in Ha. destruct (is_sym a); cbn in *; [discriminate | exact IH].
Qed.

(* the tuple is "policy action first, no other symlink action" *)
Definition policy_headed (s : symval) (acts : list action) : Prop :=
  exists tl, acts = sym_action s :: tl /\ Forall (fun a => not_sym a = true) tl.

Lemma set_actions_keeps fx s cur new :
  fix_F4 fx = true -> policy_headed s cur -> policy_headed s (set_actions fx cur new).
Proof.
  intros Hfx (tl & -> & Htl). unfold set_actions. rewrite Hfx. cbn [filter].
  rewrite sym_action_is_sym, (filter_is_sym_none tl Htl). cbn.
  eexists. split; [reflexivity | apply filter_not_sym_all].
Qed.

Lemma fold_policy fx : fix_F4 fx = true -> forall opts s cur acts,
  policy_headed s cur -> fold_left (opt_step fx) opts (Some cur) = Some acts ->
  policy_headed (last_symlinks opts s) acts.
Proof.
  intros Hfx. induction opts as [|o opts IH]; intros s cur acts Hc Hf.
  - cbn in Hf. inversion Hf; subst. exact Hc.
  - cbn [fold_left] in Hf.
    assert (Hnone : forall l, fold_left (opt_step fx) l None = None) by (induction l; cbn; auto).
    destruct o; cbn [opt_step] in Hf; cbn [last_symlinks];
      try (rewrite Hnone in Hf; discriminate);
      try (eapply IH; [|exact Hf]; apply set_actions_keeps; assumption).
    + (* --symlinks=s0 *)
      eapply IH; [|exact Hf]. eexists. split; [reflexivity | apply filter_not_sym_all].
    + (* other option *)
      eapply IH; eauto.
Qed.

Lemma policy_survives_options fx tty opts acts :
  fix_F4 fx = true -> fold_options fx tty opts = Some acts ->
  policy_headed (last_symlinks opts SVError) acts.
Proof.
  intros Hfx Hf. unfold fold_options in Hf. cbn [fold_left opt_step] in Hf.
  eapply (fold_policy fx Hfx opts SVError); [|exact Hf].
  eexists. split; [reflexivity | apply filter_not_sym_all].
Qed.

(* ---------------------------------------------------------------------------------------------
   file system, single actions *)

Lemma upd_same f p v : upd f p v p = v.
Proof. unfold upd. now rewrite N.eqb_refl. Qed.
Lemma upd_other f p v q : q <> p -> upd f p v q = f q.
Proof. unfold upd. intros H. destruct (N.eqb_spec q p); congruence. Qed.

Lemma resolve_nonlink : forall n f p q, resolve n f p = Some q -> islink f q = false.
Proof.
  induction n as [|n IH]; intros f p q H; cbn in H; [discriminate|].
  destruct (f p) as [[c g|g|t|ents]|] eqn:Hp; try (inversion H; subst; unfold islink; now rewrite Hp).
  eapply IH; eauto.
Qed.

Lemma resolve_fix n f q : islink f q = false -> resolve (S n) f q = Some q.
Proof. unfold islink. cbn. destruct (f q) as [[c g|g|t|ents]|]; congruence. Qed.

Lemma read_path_realpath f p c0 : read_path f p = Some c0 -> read_path f (realpath f p) = Some c0.
Proof.
  unfold read_path, realpath. destruct (resolve max_hops f p) as [q|] eqn:Hr; [|discriminate].
  intros H. unfold max_hops. rewrite (resolve_fix 40 f q (resolve_nonlink _ _ _ _ Hr)). exact H.
Qed.

Lemma node_eq_dec : forall a b : option node, {a = b} + {a <> b}.
Proof. repeat decide equality. Qed.

Lemma force_input_mfile f m m' c : force_input f m = Some (m', c) -> mfile m' = mfile m.
Proof. unfold force_input. destruct (minput m); [|destruct (read_path f (mfile m))]; intros H; inversion H; subst; auto. Qed.

Lemma force_output_mfile modf f m :
  match force_output modf f m with FOk m' _ => mfile m' = mfile m | FErr m' _ => mfile m' = mfile m end.
Proof.
  unfold force_output. destruct (moutput m); auto.
  destruct (force_input f m) as [[m1 c]|] eqn:Hi; auto.
  apply force_input_mfile in Hi. destruct (modf c); cbn; auto.
Qed.

Lemma action_eq_dec : forall a b : action, {a = b} + {a <> b}.
Proof. decide equality. Qed.

Section Acts.
Variables (fx : fixes) (modf : str -> option str).

(* only REPLACE writes *)
Lemma act_fs a m s : a <> Replace -> pfs (snd (act fx modf a m s)) = pfs s.
Proof.
  intros Ha. destruct a; try congruence; cbn.
  - destruct (force_output modf (pfs s) m); reflexivity.
  - destruct (force_output modf (pfs s) m) as [m' o|m' k]; [|reflexivity].
    destruct (force_input (pfs s) m') as [[m'' c]|]; [destruct (str_eqb o c)|]; reflexivity.
  - destruct (pans s) as [|x r]; [reflexivity|]. destruct (is_yes x); reflexivity.
  - destruct (force_output modf (pfs s) m); reflexivity.
  - reflexivity.
  - destruct (force_output modf (pfs s) m); reflexivity.
  - destruct (islink (pfs s) (mfile m)); reflexivity.
  - destruct (islink (pfs s) (mfile m)); reflexivity.
  - destruct (islink (pfs s) (mfile m)); reflexivity.
  - reflexivity.
Qed.

Lemma act_replace m s :
  (exists m' k, act fx modf Replace m s = (Error k, m', s) /\ force_output modf (pfs s) m = FErr m' k) \/
  (exists m' o, force_output modf (pfs s) m = FOk m' o /\ mfile m' = mfile m /\
     act fx modf Replace m s =
       (Normal, m', mkP (upd (pfs s) (mfile m) (Some (NFile o (pgen s)))) (N.succ (pgen s)) (pans s)
                        (pout s ++ [EvWrite (mfile m) o]))).
Proof.
  cbn. pose proof (force_output_mfile modf (pfs s) m) as Hm.
  destruct (force_output modf (pfs s) m) as [m' o|m' k].
  - right. exists m', o. rewrite Hm. auto.
  - left. exists m', k. auto.
Qed.

Definition all_normal (pre : list action) (m : mstate) (s : pstate) : option (mstate * pstate) :=
  match run_actions fx modf pre m s with (Normal, m', s') => Some (m', s') | _ => None end.

Lemma run_actions_cons a rest m s :
  run_actions fx modf (a :: rest) m s =
  match act fx modf a m s with (Normal, m', s') => run_actions fx modf rest m' s' | r => r end.
Proof. reflexivity. Qed.

(* replace_needs_go_ahead, one file: a path changes only through a REPLACE in the tuple all of
   whose predecessors returned normally, it is the Modifier's current file name, and the rewriter
   succeeded on the file *)
Lemma go_ahead_file : forall acts m s oc m' s' p,
  run_actions fx modf acts m s = (oc, m', s') -> pfs s' p <> pfs s p ->
  exists pre post mp sp mo o,
    acts = pre ++ Replace :: post /\ all_normal pre m s = Some (mp, sp) /\ mfile mp = p /\
    force_output modf (pfs sp) mp = FOk mo o.
Proof.
  induction acts as [|a rest IH]; intros m s oc m' s' p Hr Hp.
  - cbn in Hr. inversion Hr; subst. congruence.
  - rewrite run_actions_cons in Hr.
    destruct (action_eq_dec a Replace) as [->|Hna].
    + destruct (act_replace m s) as [(m1 & k & Ha & _) | (m1 & o & Hfo & Hmf & Ha)]; rewrite Ha in Hr.
      * inversion Hr; subst. congruence.
      * destruct (N.eq_dec p (mfile m)) as [->|Hne].
        -- exists [], rest, m, s, m1, o. cbn. unfold all_normal. cbn. auto.
        -- destruct (IH _ _ _ _ _ p Hr) as (pre & post & mp & sp & mo & o' & -> & Han & Hmp & Hfo').
           { cbn [pfs]. rewrite upd_other by exact Hne. exact Hp. }
           exists (Replace :: pre), post, mp, sp, mo, o'. split; [reflexivity|]. split; [|auto].
           unfold all_normal in *. rewrite run_actions_cons, Ha. exact Han.
    + pose proof (act_fs a m s Hna) as Hfs.
      destruct (act fx modf a m s) as [[oc1 m1] s1] eqn:Ha. cbn in Hfs.
      destruct oc1; try (inversion Hr; subst; congruence).
      destruct (IH _ _ _ _ _ p Hr) as (pre & post & mp & sp & mo & o' & -> & Han & Hmp & Hfo').
      { now rewrite Hfs. }
      exists (a :: pre), post, mp, sp, mo, o'. split; [reflexivity|]. split; [|auto].
      unfold all_normal in *. rewrite run_actions_cons, Ha. exact Han.
Qed.
End Acts.

(* ---------------------------------------------------------------------------------------------
   the per-file loop *)

Section Loop.
Variables (fx : fixes) (modf : str -> option str) (acts : list action).

Notation fstep := (file_step fx modf acts).

Lemma file_step_lst l x : lfatal l = false ->
  lst (fstep l x) = snd (run_actions fx modf acts (fresh x) (lst l)).
Proof.
  intros Hf. unfold file_step. rewrite Hf.
  destruct (run_actions fx modf acts (fresh x) (lst l)) as [[oc m'] s']. destruct oc; reflexivity.
Qed.

Lemma file_step_fatal l x : lfatal l = true -> fstep l x = l.
Proof. intros Hf. unfold file_step. now rewrite Hf. Qed.

Lemma fold_fatal files l : lfatal l = true -> fold_left fstep files l = l.
Proof. revert l. induction files as [|x xs IH]; intros l Hf; cbn; auto. rewrite file_step_fatal by exact Hf. auto. Qed.

(* replace_needs_go_ahead over the whole argument list *)
Lemma go_ahead_loop : forall files l p,
  pfs (lst (fold_left fstep files l)) p <> pfs (lst l) p ->
  exists files1 file files2 pre post mp sp mo o,
    files = files1 ++ file :: files2 /\
    lfatal (fold_left fstep files1 l) = false /\
    acts = pre ++ Replace :: post /\
    all_normal fx modf pre (fresh file) (lst (fold_left fstep files1 l)) = Some (mp, sp) /\
    mfile mp = p /\ force_output modf (pfs sp) mp = FOk mo o.
Proof.
  induction files as [|x xs IH]; intros l p Hp.
  - cbn in Hp. congruence.
  - cbn [fold_left] in Hp.
    destruct (node_eq_dec (pfs (lst (fstep l x)) p) (pfs (lst l) p)) as [Heq | Hne].
    + rewrite <- Heq in Hp.
      destruct (IH _ _ Hp) as (f1 & file & f2 & pre & post & mp & sp & mo & o & -> & Hnf & Ha & Han & Hm & Hfo).
      exists (x :: f1), file, f2, pre, post, mp, sp, mo, o. cbn [fold_left app]. auto 10.
    + destruct (lfatal l) eqn:Hf; [rewrite file_step_fatal in Hne by exact Hf; congruence|].
      rewrite file_step_lst in Hne by exact Hf.
      destruct (run_actions fx modf acts (fresh x) (lst l)) as [[oc m'] s'] eqn:Hr. cbn [snd] in Hne.
      destruct (go_ahead_file fx modf acts _ _ _ _ _ p Hr Hne) as (pre & post & mp & sp & mo & o & Ha & Han & Hm & Hfo).
      exists [], x, xs, pre, post, mp, sp, mo, o. cbn [fold_left app]. auto 10.
Qed.

(* PRINT/DIFF-only (any tuple without REPLACE): nothing changes *)
Lemma run_no_replace : forall l m s, ~ In Replace l ->
  pfs (snd (run_actions fx modf l m s)) = pfs s.
Proof.
  induction l as [|a rest IH]; intros m s Hn; [reflexivity|].
  rewrite run_actions_cons.
  assert (Ha : a <> Replace) by (intros ->; apply Hn; left; reflexivity).
  pose proof (act_fs fx modf a m s Ha) as Hfs.
  destruct (act fx modf a m s) as [[oc m1] s1]. cbn in Hfs.
  destruct oc; cbn [snd]; try exact Hfs.
  rewrite IH; [exact Hfs | intros Hin; apply Hn; right; exact Hin].
Qed.

Lemma loop_no_replace : ~ In Replace acts -> forall files l,
  pfs (lst (fold_left fstep files l)) = pfs (lst l).
Proof.
  intros Hn. induction files as [|x xs IH]; intros l; [reflexivity|].
  cbn [fold_left]. rewrite IH.
  destruct (lfatal l) eqn:Hf; [now rewrite file_step_fatal|].
  rewrite file_step_lst by exact Hf. now apply run_no_replace.
Qed.

(* errors_do_not_stop *)
Definition never_fatal : Prop := fix_F5 fx = true \/ ~ In SymErr acts.

Lemma act_not_fatal a m s : (fix_F5 fx = true \/ a <> SymErr) -> fst (fst (act fx modf a m s)) <> Fatal.
Proof.
  intros H. destruct a; cbn.
  - destruct (force_output modf (pfs s) m); cbn; discriminate.
  - destruct (force_output modf (pfs s) m); cbn; discriminate.
  - destruct (force_output modf (pfs s) m) as [m' o|m' k]; cbn; [|discriminate].
    destruct (force_input (pfs s) m') as [[m'' c]|]; [destruct (str_eqb o c)|]; cbn; discriminate.
  - destruct (pans s) as [|x r]; cbn; [discriminate|]. destruct (is_yes x); cbn; discriminate.
  - destruct (force_output modf (pfs s) m); cbn; discriminate.
  - discriminate.
  - destruct (force_output modf (pfs s) m); cbn; discriminate.
  - destruct (islink (pfs s) (mfile m)); cbn; [|discriminate].
    destruct H as [-> | H]; [discriminate | congruence].
  - destruct (islink (pfs s) (mfile m)); cbn; discriminate.
  - destruct (islink (pfs s) (mfile m)); cbn; discriminate.
  - discriminate.
Qed.

Lemma run_not_fatal : forall l m s, (fix_F5 fx = true \/ ~ In SymErr l) ->
  fst (fst (run_actions fx modf l m s)) <> Fatal.
Proof.
  induction l as [|a rest IH]; intros m s H; [cbn; discriminate|].
  rewrite run_actions_cons.
  assert (Ha : fix_F5 fx = true \/ a <> SymErr).
  { destruct H as [H|H]; [left; exact H | right; intros ->; apply H; left; reflexivity]. }
  pose proof (act_not_fatal a m s Ha) as Hnf.
  destruct (act fx modf a m s) as [[oc m1] s1]. cbn in Hnf.
  destruct oc; cbn; try discriminate; try congruence.
  apply IH. destruct H as [H|H]; [left; exact H | right; intros Hin; apply H; right; exact Hin].
Qed.

Definition loop_ok (l : loop) : Prop :=
  lfatal l = false /\ (forall file k, In (file, Error k) (llog l) -> In (file, k) (lerrs l)) /\
  (forall file, In (file, ExitOne) (llog l) -> lexit l = 1%N).

Lemma ok_append l s' ex errs' x oc :
  loop_ok l -> oc <> Fatal ->
  (forall k, oc = Error k -> In (x, k) errs') -> (forall e, In e (lerrs l) -> In e errs') ->
  (oc = ExitOne -> ex = 1%N) -> (lexit l = 1%N -> ex = 1%N) ->
  loop_ok (mkL s' ex errs' (llog l ++ [(x, oc)]) false).
Proof.
  intros (Hf & Herr & Hex) Hnf He Hinc Hx1 Hx2. unfold loop_ok. cbn [lfatal llog lerrs lexit].
  split; [reflexivity|]. split.
  - intros file k Hin. apply in_app_or in Hin. destruct Hin as [Hin | [Heq | []]].
    + apply Hinc. apply Herr. exact Hin.
    + inversion Heq; subst. auto.
  - intros file Hin. apply in_app_or in Hin. destruct Hin as [Hin | [Heq | []]].
    + apply Hx2. apply (Hex file). exact Hin.
    + inversion Heq; subst. auto.
Qed.

Lemma file_step_ok l x : never_fatal -> loop_ok l ->
  loop_ok (fstep l x) /\ map fst (llog (fstep l x)) = map fst (llog l) ++ [x] /\
  (forall e, In e (lerrs l) -> In e (lerrs (fstep l x))).
Proof.
  intros Hnf Hok. pose proof Hok as (Hf & _). unfold file_step. rewrite Hf.
  pose proof (run_not_fatal acts (fresh x) (lst l) Hnf) as Hno.
  destruct (run_actions fx modf acts (fresh x) (lst l)) as [[oc m'] s']. cbn in Hno.
  destruct oc; try congruence; cbn [llog lerrs]; rewrite map_app; cbn [map fst].
  - split; [|split; auto]. apply ok_append; auto; discriminate.
  - split; [|split; auto]. apply ok_append; auto; discriminate.
  - split; [|split; auto]. apply ok_append; auto; discriminate.
  - split; [|split; [reflexivity | intros e He; apply in_or_app; left; exact He]].
    apply ok_append; auto; try discriminate.
    + intros k0 Hk. inversion Hk; subst. apply in_or_app. right. left. reflexivity.
    + intros e He. apply in_or_app. left. exact He.
Qed.

Lemma loop_all_processed : never_fatal -> forall files l, loop_ok l ->
  let l' := fold_left fstep files l in
  loop_ok l' /\ map fst (llog l') = map fst (llog l) ++ files /\
  (forall e, In e (lerrs l) -> In e (lerrs l')).
Proof.
  intros Hnf. induction files as [|x xs IH]; intros l Hok; cbn [fold_left].
  - rewrite app_nil_r. auto.
  - destruct (file_step_ok l x Hnf Hok) as (Hok1 & Hlog1 & Hinc1).
    destruct (IH _ Hok1) as (Hok' & Hlog' & Hinc').
    split; [exact Hok'|]. split; [|auto].
    rewrite Hlog', Hlog1, <- app_assoc. reflexivity.
Qed.
End Loop.

(* ---------------------------------------------------------------------------------------------
   the no-op cases *)

Lemma str_eqb_refl s : str_eqb s s = true.
Proof. induction s as [|c s IH]; cbn; auto. now rewrite N.eqb_refl, IH. Qed.

Section Noop.
Variables (fx : fixes) (modf : str -> option str).

(* a tuple  pre ++ G :: post  in which G never lets the file through and pre contains no REPLACE *)
Lemma guarded (I : mstate -> pstate -> Prop) (G : action) :
  (forall a m s, a <> Replace -> I m s ->
     fst (fst (act fx modf a m s)) = Normal -> I (snd (fst (act fx modf a m s))) (snd (act fx modf a m s))) ->
  (forall m s, I m s -> fst (fst (act fx modf G m s)) <> Normal) -> G <> Replace ->
  forall pre post m s, ~ In Replace pre -> I m s ->
  pfs (snd (run_actions fx modf (pre ++ G :: post) m s)) = pfs s.
Proof.
  intros Hpres Hguard HG. induction pre as [|a pre IH]; intros post m s Hn HI.
  - cbn [app]. rewrite run_actions_cons.
    pose proof (Hguard m s HI) as Hg. pose proof (act_fs fx modf G m s HG) as Hfs.
    destruct (act fx modf G m s) as [[oc m1] s1]. cbn in Hg, Hfs.
    destruct oc; cbn [snd]; congruence.
  - cbn [app]. rewrite run_actions_cons.
    assert (Ha : a <> Replace) by (intros ->; apply Hn; left; reflexivity).
    pose proof (Hpres a m s Ha HI) as Hp. pose proof (act_fs fx modf a m s Ha) as Hfs.
    destruct (act fx modf a m s) as [[oc m1] s1]. cbn in Hp, Hfs.
    destruct oc; cbn [snd]; try exact Hfs.
    rewrite IH; [exact Hfs | intros Hin; apply Hn; right; exact Hin | apply Hp; reflexivity].
Qed.

(* the Modifier still sees the text c0 of the file it was created for *)
Definition stable (c0 : str) (f : fs) (m : mstate) : Prop :=
  read_path f (mfile m) = Some c0 /\ (minput m = None \/ minput m = Some c0).

Lemma force_input_stable c0 f m : stable c0 f m ->
  exists m', force_input f m = Some (m', c0) /\ stable c0 f m' /\ moutput m' = moutput m /\ minput m' = Some c0 /\
             mfile m' = mfile m.
Proof.
  intros [Hr Hi]. unfold force_input. destruct Hi as [Hi | Hi]; rewrite Hi.
  - rewrite Hr. eexists. split; [reflexivity|]. unfold stable. cbn. auto.
  - exists m. unfold stable. auto 6.
Qed.

Lemma follow_stable c0 f m : stable c0 f m -> islink f (mfile m) = true ->
  stable c0 f (mkM (realpath f (mfile m)) (minput m) (moutput m)).
Proof.
  intros [Hr Hi] _. unfold stable. cbn. split; [|exact Hi]. now apply read_path_realpath.
Qed.

(* --- the rewriter fails on the file: nothing is written, whatever the tuple *)
Definition failing (c0 : str) (m : mstate) (s : pstate) : Prop := stable c0 (pfs s) m /\ moutput m = None.

Lemma force_output_failing c0 m s : modf c0 = None -> failing c0 m s ->
  exists m', force_output modf (pfs s) m = FErr m' ErrModify.
Proof.
  intros Hm [Hs Ho]. unfold force_output. rewrite Ho.
  destruct (force_input_stable c0 _ _ Hs) as (m' & -> & _). rewrite Hm. eauto.
Qed.

Lemma act_failing c0 a m s : modf c0 = None -> failing c0 m s ->
  pfs (snd (act fx modf a m s)) = pfs s /\
  (fst (fst (act fx modf a m s)) = Normal -> failing c0 (snd (fst (act fx modf a m s))) (snd (act fx modf a m s))).
Proof.
  intros Hm HF. destruct (force_output_failing c0 m s Hm HF) as (m' & Hfo).
  destruct a; cbn; rewrite ?Hfo; cbn; try (split; [reflexivity | discriminate]).
  - destruct (pans s) as [|x r]; cbn; [split; [reflexivity | discriminate]|].
    destruct (is_yes x); cbn; split; auto; try discriminate.
  - destruct (islink (pfs s) (mfile m)); cbn; (split; [reflexivity|]); [|auto].
    destruct (fix_F5 fx); discriminate.
  - destruct (islink (pfs s) (mfile m)) eqn:Hl; cbn; (split; [reflexivity|]); [|auto]. intros _.
    destruct HF as [Hs Ho]. split; [apply follow_stable; auto | exact Ho].
  - destruct (islink (pfs s) (mfile m)); cbn; (split; [reflexivity|]); [discriminate | auto].
  - split; auto.
Qed.

Lemma modifier_failure_file c0 : modf c0 = None -> forall acts m s, failing c0 m s ->
  pfs (snd (run_actions fx modf acts m s)) = pfs s.
Proof.
  intros Hm. induction acts as [|a rest IH]; intros m s HF; [reflexivity|].
  rewrite run_actions_cons. destruct (act_failing c0 a m s Hm HF) as [Hfs Hn].
  destruct (act fx modf a m s) as [[oc m1] s1]. cbn in Hfs, Hn.
  destruct oc; cbn [snd]; try exact Hfs.
  rewrite IH; [exact Hfs | apply Hn; reflexivity].
Qed.

(* --- IFCHANGED ahead of the first REPLACE, rewriter output equal to the input *)
Definition same_out (c0 : str) (m : mstate) (s : pstate) : Prop :=
  stable c0 (pfs s) m /\ (moutput m = None \/ moutput m = Some c0).

Lemma force_output_same c0 m s : modf c0 = Some c0 -> same_out c0 m s ->
  exists m', force_output modf (pfs s) m = FOk m' c0 /\ same_out c0 m' s /\ mfile m' = mfile m.
Proof.
  intros Hm [Hs Ho]. unfold force_output. destruct Ho as [Ho | Ho]; rewrite Ho.
  - destruct (force_input_stable c0 _ _ Hs) as (m' & -> & [Hr' Hin'] & Ho' & Hi' & Hmf'). rewrite Hm.
    eexists. split; [reflexivity|]. split; [|exact Hmf'].
    unfold same_out, stable. cbn. auto.
  - exists m. unfold same_out. auto.
Qed.

Lemma act_same c0 a m s : modf c0 = Some c0 -> a <> Replace -> same_out c0 m s ->
  fst (fst (act fx modf a m s)) = Normal -> same_out c0 (snd (fst (act fx modf a m s))) (snd (act fx modf a m s)).
Proof.
  intros Hm Ha HS. destruct (force_output_same c0 m s Hm HS) as (m' & Hfo & HS' & Hmf).
  destruct a; try congruence; cbn; rewrite ?Hfo; cbn.
  - (* Print *) intros _. exact HS'.
  - (* IfChanged *)
    destruct HS' as [Hst Ho]. destruct (force_input_stable c0 _ _ Hst) as (m'' & -> & _).
    rewrite str_eqb_refl. cbn. discriminate.
  - (* Query *)
    destruct (pans s) as [|x r]; cbn; [discriminate|]. destruct (is_yes x); cbn; [intros _; exact HS | discriminate].
  - (* Diff *) intros _. exact HS'.
  - (* Exit1 *) discriminate.
  - (* Execute *) intros _. exact HS'.
  - (* SymErr *)
    destruct (islink (pfs s) (mfile m)); cbn; [destruct (fix_F5 fx); discriminate | intros _; exact HS].
  - (* SymFollow *)
    destruct (islink (pfs s) (mfile m)) eqn:Hl; cbn; [|intros _; exact HS]. intros _.
    destruct HS as [Hs Ho]. split; [apply follow_stable; auto | exact Ho].
  - (* SymSkip *)
    destruct (islink (pfs s) (mfile m)); cbn; [discriminate | intros _; exact HS].
  - (* SymReplace *) intros _. exact HS.
Qed.

Lemma ifchanged_guards c0 m s : modf c0 = Some c0 -> same_out c0 m s ->
  fst (fst (act fx modf IfChanged m s)) <> Normal.
Proof.
  intros Hm HS. destruct (force_output_same c0 m s Hm HS) as (m' & Hfo & [Hst Ho] & _).
  cbn. rewrite Hfo. destruct (force_input_stable c0 _ _ Hst) as (m'' & -> & _).
  rewrite str_eqb_refl. cbn. discriminate.
Qed.

Lemma ifchanged_unchanged_file c0 pre post m s :
  modf c0 = Some c0 -> ~ In Replace pre -> same_out c0 m s ->
  pfs (snd (run_actions fx modf (pre ++ IfChanged :: post) m s)) = pfs s.
Proof.
  intros Hm Hn HS.
  apply (guarded (same_out c0) IfChanged); auto; try discriminate.
  - intros a m0 s0 Ha HI. apply act_same; auto.
  - intros m0 s0 HI. apply ifchanged_guards with (c0 := c0); auto.
Qed.

(* --- QUERY ahead of the first REPLACE and no answer is a yes *)
Definition no_yes (m : mstate) (s : pstate) : Prop := Forall (fun x => is_yes x = false) (pans s).

Lemma act_pans a m s : pans (snd (act fx modf a m s)) = pans s \/ exists x, pans s = x :: pans (snd (act fx modf a m s)).
Proof.
  destruct a; cbn; auto.
  - destruct (force_output modf (pfs s) m); auto.
  - destruct (force_output modf (pfs s) m); auto.
  - destruct (force_output modf (pfs s) m) as [m' o|]; auto.
    destruct (force_input (pfs s) m') as [[m'' c]|]; [destruct (str_eqb o c)|]; auto.
  - destruct (pans s) as [|x r] eqn:Hp; cbn; [left; exact Hp|]. destruct (is_yes x); cbn; right; exists x; reflexivity.
  - destruct (force_output modf (pfs s) m); auto.
  - destruct (force_output modf (pfs s) m); auto.
  - destruct (islink (pfs s) (mfile m)); auto.
  - destruct (islink (pfs s) (mfile m)); auto.
  - destruct (islink (pfs s) (mfile m)); auto.
Qed.

Lemma query_no_file pre post m s :
  ~ In Replace pre -> no_yes m s ->
  pfs (snd (run_actions fx modf (pre ++ Query :: post) m s)) = pfs s.
Proof.
  intros Hn HS. apply (guarded no_yes Query); auto; try discriminate.
  - intros a m0 s0 _ HI _. unfold no_yes in *.
    destruct (act_pans a m0 s0) as [-> | (x & Hx)]; auto. rewrite Hx in HI. now inversion HI.
  - intros m0 s0 HI. unfold no_yes in HI. cbn. destruct (pans s0) as [|x r]; cbn; [discriminate|].
    inversion HI as [|? ? Hx _]; subst. rewrite Hx. cbn. discriminate.
Qed.

(* --- a symlink under the error / skip policy (policy action first) *)
Lemma sym_err_skip_file a rest m s :
  a = SymErr \/ a = SymSkip -> islink (pfs s) (mfile m) = true ->
  pfs (snd (run_actions fx modf (a :: rest) m s)) = pfs s /\
  fst (fst (run_actions fx modf (a :: rest) m s)) <> Normal.
Proof.
  intros [-> | ->] Hl; rewrite run_actions_cons; cbn; rewrite Hl.
  - destruct (fix_F5 fx); cbn; split; auto; discriminate.
  - cbn. split; auto; discriminate.
Qed.

(* --- everything a file's actions write goes to the Modifier's file name, which only SYMFOLLOW
       moves (to the link's target); with a non-link name nothing else is ever written *)
Lemma writes_only_there : forall acts m s p,
  islink (pfs s) (mfile m) = false -> p <> mfile m ->
  pfs (snd (run_actions fx modf acts m s)) p = pfs s p.
Proof.
  induction acts as [|a rest IH]; intros m s p Hl Hp; [reflexivity|].
  rewrite run_actions_cons.
  destruct (action_eq_dec a Replace) as [->|Ha].
  - destruct (act_replace fx modf m s) as [(m1 & k & -> & _) | (m1 & o & _ & Hmf & ->)]; [reflexivity|].
    rewrite IH; cbn [pfs].
    + now rewrite upd_other.
    + rewrite Hmf. unfold islink. now rewrite upd_same.
    + now rewrite Hmf.
  - pose proof (act_fs fx modf a m s Ha) as Hfs.
    assert (Hmf : fst (fst (act fx modf a m s)) = Normal -> mfile (snd (fst (act fx modf a m s))) = mfile m).
    { pose proof (force_output_mfile modf (pfs s) m) as Hfo.
      destruct a; try congruence; cbn;
        try (destruct (force_output modf (pfs s) m) as [m' o|m' k]; cbn);
        try (destruct (force_input (pfs s) m') as [[m'' c]|] eqn:Hi; [apply force_input_mfile in Hi; destruct (str_eqb o c)|]; cbn);
        try (destruct (pans s) as [|x r]; cbn; [|destruct (is_yes x); cbn]);
        try rewrite Hl; cbn; intros _; congruence. }
    destruct (act fx modf a m s) as [[oc m1] s1]. cbn in Hfs, Hmf.
    destruct oc; cbn [snd]; try (now rewrite Hfs).
    specialize (Hmf eq_refl). rewrite IH; [now rewrite Hfs | now rewrite Hfs, Hmf | now rewrite Hmf].
Qed.

Lemma follow_changes_only_target t rest file s p :
  islink (pfs s) file = true -> resolve max_hops (pfs s) file = Some t -> p <> t ->
  pfs (snd (run_actions fx modf (SymFollow :: rest) (fresh file) s)) p = pfs s p.
Proof.
  intros Hl Hr Hp. rewrite run_actions_cons. cbn. rewrite Hl.
  apply writes_only_there; cbn; unfold realpath; rewrite Hr; auto.
  eapply resolve_nonlink; eauto.
Qed.
End Noop.

(* ---------------------------------------------------------------------------------------------
   final forms (restated in Properties/C09.v) *)

Lemma replace_needs_go_ahead fx modf acts args answers f g p :
  rfs (process fx modf acts args answers f g) p <> f p ->
  exists files1 file files2 pre post mp sp mo o,
    fst (expand f args) = files1 ++ file :: files2 /\
    lfatal (fold_left (file_step fx modf acts) files1 (loop0 f g answers (snd (expand f args)))) = false /\
    acts = pre ++ Replace :: post /\
    all_normal fx modf pre (fresh file)
       (lst (fold_left (file_step fx modf acts) files1 (loop0 f g answers (snd (expand f args))))) = Some (mp, sp) /\
    mfile mp = p /\ force_output modf (pfs sp) mp = FOk mo o.
Proof.
  unfold process. cbn [rfs]. intros Hp.
  exact (go_ahead_loop fx modf acts _ (loop0 f g answers (snd (expand f args))) p Hp).
Qed.

Lemma no_replace_no_change fx modf acts args answers f g :
  ~ In Replace acts -> forall p, rfs (process fx modf acts args answers f g) p = f p.
Proof.
  intros Hn p. unfold process. cbn [rfs]. now rewrite loop_no_replace.
Qed.

Section FileNoop.
Variables (fx : fixes) (modf : str -> option str) (acts : list action).

Lemma file_noop_from_run l x :
  (lfatal l = false -> pfs (snd (run_actions fx modf acts (fresh x) (lst l))) = pfs (lst l)) ->
  pfs (lst (file_step fx modf acts l x)) = pfs (lst l).
Proof.
  intros H. destruct (lfatal l) eqn:Hf; [now rewrite file_step_fatal|].
  rewrite file_step_lst by exact Hf. auto.
Qed.

Lemma noop_modifier_failure l x c0 :
  read_path (pfs (lst l)) x = Some c0 -> modf c0 = None ->
  pfs (lst (file_step fx modf acts l x)) = pfs (lst l).
Proof.
  intros Hr Hm. apply file_noop_from_run. intros _.
  apply modifier_failure_file with (c0 := c0); auto. unfold failing, stable. cbn. auto.
Qed.

Lemma noop_ifchanged l x c0 pre post :
  acts = pre ++ IfChanged :: post -> ~ In Replace pre ->
  read_path (pfs (lst l)) x = Some c0 -> modf c0 = Some c0 ->
  pfs (lst (file_step fx modf acts l x)) = pfs (lst l).
Proof.
  intros Ha Hn Hr Hm. apply file_noop_from_run. intros _. rewrite Ha.
  apply ifchanged_unchanged_file with (c0 := c0); auto. unfold same_out, stable. cbn. auto.
Qed.

Lemma noop_query l x pre post :
  acts = pre ++ Query :: post -> ~ In Replace pre ->
  Forall (fun a => is_yes a = false) (pans (lst l)) ->
  pfs (lst (file_step fx modf acts l x)) = pfs (lst l).
Proof.
  intros Ha Hn Hy. apply file_noop_from_run. intros _. rewrite Ha. apply query_no_file; auto.
Qed.

Lemma noop_symlink_policy l x a rest :
  acts = a :: rest -> a = SymErr \/ a = SymSkip -> islink (pfs (lst l)) x = true ->
  pfs (lst (file_step fx modf acts l x)) = pfs (lst l).
Proof.
  intros Hacts Ha Hl. apply file_noop_from_run. intros _. rewrite Hacts.
  apply (sym_err_skip_file fx modf a rest (fresh x) (lst l) Ha Hl).
Qed.

Lemma follow_only_target l x t rest p :
  acts = SymFollow :: rest -> islink (pfs (lst l)) x = true ->
  resolve max_hops (pfs (lst l)) x = Some t -> p <> t ->
  pfs (lst (file_step fx modf acts l x)) p = pfs (lst l) p.
Proof.
  intros Hacts Hx Ht Hp. destruct (lfatal l) eqn:Hf; [now rewrite file_step_fatal|].
  rewrite file_step_lst by exact Hf. rewrite Hacts. now apply follow_changes_only_target with (t := t).
Qed.
End FileNoop.

Lemma errors_do_not_stop fx modf acts args answers f g :
  never_fatal fx acts ->
  let r := process fx modf acts args answers f g in
  rfatal r = false /\ map fst (rlog r) = fst (expand f args) /\
  (forall file k, In (file, Error k) (rlog r) -> rexit r = 1%N /\ In (file, k) (rerrors r)) /\
  (forall e, In e (snd (expand f args)) -> rexit r = 1%N /\ In e (rerrors r)) /\
  (forall file, In (file, ExitOne) (rlog r) -> rexit r = 1%N).
Proof.
  intros Hnf r. subst r. unfold process. cbn [rfatal rlog rexit rerrors].
  assert (Hok0 : loop_ok (loop0 f g answers (snd (expand f args)))).
  { unfold loop_ok, loop0. cbn. split; [reflexivity|]. split; intros; contradiction. }
  destruct (loop_all_processed fx modf acts Hnf (fst (expand f args)) _ Hok0) as ((Hf & Herr & Hex) & Hlog & Hinc).
  set (l' := fold_left (file_step fx modf acts) (fst (expand f args)) (loop0 f g answers (snd (expand f args)))) in *.
  rewrite Hf. split; [reflexivity|]. split; [exact Hlog|].
  assert (Hne : forall e, In e (lerrs l') -> match lerrs l' with [] => lexit l' | _ :: _ => 1%N end = 1%N).
  { intros e He. destruct (lerrs l'); [contradiction | reflexivity]. }
  split; [|split].
  - intros file k Hin. pose proof (Herr file k Hin) as He. split; [eapply Hne; eauto | exact He].
  - intros e He. pose proof (Hinc e He) as He'. split; [eapply Hne; eauto | exact He'].
  - intros file Hin. rewrite (Hex file Hin). destruct (lerrs l'); reflexivity.
Qed.

Lemma tool_protects_links fx modf tty opts acts :
  fix_F4 fx = true -> fold_options fx tty opts = Some acts ->
  last_symlinks opts SVError = SVSkip \/ last_symlinks opts SVError = SVError ->
  forall l x, islink (pfs (lst l)) x = true ->
  pfs (lst (file_step fx modf acts l x)) = pfs (lst l).
Proof.
  intros Hfx Hf Hs l x Hl.
  destruct (policy_survives_options fx tty opts acts Hfx Hf) as (tl & -> & _).
  eapply noop_symlink_policy; [reflexivity | | exact Hl].
  destruct Hs as [-> | ->]; cbn; auto.
Qed.

Lemma errors_do_not_stop_repaired modf acts args answers f g :
  let r := process repaired_code modf acts args answers f g in
  rfatal r = false /\ map fst (rlog r) = fst (expand f args) /\
  (forall file k, In (file, Error k) (rlog r) -> rexit r = 1%N /\ In (file, k) (rerrors r)) /\
  (forall e, In e (snd (expand f args)) -> rexit r = 1%N /\ In e (rerrors r)) /\
  (forall file, In (file, ExitOne) (rlog r) -> rexit r = 1%N).
Proof. apply errors_do_not_stop. left. reflexivity. Qed.

(* ---------------------------------------------------------------------------------------------
   directory expansion yields entries under their own names *)

Definition listed (f : fs) (p : path) : Prop :=
  exists q ents e, f q = Some (NDir ents) /\ In e ents /\ epath e = p /\
                   epy e = true /\ ehidden e = false /\ epycache e = false.

Lemma dir_entries_some f p ents : dir_entries f p = Some ents -> exists q, f q = Some (NDir ents).
Proof.
  unfold dir_entries. destruct (resolve max_hops f p) as [q|]; [|discriminate].
  destruct (f q) as [[c g|g|t|ents']|] eqn:Hq; try discriminate. intros H; inversion H; subst. eauto.
Qed.

Local Opaque isfile isdir dir_entries.

Lemma expand_dir_listed : forall k f d p, In p (fst (expand_dir k f d)) -> listed f p /\ isfile f p = true.
Proof.
  induction k as [|k IH]; intros f d p Hin; cbn [expand_dir] in Hin; [contradiction|].
  destruct (dir_entries f d) as [ents|] eqn:Hd; [|contradiction].
  destruct (dir_entries_some f d ents Hd) as (q & Hq).
  assert (Hgen : forall l, (forall e, In e l -> In e ents) ->
            In p (fst (fold_right (fun e acc =>
                        let r := if ehidden e || epycache e then ([], true)
                                 else if isfile f (epath e) then ((if epy e then [epath e] else []), true)
                                 else if isdir f (epath e) then expand_dir k f (epath e)
                                 else ([], true) in
                        (fst r ++ fst acc, snd r && snd acc)) ([], true) l)) ->
            listed f p /\ isfile f p = true).
  { induction l as [|e l IHl]; intros Hsub Hp; cbn [fold_right fst] in Hp; [contradiction|].
    apply in_app_or in Hp. destruct Hp as [Hp | Hp].
    - destruct (ehidden e) eqn:Hh; cbn [orb fst] in Hp; [contradiction|].
      destruct (epycache e) eqn:Hc; cbn [orb fst] in Hp; [contradiction|].
      destruct (isfile f (epath e)) eqn:Hf; cbn [fst] in Hp.
      + destruct (epy e) eqn:Hy; [|contradiction]. destruct Hp as [<- | []].
        split; [|exact Hf]. exists q, ents, e. repeat split; auto. apply Hsub. left. reflexivity.
      + destruct (isdir f (epath e)); [|contradiction]. eapply IH; eauto.
    - apply IHl; auto. intros e' He'. apply Hsub. right. exact He'. }
  apply (Hgen ents); auto.
Qed.

Lemma expand_names : forall f args p, In p (fst (expand f args)) -> In (APath p) args \/ listed f p.
Proof.
  induction args as [|[a] r IH]; intros p Hin; cbn [expand] in Hin; [contradiction|].
  destruct (expand f r) as [fl er] eqn:He. cbn [fst] in IH.
  destruct (isfile f a).
  - cbn [fst] in Hin. destruct Hin as [<- | Hin]; [left; left; reflexivity|]. destruct (IH p Hin); [left; right|right]; auto.
  - destruct (isdir f a).
    + destruct (expand_dir dir_fuel f a) as [ms ok] eqn:Hd. destruct ok; cbn [fst] in Hin.
      * apply in_app_or in Hin. destruct Hin as [Hin | Hin].
        -- right. apply (expand_dir_listed dir_fuel f a). now rewrite Hd.
        -- destruct (IH p Hin); [left; right|right]; auto.
      * destruct (IH p Hin); [left; right|right]; auto.
    + cbn [fst] in Hin. destruct (IH p Hin); [left; right|right]; auto.
Qed.

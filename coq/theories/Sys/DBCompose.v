(* M11 (part 2) - composition of the database from the parsed content of its files.
   Model of _importdb.py: ImportDB._from_code (accumulation over files), _from_data,
   by_fullname_or_import_as;  _importclns.py: ImportSet.without_imports, ImportMap._merge,
   ImportMap.without_imports;  _importstmt.py: Import.split;  _idents.py: dotted_prefixes.
   What CPython's parser and ImportStatement make of a file's text is an oracle argument: a file's
   content is the four lists the real code extracted from it (or the class of the exception it
   raised).  No proofs here. *)
From Coq Require Import NArith List Bool String.
From Verif Require Import Base.Chars Base.StrX Sys.DBPath.
Import ListNotations.

(* Import._data = (fullname, import_as) *)
Definition imp := (str * str)%type.
Definition fullname (i : imp) : str := fst i.
Definition import_as (i : imp) : str := snd i.
Definition imp_eqb (a b : imp) : bool := str_eqb (fst a) (fst b) && str_eqb (snd a) (snd b).
Definition mem_imp (i : imp) (l : list imp) : bool := existsb (imp_eqb i) l.
Definition mem_str (s : str) (l : list str) : bool := existsb (str_eqb s) l.

(* frozenset(...) of a sequence: duplicates collapse (first occurrence kept here) *)
Fixpoint dedup_imps (l : list imp) : list imp :=
  match l with
  | [] => []
  | i :: r => i :: filter (fun j => negb (imp_eqb i j)) (dedup_imps r)
  end.
Fixpoint dedup_strs (l : list str) : list str :=
  match l with
  | [] => []
  | i :: r => i :: filter (fun j => negb (str_eqb i j)) (dedup_strs r)
  end.

(* ---------- dotted_prefixes ---------- *)
(*  name_parts = dotted_name.split(".")
    result = ['.'.join(name_parts[:i]) or '.' for i in range(1, len(name_parts)+1)] *)
Fixpoint prefixes_go (acc : list str) (parts : list str) : list str :=
  match parts with
  | [] => []
  | p :: r => let acc' := acc ++ [p] in
              (let j := join_with c_dot acc' in if is_nil j then s_dot else j) :: prefixes_go acc' r
  end.
Definition dotted_prefixes (s : str) : list str := prefixes_go [] (split_on c_dot s).

(* ---------- Import.split (module_name, member_name) ---------- *)
(*  if self.import_as == self.fullname: return ImportSplit(None, self.fullname, None)
    level = 0; qname = self.fullname
    for level, char in enumerate(qname):
        if char != '.': break
    prefix = qname[:level]; qname = qname[level:]
    if '.' in qname: module_name, member_name = qname.rsplit(".", 1)
    else: module_name = ''; member_name = qname
    module_name = prefix + module_name
    return ImportSplit(module_name or None, member_name, ...) *)
Fixpoint first_nondot (q : str) (k : nat) : option nat :=
  match q with
  | [] => None
  | c :: r => if (c =? c_dot)%N then first_nondot r (S k) else Some k
  end.
Definition dots_level (q : str) : nat :=
  match first_nondot q 0 with Some k => k | None => pred (List.length q) end.
Definition split_imp (i : imp) : option str * str :=
  if str_eqb (import_as i) (fullname i) then (None, fullname i)
  else
    let level := dots_level (fullname i) in
    let prefix := firstn level (fullname i) in
    let qname := skipn level (fullname i) in
    let parts := split_on c_dot qname in
    let '(modname, member) :=
        match parts with
        | [] | [_] => ([], qname)
        | _ => (join_with c_dot (removelast parts), last parts [])
        end in
    let m := prefix ++ modname in
    (if is_nil m then None else Some m, member).
Definition module_name (i : imp) : option str := fst (split_imp i).
Definition member_name (i : imp) : str := snd (split_imp i).

(* ---------- ImportSet.without_imports ---------- *)
(*  removals = ImportSet(removals)
    if not removals: return self
    star_module_removals = set([imp.split.module_name for imp in removals if imp.split.member_name == "*"])
    for imp in self:
        if imp in removals: continue
        if star_module_removals and imp.split.module_name:
            prefixes = dotted_prefixes(imp.split.module_name)
            if any(pfx in star_module_removals for pfx in prefixes): continue
        new_imports.append(imp) *)
Definition s_star : str := [c_star].
Definition star_modules (removals : list imp) : list str :=
  flat_map (fun i => if str_eqb (member_name i) s_star
                     then match module_name i with Some m => [m] | None => [] end
                     else []) removals.
Definition star_hit (removals : list imp) (i : imp) : bool :=
  match module_name i with
  | Some m => existsb (fun pfx => mem_str pfx (star_modules removals)) (dotted_prefixes m)
  | None => false
  end.
Definition removed (removals : list imp) (i : imp) : bool := mem_imp i removals || star_hit removals i.
Definition set_without (s removals : list imp) : list imp :=
  if is_nil removals then s else filter (fun i => negb (removed removals i)) s.

(* ---------- ImportMap ---------- *)
(*  _merge: data = {}; for map_ in maps: data.update(map_._data)    -- later files win *)
Definition imap := list (str * str).
Fixpoint map_update (m : imap) (k v : str) : imap :=
  match m with
  | [] => [(k, v)]
  | (k', v') :: r => if str_eqb k k' then (k', v) :: r else (k', v') :: map_update r k v
  end.
Definition map_merge (pairs : list (str * str)) : imap :=
  fold_left (fun m kv => map_update m (fst kv) (snd kv)) pairs [].
Fixpoint map_get (m : imap) (k : str) : option str :=
  match m with
  | [] => None
  | (k', v) :: r => if str_eqb k k' then Some v else map_get r k
  end.
(* Import(k) for a dotted identifier k:  from_parts(k, k.split('.')[-1]) *)
Definition imp_of_ident (s : str) : imp := (s, last (split_on c_dot s) []).
(*  result = [(k, v) for k, v in self._data.items()
              if Import(k) not in removals and Import(v) not in removals]   -- no star rule here *)
Definition map_without (m : imap) (removals : list imp) : imap :=
  if is_nil removals then m
  else filter (fun kv => negb (mem_imp (imp_of_ident (fst kv)) removals)
                         && negb (mem_imp (imp_of_ident (snd kv)) removals)) m.

(* ---------- a database file as parsed by the real code (oracle) ---------- *)
Record dbfile := mkDbfile {
  f_known : list imp;            (* import statements, in file order *)
  f_mand : list imp;             (* all __mandatory_imports__ lists, flattened *)
  f_canon : list (str * str);    (* all __canonical_imports__ dicts, flattened in order *)
  f_forget : list imp            (* all __forget_imports__ lists, flattened *)
}.
Definition errname := str.       (* class name of the exception raised while reading the file *)
Definition parsed := (errname + dbfile)%type.

Record db := mkDb {
  known : list imp;
  mandatory : list imp;
  canonical : imap;
  forget : list imp
}.

(* ---------- ImportDB._from_data ---------- *)
(*  self.forget_imports    = ImportSet(forget_imports)
    self.known_imports     = ImportSet(known_imports    ).without_imports(forget_imports)
    self.mandatory_imports = ImportSet(mandatory_imports).without_imports(forget_imports)
    self.canonical_imports = ImportMap(canonical_imports).without_imports(forget_imports) *)
Definition from_data (kn mand : list imp) (canon : list (str * str)) (fg : list imp) : db :=
  let fg' := dedup_imps fg in
  mkDb (set_without (dedup_imps kn) fg')
       (set_without (dedup_imps mand) fg')
       (map_without (map_merge canon) fg')
       fg'.

(* ---------- ImportDB._from_code over the list of files ---------- *)
(*  the four lists are accumulated over all blocks, then one _from_data *)
Definition compose (fs : list dbfile) : db :=
  from_data (flat_map f_known fs) (flat_map f_mand fs) (flat_map f_canon fs) (flat_map f_forget fs).

(* block.statements is evaluated file by file: the first file that does not parse raises *)
Fixpoint all_parsed (ps : list parsed) : errname + list dbfile :=
  match ps with
  | [] => inr []
  | inl e :: _ => inl e
  | inr f :: r => match all_parsed r with
                  | inl e => inl e
                  | inr fs => inr (f :: fs)
                  end
  end.
Definition from_code (ps : list parsed) : errname + db :=
  match all_parsed ps with
  | inl e => inl e
  | inr fs => inr (compose fs)
  end.

(* ImportDB.__or__ *)
Definition db_or (a b : db) : db :=
  from_data (known a ++ known b) (mandatory a ++ mandatory b)
            (canonical a ++ canonical b) (forget a ++ forget b).

(* ---------- by_fullname_or_import_as ---------- *)
(*  d = defaultdict(set)
    for imp in self.known_imports.imports:
        d[imp.import_as].add(imp)
        for prefix in dotted_prefixes(imp.fullname)[:-1]:
            d[prefix].add(Import.from_parts(prefix, prefix))
    unchanged tree:   return dict((k, tuple(sorted(v - set(self.forget_imports.imports)))) for k, v in d.items())
    repaired (F21):   forget = set(self.forget_imports.imports)
                      return dict((k, tuple(sorted(v - forget))) for k, v in d.items() if v - forget) *)
Inductive version := Orig | Fixed.

Definition imp_cmp (a b : imp) : comparison :=
  match str_cmp (fst a) (fst b) with Eq => str_cmp (snd a) (snd b) | c => c end.
Definition imp_leb (a b : imp) : bool := match imp_cmp a b with Gt => false | _ => true end.

Definition index_entries (kn : list imp) : list (str * imp) :=
  flat_map (fun i => (import_as i, i)
                     :: map (fun p => (p, (p, p))) (removelast (dotted_prefixes (fullname i)))) kn.
Definition values_of (k : str) (es : list (str * imp)) : list imp :=
  map snd (filter (fun e => str_eqb k (fst e)) es).
Definition index (ver : version) (d : db) : list (str * list imp) :=
  let es := index_entries (known d) in
  let raw := map (fun k => (k, isort imp_leb (dedup_imps
                               (filter (fun i => negb (mem_imp i (forget d))) (values_of k es)))))
                 (dedup_strs (map fst es)) in
  match ver with
  | Orig => raw
  | Fixed => filter (fun kv => negb (is_nil (snd kv))) raw
  end.

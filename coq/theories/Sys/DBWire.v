(* Entry points evaluated by the correspondence harness (harness/c12.py). *)
From Coq Require Import NArith List String Bool.
From Verif Require Import Base.Chars Base.StrX Base.Show Sys.DBPath Sys.DBCompose Sys.DBCache.
Import ListNotations.
Open Scope string_scope.

Definition show_path (p : path) : string := show_str (path_str p).
Definition show_imp (i : imp) : string := show_list show_str [fst i; snd i].
Definition show_kv (kv : str * str) : string := show_list show_str [fst kv; snd kv].

Definition show_db (ver : version) (d : db) : list (string * string) :=
  [("known", show_list show_imp (known d));
   ("mand", show_list show_imp (mandatory d));
   ("canon", show_list show_kv (canonical d));
   ("forget", show_list show_imp (forget d));
   ("index", show_list (fun kv => "[" ++ show_str (fst kv) ++ "," ++ show_list show_imp (snd kv) ++ "]")
                       (index ver d))].

Definition show_key (k : key) : string :=
  match k with
  | K1 d e x =>
      show_list (fun s => s)
        ([show_string "1"; show_path d;
          show_option show_str (fst (fst e)); show_option show_str (snd (fst e)); show_option show_str (snd e)]
         ++ match x with
            | Some (cwd, home) => [show_path cwd; show_str home]
            | None => []
            end)
  | K2 files => show_list (fun s => s) (show_string "2" :: map show_path files)
  end.

Definition show_err (e : err) : string :=
  match e with
  | ENoSafe => show_string "ValueError:nosafe"
  | ELoop => show_string "MODEL:symlink-loop"
  | EFuel => show_string "MODEL:out-of-fuel"
  | EValue p => show_string "ValueError"
  | EUnsafe => show_string "UnsafeFilenameError"
  | EParse n => show_str n
  end.

Definition show_step (ver : version) (oc : outcome * cache) : string :=
  let keys := ("keys", show_list show_key (map fst (snd oc))) in
  match fst oc with
  | Hit v => show_obj (("kind", show_string "hit") :: show_db ver v ++ [keys])
  | Loaded files v => show_obj (("kind", show_string "loaded") :: ("files", show_list show_path files)
                                :: show_db ver v ++ [keys])
  | Failed e => show_obj [("kind", show_string "err"); ("err", show_err e); keys]
  end.

(* one history of lookups against a fixed tree; repaired code *)
Definition run_history (ver : version) (t : ftree) (etc : list path) (qs : list query) : string :=
  show_list (show_step ver) (run_trace t etc ver qs []).

(* the same lookups, each against an empty cache *)
Definition run_fresh (ver : version) (t : ftree) (etc : list path) (qs : list query) : string :=
  show_list (fun q => show_step ver (let '(c, o) := get_default t etc ver [] q in (o, c))) qs.

Definition run_etc (t : ftree) (module_dir : path) : string :=
  show_list show_path (find_etc_dirs _ t module_dir).

Definition run_compose (ver : version) (fs : list dbfile) : string :=
  show_obj (show_db ver (compose fs)).

Definition run_or (ver : version) (a b : list dbfile) : string :=
  show_obj (show_db ver (db_or (compose a) (compose b))).

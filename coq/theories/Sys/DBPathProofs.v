(* Search-path semantics (Sys/DBPath.v): environment variable, "-" splice, EMPTY, ".../x",
   recursive walk with hidden / __pycache__ entries skipped only below the named entry. *)
From Coq Require Import NArith List Bool String Lia.
From Verif Require Import Base.Chars Base.StrX Base.StrXProofs Sys.DBPath.
Import ListNotations.

(* ---------- generic: insertion sort keeps the elements ---------- *)
Lemma insert_by_In {A} (le : A -> A -> bool) x l y : In y (insert_by le x l) <-> y = x \/ In y l.
Proof.
  induction l as [|a l IH]; simpl; [intuition|].
  destruct (le x a); simpl; [intuition|]. rewrite IH. intuition.
Qed.

Lemma isort_In {A} (le : A -> A -> bool) l y : In y (isort le l) <-> In y l.
Proof.
  induction l as [|a l IH]; simpl; [tauto|]. rewrite insert_by_In, IH. intuition.
Qed.

(* ---------- _get_env_var ---------- *)
Definition env_parts (value : option str) : list str :=
  filter (fun s => negb (is_nil s)) (split_on c_colon (match value with Some v => v | None => [] end)).

Lemma splice_no_dash v d : ~ In s_dash v -> splice_first_dash v d = v.
Proof.
  induction v as [|x v IH]; simpl; intros H; [reflexivity|].
  destruct (str_eqb x s_dash) eqn:E.
  - apply str_eqb_eq in E. subst. exfalso. auto.
  - f_equal. apply IH. auto.
Qed.

Lemma splice_first a b d : ~ In s_dash a -> splice_first_dash (a ++ s_dash :: b) d = a ++ d ++ b.
Proof.
  induction a as [|x a IH]; simpl; intros H.
  - reflexivity.
  - destruct (str_eqb x s_dash) eqn:E.
    + apply str_eqb_eq in E. subst. exfalso. auto.
    + f_equal. apply IH. auto.
Qed.

(* unset or nothing but colons: the default; the FIRST "-" is replaced by the default, a later "-"
   stays a literal component (and is then rejected by the component check) *)
Theorem get_env_var_spec value default :
  (env_parts value = [] -> get_env_var value default = default) /\
  (forall a b, env_parts value = a ++ s_dash :: b -> ~ In s_dash a ->
               get_env_var value default = a ++ default ++ b) /\
  (env_parts value <> [] -> ~ In s_dash (env_parts value) -> get_env_var value default = env_parts value).
Proof.
  assert (U : get_env_var value default =
              if is_nil (env_parts value) then default else splice_first_dash (env_parts value) default)
    by reflexivity.
  split; [|split].
  - intros E. rewrite U, E. reflexivity.
  - intros a b E N. rewrite U, E.
    assert (H : is_nil (a ++ s_dash :: b) = false) by (destruct a; reflexivity).
    rewrite H. apply splice_first. exact N.
  - intros NE N. rewrite U. destruct (env_parts value) eqn:E; [contradiction|].
    simpl is_nil. cbv iota. apply splice_no_dash. exact N.
Qed.

Lemma get_env_var_unset default : get_env_var None default = default.
Proof. reflexivity. Qed.

(* ---------- EMPTY and the component check ---------- *)
Section PathSem.
Variable C : Type.
Notation tree := (tree C).

Theorem empty_means_none (t : tree) cwd home value default target_dir :
  get_env_var value default = [s_EMPTY] ->
  get_python_path C t cwd home value default target_dir = PPOk [].
Proof. intros E. unfold get_python_path. rewrite E. reflexivity. Qed.

Example empty_literal (t : tree) cwd home default target_dir :
  get_python_path C t cwd home (Some s_EMPTY) default target_dir = PPOk [].
Proof. reflexivity. Qed.

Theorem bad_component_rejected (t : tree) cwd home value default target_dir p :
  get_env_var value default <> [s_EMPTY] ->
  In p (get_env_var value default) -> component_ok p = false ->
  exists p', get_python_path C t cwd home value default target_dir = PPValueError p'.
Proof.
  intros NE I B. unfold get_python_path.
  destruct (strs_eqb (get_env_var value default) [s_EMPTY]) eqn:E.
  - apply strs_eqb_eq in E. contradiction.
  - destruct (find (fun p => negb (component_ok p)) (get_env_var value default)) as [p'|] eqn:F.
    + exists p'. reflexivity.
    + exfalso. apply (find_none _ _ F) in I. rewrite B in I. discriminate.
Qed.

(* ---------- _ancestors_on_same_partition ---------- *)
(* a is returned iff it exists, and every nearer entry of the list either does not exist or is on a's
   device (so a is on the device of the first existing one and no other device lies in between) *)
Lemma asp_go_spec (t : tree) l : forall dev a,
  In a (asp_go C t dev l) <->
  exists pre post d0, l = pre ++ a :: post /\ dev_of C t a = Some d0 /\
                      (dev = None \/ dev = Some d0) /\
                      (forall x, In x pre -> dev_of C t x = None \/ dev_of C t x = Some d0).
Proof.
  induction l as [|f r IH]; intros dev a.
  - simpl. split; [intros []|]. intros [pre [post [d0 [E _]]]]. destruct pre; discriminate.
  - cbn [asp_go]. destruct (dev_of C t f) as [d|] eqn:DF.
    + destruct dev as [d0'|].
      * destruct (N.eqb d0' d) eqn:EQ.
        -- apply N.eqb_eq in EQ. subst d0'. split.
           ++ intros [H|H].
              ** subst a. exists [], r, d. repeat split; auto. intros x [].
              ** apply IH in H as [pre [post [d0 [E [DA [[X|X] P]]]]]]; [discriminate|].
                 inversion X; subst d0. exists (f :: pre), post, d. subst r. repeat split; auto.
                 intros x [Hx|Hx]; [subst; auto|apply P; exact Hx].
           ++ intros [pre [post [d0 [E [DA [[X|X] P]]]]]]; [discriminate|]. inversion X; subst d0.
              destruct pre as [|f' pre]; simpl in E; inversion E; subst.
              ** left. reflexivity.
              ** right. apply IH. exists pre, post, d. repeat split; auto. intros x Hx. apply P. right. exact Hx.
        -- apply N.eqb_neq in EQ. split; [intros []|].
           intros [pre [post [d0 [E [DA [[X|X] P]]]]]]; [discriminate|]. inversion X; subst d0'.
           destruct pre as [|f' pre]; simpl in E; inversion E; subst.
           ** rewrite DF in DA. inversion DA. subst. contradiction.
           ** destruct (P f' (or_introl eq_refl)) as [Y|Y]; rewrite DF in Y; [discriminate|].
              inversion Y. subst. contradiction.
      * split.
        -- intros [H|H].
           ++ subst a. exists [], r, d. repeat split; auto. intros x [].
           ++ apply IH in H as [pre [post [d0 [E [DA [[X|X] P]]]]]]; [discriminate|].
              inversion X; subst d0. exists (f :: pre), post, d. subst r. repeat split; auto.
              intros x [Hx|Hx]; [subst; auto|apply P; exact Hx].
        -- intros [pre [post [d0 [E [DA [_ P]]]]]].
           destruct pre as [|f' pre]; simpl in E; inversion E; subst.
           ++ left. reflexivity.
           ++ right. apply IH. destruct (P f' (or_introl eq_refl)) as [Y|Y]; rewrite DF in Y; [discriminate|].
              inversion Y; subst d0. exists pre, post, d. repeat split; auto. intros x Hx. apply P. right. exact Hx.
    + split.
      * intros H. apply IH in H as [pre [post [d0 [E [DA [X P]]]]]].
        exists (f :: pre), post, d0. subst r. repeat split; auto.
        intros x [Hx|Hx]; [subst; auto|apply P; exact Hx].
      * intros [pre [post [d0 [E [DA [X P]]]]]].
        destruct pre as [|f' pre]; simpl in E; inversion E; subst.
        -- rewrite DF in DA. discriminate.
        -- apply IH. exists pre, post, d0. repeat split; auto. intros x Hx. apply P. right. exact Hx.
Qed.

Theorem same_partition_spec (t : tree) p a :
  In a (ancestors_on_same_partition C t p) <->
  exists nearer farther d0, ancestors p = nearer ++ a :: farther /\ dev_of C t a = Some d0 /\
                            (forall x, In x nearer -> dev_of C t x = None \/ dev_of C t x = Some d0).
Proof.
  unfold ancestors_on_same_partition. rewrite asp_go_spec. split.
  - intros [pre [post [d0 [E [DA [_ P]]]]]]. exists pre, post, d0. auto.
  - intros [pre [post [d0 [E [DA P]]]]]. exists pre, post, d0. auto.
Qed.

(* the order of the list is kept: nearest ancestor first (and _expand_tripledots reverses: nearest last) *)
Inductive subseq {A} : list A -> list A -> Prop :=
| subseq_nil : subseq [] []
| subseq_skip x l l' : subseq l l' -> subseq l (x :: l')
| subseq_take x l l' : subseq l l' -> subseq (x :: l) (x :: l').

Lemma subseq_nil_l {A} (l : list A) : subseq [] l.
Proof. induction l; constructor; auto. Qed.

Lemma asp_go_subseq (t : tree) l : forall dev, subseq (asp_go C t dev l) l.
Proof.
  induction l as [|f r IH]; intros dev; cbn [asp_go]; [constructor|].
  destruct (dev_of C t f) as [d|].
  - destruct dev as [d0|].
    + destruct (N.eqb d0 d); [apply subseq_take; apply IH|apply subseq_nil_l].
    + apply subseq_take. apply IH.
  - apply subseq_skip. apply IH.
Qed.

Theorem same_partition_order (t : tree) p : subseq (ancestors_on_same_partition C t p) (ancestors p).
Proof. apply asp_go_subseq. Qed.

(* ".../x": x under every ancestor returned above, farthest first; unsafe joins are dropped;
   any other entry: the one file name, relative to the working directory *)
Theorem tripledots_entry (t : tree) cwd target_dir p :
  starts_with s_tripledots p = true ->
  expand_one C t cwd target_dir p =
  Some (rev (filter_some (map (fun a => mk_filename a (skipn 4 p))
                              (ancestors_on_same_partition C t target_dir)))).
Proof. intros H. unfold expand_one. rewrite H. reflexivity. Qed.

Theorem explicit_entry (t : tree) cwd target_dir p :
  starts_with s_tripledots p = false ->
  expand_one C t cwd target_dir p = match mk_filename cwd p with Some f => Some [f] | None => None end.
Proof. intros H. unfold expand_one. rewrite H. reflexivity. Qed.

(* ---------- the recursive walk ---------- *)
Definition walk_entry (pre : path) (e : name * tree) : name * list path :=
  (fst e, if skip_name (fst e) then []
          else match snd e with
               | File _ _ => if is_py (fst e) then [pre ++ [fst e]] else []
               | Dir _ _ => walk C (pre ++ [fst e]) (snd e)
               end).

Lemma walk_dir pre d es :
  walk C pre (Dir d es) = List.concat (map snd (isort entry_leb (map (walk_entry pre) es))).
Proof.
  cbn [walk]. do 3 f_equal.
  induction es as [|[n sub] r IH]; [reflexivity|].
  rewrite IH. reflexivity.
Qed.

(* a .py file below a directory through entries none of which is skipped *)
Inductive reach : tree -> path -> Prop :=
| reach_file dv es n d c :
    In (n, File d c) es -> skip_name n = false -> is_py n = true -> reach (Dir dv es) [n]
| reach_dir dv es n d' es' rel :
    In (n, Dir d' es') es -> skip_name n = false -> reach (Dir d' es') rel -> reach (Dir dv es) (n :: rel).

Fixpoint tree_ind' (P : tree -> Prop)
         (HF : forall d c, P (File d c))
         (HD : forall d es, Forall (fun e => P (snd e)) es -> P (Dir d es))
         (t : tree) {struct t} : P t :=
  match t with
  | File d c => HF d c
  | Dir d es =>
      HD d es ((fix go (es : list (name * tree)) : Forall (fun e => P (snd e)) es :=
                  match es with
                  | [] => Forall_nil _
                  | e :: r => Forall_cons e (tree_ind' P HF HD (snd e)) (go r)
                  end) es)
  end.

Theorem walk_spec (t : tree) : forall d es pre f,
  t = Dir d es ->
  (In f (walk C pre t) <-> exists rel, f = pre ++ rel /\ reach t rel).
Proof.
  induction t as [d0 c|d0 es0 IH] using tree_ind'; intros d es pre f E; [discriminate|].
  inversion E; subst d0 es0. clear E. rewrite walk_dir. rewrite in_concat. split.
  - intros [l [Hl Hf]]. apply in_map_iff in Hl as [[n l'] [El Hl]]. simpl in El. subst l'.
    apply isort_In in Hl. apply in_map_iff in Hl as [[n' sub] [Ee He]].
    unfold walk_entry in Ee. simpl in Ee. inversion Ee; subst n'. clear Ee. subst l.
    destruct (skip_name n) eqn:SK; [destruct Hf|].
    destruct sub as [d' c|d' es'].
    + destruct (is_py n) eqn:PY; [|destruct Hf]. destruct Hf as [Hf|[]]. subst f.
      exists [n]. split; auto. eapply reach_file; eauto.
    + rewrite Forall_forall in IH. specialize (IH _ He). simpl in IH.
      apply (IH d' es' (pre ++ [n]) f eq_refl) in Hf as [rel [Ef R]].
      exists (n :: rel). split.
      * rewrite Ef, <- app_assoc. reflexivity.
      * eapply reach_dir; eauto.
  - intros [rel [Ef R]]. inversion R as [dv es1 n d' c I SK PY|dv es1 n d' es' rel' I SK R']; subst.
    + exists [pre ++ [n]]. split; [|left; reflexivity].
      apply in_map_iff. exists (n, [pre ++ [n]]). split; auto. apply isort_In.
      apply in_map_iff. exists (n, File d' c). split; auto.
      unfold walk_entry. simpl. rewrite SK, PY. reflexivity.
    + exists (walk C (pre ++ [n]) (Dir d' es')). split.
      * apply in_map_iff. exists (n, walk C (pre ++ [n]) (Dir d' es')). split; auto. apply isort_In.
        apply in_map_iff. exists (n, Dir d' es'). split; auto.
        unfold walk_entry. simpl. rewrite SK. reflexivity.
      * rewrite Forall_forall in IH. specialize (IH _ I). simpl in IH.
        apply (IH d' es' (pre ++ [n]) _ eq_refl). exists rel'. split; auto.
        rewrite <- app_assoc. reflexivity.
Qed.

(* an entry named on the path: a file is taken whatever its name; a directory is walked whatever its
   name (".pyflyby" is hidden!) - the skipping applies only below it *)
Theorem named_file_taken (t : tree) p d c :
  lookup C t p = Some (File d c) -> expand_arg C t p = [p].
Proof. intros H. unfold expand_arg. rewrite H. reflexivity. Qed.

Theorem named_dir_walked (t : tree) p d es f :
  lookup C t p = Some (Dir d es) ->
  (In f (expand_arg C t p) <-> exists rel, f = p ++ rel /\ reach (Dir d es) rel).
Proof. intros H. unfold expand_arg. rewrite H. apply (walk_spec (Dir d es) d es p f eq_refl). Qed.

Theorem missing_entry_ignored (t : tree) p : lookup C t p = None -> expand_arg C t p = [].
Proof. intros H. unfold expand_arg. rewrite H. reflexivity. Qed.

(* nothing hidden, no __pycache__, nothing with an unsafe name, and only *.py below a named directory *)
Lemma reach_names (t : tree) rel :
  reach t rel -> Forall (fun n => skip_name n = false) rel /\ is_py (last rel []) = true /\ rel <> [].
Proof.
  induction 1 as [dv es n d c I SK PY|dv es n d' es' rel I SK R [IH1 [IH2 IH3]]].
  - repeat split; auto. discriminate.
  - repeat split; auto; try discriminate. destruct rel; [contradiction|exact IH2].
Qed.

(* with unique names in every directory (a real file system), "reachable through entries" is the
   same as "is a regular file at that relative path" *)
Inductive uniq : tree -> Prop :=
| uniq_file d c : uniq (File d c)
| uniq_dir d es : NoDup (map fst es) -> (forall n s, In (n, s) es -> uniq s) -> uniq (Dir d es).

Lemma assoc_name_sound {B} n (es : list (name * B)) s : assoc_name n es = Some s -> In (n, s) es.
Proof.
  induction es as [|[m v] r IH]; simpl; [discriminate|].
  destruct (str_eqb n m) eqn:E.
  - apply str_eqb_eq in E. subst. intros H. inversion H. auto.
  - auto.
Qed.

Lemma assoc_name_complete {B} n (es : list (name * B)) s :
  NoDup (map fst es) -> In (n, s) es -> assoc_name n es = Some s.
Proof.
  induction es as [|[m v] r IH]; simpl; intros ND I; [destruct I|].
  inversion ND as [|? ? NI ND']; subst. destruct I as [I|I].
  - inversion I; subst. rewrite str_eqb_refl. reflexivity.
  - destruct (str_eqb n m) eqn:E.
    + apply str_eqb_eq in E. subst. exfalso. apply NI. apply in_map_iff. exists (m, s). auto.
    + auto.
Qed.

Theorem reach_is_lookup : forall rel (t : tree),
  uniq t ->
  (reach t rel <->
   (exists d es, t = Dir d es) /\ rel <> [] /\ (exists d c, lookup C t rel = Some (File d c)) /\
   Forall (fun n => skip_name n = false) rel /\ is_py (last rel []) = true).
Proof.
  induction rel as [|n r IH]; intros t U.
  - split.
    + intros R. inversion R.
    + intros [_ [N _]]. contradiction.
  - split.
    + intros R. inversion R as [dv es n' d c I SK PY|dv es n' d' es' rel' I SK R']; subst.
      * inversion U as [|? ? ND US]; subst.
        repeat split; eauto; try discriminate.
        exists d, c. simpl. rewrite (assoc_name_complete _ _ _ ND I). reflexivity.
      * inversion U as [|? ? ND US]; subst.
        pose proof (US _ _ I) as U'. apply (IH _ U') in R' as [_ [NE [[d [c L]] [FA PY]]]].
        repeat split; eauto; try discriminate.
        -- exists d, c. simpl. rewrite (assoc_name_complete _ _ _ ND I). exact L.
        -- destruct r; [contradiction|exact PY].
    + intros [[d0 [es E]] [_ [[d [c L]] [FA PY]]]]. subst t.
      inversion U as [|? ? ND US]; subst. inversion FA as [|? ? SK FA']; subst.
      simpl in L. destruct (assoc_name n es) as [s|] eqn:AS; [|discriminate].
      apply assoc_name_sound in AS.
      destruct r as [|n2 r2].
      * simpl in L. inversion L; subst. eapply reach_file; eauto.
      * destruct s as [d' c'|d' es']; [simpl in L; discriminate|].
        eapply reach_dir; eauto. apply IH; [eapply US; eauto|].
        repeat split; eauto; try discriminate.
Qed.

End PathSem.

(* Search-path semantics (Sys/DBPath.v): environment variable, "-" splice, EMPTY, ".../x",
   recursive walk with hidden / __pycache__ entries skipped only below the named entry. *)
From Coq Require Import NArith List Bool String Lia.
From Verif Require Import Base.Chars Base.StrX Base.StrXProofs Sys.DBPath.
Import ListNotations.

(* ---------- generic: insertion sort keeps the elements ---------- *)
Lemma insert_by_In {A} (le : A -> A -> bool) x l y : In y (insert_by le x l) <-> y = x \/ In y l.
Proof.
  induction l as [|a l IH]; simpl; [intuition|].
  destruct (le x a); simpl; [intuition|]. rewrite IH. intuition.
Qed.

Lemma isort_In {A} (le : A -> A -> bool) l y : In y (isort le l) <-> In y l.
Proof.
  induction l as [|a l IH]; simpl; [tauto|]. rewrite insert_by_In, IH. intuition.
Qed.

(* ---------- _get_env_var ---------- *)
Definition env_parts (value : option str) : list str :=
  filter (fun s => negb (is_nil s)) (split_on c_colon (match value with Some v => v | None => [] end)).

Lemma splice_no_dash v d : ~ In s_dash v -> splice_first_dash v d = v.
Proof.
  induction v as [|x v IH]; simpl; intros H; [reflexivity|].
  destruct (str_eqb x s_dash) eqn:E.
  - apply str_eqb_eq in E. subst. exfalso. auto.
  - f_equal. apply IH. auto.
Qed.

Lemma splice_first a b d : ~ In s_dash a -> splice_first_dash (a ++ s_dash :: b) d = a ++ d ++ b.
Proof.
  induction a as [|x a IH]; simpl; intros H.
  - reflexivity.
  - destruct (str_eqb x s_dash) eqn:E.
    + apply str_eqb_eq in E. subst. exfalso. auto.
    + f_equal. apply IH. auto.
Qed.

(* unset or nothing but colons: the default; the FIRST "-" is replaced by the default, a later "-"
   stays a literal component (and is then rejected by the component check) *)
Theorem get_env_var_spec value default :
  (env_parts value = [] -> get_env_var value default = default) /\
  (forall a b, env_parts value = a ++ s_dash :: b -> ~ In s_dash a ->
               get_env_var value default = a ++ default ++ b) /\
  (env_parts value <> [] -> ~ In s_dash (env_parts value) -> get_env_var value default = env_parts value).
Proof.
  assert (U : get_env_var value default =
              if is_nil (env_parts value) then default else splice_first_dash (env_parts value) default)
    by reflexivity.
  split; [|split].
  - intros E. rewrite U, E. reflexivity.
  - intros a b E N. rewrite U, E.
    assert (H : is_nil (a ++ s_dash :: b) = false) by (destruct a; reflexivity).
    rewrite H. apply splice_first. exact N.
  - intros NE N. rewrite U. destruct (env_parts value) eqn:E; [contradiction|].
    simpl is_nil. cbv iota. apply splice_no_dash. exact N.
Qed.

Lemma get_env_var_unset default : get_env_var None default = default.
Proof. reflexivity. Qed.

(* ---------- EMPTY and the component check ---------- *)
Section PathSem.
Variable C : Type.
Notation tree := (tree C).

Theorem empty_means_none (t : tree) cwd home value default target_dir :
  get_env_var value default = [s_EMPTY] ->
  get_python_path C t cwd home value default target_dir = PPOk [].
Proof. intros E. unfold get_python_path. rewrite E. reflexivity. Qed.

Example empty_literal (t : tree) cwd home default target_dir :
  get_python_path C t cwd home (Some s_EMPTY) default target_dir = PPOk [].
Proof. reflexivity. Qed.

Theorem bad_component_rejected (t : tree) cwd home value default target_dir p :
  get_env_var value default <> [s_EMPTY] ->
  In p (get_env_var value default) -> component_ok p = false ->
  exists p', get_python_path C t cwd home value default target_dir = PPValueError p'.
Proof.
  intros NE I B. unfold get_python_path.
  destruct (strs_eqb (get_env_var value default) [s_EMPTY]) eqn:E.
  - apply strs_eqb_eq in E. contradiction.
  - destruct (find (fun p => negb (component_ok p)) (get_env_var value default)) as [p'|] eqn:F.
    + exists p'. reflexivity.
    + exfalso. apply (find_none _ _ F) in I. rewrite B in I. discriminate.
Qed.

(* ---------- _ancestors_on_same_partition ---------- *)
(* a is returned iff it exists, and every nearer entry of the list either does not exist or is on a's
   device (so a is on the device of the first existing one and no other device lies in between) *)
Lemma asp_go_spec (t : tree) l : forall dev a,
  In a (asp_go C t dev l) <->
  exists pre post d0, l = pre ++ a :: post /\ dev_of C t a = Some d0 /\
                      (dev = None \/ dev = Some d0) /\
                      (forall x, In x pre -> dev_of C t x = None \/ dev_of C t x = Some d0).
Proof.
  induction l as [|f r IH]; intros dev a.
  - simpl. split; [intros []|]. intros [pre [post [d0 [E _]]]]. destruct pre; discriminate.
  - cbn [asp_go]. destruct (dev_of C t f) as [d|] eqn:DF.
    + destruct dev as [d0'|].
      * destruct (N.eqb d0' d) eqn:EQ.
        -- apply N.eqb_eq in EQ. subst d0'. split.
           ++ intros [H|H].
              ** subst a. exists [], r, d. repeat split; auto. intros x [].
              ** apply IH in H as [pre [post [d0 [E [DA [[X|X] P]]]]]]; [discriminate|].
                 inversion X; subst d0. exists (f :: pre), post, d. subst r. repeat split; auto.
                 intros x [Hx|Hx]; [subst; auto|apply P; exact Hx].
           ++ intros [pre [post [d0 [E [DA [[X|X] P]]]]]]; [discriminate|]. inversion X; subst d0.
              destruct pre as [|f' pre]; simpl in E; inversion E; subst.
              ** left. reflexivity.
              ** right. apply IH. exists pre, post, d. repeat split; auto. intros x Hx. apply P. right. exact Hx.
        -- apply N.eqb_neq in EQ. split; [intros []|].
           intros [pre [post [d0 [E [DA [[X|X] P]]]]]]; [discriminate|]. inversion X; subst d0'.
           destruct pre as [|f' pre]; simpl in E; inversion E; subst.
           ** rewrite DF in DA. inversion DA. subst. contradiction.
           ** destruct (P f' (or_introl eq_refl)) as [Y|Y]; rewrite DF in Y; [discriminate|].
              inversion Y. subst. contradiction.
      * split.
        -- intros [H|H].
           ++ subst a. exists [], r, d. repeat split; auto. intros x [].
           ++ apply IH in H as [pre [post [d0 [E [DA [[X|X] P]]]]]]; [discriminate|].
              inversion X; subst d0. exists (f :: pre), post, d. subst r. repeat split; auto.
              intros x [Hx|Hx]; [subst; auto|apply P; exact Hx].
        -- intros [pre [post [d0 [E [DA [_ P]]]]]].
           destruct pre as [|f' pre]; simpl in E; inversion E; subst.
           ++ left. reflexivity.
           ++ right. apply IH. destruct (P f' (or_introl eq_refl)) as [Y|Y]; rewrite DF in Y; [discriminate|].
              inversion Y; subst d0. exists pre, post, d. repeat split; auto. intros x Hx. apply P. right. exact Hx.
    + split.
      * intros H. apply IH in H as [pre [post [d0 [E [DA [X P]]]]]].
        exists (f :: pre), post, d0. subst r. repeat split; auto.
        intros x [Hx|Hx]; [subst; auto|apply P; exact Hx].
      * intros [pre [post [d0 [E [DA [X P]]]]]].
        destruct pre as [|f' pre]; simpl in E; inversion E; subst.
        -- rewrite DF in DA. discriminate.
        -- apply IH. exists pre, post, d0. repeat split; auto. intros x Hx. apply P. right. exact Hx.
Qed.

Theorem same_partition_spec (t : tree) p a :
  In a (ancestors_on_same_partition C t p) <->
  exists nearer farther d0, ancestors p = nearer ++ a :: farther /\ dev_of C t a = Some d0 /\
                            (forall x, In x nearer -> dev_of C t x = None \/ dev_of C t x = Some d0).
Proof.
  unfold ancestors_on_same_partition. rewrite asp_go_spec. split.
  - intros [pre [post [d0 [E [DA [_ P]]]]]]. exists pre, post, d0. auto.
  - intros [pre [post [d0 [E [DA P]]]]]. exists pre, post, d0. auto.
Qed.

(* the order of the list is kept: nearest ancestor first (and _expand_tripledots reverses: nearest last) *)
Inductive subseq {A} : list A -> list A -> Prop :=
| subseq_nil : subseq [] []
| subseq_skip x l l' : subseq l l' -> subseq l (x :: l')
| subseq_take x l l' : subseq l l' -> subseq (x :: l) (x :: l').

Lemma subseq_nil_l {A} (l : list A) : subseq [] l.
Proof. induction l; constructor; auto. Qed.

Lemma asp_go_subseq (t : tree) l : forall dev, subseq (asp_go C t dev l) l.
Proof.
  induction l as [|f r IH]; intros dev; cbn [asp_go]; [constructor|].
  destruct (dev_of C t f) as [d|].
  - destruct dev as [d0|].
    + destruct (N.eqb d0 d); [apply subseq_take; apply IH|apply subseq_nil_l].
    + apply subseq_take. apply IH.
  - apply subseq_skip. apply IH.
Qed.

Theorem same_partition_order (t : tree) p : subseq (ancestors_on_same_partition C t p) (ancestors p).
Proof. apply asp_go_subseq. Qed.

(* the file-system root "/" (the empty component list) is the last ancestor of every path, so the
   characterisation above quantifies over it too: ".../x" reaches "/x" whenever no other device lies
   between the target directory and "/" *)
Lemma ancestors_rev_root rp : exists nearer, ancestors_rev rp = nearer ++ [[]].
Proof.
  induction rp as [|n r [pre IH]].
  - exists []. reflexivity.
  - exists (rev (n :: r) :: pre). cbn [ancestors_rev]. rewrite IH. reflexivity.
Qed.

Theorem root_is_an_ancestor p : exists nearer, ancestors p = nearer ++ [[]].
Proof. apply ancestors_rev_root. Qed.

Theorem root_on_same_partition (t : tree) p d0 :
  dev_of C t [] = Some d0 ->
  (forall x, In x (ancestors p) -> dev_of C t x = None \/ dev_of C t x = Some d0) ->
  In [] (ancestors_on_same_partition C t p).
Proof.
  intros HR HA. apply same_partition_spec. destruct (root_is_an_ancestor p) as [nearer E].
  exists nearer, [], d0. split; [exact E|]. split; [exact HR|].
  intros x Hx. apply HA. rewrite E. apply in_or_app. left. exact Hx.
Qed.

(* ".../x": x under every ancestor returned above, farthest first; unsafe joins are dropped;
   any other entry: the one file name, relative to the working directory *)
Theorem tripledots_entry (t : tree) cwd target_dir p :
  starts_with s_tripledots p = true ->
  expand_one C t cwd target_dir p =
  Some (rev (filter_some (map (fun a => mk_filename a (skipn 4 p))
                              (ancestors_on_same_partition C t target_dir)))).
Proof. intros H. unfold expand_one. rewrite H. reflexivity. Qed.

Theorem explicit_entry (t : tree) cwd target_dir p :
  starts_with s_tripledots p = false ->
  expand_one C t cwd target_dir p = match mk_filename cwd p with Some f => Some [f] | None => None end.
Proof. intros H. unfold expand_one. rewrite H. reflexivity. Qed.

(* ---------- the recursive walk ---------- *)
(* a .py file below a directory: every component is an entry that is not skipped; the intermediate
   ones are directories and the last one a regular file AFTER following symbolic links (os.stat) *)
Inductive reach (t : tree) : path -> path -> Prop :=
| reach_file pre d es n d' c :
    stat C t pre = Some (Dir d es) -> In n (map fst es) -> skip_name n = false ->
    stat C t (pre ++ [n]) = Some (File d' c) -> is_py n = true -> reach t pre [n]
| reach_dir pre d es n d' es' rel :
    stat C t pre = Some (Dir d es) -> In n (map fst es) -> skip_name n = false ->
    stat C t (pre ++ [n]) = Some (Dir d' es') -> reach t (pre ++ [n]) rel -> reach t pre (n :: rel).

Definition entry_result (rec : path -> option (list path)) (t : tree) (pre : path) (n : name)
  : option (list path) :=
  if skip_name n then Some []
  else match stat C t (pre ++ [n]) with
       | Some (File _ _) => Some (if is_py n then [pre ++ [n]] else [])
       | Some (Dir _ _) => rec (pre ++ [n])
       | _ => Some []
       end.

Lemma collect_In rec (t : tree) pre names : forall l f,
  collect C rec t pre names = Some l ->
  (In f l <-> exists n a, In n names /\ entry_result rec t pre n = Some a /\ In f a).
Proof.
  induction names as [|n r IH]; intros l f H.
  - simpl in H. inversion H; subst. split; [intros []|intros [n [a [[] _]]]].
  - cbn [collect] in H.
    assert (EQ : (if skip_name n then Some []
                  else match stat C t (pre ++ [n]) with
                       | Some (File _ _) => Some (if is_py n then [pre ++ [n]] else [])
                       | Some (Dir _ _) => rec (pre ++ [n])
                       | _ => Some []
                       end) = entry_result rec t pre n) by reflexivity.
    rewrite EQ in H. clear EQ.
    destruct (entry_result rec t pre n) as [a|] eqn:E; [|discriminate].
    destruct (collect C rec t pre r) as [b|] eqn:E2; [|discriminate].
    inversion H; subst. rewrite in_app_iff, (IH b f eq_refl). split.
    + intros [I|[m [a' [I [E' I']]]]].
      * exists n, a. simpl. auto.
      * exists m, a'. simpl. auto.
    + intros [m [a' [[I|I] [E' I']]]].
      * subst m. rewrite E in E'. inversion E'; subst. auto.
      * right. exists m, a'. auto.
Qed.

Lemma collect_none rec (t : tree) pre names n :
  In n names -> entry_result rec t pre n = None -> collect C rec t pre names = None.
Proof.
  induction names as [|m r IH]; intros I E; [destruct I|].
  cbn [collect].
  assert (EQ : (if skip_name m then Some []
                else match stat C t (pre ++ [m]) with
                     | Some (File _ _) => Some (if is_py m then [pre ++ [m]] else [])
                     | Some (Dir _ _) => rec (pre ++ [m])
                     | _ => Some []
                     end) = entry_result rec t pre m) by reflexivity.
  rewrite EQ. clear EQ. destruct I as [I|I].
  - subst m. rewrite E. reflexivity.
  - rewrite (IH I E). destruct (entry_result rec t pre m); reflexivity.
Qed.

Theorem walk_spec (t : tree) fuel : forall pre l f,
  walk C fuel t pre = Some l ->
  (In f l <-> exists rel, f = pre ++ rel /\ reach t pre rel).
Proof.
  induction fuel as [|fu IH]; intros pre l f H; [discriminate|].
  cbn [walk] in H. destruct (stat C t pre) as [[d c|d es|tg]|] eqn:ST;
    try (inversion H; subst; split; [intros []|intros [rel [_ R]]; inversion R; congruence]).
  rewrite (collect_In _ t pre _ l f H). split.
  - intros [n [a [I [E I']]]]. apply isort_In in I. unfold entry_result in E.
    destruct (skip_name n) eqn:SK; [inversion E; subst; destruct I'|].
    destruct (stat C t (pre ++ [n])) as [[d' c|d' es'|tg]|] eqn:ST2;
      try (inversion E; subst; destruct I').
    + destruct (is_py n) eqn:PY; inversion E; subst; [|destruct I']. destruct I' as [I'|[]]. subst f.
      exists [n]. split; auto. eapply reach_file; eauto.
    + apply (IH _ _ f E) in I' as [rel [Ef R]]. exists (n :: rel). split.
      * rewrite Ef, <- app_assoc. reflexivity.
      * eapply reach_dir; eauto.
  - intros [rel [Ef R]]. inversion R as [pre' d0 es0 n d' c ST0 I SK ST2 PY|pre' d0 es0 n d' es' rel' ST0 I SK ST2 R']; subst.
    + rewrite ST in ST0. inversion ST0; subst. exists n, [pre ++ [n]]. split; [apply isort_In; exact I|].
      split; [|left; reflexivity]. unfold entry_result. rewrite SK, ST2, PY. reflexivity.
    + rewrite ST in ST0. inversion ST0; subst.
      destruct (walk C fu t (pre ++ [n])) as [a|] eqn:W.
      * exists n, a. split; [apply isort_In; exact I|]. split.
        -- unfold entry_result. rewrite SK, ST2. exact W.
        -- apply (IH _ _ _ W). exists rel'. split; auto. rewrite <- app_assoc. reflexivity.
      * (* the sub-walk ran out of fuel: then the whole collect is None, contradiction with H *)
        exfalso.
        assert (EN : entry_result (walk C fu t) t pre n = None)
          by (unfold entry_result; rewrite SK, ST2; exact W).
        rewrite (collect_none (walk C fu t) t pre _ n (proj2 (isort_In str_leb _ n) I) EN) in H.
        discriminate.
Qed.

(* an entry named on the path: a file (or a link to one) is taken whatever its name; a directory (or
   a link to one) is walked whatever its name (".pyflyby" is hidden!) - skipping applies only below it;
   anything else (missing, dangling or looping link) is ignored *)
Theorem named_file_taken (t : tree) p d c :
  stat C t p = Some (File d c) -> expand_arg C t p = Some [p].
Proof. intros H. unfold expand_arg. rewrite H. reflexivity. Qed.

Theorem named_dir_walked (t : tree) p d es l f :
  stat C t p = Some (Dir d es) -> expand_arg C t p = Some l ->
  (In f l <-> exists rel, f = p ++ rel /\ reach t p rel).
Proof. intros H. unfold expand_arg. rewrite H. apply walk_spec. Qed.

Theorem missing_entry_ignored (t : tree) p : stat C t p = None -> expand_arg C t p = Some [].
Proof. intros H. unfold expand_arg. rewrite H. reflexivity. Qed.

(* nothing hidden, no __pycache__, nothing with an unsafe name, and only *.py below a named directory *)
Lemma reach_names (t : tree) pre rel :
  reach t pre rel -> Forall (fun n => skip_name n = false) rel /\ is_py (last rel []) = true /\ rel <> [].
Proof.
  induction 1 as [pre d es n d' c ST I SK ST2 PY|pre d es n d' es' rel ST I SK ST2 R [IH1 [IH2 IH3]]].
  - repeat split; auto. discriminate.
  - repeat split; auto; try discriminate. destruct rel; [contradiction|exact IH2].
Qed.

(* ---------- symbolic links: the resolver ---------- *)
(* a path is Clean when it has no "", "." or ".." component and no prefix of it is a symbolic link:
   what os.path.realpath returns *)
Definition plain_name (n : name) : Prop :=
  is_nil n || str_eqb n s_dot = false /\ str_eqb n s_dotdot = false.
Definition not_link (o : option tree) : Prop := match o with Some (Link _) => False | _ => True end.
Inductive Clean (t : tree) : path -> Prop :=
| Clean_nil : Clean t []
| Clean_snoc cur n : Clean t cur -> plain_name n -> not_link (lookup C t (cur ++ [n])) -> Clean t (cur ++ [n]).

Lemma Clean_snoc_inv (t : tree) cur n :
  Clean t (cur ++ [n]) -> Clean t cur /\ plain_name n /\ not_link (lookup C t (cur ++ [n])).
Proof.
  intros H. remember (cur ++ [n]) as p eqn:E. destruct H as [|c m H1 H2 H3].
  - destruct cur; discriminate.
  - apply app_inj_tail in E as [E1 E2]. subst. auto.
Qed.

Lemma Clean_prefix (t : tree) a b : Clean t (a ++ b) -> Clean t a.
Proof.
  induction b as [|m b IH] using rev_ind; [rewrite app_nil_r; auto|].
  rewrite app_assoc. intros H. apply Clean_snoc_inv in H as [H _]. auto.
Qed.

Lemma Clean_removelast (t : tree) cur : Clean t cur -> Clean t (removelast cur).
Proof.
  intros H. destruct H as [|c m H1 H2 H3]; [constructor|]. rewrite removelast_last. exact H1.
Qed.

(* whatever the resolver returns is Clean *)
Lemma resolve_Clean (t : tree) strict fuel : forall cur rest r,
  Clean t cur -> resolve C strict fuel t cur rest = Some r -> Clean t r.
Proof.
  induction fuel as [|f IH]; intros cur rest r HC H; [discriminate|].
  revert cur HC H. induction rest as [|n rs IHr]; intros cur HC H.
  - simpl in H. inversion H; subst. exact HC.
  - cbn [resolve] in H. cbn [resolve] in IHr.
    destruct (is_nil n || str_eqb n s_dot) eqn:E1; [apply (IHr _ HC H)|].
    destruct (str_eqb n s_dotdot) eqn:E2; [apply (IHr _ (Clean_removelast t cur HC) H)|].
    destruct (lookup C t (cur ++ [n])) as [[d c|d es|tg]|] eqn:L.
    + apply (IHr (cur ++ [n])); auto. constructor; auto; [split; auto|rewrite L; exact I].
    + apply (IHr (cur ++ [n])); auto. constructor; auto; [split; auto|rewrite L; exact I].
    + apply (IH _ _ _ (if starts_with s_slash tg as b return Clean t (if b then [] else cur) then Clean_nil t else HC) H).
    + destruct strict; [discriminate|].
      apply (IHr (cur ++ [n])); auto. constructor; auto; [split; auto|rewrite L; exact I].
Qed.

(* a Clean path resolves to itself (realpath is idempotent) ... *)
Lemma resolve_Clean_id (t : tree) f : forall rest cur,
  Clean t (cur ++ rest) -> resolve C false (S f) t cur rest = Some (cur ++ rest).
Proof.
  induction rest as [|n rs IH]; intros cur HC.
  - rewrite app_nil_r. reflexivity.
  - assert (HC' := HC). replace (cur ++ n :: rs) with ((cur ++ [n]) ++ rs) in HC' by (rewrite <- app_assoc; reflexivity).
    pose proof (Clean_prefix t _ _ HC') as HP. apply Clean_snoc_inv in HP as [_ [[P1 P2] NL]].
    cbn [resolve]. cbn [resolve] in IH. rewrite P1, P2.
    destruct (lookup C t (cur ++ [n])) as [[d c|d es|tg]|] eqn:L; try (destruct NL);
      rewrite (IH (cur ++ [n]) HC'), <- app_assoc; reflexivity.
Qed.

Lemma lookup_prefix_some : forall a (t : tree) b x,
  lookup C t (a ++ b) = Some x -> exists y, lookup C t a = Some y.
Proof.
  induction a as [|n a IH]; intros t b x H; [exists t; reflexivity|].
  simpl in H |- *. destruct t as [d c|d es|tg]; try discriminate.
  destruct (assoc_name n es) as [s|]; [|discriminate]. eapply IH; eauto.
Qed.

(* ... also for os.stat, when it exists *)
Lemma resolve_Clean_id_strict (t : tree) f : forall rest cur x,
  Clean t (cur ++ rest) -> lookup C t (cur ++ rest) = Some x ->
  resolve C true (S f) t cur rest = Some (cur ++ rest).
Proof.
  induction rest as [|n rs IH]; intros cur x HC LK.
  - rewrite app_nil_r. reflexivity.
  - assert (HC' := HC). replace (cur ++ n :: rs) with ((cur ++ [n]) ++ rs) in HC', LK by (rewrite <- app_assoc; reflexivity).
    pose proof (Clean_prefix t _ _ HC') as HP. apply Clean_snoc_inv in HP as [_ [[P1 P2] NL]].
    destruct (lookup_prefix_some _ _ _ _ LK) as [y Ly].
    cbn [resolve]. cbn [resolve] in IH. rewrite P1, P2, Ly. rewrite Ly in NL.
    destruct y as [d c|d es|tg]; try (destruct NL);
      rewrite (IH (cur ++ [n]) x HC' LK), <- app_assoc; reflexivity.
Qed.

(* what os.stat resolves, os.path.realpath resolves to the same place *)
Lemma resolve_strict_nonstrict (t : tree) fuel : forall cur rest r,
  resolve C true fuel t cur rest = Some r -> resolve C false fuel t cur rest = Some r.
Proof.
  induction fuel as [|f IH]; intros cur rest r H; [discriminate|].
  revert cur H. induction rest as [|n rs IHr]; intros cur H; [exact H|].
  cbn [resolve] in H |- *. cbn [resolve] in IHr.
  destruct (is_nil n || str_eqb n s_dot); [apply IHr; exact H|].
  destruct (str_eqb n s_dotdot); [apply IHr; exact H|].
  destruct (lookup C t (cur ++ [n])) as [[d c|d es|tg]|]; try (apply IHr; exact H).
  - apply IH. exact H.
  - discriminate.
Qed.

(* the real path of an existing directory is an existing directory and its own real path:
   this is what makes the second (1, realpath, ...) cache key of get_default sound *)
Theorem realpath_of_dir (t : tree) p :
  isdir C t p = true ->
  exists r, realpath C t p = Some r /\ isdir C t r = true /\ realpath C t r = Some r.
Proof.
  unfold isdir, stat, realpath, max_links. intros H.
  destruct (resolve C true 40 t [] p) as [r|] eqn:R; [|discriminate].
  pose proof (resolve_Clean t true 40 [] p r (Clean_nil t) R) as HC.
  exists r. split; [apply resolve_strict_nonstrict; exact R|].
  destruct (lookup C t r) as [x|] eqn:L; [|discriminate].
  rewrite (resolve_Clean_id_strict t 39 r [] x HC L). simpl app. rewrite L.
  split; [exact H|]. apply (resolve_Clean_id t 39 r [] HC).
Qed.

Theorem realpath_clean (t : tree) p r : realpath C t p = Some r -> Clean t r.
Proof. apply resolve_Clean. constructor. Qed.

End PathSem.

(* Proofs about Sys/AtomicWrite.v (C08). *)
From Coq Require Import NArith List Bool Arith Lia.
From Verif Require Import Sys.AtomicWrite.
Import ListNotations.

(* ---------------------------------------------------------------------------------------------
   paths, updates *)

Lemma path_eqb_spec a b : reflect (a = b) (path_eqb a b).
Proof.
  destruct a, b; cbn; try (constructor; congruence).
  - destruct (N.eqb_spec pid pid0); constructor; congruence.
  - destruct (N.eqb_spec n n0); constructor; congruence.
Qed.

Lemma upd_same f p v : upd f p v p = v.
Proof. unfold upd. destruct (path_eqb_spec p p); congruence. Qed.
Lemma upd_other f p v q : q <> p -> upd f p v q = f q.
Proof. unfold upd. destruct (path_eqb_spec q p); congruence. Qed.

Lemma pwrite_at_end d c : pwrite_at d (length d) c = d ++ c.
Proof.
  unfold pwrite_at. rewrite firstn_all, Nat.sub_diag. cbn [repeat app].
  rewrite skipn_all2 by lia. now rewrite app_nil_r.
Qed.

Lemma map_fst_nofault l : map fst (nofault l) = l.
Proof. unfold nofault. rewrite map_map. cbn. apply map_id. Qed.
Lemma map_fst_inject k flt l : map fst (inject k flt l) = l.
Proof.
  revert k. induction l as [|i r IH]; intros [|k]; cbn; auto.
  - now rewrite map_fst_nofault.
  - now rewrite IH.
Qed.
Lemma nofault_all l : Forall (fun x => snd x = NoFault) (nofault l).
Proof. unfold nofault. apply Forall_forall. intros x Hx. apply in_map_iff in Hx. destruct Hx as (i & <- & _). reflexivity. Qed.

(* ---------------------------------------------------------------------------------------------
   one writer: phases of the program and the invariant of its temporary file *)

Section Writer.
Variables (v : variant) (e : env) (tmp : path) (chunks : list content).
Hypothesis tmp_ne : tmp <> Target.
Let data := concat chunks.

Inductive phase :=
| PStart | PWriting (d : content) (rest : list content) | PClosed | PStatted | PMeta1 | PMeta2 | PDone.

Definition remaining (ph : phase) : list instr :=
  match ph with
  | PStart => prog v chunks
  | PWriting _ rest => map IWrite rest ++ tail5 v
  | PClosed => [IStat; meta1 v; meta2 v; IRename]
  | PStatted => [meta1 v; meta2 v; IRename]
  | PMeta1 => [meta2 v; IRename]
  | PMeta2 => [IRename]
  | PDone => []
  end.

Definition next (ph : phase) : option (instr * phase) :=
  match ph with
  | PStart => Some (IOpen, PWriting [] chunks)
  | PWriting d (c :: r) => Some (IWrite c, PWriting (d ++ c) r)
  | PWriting d [] => Some (IClose, PClosed)
  | PClosed => Some (IStat, PStatted)
  | PStatted => Some (meta1 v, PMeta1)
  | PMeta1 => Some (meta2 v, PMeta2)
  | PMeta2 => Some (IRename, PDone)
  | PDone => None
  end.

Lemma remaining_next ph :
  remaining ph = match next ph with Some (i, ph') => i :: remaining ph' | None => [] end.
Proof. destruct ph as [|d [|c r]| | | | |]; reflexivity. Qed.

(* while the frame is running: the temporary file holds exactly the bytes written so far, and
   the complete text once the file is closed *)
Definition winv (f : fs) (l : plocal) (ph : phase) : Prop :=
  pctl l = Run ->
  match ph with
  | PStart | PDone => True
  | PWriting d rest => d ++ concat rest = data /\ poff l = length d /\ content_of f tmp = Some d
  | _ => content_of f tmp = Some data
  end.

(* the phases between close and rename *)
Definition closed_ph (ph : phase) : Prop := ph = PStatted \/ ph = PMeta1 \/ ph = PMeta2.
Lemma winv_closed f l ph : closed_ph ph -> (pctl l = Run -> content_of f tmp = Some data) -> winv f l ph.
Proof. intros [-> | [-> | ->]] H Hr; cbn; auto. Qed.

Lemma content_upd_same f p x : content_of (upd f p (Some x)) p = Some (fcontent x).
Proof. unfold content_of. now rewrite upd_same. Qed.

Definition post (f : fs) (l : plocal) (i : instr) (flt : fault) (ph' : phase) (f' : fs) (l' : plocal) : Prop :=
  winv f' l' ph' /\
  (forall q, q <> tmp -> q <> Target -> f' q = f q) /\
  ((f' Target = f Target /\ (i = IRename -> pctl l' <> Run)) \/
   (i = IRename /\ pctl l' = Run /\ content_of f' Target = Some data /\ f' Target = f tmp /\ f' tmp = None)) /\
  (pctl l' = Run -> pctl l = Run) /\
  (flt = NoFault -> pctl l = Run -> pctl l' = Run).

Lemma post_nochange f l i flt ph' l' :
  winv f l' ph' -> (i = IRename -> pctl l' <> Run) -> (pctl l' = Run -> pctl l = Run) ->
  (flt = NoFault -> pctl l = Run -> pctl l' = Run) -> post f l i flt ph' f l'.
Proof. intros H1 H2 H3 H4. unfold post. split; [exact H1|]. split; [auto|]. split; [left; split; auto|]. split; auto. Qed.

Lemma post_tmp f l i flt ph' x l' :
  i <> IRename -> winv (upd f tmp (Some x)) l' ph' -> (pctl l' = Run -> pctl l = Run) ->
  (flt = NoFault -> pctl l = Run -> pctl l' = Run) -> post f l i flt ph' (upd f tmp (Some x)) l'.
Proof.
  intros H0 H1 H3 H4. unfold post. split; [exact H1|]. split; [intros q Hq _; now rewrite upd_other|].
  split; [left; split; [now rewrite upd_other by congruence | intros; congruence]|]. split; auto.
Qed.

Lemma faulted_nofault flt : faulted flt = true -> flt = NoFault -> False.
Proof. destruct flt; cbn; congruence. Qed.

(* stat / chmod / chown between close and rename: the temporary file keeps the complete text *)
Lemma step_stat f l flt ph' f' l' :
  pctl l = Run -> content_of f tmp = Some data -> closed_ph ph' ->
  step v e tmp (f, l) (IStat, flt) = (f', l') -> post f l IStat flt ph' f' l'.
Proof.
  intros Hc HI Hph Hs. unfold step, exec in Hs. rewrite Hc in Hs.
  assert (Hf : f' = f /\ (flt = NoFault -> pctl l' = Run) /\ (pctl l' = Run -> pctl l = Run)).
  { destruct flt, (sys_stat f Target), v; cbn in Hs; inversion Hs; subst; repeat split; auto; cbn; intros; congruence. }
  destruct Hf as (-> & Hnf & Hb).
  apply post_nochange; auto; try (intros; congruence). apply winv_closed; auto.
Qed.

Lemma step_chmod f l flt ph' f' l' :
  pctl l = Run -> content_of f tmp = Some data -> closed_ph ph' ->
  step v e tmp (f, l) (IChmod, flt) = (f', l') -> post f l IChmod flt ph' f' l'.
Proof.
  intros Hc HI Hph Hs. unfold step, exec in Hs. rewrite Hc in Hs.
  unfold content_of in HI.
  destruct (f tmp) as [x|] eqn:Hx; cbn in HI; [|discriminate]. inversion HI as [Hdata].
  assert (Hkeep : content_of f tmp = Some data) by (unfold content_of; now rewrite Hx).
  destruct (pst l) as [[m g]|] eqn:Hst.
  2:{ cbn in Hs. inversion Hs; subst f' l'.
      apply post_nochange; auto; try (intros; congruence). apply winv_closed; auto. }
  destruct (faulted flt) eqn:Hflt.
  + assert (Hf : f' = f /\ (pctl l' = Run -> pctl l = Run)).
    { destruct v; cbn in Hs; inversion Hs; subst; split; auto; cbn; congruence. }
    destruct Hf as (-> & Hb).
    apply post_nochange; auto; try (intros; congruence).
    * apply winv_closed; auto.
    * intros Hnf; exfalso; eapply faulted_nofault; eauto.
  + unfold sys_chmod in Hs. rewrite Hx in Hs. cbn in Hs. inversion Hs; subst f' l'; clear Hs.
    apply post_tmp; [discriminate | | auto | auto].
    apply winv_closed; auto. intros _. now rewrite content_upd_same.
Qed.

Lemma step_chown f l flt ph' f' l' :
  pctl l = Run -> content_of f tmp = Some data -> closed_ph ph' ->
  step v e tmp (f, l) (IChown, flt) = (f', l') -> post f l IChown flt ph' f' l'.
Proof.
  intros Hc HI Hph Hs. unfold step, exec in Hs. rewrite Hc in Hs.
  unfold content_of in HI.
  destruct (f tmp) as [x|] eqn:Hx; cbn in HI; [|discriminate]. inversion HI as [Hdata].
  assert (Hkeep : content_of f tmp = Some data) by (unfold content_of; now rewrite Hx).
  destruct (pst l) as [[m g]|] eqn:Hst.
  2:{ cbn in Hs. inversion Hs; subst f' l'.
      apply post_nochange; auto; try (intros; congruence). apply winv_closed; auto. }
  destruct (faulted flt) eqn:Hflt.
  + cbn in Hs. inversion Hs; subst f' l'.
    apply post_nochange; auto; try (intros; congruence). apply winv_closed; auto.
  + unfold sys_chown in Hs. rewrite Hx in Hs.
    destruct (may_chown e g); cbn in Hs; inversion Hs; subst f' l'; clear Hs.
    * apply post_tmp; [discriminate | | auto | auto].
      apply winv_closed; auto. intros _. now rewrite content_upd_same.
    * apply post_nochange; auto; try (intros; congruence). apply winv_closed; auto.
Qed.

Lemma step_meta f l flt i ph' f' l' :
  i = IChmod \/ i = IChown ->
  pctl l = Run -> content_of f tmp = Some data -> closed_ph ph' ->
  step v e tmp (f, l) (i, flt) = (f', l') -> post f l i flt ph' f' l'.
Proof. intros [-> | ->]; [apply step_chmod | apply step_chown]. Qed.

Lemma meta_cases : (meta1 v = IChmod /\ meta2 v = IChown) \/ (meta1 v = IChown /\ meta2 v = IChmod).
Proof. unfold meta1, meta2. destruct (chown_first v); auto. Qed.

Lemma meta_not_rename : meta1 v <> IRename /\ meta2 v <> IRename.
Proof. destruct meta_cases as [[-> ->] | [-> ->]]; split; discriminate. Qed.

Lemma next_rename ph ph' : next ph = Some (IRename, ph') -> ph' = PDone.
Proof.
  destruct meta_not_rename as [H1 H2].
  destruct ph as [|d [|c r]| | | | |]; cbn; intros H; inversion H; subst; auto; congruence.
Qed.

Lemma next_done ph i : next ph = Some (i, PDone) -> i = IRename.
Proof. destruct ph as [|d [|c r]| | | | |]; cbn; intros H; inversion H; subst; auto. Qed.

Lemma remaining_nil ph : remaining ph = [] -> ph = PDone.
Proof. destruct ph as [|d [|c r]| | | | |]; cbn; unfold tail5; try discriminate; auto. Qed.

Lemma exec_inv f l ph i ph' flt :
  winv f l ph -> next ph = Some (i, ph') ->
  forall f' l', step v e tmp (f, l) (i, flt) = (f', l') -> post f l i flt ph' f' l'.
Proof.
  intros HI Hn f' l' Hs.
  destruct (pctl l) eqn:Hc.
  2:{ (* Unwind *)
    unfold step, exec in Hs. rewrite Hc in Hs.
    assert (Hf : f' = f /\ pctl l' <> Run).
    { destruct i; cbn in Hs; inversion Hs; subst; split; auto; cbn; congruence. }
    destruct Hf as [-> Hl'].
    apply post_nochange; try (intros; congruence). }
  2:{ (* Dead *)
    unfold step, exec in Hs. rewrite Hc in Hs.
    cbn in Hs. inversion Hs; subst.
    apply post_nochange; try (intros; congruence). }
  (* Run *)
  unfold winv in HI. specialize (HI Hc).
  destruct ph as [|d [|c r]| | | | |]; cbn in Hn; inversion Hn; subst i ph'; clear Hn.
  - (* IOpen *)
    unfold step, exec in Hs. rewrite Hc in Hs.
    destruct (faulted flt) eqn:Hflt; cbn in Hs; inversion Hs; subst f' l'; clear Hs.
    + apply post_nochange; cbn; try (intros; congruence).
      * intros Hr; cbn in Hr; congruence.
      * intros Hnf; exfalso; eapply faulted_nofault; eauto.
    + unfold sys_open_trunc.
      destruct (f tmp); (apply post_tmp; [discriminate | | auto | auto]);
        intros _; cbn; (split; [reflexivity|]); (split; [reflexivity|]); apply content_upd_same.
  - (* IClose after the last write *)
    unfold step, exec in Hs. rewrite Hc in Hs.
    destruct HI as (Hd & Ho & Ht). cbn in Hd. rewrite app_nil_r in Hd.
    destruct (faulted flt) eqn:Hflt; cbn in Hs; inversion Hs; subst f' l'; clear Hs.
    + apply post_nochange; cbn; try (intros; congruence).
      * intros Hr; cbn in Hr; congruence.
      * intros Hnf; exfalso; eapply faulted_nofault; eauto.
    + apply post_nochange; try (intros; congruence); auto.
      intros _. rewrite <- Hd. exact Ht.
  - (* IWrite c *)
    unfold step, exec in Hs. rewrite Hc in Hs.
    destruct HI as (Hd & Ho & Ht). cbn in Hd.
    destruct (faulted flt) eqn:Hflt; cbn in Hs; inversion Hs; subst f' l'; clear Hs.
    + apply post_nochange; cbn; try (intros; congruence).
      * intros Hr; cbn in Hr; congruence.
      * intros Hnf; exfalso; eapply faulted_nofault; eauto.
    + unfold content_of in Ht. unfold sys_write.
      destruct (f tmp) as [x|] eqn:Hx; cbn in Ht; [|discriminate]. inversion Ht; subst d.
      apply post_tmp; [discriminate | | auto | auto].
      intros _. cbn. rewrite <- app_assoc. split; [exact Hd|]. split.
      * rewrite app_length. congruence.
      * rewrite content_upd_same. cbn. rewrite Ho. now rewrite pwrite_at_end.
  - (* IStat *)
    apply step_stat; auto. left; reflexivity.
  - (* first of chmod / chown *)
    apply step_meta; auto; [destruct meta_cases as [[-> _] | [-> _]]; auto | right; left; reflexivity].
  - (* second of chmod / chown *)
    apply step_meta; auto; [destruct meta_cases as [[_ ->] | [_ ->]]; auto | right; right; reflexivity].
  - (* IRename *)
    unfold step, exec in Hs. rewrite Hc in Hs.
    cbn in HI. unfold content_of in HI.
    destruct (f tmp) as [x|] eqn:Hx; cbn in HI; [|discriminate]. inversion HI as [Hdata].
    destruct (faulted flt) eqn:Hflt.
    + cbn in Hs. inversion Hs; subst f' l'.
      apply post_nochange; cbn; try (intros; congruence).
      * intros Hr; cbn in Hr; congruence.
      * intros Hnf; exfalso; eapply faulted_nofault; eauto.
    + unfold sys_rename in Hs. rewrite Hx in Hs. cbn in Hs. inversion Hs; subst f' l'; clear Hs.
      unfold post. split; [intros _; exact I|]. split; [intros q Hq Hq'; now rewrite !upd_other|].
      split; [|split; auto].
      right. split; [reflexivity|]. split; [assumption|]. split; [|split].
      * unfold content_of. rewrite upd_other by congruence. now rewrite upd_same.
      * rewrite upd_other by congruence. now rewrite upd_same.
      * apply upd_same.
Qed.

(* a frame that is not running has no effect on the file system *)
Lemma step_not_running f l x : pctl l <> Run ->
  fst (step v e tmp (f, l) x) = f /\ pctl (snd (step v e tmp (f, l) x)) <> Run.
Proof.
  intros Hc. unfold step, exec. destruct x as [i flt]. destruct (pctl l) eqn:Hl; [congruence| |].
  - destruct i; cbn; rewrite ?Hl; split; auto; cbn; congruence.
  - cbn. rewrite Hl. split; auto.
Qed.

(* every prefix of every (faulty or not) execution of the rest of the program *)
Lemma run_phases : forall xs ph f l,
  map fst xs = remaining ph -> winv f l ph ->
  forall k f' l', run v e tmp (f, l) (firstn k xs) = (f', l') ->
  (f' Target = f Target \/ (content_of f' Target = Some data /\ length xs <= k /\ pctl l' = Run /\ xs <> []))
  /\ (forall q, q <> tmp -> q <> Target -> f' q = f q).
Proof.
  induction xs as [|x xs IH]; intros ph f l Hm HI k f' l' Hr.
  - rewrite firstn_nil in Hr. cbn in Hr. inversion Hr; subst. split; auto.
  - destruct k as [|k].
    + cbn in Hr. inversion Hr; subst. split; auto.
    + rewrite remaining_next in Hm. destruct (next ph) as [[i ph']|] eqn:Hn; [|discriminate].
      cbn in Hm. inversion Hm as [[Hi Hm']].
      cbn [firstn] in Hr. unfold run in Hr. cbn [fold_left] in Hr.
      destruct x as [i0 flt]. cbn in Hi. subst i0.
      destruct (step v e tmp (f, l) (i, flt)) as [f1 l1] eqn:Hs.
      destruct (exec_inv f l ph i ph' flt HI Hn f1 l1 Hs) as (HI1 & Hfr & Htg & _ & _).
      destruct (IH ph' f1 l1 Hm' HI1 k f' l' Hr) as (Ht' & Hfr').
      split.
      * destruct Htg as [(Hsame & _) | (Hi & Hrun & Hc & _)].
        -- destruct Ht' as [Ht' | (Hc' & Hlen & Hrun' & _)].
           ++ left. congruence.
           ++ right. repeat split; auto; [cbn; lia | discriminate].
        -- subst i. apply next_rename in Hn. subst ph'.
           cbn in Hm'. apply map_eq_nil in Hm'. subst xs.
           rewrite firstn_nil in Hr. cbn in Hr. inversion Hr; subst f' l'.
           right. repeat split; auto; [cbn; lia | discriminate].
      * intros q Hq Hq'. rewrite Hfr' by auto. apply Hfr; auto.
Qed.

(* complete executions: the call returns normally iff the target was replaced *)
Lemma run_complete : forall xs ph f l,
  map fst xs = remaining ph -> winv f l ph -> ph <> PDone ->
  forall f' l', run v e tmp (f, l) xs = (f', l') ->
  (pctl l' = Run /\ content_of f' Target = Some data /\ f' tmp = None) \/ (pctl l' <> Run /\ f' Target = f Target).
Proof.
  induction xs as [|x xs IH]; intros ph f l Hm HI Hph f' l' Hr.
  - cbn in Hm. symmetry in Hm. apply remaining_nil in Hm. congruence.
  - rewrite remaining_next in Hm. destruct (next ph) as [[i ph']|] eqn:Hn; [|discriminate].
    cbn in Hm. inversion Hm as [[Hi Hm']].
    unfold run in Hr. cbn [fold_left] in Hr.
    destruct x as [i0 flt]. cbn in Hi. subst i0.
    destruct (step v e tmp (f, l) (i, flt)) as [f1 l1] eqn:Hs.
    destruct (exec_inv f l ph i ph' flt HI Hn f1 l1 Hs) as (HI1 & Hfr & Htg & _ & _).
    destruct Htg as [(Hsame & Hren) | (Hi & Hrun & Hc & _ & Hgone)].
    + destruct ph' eqn:Hph'.
      7:{ (* the step was the rename and it failed *)
          apply next_done in Hn. subst i.
          cbn in Hm'. apply map_eq_nil in Hm'. subst xs. cbn in Hr. inversion Hr; subst f' l'.
          right. split; auto. }
      all: destruct (IH _ f1 l1 Hm' HI1 ltac:(discriminate) f' l' Hr) as [Hok | (Hnr & Hsm)];
           [left; exact Hok | right; split; [exact Hnr | congruence]].
    + subst i. apply next_rename in Hn. subst ph'.
      cbn in Hm'. apply map_eq_nil in Hm'. subst xs. cbn in Hr. inversion Hr; subst f' l'.
      left. split; auto.
Qed.

(* fault-free executions keep running *)
Lemma run_nofault_alive : forall xs ph f l,
  map fst xs = remaining ph -> winv f l ph -> Forall (fun x => snd x = NoFault) xs -> pctl l = Run ->
  forall f' l', run v e tmp (f, l) xs = (f', l') -> pctl l' = Run.
Proof.
  induction xs as [|x xs IH]; intros ph f l Hm HI Hnf Hl f' l' Hr.
  - cbn in Hr. inversion Hr; subst. exact Hl.
  - rewrite remaining_next in Hm. destruct (next ph) as [[i ph']|] eqn:Hn; [|discriminate].
    cbn in Hm. inversion Hm as [[Hi Hm']].
    unfold run in Hr. cbn [fold_left] in Hr.
    destruct x as [i0 flt]. cbn in Hi. subst i0.
    inversion Hnf as [|? ? Hx Hnf']; subst. cbn in Hx. subst flt.
    destruct (step v e tmp (f, l) (i, NoFault)) as [f1 l1] eqn:Hs.
    destruct (exec_inv f l ph i ph' NoFault HI Hn f1 l1 Hs) as (HI1 & _ & _ & _ & Hal).
    eapply IH; eauto.
Qed.

Lemma winv_start f l : winv f l PStart.
Proof. intros _. exact I. Qed.

End Writer.


(* ---------------------------------------------------------------------------------------------
   C08, one writer *)

Lemma tmp_target pid : Tmp pid <> Target.
Proof. discriminate. Qed.

(* every prefix (crash point) of every execution with any pattern of injected faults: the target
   is the untouched old file, or holds the complete new text - and the latter only once the whole
   call sequence (whose last call is the rename) has been issued; no other path is touched *)
Theorem crash_fault_atomic_gen : forall v e pid chunks f xs k f' l',
  map fst xs = prog v chunks ->
  atomic_write v e pid f (firstn k xs) = (f', l') ->
  (f' Target = f Target \/ (content_of f' Target = Some (concat chunks) /\ length xs <= k)) /\
  (forall q, q <> Tmp pid -> q <> Target -> f' q = f q).
Proof.
  intros v e pid chunks f xs k f' l' Hm Hr. unfold atomic_write in Hr.
  destruct (run_phases v e (Tmp pid) chunks (tmp_target pid) xs PStart f loc0 Hm (winv_start _ _ _ _) k f' l' Hr)
    as [[Hs | (Hc & Hl & _)] Hfr]; split; auto.
Qed.

Theorem returns_iff_replaced_gen : forall v e pid chunks f xs f' l',
  map fst xs = prog v chunks ->
  atomic_write v e pid f xs = (f', l') ->
  (raised l' = false /\ content_of f' Target = Some (concat chunks) /\ f' (Tmp pid) = None) \/
  (raised l' = true /\ f' Target = f Target).
Proof.
  intros v e pid chunks f xs f' l' Hm Hr. unfold atomic_write in Hr.
  destruct (run_complete v e (Tmp pid) chunks (tmp_target pid) xs PStart f loc0 Hm (winv_start _ _ _ _)
              ltac:(discriminate) f' l' Hr) as [(Hc & Ht) | (Hc & Ht)]; [left | right]; split; auto;
    unfold raised; destruct (pctl l'); congruence.
Qed.

Theorem nofault_returns : forall v e pid chunks f f' l',
  atomic_write v e pid f (nofault (prog v chunks)) = (f', l') ->
  raised l' = false /\ content_of f' Target = Some (concat chunks) /\ f' (Tmp pid) = None.
Proof.
  intros v e pid chunks f f' l' Hr.
  assert (Hal : pctl l' = Run).
  { unfold atomic_write in Hr.
    apply (run_nofault_alive v e (Tmp pid) chunks (tmp_target pid) (nofault (prog v chunks)) PStart f loc0
             (map_fst_nofault _) (winv_start _ _ _ _) (nofault_all _) eq_refl f' l' Hr). }
  destruct (returns_iff_replaced_gen v e pid chunks f _ f' l' (map_fst_nofault _) Hr) as [Hok | (Hc & Ht)].
  - exact Hok.
  - unfold raised in Hc. rewrite Hal in Hc. discriminate.
Qed.

(* ---------------------------------------------------------------------------------------------
   C08, two writers *)

Lemma winv_frame tmp chunks f f' l ph : f' tmp = f tmp -> winv tmp chunks f l ph -> winv tmp chunks f' l ph.
Proof.
  intros Hf HI Hr. specialize (HI Hr). unfold content_of in *. destruct ph; auto; rewrite Hf; exact HI.
Qed.

Definition committed (ph : phase) (l : plocal) : Prop := ph = PDone /\ pctl l = Run.

(* one step of the writer "m" (me) next to the writer "o" (other) *)
Lemma step_beside v e tm tother cm co (old : option content) f lm lo phm pho i phm' flt f' lm' :
  tm <> Target -> tother <> Target -> tm <> tother ->
  winv tm cm f lm phm -> winv tother co f lo pho ->
  (content_of f Target = old \/ content_of f Target = Some (concat cm) \/ content_of f Target = Some (concat co)) ->
  (committed phm lm \/ committed pho lo ->
     content_of f Target = Some (concat cm) \/ content_of f Target = Some (concat co)) ->
  next v cm phm = Some (i, phm') -> step v e tm (f, lm) (i, flt) = (f', lm') ->
  winv tm cm f' lm' phm' /\ winv tother co f' lo pho /\
  (content_of f' Target = old \/ content_of f' Target = Some (concat cm) \/ content_of f' Target = Some (concat co)) /\
  (committed phm' lm' \/ committed pho lo ->
     content_of f' Target = Some (concat cm) \/ content_of f' Target = Some (concat co)) /\
  (flt = NoFault -> pctl lm = Run -> pctl lm' = Run).
Proof.
  intros Hm Ho Hmo HIm HIo HT HC Hn Hs.
  destruct (exec_inv v e tm cm Hm f lm phm i phm' flt HIm Hn f' lm' Hs) as (HIm' & Hfr & Htg & _ & Hal).
  split; [exact HIm'|]. split.
  { apply winv_frame with (f := f); [apply Hfr; auto | exact HIo]. }
  destruct Htg as [(Hsame & Hren) | (Hi & Hrun & Hc & _)].
  - assert (Hcs : content_of f' Target = content_of f Target) by (unfold content_of; now rewrite Hsame).
    split; [rewrite Hcs; exact HT|]. split; [|exact Hal].
    intros [(Hd & Hr) | Hco]; rewrite Hcs.
    + subst phm'. assert (i = IRename) by (eapply next_done; eauto).
      exfalso. apply Hren; auto.
    + apply HC. right. exact Hco.
  - split; [right; left; exact Hc|]. split; [|exact Hal]. intros _. left. exact Hc.
Qed.

Lemma interleave_tag_inv {A} (a b : list A) l : interleave (tag L a) (tag R b) l ->
  match l with
  | [] => a = [] /\ b = []
  | x :: l' => (exists y a', a = y :: a' /\ x = (L, y) /\ interleave (tag L a') (tag R b) l') \/
               (exists y b', b = y :: b' /\ x = (R, y) /\ interleave (tag L a) (tag R b') l')
  end.
Proof.
  intros H. inversion H as [Ha Hb Hl | x a0 b0 l0 Hrest Ha Hb Hl | x a0 b0 l0 Hrest Ha Hb Hl]; subst.
  - unfold tag in *. symmetry in Ha, Hb. apply map_eq_nil in Ha, Hb. auto.
  - left. destruct a as [|y a']; cbn in Ha; inversion Ha; subst. exists y, a'. auto.
  - right. destruct b as [|y b']; cbn in Hb; inversion Hb; subst. exists y, b'. auto.
Qed.

Section Two.
Variables (v : variant) (e : env) (p1 p2 : N) (c1 c2 : list content) (old : option content).
Hypothesis Hpid : p1 <> p2.
Let d1 := concat c1.
Let d2 := concat c2.

Definition target_in (f : fs) : Prop :=
  content_of f Target = old \/ content_of f Target = Some d1 \/ content_of f Target = Some d2.
Definition target_new (f : fs) : Prop :=
  content_of f Target = Some d1 \/ content_of f Target = Some d2.

Definition Inv2 (s : sys) (ph1 ph2 : phase) : Prop :=
  winv (Tmp p1) c1 (sfs s) (loc1 s) ph1 /\ winv (Tmp p2) c2 (sfs s) (loc2 s) ph2 /\
  target_in (sfs s) /\
  (committed ph1 (loc1 s) \/ committed ph2 (loc2 s) -> target_new (sfs s)).

Lemma tmp12 : Tmp p1 <> Tmp p2. Proof. congruence. Qed.
Lemma tmp21 : Tmp p2 <> Tmp p1. Proof. congruence. Qed.

Lemma sstep_L s ph1 ph2 i ph1' flt :
  Inv2 s ph1 ph2 -> next v c1 ph1 = Some (i, ph1') ->
  Inv2 (sstep v e p1 p2 s (L, (i, flt))) ph1' ph2 /\
  loc2 (sstep v e p1 p2 s (L, (i, flt))) = loc2 s /\
  (flt = NoFault -> pctl (loc1 s) = Run -> pctl (loc1 (sstep v e p1 p2 s (L, (i, flt)))) = Run).
Proof.
  intros (H1 & H2 & HT & HC) Hn. unfold sstep. cbn [fst snd].
  destruct (step v e (Tmp p1) (sfs s, loc1 s) (i, flt)) as [f' l'] eqn:Hs. cbn [sfs loc1 loc2].
  destruct (step_beside v e (Tmp p1) (Tmp p2) c1 c2 old (sfs s) (loc1 s) (loc2 s) ph1 ph2 i ph1' flt f' l'
              (tmp_target p1) (tmp_target p2) tmp12 H1 H2 HT HC Hn Hs) as (A & B & C & D & E).
  split; [|split; auto]. unfold Inv2. cbn [sfs loc1 loc2]. auto.
Qed.

Lemma sstep_R s ph1 ph2 i ph2' flt :
  Inv2 s ph1 ph2 -> next v c2 ph2 = Some (i, ph2') ->
  Inv2 (sstep v e p1 p2 s (R, (i, flt))) ph1 ph2' /\
  loc1 (sstep v e p1 p2 s (R, (i, flt))) = loc1 s /\
  (flt = NoFault -> pctl (loc2 s) = Run -> pctl (loc2 (sstep v e p1 p2 s (R, (i, flt)))) = Run).
Proof.
  intros (H1 & H2 & HT & HC) Hn. unfold sstep. cbn [fst snd].
  destruct (step v e (Tmp p2) (sfs s, loc2 s) (i, flt)) as [f' l'] eqn:Hs. cbn [sfs loc1 loc2].
  assert (HT' : content_of (sfs s) Target = old \/ content_of (sfs s) Target = Some (concat c2) \/
                content_of (sfs s) Target = Some (concat c1)).
  { destruct HT as [A | [A | A]]; auto. }
  assert (HC' : committed ph2 (loc2 s) \/ committed ph1 (loc1 s) ->
                content_of (sfs s) Target = Some (concat c2) \/ content_of (sfs s) Target = Some (concat c1)).
  { intros Hc. destruct HC as [A | A]; auto. destruct Hc; auto. }
  destruct (step_beside v e (Tmp p2) (Tmp p1) c2 c1 old (sfs s) (loc2 s) (loc1 s) ph2 ph1 i ph2' flt f' l'
              (tmp_target p2) (tmp_target p1) tmp21 H2 H1 HT' HC' Hn Hs) as (A & B & C & D & E).
  split; [|split; auto]. unfold Inv2. cbn [sfs loc1 loc2].
  split; [exact B|]. split; [exact A|]. split.
  - destruct C as [C | [C | C]]; unfold target_in; auto.
  - intros Hc. destruct D as [D | D]; [destruct Hc; auto | right; exact D | left; exact D].
Qed.

Definition nf (xs : list (instr * fault)) : Prop := Forall (fun x => snd x = NoFault) xs.

Lemma nf_cons i flt xs : nf ((i, flt) :: xs) -> flt = NoFault /\ nf xs.
Proof. intros H. inversion H; subst. auto. Qed.

(* G1, G2: "no fault is injected into writer 1 (2) at all" *)
Lemma interleaved : forall l xs1 xs2 ph1 ph2 s (G1 G2 : Prop),
  map fst xs1 = remaining v c1 ph1 -> map fst xs2 = remaining v c2 ph2 ->
  Inv2 s ph1 ph2 ->
  (G1 -> nf xs1 /\ pctl (loc1 s) = Run) -> (G2 -> nf xs2 /\ pctl (loc2 s) = Run) ->
  interleave (tag L xs1) (tag R xs2) l ->
  (forall k, target_in (sfs (srun v e p1 p2 s (firstn k l)))) /\
  Inv2 (srun v e p1 p2 s l) PDone PDone /\
  (G1 -> pctl (loc1 (srun v e p1 p2 s l)) = Run) /\
  (G2 -> pctl (loc2 (srun v e p1 p2 s l)) = Run).
Proof.
  induction l as [|x l IH]; intros xs1 xs2 ph1 ph2 s G1 G2 Hm1 Hm2 HI Ha1 Ha2 Hil;
    apply interleave_tag_inv in Hil.
  - destruct Hil as [-> ->]. cbn in Hm1, Hm2.
    assert (ph1 = PDone) by (symmetry in Hm1; eapply remaining_nil; eauto).
    assert (ph2 = PDone) by (symmetry in Hm2; eapply remaining_nil; eauto).
    subst. split.
    + intros k. rewrite firstn_nil. cbn. destruct HI as (_ & _ & HT & _). exact HT.
    + cbn. split; [exact HI|]. split; intros g; [apply Ha1 | apply Ha2]; exact g.
  - assert (HT0 : target_in (sfs s)) by (destruct HI as (_ & _ & HT & _); exact HT).
    destruct Hil as [(y & xs1' & -> & -> & Hrest) | (y & xs2' & -> & -> & Hrest)].
    + rewrite remaining_next in Hm1. destruct (next v c1 ph1) as [[i ph1']|] eqn:Hn; [|discriminate].
      cbn in Hm1. inversion Hm1 as [[Hi Hm1']]. destruct y as [i0 flt]. cbn in Hi. subst i0.
      destruct (sstep_L s ph1 ph2 i ph1' flt HI Hn) as (HI' & Hl2 & Hal).
      destruct (IH xs1' xs2 ph1' ph2 (sstep v e p1 p2 s (L, (i, flt))) G1 G2 Hm1' Hm2 HI') as (Hp & Hf & Hg1 & Hg2); auto.
      * intros g. destruct (Ha1 g) as [Hnf Hr]. apply nf_cons in Hnf. destruct Hnf as [-> Hnf]. split; auto.
      * intros g. rewrite Hl2. apply Ha2; exact g.
      * split; [|cbn [srun fold_left]; auto].
        intros [|k]; cbn [firstn srun fold_left]; [exact HT0 | apply Hp].
    + rewrite remaining_next in Hm2. destruct (next v c2 ph2) as [[i ph2']|] eqn:Hn; [|discriminate].
      cbn in Hm2. inversion Hm2 as [[Hi Hm2']]. destruct y as [i0 flt]. cbn in Hi. subst i0.
      destruct (sstep_R s ph1 ph2 i ph2' flt HI Hn) as (HI' & Hl1 & Hal).
      destruct (IH xs1 xs2' ph1 ph2' (sstep v e p1 p2 s (R, (i, flt))) G1 G2 Hm1 Hm2' HI') as (Hp & Hf & Hg1 & Hg2); auto.
      * intros g. rewrite Hl1. apply Ha1; exact g.
      * intros g. destruct (Ha2 g) as [Hnf Hr]. apply nf_cons in Hnf. destruct Hnf as [-> Hnf]. split; auto.
      * split; [|cbn [srun fold_left]; auto].
        intros [|k]; cbn [firstn srun fold_left]; [exact HT0 | apply Hp].
Qed.

Lemma Inv2_init f : content_of f Target = old -> Inv2 (sys0 f) PStart PStart.
Proof.
  intros H. unfold Inv2, sys0. cbn. split; [apply winv_start|]. split; [apply winv_start|].
  split; [left; exact H|]. intros [[A _] | [A _]]; discriminate.
Qed.

(* any fault pattern in either writer *)
Theorem two_writers_gen_sec : forall xs1 xs2 l f,
  content_of f Target = old ->
  map fst xs1 = prog v c1 -> map fst xs2 = prog v c2 ->
  interleave (tag L xs1) (tag R xs2) l ->
  (forall k, target_in (sfs (srun v e p1 p2 (sys0 f) (firstn k l)))) /\
  (pctl (loc1 (srun v e p1 p2 (sys0 f) l)) = Run \/ pctl (loc2 (srun v e p1 p2 (sys0 f) l)) = Run ->
     target_new (sfs (srun v e p1 p2 (sys0 f) l))) /\
  (nf xs1 -> pctl (loc1 (srun v e p1 p2 (sys0 f) l)) = Run) /\
  (nf xs2 -> pctl (loc2 (srun v e p1 p2 (sys0 f) l)) = Run).
Proof.
  intros xs1 xs2 l f Hold Hm1 Hm2 Hil.
  destruct (interleaved l xs1 xs2 PStart PStart (sys0 f) (nf xs1) (nf xs2) Hm1 Hm2 (Inv2_init f Hold)) as (Hp & HI & Hg1 & Hg2); auto.
  split; [exact Hp|]. split; [|auto].
  destruct HI as (_ & _ & _ & HC). intros [A | A]; apply HC; [left | right]; split; auto.
Qed.
End Two.

(* ---------------------------------------------------------------------------------------------
   C08, permission bits *)

Lemma st_mode_perm m : (m < perm_mask)%N -> ((S_IFREG + m) mod perm_mask)%N = m.
Proof.
  intros H. unfold S_IFREG, perm_mask in *. change 32768%N with (8 * 4096)%N.
  rewrite N.add_comm, N.mod_add by discriminate. now apply N.mod_small.
Qed.

Lemma kill_sugid_small m : (m < sugid_free)%N -> kill_sugid m = m.
Proof.
  intros H. unfold sugid_free in H. unfold kill_sugid.
  rewrite (N.div_small m 2048) by lia. cbn [N.modulo N.eqb].
  change ((0 mod 2 =? 1)%N) with false. cbv iota.
  rewrite (N.div_small m 1024) by lia. reflexivity.
Qed.

Lemma sugid_free_perm m : (m < sugid_free)%N -> (m < perm_mask)%N.
Proof. unfold sugid_free, perm_mask. lia. Qed.

Local Opaque N.add N.modulo N.div S_IFREG perm_mask kill_sugid sugid_free.

Section Mode.
Variables (v : variant) (e : env) (tmp : path) (chunks : list content) (c0 : content) (m g : N).
Hypothesis tmp_ne : tmp <> Target.
(* chmod-then-chown keeps the mode only without set-uid/set-gid; chown-then-chmod keeps all 12 bits *)
Definition mode_bound : N := if chown_first v then perm_mask else sugid_free.
Hypothesis Hmode : (m < mode_bound)%N.
Let data := concat chunks.

Lemma Hperm : (m < perm_mask)%N.
Proof. unfold mode_bound in Hmode. destruct (chown_first v); auto. now apply sugid_free_perm. Qed.

(* which injected faults the statement tolerates: none on the unchanged code; on the repaired code
   any, except reporting ENOENT (a spurious "the original does not exist") *)
Definition fault_ok (flt : fault) : Prop :=
  match v with Orig => flt = NoFault | _ => flt <> FaultENOENT end.

Definition tmp_mode (f : fs) : Prop := exists x, f tmp = Some x /\ fmode x = m.
Definition orig_there (f : fs) : Prop := f Target = Some (mkFile c0 m g).
Definition statted (l : plocal) : Prop := pst l = Some ((S_IFREG + m)%N, g).

Definition minv (f : fs) (l : plocal) (ph : phase) : Prop :=
  pctl l = Run ->
  match ph with
  | PDone => True
  | PStatted => orig_there f /\ statted l
  | PMeta1 => orig_there f /\ statted l /\ (chown_first v = false -> tmp_mode f)
  | PMeta2 => orig_there f /\ tmp_mode f
  | _ => orig_there f
  end.

Lemma mode_chmod f l flt f' l' :
  pctl l = Run -> orig_there f -> statted l -> (exists x, f tmp = Some x) -> fault_ok flt ->
  step v e tmp (f, l) (IChmod, flt) = (f', l') -> pctl l' = Run ->
  orig_there f' /\ statted l' /\ tmp_mode f'.
Proof.
  intros Hc HT Hst (x & Hx) Hok Hs Hr. unfold step, exec in Hs. rewrite Hc in Hs.
  unfold statted in Hst. rewrite Hst in Hs.
  destruct (faulted flt) eqn:Hflt.
  - unfold fault_ok in Hok. destruct v; [subst flt; discriminate| |];
      cbn in Hs; inversion Hs; subst f' l'; cbn in Hr; congruence.
  - unfold sys_chmod in Hs. rewrite Hx in Hs. cbn in Hs. inversion Hs; subst f' l'.
    split; [unfold orig_there; now rewrite upd_other by congruence|]. split; [exact Hst|].
    eexists. rewrite upd_same. split; [reflexivity|]. cbn. apply st_mode_perm. exact Hperm.
Qed.

Lemma mode_chown f l flt f' l' :
  pctl l = Run -> orig_there f -> statted l -> (exists x, f tmp = Some x) ->
  step v e tmp (f, l) (IChown, flt) = (f', l') -> pctl l' = Run ->
  orig_there f' /\ statted l' /\ (exists x, f' tmp = Some x) /\
  ((m < sugid_free)%N -> tmp_mode f -> tmp_mode f').
Proof.
  intros Hc HT Hst (x & Hx) Hs Hr. unfold step, exec in Hs. rewrite Hc in Hs.
  unfold statted in Hst. rewrite Hst in Hs.
  destruct (faulted flt); [cbn in Hs; inversion Hs; subst f' l'; eauto 6|].
  unfold sys_chown in Hs. rewrite Hx in Hs.
  destruct (may_chown e g); cbn in Hs; inversion Hs; subst f' l'; [|eauto 6].
  split; [unfold orig_there; now rewrite upd_other by congruence|]. split; [exact Hst|].
  split; [eexists; now rewrite upd_same|].
  intros Hsm (y & Hy & Hym). rewrite Hx in Hy. inversion Hy; subst y.
  eexists. rewrite upd_same. split; [reflexivity|]. cbn [fmode]. rewrite Hym. now apply kill_sugid_small.
Qed.

Lemma exec_minv f l ph i ph' flt :
  winv tmp chunks f l ph -> minv f l ph -> next v chunks ph = Some (i, ph') -> fault_ok flt ->
  forall f' l', step v e tmp (f, l) (i, flt) = (f', l') ->
  minv f' l' ph' /\
  (i = IRename -> pctl l' = Run -> exists x, f' Target = Some x /\ fmode x = m /\ fcontent x = data).
Proof.
  intros HI HM Hn Hok f' l' Hs.
  destruct (exec_inv v e tmp chunks tmp_ne f l ph i ph' flt HI Hn f' l' Hs) as (HI' & _ & _ & Hback & _).
  destruct (pctl l) eqn:Hc.
  2,3: split; [intros Hr; specialize (Hback Hr); congruence | intros _ Hr; specialize (Hback Hr); congruence].
  unfold winv in HI. specialize (HI Hc). unfold minv in HM. specialize (HM Hc).
  destruct ph as [|d [|c r]| | | | |]; cbn in Hn; inversion Hn; subst i ph'; clear Hn.
  - (* IOpen *)
    unfold step, exec in Hs. rewrite Hc in Hs.
    split; [|discriminate]. intros _. unfold orig_there in *.
    destruct (faulted flt); cbn in Hs; inversion Hs; subst f' l'; auto.
    unfold sys_open_trunc. destruct (f tmp); now rewrite upd_other by congruence.
  - (* IClose *)
    unfold step, exec in Hs. rewrite Hc in Hs.
    split; [|discriminate]. intros _.
    destruct (faulted flt); cbn in Hs; inversion Hs; subst f' l'; auto.
  - (* IWrite *)
    unfold step, exec in Hs. rewrite Hc in Hs.
    split; [|discriminate]. intros _. unfold orig_there in *.
    destruct (faulted flt); cbn in Hs; inversion Hs; subst f' l'; auto.
    unfold sys_write. destruct (f tmp); [now rewrite upd_other by congruence | auto].
  - (* IStat *)
    unfold step, exec in Hs. rewrite Hc in Hs.
    split; [|discriminate]. intros Hr. unfold orig_there in HM.
    unfold sys_stat in Hs. rewrite HM in Hs. cbn [fmode fgid] in Hs.
    unfold fault_ok in Hok. unfold orig_there, statted.
    destruct flt, v; try congruence; cbn in Hs; inversion Hs; subst f' l'; cbn in Hr; try congruence; auto.
  - (* first of chmod / chown *)
    destruct HM as [HT Hst].
    assert (Hex : exists x, f tmp = Some x).
    { cbn in HI. unfold content_of in HI. destruct (f tmp) as [x|]; [eauto | discriminate]. }
    unfold meta1 in *. destruct (chown_first v) eqn:Hcf.
    + split; [|discriminate]. intros Hr.
      destruct (mode_chown f l flt f' l' Hc HT Hst Hex Hs Hr) as (A & B & _ & _).
      split; [exact A|]. split; [exact B|]. intros Hx; congruence.
    + split; [|discriminate]. intros Hr.
      destruct (mode_chmod f l flt f' l' Hc HT Hst Hex Hok Hs Hr) as (A & B & C). auto.
  - (* second of chmod / chown *)
    destruct HM as (HT & Hst & Htm).
    assert (Hex : exists x, f tmp = Some x).
    { cbn in HI. unfold content_of in HI. destruct (f tmp) as [x|]; [eauto | discriminate]. }
    pose proof Hmode as Hmb. unfold mode_bound in Hmb. unfold meta2 in *. destruct (chown_first v) eqn:Hcf.
    + split; [|discriminate]. intros Hr.
      destruct (mode_chmod f l flt f' l' Hc HT Hst Hex Hok Hs Hr) as (A & B & C). auto.
    + split; [|discriminate]. intros Hr.
      destruct (mode_chown f l flt f' l' Hc HT Hst Hex Hs Hr) as (A & B & _ & D). auto.
  - (* IRename *)
    unfold step, exec in Hs. rewrite Hc in Hs.
    split; [intros _; exact I|]. intros _ Hr. destruct HM as [HT (x & Hx & Hxm)].
    cbn in HI. unfold content_of in HI. rewrite Hx in HI. cbn in HI. inversion HI as [Hdata].
    destruct (faulted flt); [cbn in Hs; inversion Hs; subst f' l'; cbn in Hr; congruence|].
    unfold sys_rename in Hs. rewrite Hx in Hs. cbn in Hs. inversion Hs; subst f' l'.
    exists x. rewrite upd_other by congruence. rewrite upd_same. auto.
Qed.

Lemma run_mode : forall xs ph f l,
  map fst xs = remaining v chunks ph -> winv tmp chunks f l ph -> minv f l ph -> ph <> PDone ->
  Forall (fun x => fault_ok (snd x)) xs ->
  forall f' l', run v e tmp (f, l) xs = (f', l') -> pctl l' = Run ->
  exists x, f' Target = Some x /\ fmode x = m /\ fcontent x = data.
Proof.
  induction xs as [|x xs IH]; intros ph f l Hm HI HM Hph Hok f' l' Hr Hrun.
  - cbn in Hm. symmetry in Hm. apply remaining_nil in Hm. congruence.
  - rewrite remaining_next in Hm. destruct (next v chunks ph) as [[i ph']|] eqn:Hn; [|discriminate].
    cbn in Hm. inversion Hm as [[Hi Hm']].
    unfold run in Hr. cbn [fold_left] in Hr.
    destruct x as [i0 flt]. cbn in Hi. subst i0.
    inversion Hok as [|? ? Hx Hok']; subst. cbn in Hx.
    destruct (step v e tmp (f, l) (i, flt)) as [f1 l1] eqn:Hs.
    destruct (exec_inv v e tmp chunks tmp_ne f l ph i ph' flt HI Hn f1 l1 Hs) as (HI1 & _).
    destruct (exec_minv f l ph i ph' flt HI HM Hn Hx f1 l1 Hs) as (HM1 & Hren).
    destruct ph' eqn:Hph'.
    7:{ apply next_done in Hn. subst i.
        cbn in Hm'. apply map_eq_nil in Hm'. subst xs. cbn in Hr. inversion Hr; subst f' l'.
        apply Hren; auto. }
    all: eapply (IH _ f1 l1 Hm' HI1 HM1 ltac:(discriminate) Hok' f' l' Hr Hrun).
Qed.
End Mode.

Lemma minv_start v tmp c0 m g f l :
  f Target = Some (mkFile c0 m g) -> minv v tmp c0 m g f l PStart.
Proof. intros H _. exact H. Qed.

(* after a call that returned normally the new file has the original's permission bits *)
Theorem mode_preserved_gen : forall v e pid chunks c0 m g f xs f' l',
  (m < mode_bound v)%N -> f Target = Some (mkFile c0 m g) ->
  map fst xs = prog v chunks -> Forall (fun x => fault_ok v (snd x)) xs ->
  atomic_write v e pid f xs = (f', l') ->
  (raised l' = false /\ exists x, f' Target = Some x /\ fcontent x = concat chunks /\ fmode x = m) \/
  (raised l' = true /\ f' Target = f Target).
Proof.
  intros v e pid chunks c0 m g f xs f' l' Hm HT Hp Hok Hr.
  destruct (returns_iff_replaced_gen v e pid chunks f xs f' l' Hp Hr) as [(Hc & _) | Hbad]; [left | right; exact Hbad].
  split; auto. unfold atomic_write in Hr.
  assert (Hrun : pctl l' = Run) by (unfold raised in Hc; destruct (pctl l'); congruence).
  destruct (run_mode v e (Tmp pid) chunks c0 m g (tmp_target pid) Hm xs PStart f loc0 Hp
              (winv_start _ _ _ _) (minv_start _ _ _ _ _ _ _ HT) ltac:(discriminate) Hok f' l' Hr Hrun)
    as (x & Hx & Hxm & Hxc).
  exists x. auto.
Qed.

(* ---------------------------------------------------------------------------------------------
   final forms (restated in Properties/C08.v) *)

Definition target_old_or_new (chunks : list content) (f f' : fs) : Prop :=
  content_of f' Target = content_of f Target \/ content_of f' Target = Some (concat chunks).

Lemma crash_fault_atomic : forall v e pid chunks f xs k,
  map fst xs = prog v chunks ->
  let f' := fst (atomic_write v e pid f (firstn k xs)) in
  target_old_or_new chunks f f' /\
  (k < length (prog v chunks) -> f' Target = f Target) /\
  (forall q, q <> Tmp pid -> q <> Target -> f' q = f q).
Proof.
  intros v e pid chunks f xs k Hm f'. subst f'.
  destruct (atomic_write v e pid f (firstn k xs)) as [f' l'] eqn:Hr. cbn [fst].
  destruct (crash_fault_atomic_gen v e pid chunks f xs k f' l' Hm Hr) as ([Hs | (Hc & Hl)] & Hfr).
  - split; [left; unfold content_of; now rewrite Hs|]. split; auto.
  - split; [right; exact Hc|]. split; auto. intros Hk. exfalso.
    rewrite <- Hm, map_length in Hk. lia.
Qed.

Lemma crash_atomic : forall v e pid chunks f k,
  let f' := fst (atomic_write v e pid f (firstn k (nofault (prog v chunks)))) in
  target_old_or_new chunks f f' /\
  (k < length (prog v chunks) -> f' Target = f Target) /\
  (forall q, q <> Tmp pid -> q <> Target -> f' q = f q).
Proof. intros. apply crash_fault_atomic. apply map_fst_nofault. Qed.

Lemma fault_atomic : forall v e pid chunks f j flt k,
  let f' := fst (atomic_write v e pid f (firstn k (inject j flt (prog v chunks)))) in
  target_old_or_new chunks f f' /\
  (k < length (prog v chunks) -> f' Target = f Target) /\
  (forall q, q <> Tmp pid -> q <> Target -> f' q = f q).
Proof. intros. apply crash_fault_atomic. apply map_fst_inject. Qed.

Lemma fault_ok_nofault v l : Forall (fun x => fault_ok v (snd x)) (nofault l).
Proof.
  apply Forall_forall. intros x Hx. unfold nofault in Hx. apply in_map_iff in Hx. destruct Hx as (i & <- & _).
  cbn. destruct v; cbn; congruence.
Qed.

Lemma mode_preserved : forall v e pid chunks c0 m g f,
  (m < mode_bound v)%N -> f Target = Some (mkFile c0 m g) ->
  let r := atomic_write v e pid f (nofault (prog v chunks)) in
  raised (snd r) = false /\
  exists x, fst r Target = Some x /\ fcontent x = concat chunks /\ fmode x = m.
Proof.
  intros v e pid chunks c0 m g f Hm HT r. subst r.
  destruct (atomic_write v e pid f (nofault (prog v chunks))) as [f' l'] eqn:Hr. cbn [fst snd].
  destruct (nofault_returns v e pid chunks f f' l' Hr) as (Hok & _).
  destruct (mode_preserved_gen v e pid chunks c0 m g f _ f' l' Hm HT (map_fst_nofault _) (fault_ok_nofault v _) Hr)
    as [(_ & Hx) | (Hbad & _)]; [split; auto | congruence].
Qed.

Lemma mode_preserved_under_fault : forall v e pid chunks c0 m g f xs,
  v <> Orig -> (m < mode_bound v)%N -> f Target = Some (mkFile c0 m g) ->
  map fst xs = prog v chunks -> Forall (fun x => snd x <> FaultENOENT) xs ->
  let r := atomic_write v e pid f xs in
  (raised (snd r) = false /\ exists x, fst r Target = Some x /\ fcontent x = concat chunks /\ fmode x = m) \/
  (raised (snd r) = true /\ fst r Target = f Target).
Proof.
  intros v e pid chunks c0 m g f xs Hv Hm HT Hp Hok r. subst r.
  destruct (atomic_write v e pid f xs) as [f' l'] eqn:Hr. cbn [fst snd].
  apply (mode_preserved_gen v e pid chunks c0 m g f xs f' l' Hm HT Hp); [|exact Hr].
  eapply Forall_impl; [|exact Hok]. intros a Ha. unfold fault_ok. destruct v; [congruence | exact Ha | exact Ha].
Qed.

Lemma two_writers_faults : forall v e p1 p2 c1 c2 f xs1 xs2 l,
  p1 <> p2 -> map fst xs1 = prog v c1 -> map fst xs2 = prog v c2 ->
  interleave (tag L xs1) (tag R xs2) l ->
  (forall k, target_in c1 c2 (content_of f Target) (sfs (srun v e p1 p2 (sys0 f) (firstn k l)))) /\
  (raised (loc1 (srun v e p1 p2 (sys0 f) l)) = false \/ raised (loc2 (srun v e p1 p2 (sys0 f) l)) = false ->
     target_new c1 c2 (sfs (srun v e p1 p2 (sys0 f) l))).
Proof.
  intros v e p1 p2 c1 c2 f xs1 xs2 l Hp H1 H2 Hil.
  destruct (two_writers_gen_sec v e p1 p2 c1 c2 (content_of f Target) Hp xs1 xs2 l f eq_refl H1 H2 Hil) as (A & B & _).
  split; [exact A|]. intros Hr. apply B. unfold raised in Hr.
  destruct Hr as [Hr | Hr]; [left | right]; match goal with |- pctl ?x = _ => destruct (pctl x) end; congruence.
Qed.

Lemma two_writers : forall v e p1 p2 c1 c2 f l,
  p1 <> p2 ->
  interleave (tag L (nofault (prog v c1))) (tag R (nofault (prog v c2))) l ->
  (forall k, target_in c1 c2 (content_of f Target) (sfs (srun v e p1 p2 (sys0 f) (firstn k l)))) /\
  target_new c1 c2 (sfs (srun v e p1 p2 (sys0 f) l)) /\
  raised (loc1 (srun v e p1 p2 (sys0 f) l)) = false /\ raised (loc2 (srun v e p1 p2 (sys0 f) l)) = false.
Proof.
  intros v e p1 p2 c1 c2 f l Hp Hil.
  destruct (two_writers_gen_sec v e p1 p2 c1 c2 (content_of f Target) Hp _ _ l f eq_refl
              (map_fst_nofault _) (map_fst_nofault _) Hil) as (A & B & C1 & C2).
  specialize (C1 (nofault_all _)). specialize (C2 (nofault_all _)).
  split; [exact A|]. split; [apply B; auto|]. unfold raised. rewrite C1, C2. auto.
Qed.

(* merging by a schedule is an interleaving (ties the harness's schedules to the theorem) *)
Lemma merge_interleave {A} : forall sch (a b : list A), interleave (tag L a) (tag R b) (merge sch a b).
Proof.
  assert (Hbase : forall (a b : list A), interleave (tag L a) (tag R b) (tag L a ++ tag R b)).
  { induction a as [|x a IH]; intros b; cbn.
    - induction b as [|y b IHb]; cbn; constructor; auto.
    - constructor. apply IH. }
  induction sch as [|[|] sch IH]; intros a b; cbn; auto.
  - destruct a; [apply IH | cbn; constructor; apply IH].
  - destruct b; [apply IH | cbn; constructor; apply IH].
Qed.

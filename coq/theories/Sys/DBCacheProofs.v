(* Cache coherence of ImportDB.get_default (Sys/DBCache.v). *)
From Coq Require Import NArith List Bool String Lia.
From Verif Require Import Base.Chars Base.StrX Base.StrXProofs Sys.DBPath Sys.DBPathProofs Sys.DBCompose Sys.DBCache Sys.DBComposeProofs.
Import ListNotations.

(* ---------- boolean equalities reflect equality ---------- *)
Lemma opt_eqb_eq {A} (eqb : A -> A -> bool) :
  (forall x y, eqb x y = true -> x = y) -> forall a b, opt_eqb eqb a b = true -> a = b.
Proof.
  intros H [x|] [y|]; simpl; intros E; try discriminate; auto.
  f_equal; auto.
Qed.

Lemma env_eqb_eq a b : env_eqb a b = true -> a = b.
Proof.
  destruct a as [[a1 a2] a3], b as [[b1 b2] b3]. unfold env_eqb; simpl.
  intros E. apply andb_prop in E as [E E3]. apply andb_prop in E as [E1 E2].
  assert (S : forall x y, str_eqb x y = true -> x = y) by (intros x y; apply str_eqb_eq).
  apply (opt_eqb_eq _ S) in E1, E2, E3. subst. reflexivity.
Qed.

Lemma extra_eqb_eq a b : extra_eqb a b = true -> a = b.
Proof.
  destruct a, b; unfold extra_eqb; simpl. intros E. apply andb_prop in E as [E1 E2].
  apply strs_eqb_eq in E1. apply str_eqb_eq in E2. subst. reflexivity.
Qed.

Lemma paths_eqb_eq a : forall b, paths_eqb a b = true -> a = b.
Proof.
  induction a as [|x a IH]; intros [|y b]; simpl; intros E; try discriminate; auto.
  apply andb_prop in E as [E1 E2]. apply strs_eqb_eq in E1. apply IH in E2. subst. reflexivity.
Qed.

Lemma key_eqb_eq a b : key_eqb a b = true -> a = b.
Proof.
  destruct a as [d e x|f], b as [d' e' x'|f']; simpl; intros E; try discriminate.
  - apply andb_prop in E as [E E3]. apply andb_prop in E as [E1 E2].
    apply strs_eqb_eq in E1. apply env_eqb_eq in E2. apply (opt_eqb_eq _ extra_eqb_eq) in E3.
    subst. reflexivity.
  - apply paths_eqb_eq in E. subst. reflexivity.
Qed.

(* ---------- the cache as a finite map ---------- *)
Lemma cache_get_cons k0 v0 c k :
  cache_get ((k0, v0) :: c) k = if key_eqb k k0 then Some v0 else cache_get c k.
Proof. reflexivity. Qed.

Lemma first_hit_some c ks v :
  first_hit c ks = Some v -> exists k, In k ks /\ cache_get c k = Some v.
Proof.
  induction ks as [|k r IH]; simpl; intros H; try discriminate.
  destruct (cache_get c k) eqn:E.
  - inversion H; subst. exists k. auto.
  - destruct (IH H) as [k' [I G]]. exists k'. auto.
Qed.

Lemma store_get ks v : forall c k w,
  cache_get (store ks v c) k = Some w ->
  (exists k', In k' ks /\ k = k' /\ w = v) \/ cache_get c k = Some w.
Proof.
  unfold store. induction ks as [|k0 r IH]; simpl; intros c k w H; auto.
  apply IH in H. destruct H as [[k' [I [E1 E2]]]|H].
  - left. exists k'. auto.
  - rewrite cache_get_cons in H. destruct (key_eqb k k0) eqn:E.
    + apply key_eqb_eq in E. inversion H; subst. left. exists k0. auto.
    + auto.
Qed.

Section Coherence.
Variable t : ftree.
Variable etc : list path.

(* ---------- the directory walk ends at the same place from every directory it visits ---------- *)
Lemma chain_rev_nonempty rd : chain_rev t rd <> [].
Proof. destruct rd; simpl; try discriminate. destruct (isdir _ t _); discriminate. Qed.

Lemma last_cons_nonempty {A} (x : A) l d : l <> [] -> last (x :: l) d = last l d.
Proof. destruct l; intros H; [contradiction|reflexivity]. Qed.

Lemma chain_rev_in rd : forall x,
  In x (chain_rev t rd) ->
  exists rd', x = rev rd' /\ last (chain_rev t rd') [] = last (chain_rev t rd) [].
Proof.
  induction rd as [|n r IH]; intros x H.
  - simpl in H. destruct H as [H|[]]. subst. exists []. auto.
  - cbn [chain_rev] in H. destruct (isdir _ t (rev (n :: r))) eqn:E.
    + destruct H as [H|[]]. subst. exists (n :: r). auto.
    + destruct H as [H|H].
      * subst. exists (n :: r). auto.
      * destruct (IH x H) as [rd' [E1 E2]]. exists rd'. split; auto.
        rewrite E2. cbn [chain_rev]. rewrite E.
        symmetry. apply last_cons_nonempty. apply chain_rev_nonempty.
Qed.

Lemma dir_chain_last d x :
  In x (dir_chain t d) -> last (dir_chain t x) [] = last (dir_chain t d) [].
Proof.
  unfold dir_chain. intros H. apply chain_rev_in in H as [rd' [E1 E2]]. subst.
  rewrite rev_involutive. exact E2.
Qed.

Lemma dir_chain_last_in d : In (last (dir_chain t d) []) (dir_chain t d).
Proof.
  unfold dir_chain. generalize (chain_rev_nonempty (rev d)).
  generalize (chain_rev t (rev d)). intros l H.
  destruct l as [|a l]; [contradiction|]. clear H. revert a.
  induction l as [|b l IH]; intros a; simpl; auto.
  right. apply (IH b).
Qed.

(* the directories visited are the ancestors of the target's directory, nearest first, up to and
   including the first one that exists: that one is where the search path is evaluated *)
Lemma chain_rev_spec rd :
  isdir _ t [] = true ->
  exists pre x rest,
    chain_rev t rd = pre ++ [x] /\ ancestors_rev rd = pre ++ x :: rest /\
    isdir _ t x = true /\ Forall (fun y => isdir _ t y = false) pre.
Proof.
  intros R. induction rd as [|n r IH].
  - exists [], [], []. simpl. auto.
  - cbn [chain_rev ancestors_rev]. destruct (isdir _ t (rev (n :: r))) eqn:E.
    + exists [], (rev (n :: r)), (ancestors_rev r). simpl. auto.
    + destruct IH as [pre [x [rest [A [B [D F]]]]]].
      exists (rev (n :: r) :: pre), x, rest. rewrite A, B. simpl. repeat split; auto.
Qed.

Theorem lookup_dir_is_first_existing_ancestor d :
  isdir _ t [] = true ->
  exists nearer farther,
    ancestors d = nearer ++ last (dir_chain t d) [] :: farther /\
    isdir _ t (last (dir_chain t d) []) = true /\
    Forall (fun y => isdir _ t y = false) nearer.
Proof.
  intros R. unfold dir_chain, ancestors.
  destruct (chain_rev_spec (rev d) R) as [pre [x [rest [A [B [D F]]]]]].
  exists pre, rest. rewrite A, B, last_last. auto.
Qed.

(* ---------- target_dirname.real: the real directory is an existing directory and its own real path ---------- *)
Lemma dir_chain_isdir d : isdir _ t d = true -> dir_chain t d = [d].
Proof.
  intros H. unfold dir_chain. destruct (rev d) as [|n r] eqn:E.
  - apply (f_equal (@rev name)) in E. rewrite rev_involutive in E. subst. reflexivity.
  - cbn [chain_rev]. rewrite <- E, rev_involutive, H. reflexivity.
Qed.

Lemma chain_rev_last_dir rd :
  isdir _ t (last (chain_rev t rd) []) = true \/ last (chain_rev t rd) [] = [].
Proof.
  induction rd as [|n r IH]; [right; reflexivity|].
  cbn [chain_rev]. destruct (isdir _ t (rev (n :: r))) eqn:E.
  - left. exact E.
  - rewrite last_cons_nonempty by apply chain_rev_nonempty. exact IH.
Qed.

Lemma real_dir_fix d :
  real_dir t (last (dir_chain t (real_dir t (last (dir_chain t d) []))) []) = real_dir t (last (dir_chain t d) []).
Proof.
  set (x := last (dir_chain t d) []).
  destruct (chain_rev_last_dir (rev d)) as [H|H]; fold (dir_chain t d) in H; fold x in H.
  - destruct (realpath_of_dir _ t x H) as [r [R1 [R2 R3]]].
    assert (RX : real_dir t x = if safe_path r then r else x) by (unfold real_dir; rewrite R1; reflexivity).
    rewrite RX. destruct (safe_path r) eqn:S.
    + rewrite (dir_chain_isdir r R2). simpl last. unfold real_dir. rewrite R3, S. reflexivity.
    + rewrite (dir_chain_isdir x H). simpl last. rewrite RX; try rewrite S; reflexivity.
  - rewrite H. reflexivity.
Qed.

(* ---------- what a key stands for: a load that does not consult the cache ---------- *)
Definition load_result (files : list path) : err + db :=
  match load_files t files with
  | inl e => inl (EParse e)
  | inr v => inr v
  end.

Definition load_dir (cwd : path) (home : str) (e : env3) (d : path) : err + db :=
  match get_python_path _ t cwd home (pyflyby_path e) (default_pyflyby_path etc)
                        (real_dir t (last (dir_chain t d) [])) with
  | PPValueError p => inl (EValue p)
  | PPUnsafe => inl EUnsafe
  | PPFuel => inl EFuel
  | PPOk files => load_result files
  end.

(* amb = the (cwd, HOME) the process is assumed to keep, for keys that do not record them *)
Definition fresh_of_key (amb : option (path * str)) (k : key) : option (err + db) :=
  match k with
  | K1 d e (Some (cwd, home)) => Some (load_dir cwd home e d)
  | K1 d e None => match amb with
                   | Some (cwd, home) => Some (load_dir cwd home e d)
                   | None => None
                   end
  | K2 files => Some (load_result files)
  end.

Definition Inv (amb : option (path * str)) (c : cache) : Prop :=
  forall k v, cache_get c k = Some v -> fresh_of_key amb k = Some (inr v).

Lemma Inv_nil amb : Inv amb [].
Proof. intros k v H. discriminate. Qed.

Lemma load_dir_chain cwd home e d x :
  In x (dir_chain t d) -> load_dir cwd home e x = load_dir cwd home e d.
Proof. intros H. unfold load_dir. rewrite (dir_chain_last d x H). reflexivity. Qed.

Lemma load_dir_real cwd home e d :
  load_dir cwd home e (real_dir t (last (dir_chain t d) [])) = load_dir cwd home e d.
Proof. unfold load_dir. rewrite real_dir_fix. reflexivity. Qed.

(* a fresh load, spelled out *)
Lemma fresh_unfold ver q :
  fresh t etc ver q =
  match initial_dir t q with
  | inl e => inl e
  | inr d0 => load_dir (q_cwd q) (q_home q) (q_env q) d0
  end.
Proof.
  unfold fresh, get_default. destruct (initial_dir t q) as [e|d0]; [reflexivity|].
  assert (F : forall ks, first_hit [] ks = None) by (induction ks; simpl; auto).
  rewrite F. simpl cache_get. unfold load_dir, load_result.
  destruct (get_python_path _ t (q_cwd q) (q_home q) (pyflyby_path (q_env q))
                            (default_pyflyby_path etc) (real_dir t (last (dir_chain t d0) []))); try reflexivity.
  simpl cache_get. destruct (load_files t files); reflexivity.
Qed.

(* the meaning of a (1, ...) key built by this very call *)
Lemma k1_meaning ver amb q d :
  (ver = Orig -> amb = Some (q_cwd q, q_home q)) ->
  fresh_of_key amb (k1 ver q d) = Some (load_dir (q_cwd q) (q_home q) (q_env q) d).
Proof.
  intros H. unfold k1, extra. destruct ver; simpl.
  - rewrite (H eq_refl). reflexivity.
  - reflexivity.
Qed.

(* ---------- one lookup: answers like a fresh load and keeps the invariant ---------- *)
Lemma get_default_step ver amb c q :
  (ver = Orig -> amb = Some (q_cwd q, q_home q)) ->
  Inv amb c ->
  answer (snd (get_default t etc ver c q)) = fresh t etc ver q /\
  Inv amb (fst (get_default t etc ver c q)).
Proof.
  intros Hamb HI. rewrite fresh_unfold. unfold get_default.
  destruct (initial_dir t q) as [e0|d0]; [simpl; auto|].
  destruct (first_hit c (map (k1 ver q) (dir_chain t d0))) as [v|] eqn:FH.
  { (* hit on one of the incremental keys *)
    simpl. split; auto.
    apply first_hit_some in FH as [k [I G]]. apply in_map_iff in I as [x [Ex Ix]]. subst k.
    apply HI in G. rewrite (k1_meaning ver amb q x Hamb) in G. injection G as G'.
    rewrite (load_dir_chain _ _ _ d0 x Ix) in G'. rewrite G'. reflexivity. }
  destruct (cache_get c (k1 ver q (real_dir t (last (dir_chain t d0) [])))) as [v|] eqn:G2.
  { simpl. split; auto.
    apply HI in G2. rewrite (k1_meaning ver amb q _ Hamb) in G2. injection G2 as G'.
    rewrite load_dir_real in G'. rewrite G'. reflexivity. }
  unfold load_dir at 1.
  destruct (get_python_path _ t (q_cwd q) (q_home q) (pyflyby_path (q_env q))
                            (default_pyflyby_path etc) (real_dir t (last (dir_chain t d0) []))) as [files|p| |] eqn:PP;
    [|simpl; split; auto|simpl; split; auto|simpl; split; auto].
  destruct (cache_get c (K2 files)) as [v|] eqn:G3.
  { simpl. split; auto. apply HI in G3. simpl in G3. injection G3 as G'. rewrite G'. reflexivity. }
  unfold load_result. destruct (load_files t files) as [e|v] eqn:LF; simpl; split; auto.
  (* the store *)
  intros k w H. apply store_get in H as [[k' [I [E1 E2]]]|H]; [|apply HI; exact H].
  subst k w.
  assert (LD : load_dir (q_cwd q) (q_home q) (q_env q) d0 = inr v).
  { unfold load_dir. rewrite PP. unfold load_result. rewrite LF. reflexivity. }
  apply in_app_or in I as [I|I].
  - apply in_app_or in I as [I|I].
    + apply in_map_iff in I as [x [Ex Ix]]. subst k'.
      rewrite (k1_meaning ver amb q x Hamb). rewrite (load_dir_chain _ _ _ d0 x Ix). rewrite LD. reflexivity.
    + destruct I as [I|[]]. subst k'.
      rewrite (k1_meaning ver amb q _ Hamb).
      rewrite load_dir_real. rewrite LD. reflexivity.
  - destruct I as [I|[]]. subst k'. simpl. unfold load_result. rewrite LF. reflexivity.
Qed.

(* ---------- the database in effect for a target: the property's first sentence, end to end ---------- *)
(* a successful fresh load is the composition of the files the search path reaches for the target's
   directory: union of their imports minus everything named by any of their forget lists *)
Theorem db_in_effect ver q v :
  fresh t etc ver q = inr v ->
  exists d0 files fs,
    initial_dir t q = inr d0 /\
    get_python_path _ t (q_cwd q) (q_home q) (pyflyby_path (q_env q)) (default_pyflyby_path etc)
                    (real_dir t (last (dir_chain t d0) [])) = PPOk files /\
    all_parsed (map (content_of t) files) = inr fs /\
    v = compose fs.
Proof.
  rewrite fresh_unfold. destruct (initial_dir t q) as [e0|d0]; [discriminate|].
  unfold load_dir.
  destruct (get_python_path _ t (q_cwd q) (q_home q) (pyflyby_path (q_env q))
                            (default_pyflyby_path etc) (real_dir t (last (dir_chain t d0) []))) as [files|p| |] eqn:PP;
    try discriminate.
  unfold load_result, load_files, from_code.
  destruct (all_parsed (map (content_of t) files)) as [e|fs] eqn:AP; [discriminate|].
  intros H. inversion H. exists d0, files, fs. auto.
Qed.

Corollary db_in_effect_known ver q v :
  fresh t etc ver q = inr v ->
  exists d0 files fs,
    initial_dir t q = inr d0 /\
    get_python_path _ t (q_cwd q) (q_home q) (pyflyby_path (q_env q)) (default_pyflyby_path etc)
                    (real_dir t (last (dir_chain t d0) [])) = PPOk files /\
    all_parsed (map (content_of t) files) = inr fs /\
    (forall i, In i (known v) <-> In_union f_known fs i /\ ~ Forgotten (In_union f_forget fs) i) /\
    (forall i, In i (mandatory v) <-> In_union f_mand fs i /\ ~ Forgotten (In_union f_forget fs) i) /\
    (forall k vs i, In (k, vs) (index ver v) -> In i vs -> ~ In_union f_forget fs i).
Proof.
  intros H. destruct (db_in_effect ver q v H) as [d0 [files [fs [A [B [D E]]]]]]. subst v.
  exists d0, files, fs.
  split; [exact A|]. split; [exact B|]. split; [exact D|].
  split; [intros i; apply known_compose|].
  split; [intros i; apply mandatory_compose|].
  intros k vs i. apply index_respects_forget_files.
Qed.

(* ---------- histories ---------- *)
Lemma run_cache_app ver qs1 qs2 c :
  run_cache t etc ver (qs1 ++ qs2) c = run_cache t etc ver qs2 (run_cache t etc ver qs1 c).
Proof. unfold run_cache. apply fold_left_app. Qed.

Lemma Inv_run ver amb qs : forall c,
  (ver = Orig -> Forall (fun q => amb = Some (q_cwd q, q_home q)) qs) ->
  Inv amb c -> Inv amb (run_cache t etc ver qs c).
Proof.
  induction qs as [|q r IH]; intros c HA HI; simpl; auto.
  apply IH.
  - intros E. specialize (HA E). inversion HA; auto.
  - apply get_default_step; auto. intros E. specialize (HA E). inversion HA; auto.
Qed.

(* repaired key layout: any interleaving of working directories, $HOME values, targets and
   environment settings; only the tree (contents, structure, st_dev) and _find_etc_dirs() are fixed *)
Theorem cache_coherent_fixed : forall (qs : list query) (q : query),
  answer (snd (get_default t etc Fixed (run_cache t etc Fixed qs []) q)) = fresh t etc Fixed q.
Proof.
  intros qs q.
  apply (get_default_step Fixed None); [discriminate|].
  apply Inv_run; [discriminate|apply Inv_nil].
Qed.

(* the invariant itself: every cached entry is what a fresh load for its key gives *)
Theorem cache_entries_fresh_fixed : forall (qs : list query) k v,
  cache_get (run_cache t etc Fixed qs []) k = Some v -> fresh_of_key None k = Some (inr v).
Proof.
  intros qs. apply (Inv_run Fixed None); [discriminate|apply Inv_nil].
Qed.

(* unchanged key layout: coherent only while the working directory and $HOME stay the same *)
Theorem cache_coherent_orig_partial : forall cwd home (qs : list query) (q : query),
  Forall (fun q' => q_cwd q' = cwd /\ q_home q' = home) (q :: qs) ->
  answer (snd (get_default t etc Orig (run_cache t etc Orig qs []) q)) = fresh t etc Orig q.
Proof.
  intros cwd home qs q HF. inversion HF as [|? ? [Hc Hh] HF']; subst.
  apply (get_default_step Orig (Some (q_cwd q, q_home q))); [reflexivity|].
  apply Inv_run; [|apply Inv_nil].
  intros _. eapply Forall_impl; [|exact HF']. intros q' [E1 E2]. simpl. rewrite E1, E2. reflexivity.
Qed.

End Coherence.

(* ---------- the unchanged key layout is not coherent when the working directory changes (F26) ---------- *)
Definition w_imp : imp := (dec "m", dec "m").
Definition w_file (i : imp) : parsed := inr (mkDbfile [i] [] [] []).
(*  /a/extra/e.py = "import m"      /b/extra/e.py = "import n" *)
Definition w_tree : ftree :=
  Dir 1 [(dec "a", Dir 1 [(dec "extra", Dir 1 [(dec "e.py", File 1 (w_file (dec "m", dec "m")))])]);
         (dec "b", Dir 1 [(dec "extra", Dir 1 [(dec "e.py", File 1 (w_file (dec "n", dec "n")))])])].
Definition w_q (cwd : str) : query :=
  mkQuery [cwd] (dec "/nohome") (dec "/a/t.py") (Some (dec "./extra"), None, None).

Theorem cache_coherent_orig_refuted :
  exists (t : ftree) (etc : list path) (qs : list query) (q : query),
    answer (snd (get_default t etc Orig (run_cache t etc Orig qs []) q)) <> fresh t etc Orig q.
Proof.
  exists w_tree, [], [w_q (dec "a")], (w_q (dec "b")).
  vm_compute. intros H. discriminate H.
Qed.

(* the same history under the repaired layout *)
Example cache_coherent_fixed_witness :
  answer (snd (get_default w_tree [] Fixed (run_cache w_tree [] Fixed [w_q (dec "a")] []) (w_q (dec "b"))))
  = fresh w_tree [] Fixed (w_q (dec "b"))
  /\ exists v, fresh w_tree [] Fixed (w_q (dec "b")) = inr v /\ known v = [(dec "n", dec "n")].
Proof. vm_compute. split; [reflexivity|]. eexists. split; reflexivity. Qed.

(* M11 (part 3) - ImportDB.get_default and its per-process cache.
   Model of _importdb.py: ImportDB.get_default (target directory resolution, incremental cache
   keys, load), ImportDB._from_filenames, ImportDB._default_cache.
   `version` selects the unchanged key layout (1, dir, env3) or the repaired one (F26:
   (1, dir, env3, cwd, HOME)).  SUPPORT_DEPRECATED_BEHAVIOR = False is built in.  No proofs here. *)
From Coq Require Import NArith List Bool String.
From Verif Require Import Base.Chars Base.StrX Sys.DBPath Sys.DBCompose.
Import ListNotations.

Definition ftree := tree parsed.

(* (PYFLYBY_PATH, PYFLYBY_KNOWN_IMPORTS_PATH, PYFLYBY_MANDATORY_IMPORTS_PATH) as os.getenv sees them *)
Definition env3 := (option str * option str * option str)%type.
Definition pyflyby_path (e : env3) : option str := fst (fst e).

Record query := mkQuery {
  q_cwd : path;          (* os.getcwd() at the time of the call *)
  q_home : str;          (* $HOME at the time of the call (always set) *)
  q_target : str;        (* the argument of get_default *)
  q_env : env3
}.

Inductive key :=
| K1 (d : path) (e : env3) (x : option (path * str))     (* (1, dir, env3 [, cwd, HOME]) *)
| K2 (files : list path).                                (* (2, filenames, ()) *)

Definition opt_eqb {A} (eqb : A -> A -> bool) (a b : option A) : bool :=
  match a, b with
  | None, None => true
  | Some x, Some y => eqb x y
  | _, _ => false
  end.
Definition env_eqb (a b : env3) : bool :=
  opt_eqb str_eqb (fst (fst a)) (fst (fst b)) && opt_eqb str_eqb (snd (fst a)) (snd (fst b))
  && opt_eqb str_eqb (snd a) (snd b).
Definition extra_eqb (a b : path * str) : bool := strs_eqb (fst a) (fst b) && str_eqb (snd a) (snd b).
Fixpoint paths_eqb (a b : list path) : bool :=
  match a, b with
  | [], [] => true
  | x :: a', y :: b' => strs_eqb x y && paths_eqb a' b'
  | _, _ => false
  end.
Definition key_eqb (a b : key) : bool :=
  match a, b with
  | K1 d e x, K1 d' e' x' => strs_eqb d d' && env_eqb e e' && opt_eqb extra_eqb x x'
  | K2 f, K2 f' => paths_eqb f f'
  | _, _ => false
  end.

Inductive err :=
| ENoSafe                      (* ValueError("No know path are safe") *)
| ELoop                        (* Path.resolve(): RuntimeError("Symlink loop ...") - outside the domain *)
| EFuel                        (* model out of fuel while walking a directory - outside the domain *)
| EValue (component : str)     (* ValueError: PYFLYBY_PATH components should start with ... *)
| EUnsafe                      (* UnsafeFilenameError for an explicit PYFLYBY_PATH entry *)
| EParse (e : errname).        (* whatever reading/parsing a database file raised *)

Inductive outcome :=
| Hit (v : db)                           (* served from _default_cache *)
| Loaded (files : list path) (v : db)    (* _from_filenames(files) was called *)
| Failed (e : err).

Definition cache := list (key * db).
Fixpoint cache_get (c : cache) (k : key) : option db :=
  match c with
  | [] => None
  | (k', v) :: r => if key_eqb k k' then Some v else cache_get r k
  end.
Fixpoint first_hit (c : cache) (ks : list key) : option db :=
  match ks with
  | [] => None
  | k :: r => match cache_get c k with Some v => Some v | None => first_hit c r end
  end.
(*  for k in cache_keys: cls._default_cache[k] = result *)
Definition store (ks : list key) (v : db) (c : cache) : cache :=
  fold_left (fun c k => (k, v) :: c) ks c.

Section GetDefault.
Variable t : ftree.               (* the file system: fixed while the process runs *)
Variable etc : list path.         (* _find_etc_dirs(), memoized by the real code *)
Variable ver : version.

Definition extra (q : query) : option (path * str) :=
  match ver with Orig => None | Fixed => Some (q_cwd q, q_home q) end.
Definition k1 (q : query) (d : path) : key := K1 d (q_env q) (extra q).

(*  target_path = Path(target_filename).resolve()
    parents = [target_path] if target_path.is_dir() else []
    for p in parents + list(target_path.parents):
        try: safe_parent = Filename(str(p)); break
        except UnsafeFilenameError: pass
    if safe_parent is None: raise ValueError("No know path are safe")
    target_dirname = safe_parent
    if target_filename.startswith("/dev"):
        try: target_dirname = Filename(".")
        except UnsafeFilenameError: pass *)
Definition initial_dir (q : query) : err + path :=
  (* Path.resolve() = realpath of cwd/target: "." and ".." are resolved physically, after links *)
  match realpath _ t (if starts_with s_slash (q_target q) then split_on c_slash (q_target q)
                      else q_cwd q ++ split_on c_slash (q_target q)) with
  | None => inl ELoop
  | Some tp =>
      let parents := (if isdir _ t tp then [tp] else []) ++ tl (ancestors tp) in
      match find safe_path parents with
      | None => inl ENoSafe
      | Some sp => inr (if starts_with s_dev (q_target q) && safe_path (q_cwd q) then q_cwd q else sp)
      end
  end.

(*  try: target_dirname = target_dirname.real
    except UnsafeFilenameError: pass *)
Definition real_dir (d : path) : path :=
  match realpath _ t d with
  | Some r => if safe_path r then r else d
  | None => d
  end.

(*  while True:
        key = (1, target_dirname, env...); cache_keys.append(key)
        if key in cls._default_cache: return cls._default_cache[key]
        if target_dirname.isdir: break
        target_dirname = target_dirname.dir
    -- the directories visited: d, dirname(d), ... down to the first one that exists ("/" ends the walk) *)
Fixpoint chain_rev (rd : list name) : list path :=
  match rd with
  | [] => [[]]
  | _ :: r => if isdir _ t (rev rd) then [rev rd] else rev rd :: chain_rev r
  end.
Definition dir_chain (d : path) : list path := chain_rev (rev d).

(*  _from_filenames -> _from_code(filenames) *)
Definition s_missing : errname := Eval vm_compute in dec "FileNotFoundError".
Definition content_of (f : path) : parsed :=
  match stat _ t f with
  | Some (File _ c) => c
  | _ => inl s_missing
  end.
Definition load_files (files : list path) : errname + db := from_code (map content_of files).

Definition get_default (c : cache) (q : query) : cache * outcome :=
  match initial_dir q with
  | inl e => (c, Failed e)
  | inr d0 =>
      let chain := dir_chain d0 in
      let keys1 := map (k1 q) chain in
      match first_hit c keys1 with
      | Some v => (c, Hit v)
      | None =>
          let d := real_dir (last chain []) in
          (*  target_dirname = target_dirname.real
              if target_dirname != cache_keys[-1][0]:         (a Filename against the integer 1: always true)
                  cache_keys.append((1, target_dirname, ...)); try: return cls._default_cache[cache_keys[-1]] *)
          let keys := keys1 ++ [k1 q d] in
          match cache_get c (k1 q d) with
          | Some v => (c, Hit v)
          | None =>
              match get_python_path _ t (q_cwd q) (q_home q) (pyflyby_path (q_env q))
                                    (default_pyflyby_path etc) d with
              | PPValueError p => (c, Failed (EValue p))
              | PPUnsafe => (c, Failed EUnsafe)
              | PPFuel => (c, Failed EFuel)
              | PPOk files =>
                  (*  cache_keys.append((2, filenames, mandatory_imports_filenames))
                      try: return cls._default_cache[cache_keys[-1]]     -- returns without storing the (1, ...) keys *)
                  match cache_get c (K2 files) with
                  | Some v => (c, Hit v)
                  | None =>
                      match load_files files with
                      | inl e => (c, Failed (EParse e))
                      | inr v => (store (keys ++ [K2 files]) v c, Loaded files v)
                      end
                  end
              end
          end
      end
  end.

(* the answer of a lookup, forgetting whether it came from the cache *)
Definition answer (o : outcome) : err + db :=
  match o with
  | Hit v => inr v
  | Loaded _ v => inr v
  | Failed e => inl e
  end.

(* a fresh load: the same call after clear_default_cache() *)
Definition fresh (q : query) : err + db := answer (snd (get_default [] q)).

(* a history of lookups in one process *)
Definition run_cache (qs : list query) (c : cache) : cache :=
  fold_left (fun c q => fst (get_default c q)) qs c.
Fixpoint run_trace (qs : list query) (c : cache) : list (outcome * cache) :=
  match qs with
  | [] => []
  | q :: r => let '(c', o) := get_default c q in (o, c') :: run_trace r c'
  end.

End GetDefault.

(* M14 (d): well-formedness of an abstract heap - the invariant `patch_total` needs: addresses are unique, every
   address stored in an object is allocated, and kinds are consistent with the fields (a function's __dict__ is a
   dict, its closure consists of cells, bases and the class of an instance are classes, a module's __dict__ is a
   dict).  Boolean checker, evaluated by the harness on every snapshot it builds.  Model only. *)
From Coq Require Import NArith List Bool.
From Verif Require Import Livepatch.Heap.
Import ListNotations.

Definition allocated (h : heap) (a : addr) : bool :=
  match lookup h a with Some _ => true | None => false end.

Definition is_dict_at (h : heap) (a : addr) : bool :=
  match lookup h a with Some (ODict _) => true | _ => false end.
Definition is_cell_at (h : heap) (a : addr) : bool :=
  match lookup h a with Some (OCell _) => true | _ => false end.
Definition is_class_at (h : heap) (a : addr) : bool :=
  match lookup h a with Some (OClass _ _ _ _ _) => true | _ => false end.

Definition wf_obj (h : heap) (o : obj) : bool :=
  match o with
  | OFunc _ _ code defaults kwdefaults doc annotations fdict closure _ =>
      allocated h code && allocated h defaults && allocated h kwdefaults && allocated h doc &&
      allocated h annotations && is_dict_at h fdict && forallb (is_cell_at h) closure
  | OClass _ _ cdict bases _ => forallb (fun kv => allocated h (snd kv)) cdict && forallb (is_class_at h) bases
  | ODict entries => forallb (fun kv => allocated h (snd kv)) entries
  | OInst cls idict _ slotvals =>
      is_class_at h cls && match idict with Some d => is_dict_at h d | None => true end &&
      forallb (fun kv => allocated h (snd kv)) slotvals
  | OMethod func self => allocated h func && allocated h self
  | OModule mdict => is_dict_at h mdict
  | OStatic func => allocated h func
  | OClassM func => allocated h func
  | OCell contents => allocated h contents
  | OPrim _ _ => true
  end.

Fixpoint nodupN (l : list N) : bool :=
  match l with
  | [] => true
  | x :: r => negb (memN x r) && nodupN r
  end.

Definition wf_heap (h : heap) : bool :=
  nodupN (dom h) && forallb (fun ao => wf_obj h (snd ao)) h.

(* the constructor of the object at an address (0: not allocated): livepatch never changes it *)
Definition ctor (o : obj) : N :=
  match o with
  | OFunc _ _ _ _ _ _ _ _ _ _ => 1 | OClass _ _ _ _ _ => 2 | ODict _ => 3 | OInst _ _ _ _ => 4
  | OMethod _ _ => 5 | OModule _ => 6 | OStatic _ => 7 | OClassM _ => 8 | OCell _ => 9 | OPrim _ _ => 10
  end%N.
Definition okind (o : option obj) : N := match o with Some x => ctor x | None => 0%N end.

(* Proofs about Livepatch/Xreload.v: rollback, registry. *)
From Coq Require Import NArith List Bool Lia.
From Verif Require Import Livepatch.Heap Livepatch.Patch Livepatch.Xreload.
Import ListNotations.

Lemma aget_aset_same {V} (l : list (key * V)) k v : aget (aset l k v) k = Some v.
Proof.
  induction l as [|[k' v'] r IH]; simpl.
  - rewrite N.eqb_refl. reflexivity.
  - destruct (k =? k')%N eqn:E; simpl; rewrite E; [reflexivity|exact IH].
Qed.

Lemma aget_aset_other {V} (l : list (key * V)) k k2 v : k2 <> k -> aget (aset l k v) k2 = aget l k2.
Proof.
  intros Hne. induction l as [|[k' v'] r IH]; simpl.
  - destruct (k2 =? k)%N eqn:E; [apply N.eqb_eq in E; contradiction|reflexivity].
  - destruct (k =? k')%N eqn:E; simpl.
    + apply N.eqb_eq in E. subst k'.
      destruct (k2 =? k)%N eqn:E2; [apply N.eqb_eq in E2; contradiction|reflexivity].
    + destruct (k2 =? k')%N; [reflexivity|exact IH].
Qed.

Lemma aget_adel_same {V} (l : list (key * V)) k : aget (adel l k) k = None.
Proof.
  induction l as [|[k' v'] r IH]; simpl; [reflexivity|].
  destruct (k =? k')%N eqn:E; simpl; [exact IH|]. rewrite E. exact IH.
Qed.

Lemma aget_adel_other {V} (l : list (key * V)) k k2 : k2 <> k -> aget (adel l k) k2 = aget l k2.
Proof.
  intros Hne. induction l as [|[k' v'] r IH]; simpl; [reflexivity|].
  destruct (k =? k')%N eqn:E; simpl.
  - apply N.eqb_eq in E. subst k'.
    destruct (k2 =? k)%N eqn:E2; [apply N.eqb_eq in E2; contradiction|exact IH].
  - destruct (k2 =? k')%N; [reflexivity|exact IH].
Qed.

(* putting the scratch module into sys.modules and restoring the saved entry is the identity *)
Lemma restore_registry (r : registry) name scratch n :
  aget (restore (aset r name scratch) name (aget r name)) n = aget r n.
Proof.
  unfold restore. destruct (aget r name) as [m|] eqn:E.
  - destruct (N.eq_dec n name) as [->|Hne].
    + rewrite aget_aset_same. symmetry. exact E.
    + rewrite !aget_aset_other by exact Hne. reflexivity.
  - destruct (N.eq_dec n name) as [->|Hne].
    + rewrite aget_adel_same. symmetry. exact E.
    + rewrite aget_adel_other, aget_aset_other by exact Hne. reflexivity.
Qed.

(* rollback: if executing the new source fails at any statement index with an exception of any class
   (BaseException included) - and execution itself only
   wrote objects it allocated (frame hypothesis on the exec oracle) - the exception propagates,
   every old object and every registry entry is as before the attempt *)
Theorem rollback bases_ok nm fuel w name module scratch kl mt idx exc h1 :
  (forall a, In a (dom (wheap w)) -> lookup h1 a = lookup (wheap w) a) ->
  let r := xreload bases_ok nm fuel w name module scratch kl mt (ExecFail idx exc h1) in
  snd r = Raise /\
  (forall n, aget (wreg (fst r)) n = aget (wreg w) n) /\
  (forall a, In a (dom (wheap w)) -> lookup (wheap (fst r)) a = lookup (wheap w) a).
Proof.
  intros Hframe. simpl. split; [reflexivity|]. split.
  - intros n. apply restore_registry.
  - exact Hframe.
Qed.

(* the same holds when the patch phase raises, but only for the registry (partial patches stay) *)
Theorem patch_failure_restores_registry bases_ok nm fuel w name module scratch kl mt h1 s :
  livepatch_module name (scratch_dict h1 scratch)
                   bases_ok nm fuel h1 module scratch = Raised s ->
  let r := xreload bases_ok nm fuel w name module scratch kl mt (ExecOk h1) in
  snd r = Raise /\ (forall n, aget (wreg (fst r)) n = aget (wreg w) n).
Proof.
  intros H r. subst r. unfold xreload. cbv beta iota zeta. rewrite H. cbn [fst snd wreg]. split; [reflexivity|]. intros n. apply restore_registry.
Qed.

(* on success the registry entry is the object livepatch returned, every other entry is untouched *)
Theorem success_registry bases_ok nm fuel w name module scratch kl mt h1 s r0 :
  livepatch_module name (scratch_dict h1 scratch)
                   bases_ok nm fuel h1 module scratch = Ok s r0 ->
  let r := xreload bases_ok nm fuel w name module scratch kl mt (ExecOk h1) in
  snd r = Done /\ aget (wreg (fst r)) name = Some r0 /\
  (forall n, n <> name -> aget (wreg (fst r)) n = aget (wreg w) n).
Proof.
  intros H r. subst r. unfold xreload. cbv beta iota zeta. rewrite H. cbn [fst snd wreg]. split; [reflexivity|]. split.
  - apply aget_aset_same.
  - intros n Hn. rewrite !aget_aset_other by exact Hn. reflexivity.
Qed.

(* the reload decision *)
Theorem decide_spec force loadtime mtime same :
  decide force loadtime mtime same = Reload <->
  (force = true \/ ((loadtime <= mtime)%N /\ same = false)).
Proof.
  unfold decide. destruct force; [split; auto|].
  destruct (mtime <? loadtime)%N eqn:E.
  - apply N.ltb_lt in E. split; [discriminate|]. intros [H|[H _]]; [discriminate|lia].
  - apply N.ltb_ge in E. destruct same; split; try discriminate; auto.
    intros [H|[_ H]]; discriminate.
Qed.

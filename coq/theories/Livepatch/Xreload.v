(* M14 (c): pyflyby._livepatch._xreload_module - the reload decision and the transaction around
   "execute the new source in a scratch module, then livepatch", as repaired by
   fixes/F27-xreload-scratch-module-dunders.diff.  Model only; proofs are in XreloadProofs.v.

   Executing the new source is an oracle: it returns the heap extended with the scratch module and
   whatever the new code allocated (ExecOk), or fails at some statement index (ExecFail). *)
From Coq Require Import NArith List Bool.
From Verif Require Import Livepatch.Heap Livepatch.Patch.
Import ListNotations.

(* sys.modules *)
Definition registry := list (key * addr).
Record world := mkW { wheap : heap; wreg : registry }.

(*  if not force:
        old_loadtime = module.__loadtime__  (or _PROCESS_START_TIME)
        if old_loadtime > mtime: return None                        # file untouched
        cached_lines = linecache.cache.get(filename, ...)[2]
    else: cached_lines = None
    source = ''.join(linecache.updatecache(filename))
    if cached_lines is not None and source == ''.join(cached_lines): return module   # unchanged text *)
Inductive decision := SkipOlder | SkipUnchanged | Reload.
Definition decide (force : bool) (loadtime mtime : N) (cached_same : bool) : decision :=
  if force then Reload
  else if (mtime <? loadtime)%N then SkipOlder
  else if cached_same then SkipUnchanged
  else Reload.

Inductive exec_result :=
| ExecOk (h' : heap)
(* the statement with index idx raised an exception of class exc - any class: Exception subclasses,
   SystemExit, KeyboardInterrupt, GeneratorExit, user subclasses of BaseException.  The handler in
   _xreload_module is a bare `except:`, so the class plays no role below. *)
| ExecFail (idx : nat) (exc : N) (h' : heap).

Inductive outcome := Done | Raise | NotModelled | NoFuel.

(*  for attr in ("__path__", "__package__", "__loader__", "__spec__", "__cached__"):
        if hasattr(module, attr): setattr(new_mod, attr, getattr(module, attr))             *)
Definition carried (dunders : list key) (old_entries : list (key * addr)) : list (key * addr) :=
  filter (fun kv => memN (fst kv) dunders) old_entries.

(*  if saved_mod is MISSING: del sys.modules[name]  else: sys.modules[name] = saved_mod  *)
Definition restore (r : registry) (name : key) (saved : option addr) : registry :=
  match saved with
  | Some m => aset r name m
  | None => adel r name
  end.

Definition scratch_dict (h : heap) (scratch : addr) : addr :=
  match lookup h scratch with Some (OModule d) => d | _ => 0%N end.

Section Xreload.
Variable bases_ok : addr -> addr -> bool.
Variable nm : names.

(*  saved_mod = sys.modules.get(module.__name__, MISSING)
    try:
        sys.modules[module.__name__] = new_mod
        exec(code, new_mod.__dict__)
        result = livepatch(module, new_mod, module.__name__, assume_type=types.ModuleType)
        sys.modules[module.__name__] = result
    except:                      # bare: BaseException included
        <restore>; raise
    module.__loadtime__ = mtime                                                             *)
Definition xreload (fuel : nat) (w : world) (name : key) (module scratch : addr)
                   (k_loadtime : key) (mtime_obj : addr) (er : exec_result) : world * outcome :=
  let saved := aget (wreg w) name in
  let reg1 := aset (wreg w) name scratch in
  match er with
  | ExecFail _ _ h1 => (mkW h1 (restore reg1 name saved), Raise)
  | ExecOk h1 =>
      match livepatch_module name (scratch_dict h1 scratch) bases_ok nm fuel h1 module scratch with
      | Ok s r =>
          let h2 := hp s in
          let h3 := match lookup h2 module with
                    | Some (OModule d) =>
                        match lookup h2 d with
                        | Some (ODict e) => update h2 d (ODict (aset e k_loadtime mtime_obj))
                        | _ => h2
                        end
                    | _ => h2
                    end in
          (mkW h3 (aset reg1 name r), Done)
      | Raised s => (mkW (hp s) (restore reg1 name saved), Raise)
      | Unsupported => (w, NotModelled)
      | OutOfFuel => (w, NoFuel)
      end
  end.

End Xreload.

(* patch_total: "patching a successfully executed new version never raises".
   The full statement is FALSE, also for the repaired code (patch_total_refuted: a well-formed heap in which a dict
   of the new side is also reachable as a value of the old side; the nested patch empties it and the enclosing loop
   then fails with KeyError - reproduced on the real code, known finding C16-f).  What holds: kinds and the heap
   domain are invariant (KindProofs, TermProofs), and the dict loop itself never raises provided nested calls do not
   raise and do not write the new dict (separation hypothesis). *)
From Coq Require Import NArith List Bool Lia.
From Verif Require Import Livepatch.Heap Livepatch.Patch Livepatch.Xreload Livepatch.Wf Livepatch.PatchProofs
                          Livepatch.XreloadProofs Livepatch.FrameProofs Livepatch.ShapeProofs.
Import ListNotations.

(* ---------- the counterexample ---------- *)
(* old:  top = {"k1": {"m": ext.D}, "k2": 1}      new:  top = ext.D
   ext.D = {"k1": {"m": {}}, "k2": 2}  (an object that exists before the reload, e.g. imported)           *)
Definition total_cex : heap :=
  [ (1, OModule 3); (2, OModule 4);
    (3, ODict [(20, 10)]); (4, ODict [(20, 11)]);
    (10, ODict [(21, 12); (22, 13)]);
    (11, ODict [(21, 14); (22, 15)]);
    (12, ODict [(23, 11)]);
    (14, ODict [(23, 16)]);
    (16, ODict []);
    (13, OPrim 7 1); (15, OPrim 7 2) ]%N.

Theorem patch_total_refuted :
  exists h m_old m_new modname nm,
    wf_heap h = true /\
    exists s, livepatch_module modname (scratch_dict h m_new) (fun _ _ => true) nm (S (length h)) h m_old m_new = Raised s.
Proof.
  exists total_cex, 1%N, 2%N, 9%N, (mkNames 90 91 92 93 3)%N. split; [vm_compute; reflexivity|].
  eexists. vm_compute. reflexivity.
Qed.

(* ---------- the dict loop never raises by itself ---------- *)

Lemma fold_stuck_unsupported {K} (F : K -> st -> res) l :
  fold_left (fun acc k => bind acc (fun s _ => F k s)) l Unsupported = Unsupported.
Proof. induction l; simpl; auto. Qed.
Lemma fold_stuck_nofuel {K} (F : K -> st -> res) l :
  fold_left (fun acc k => bind acc (fun s _ => F k s)) l OutOfFuel = OutOfFuel.
Proof. induction l; simpl; auto. Qed.

Lemma fold_bind_noraise {K} (F : K -> st -> res) (P : st -> Prop) :
  forall (l : list K),
  (forall k s, In k l -> P s -> (forall s1, F k s <> Raised s1) /\ (forall s' a, F k s = Ok s' a -> P s')) ->
  forall s0 a0, P s0 -> forall s1, fold_left (fun acc k => bind acc (fun s _ => F k s)) l (Ok s0 a0) <> Raised s1.
Proof.
  induction l as [|k l IH]; intros HF s0 a0 HP s1; simpl; [discriminate|].
  destruct (HF k s0 (or_introl eq_refl) HP) as [Hn Hp].
  destruct (F k s0) as [s' a'| sr | |] eqn:E.
  - apply IH; [|eapply Hp; reflexivity]. intros k' s Hin. apply HF. right. exact Hin.
  - exfalso. exact (Hn sr eq_refl).
  - rewrite fold_stuck_unsupported. discriminate.
  - rewrite fold_stuck_nofuel. discriminate.
Qed.

Lemma In_insertN x y l : In x (insertN y l) <-> x = y \/ In x l.
Proof.
  induction l as [|z l IH]; simpl; [intuition|].
  destruct (y <=? z)%N; simpl; [intuition|]. rewrite IH. intuition.
Qed.

Lemma In_sortN x l : In x (sortN l) <-> In x l.
Proof.
  unfold sortN. induction l as [|y l IH]; simpl; [tauto|]. rewrite In_insertN, IH. intuition.
Qed.

Lemma In_keys_aget {V} (e : list (key * V)) k : In k (akeys e) -> exists v, aget e k = Some v.
Proof.
  induction e as [|[k' v'] r IH]; simpl; [intros []|].
  destruct (k =? k')%N eqn:E; [intros _; eexists; reflexivity|].
  intros [H|H]; [subst; rewrite N.eqb_refl in E; discriminate|apply IH; exact H].
Qed.

Section DictTotal.
Variable rec : recT.
Hypothesis Hrec : forall s st a b s' r, rec s st a b = Ok s' r -> dframe st s s'.

Theorem patch_dict_total s stk d1 d2 eo en :
  In d1 stk ->
  lookup (hp s) d1 = Some (ODict eo) -> lookup (hp s) d2 = Some (ODict en) -> d1 <> d2 ->
  (* separation: nested calls do not write the new dict *)
  (forall s0 a b s1 r1, rec s0 stk a b = Ok s1 r1 -> lookup (hp s1) d2 = lookup (hp s0) d2) ->
  (* nested calls do not raise *)
  (forall s0 a b s1, rec s0 stk a b <> Raised s1) ->
  forall s1, patch_dict rec s stk d1 d2 <> Raised s1.
Proof.
  intros Hin H1 H2 Hne Hstable Hnoraise s1. unfold patch_dict.
  rewrite (dict_entries_lookup _ _ _ H1), (dict_entries_lookup _ _ _ H2).
  set (common := sortN (filter (fun k => memN k (akeys en)) (akeys eo))).
  set (P := fun sx : st => lookup (hp sx) d2 = Some (ODict en) /\
                           exists e, lookup (hp sx) d1 = Some (ODict e) /\ forall k, In k common -> In k (akeys e)).
  apply (fold_bind_noraise (fun k s => dict_step rec stk d1 d2 (Ok s d1) k) P).
  - intros k s0 Hk [Hd2 [e [Hd1 Hkeys]]]. unfold dict_step. simpl.
    rewrite (dict_entries_lookup _ _ _ Hd1), (dict_entries_lookup _ _ _ Hd2).
    destruct (In_keys_aget e k (Hkeys k Hk)) as [o Ho]. rewrite Ho.
    assert (In k (akeys en)) as Hkn.
    { unfold common in Hk. apply (proj1 (In_sortN _ _)) in Hk. apply filter_In in Hk. apply memN_In. apply Hk. }
    destruct (In_keys_aget en k Hkn) as [n Hn]. rewrite Hn.
    destruct (rec s0 stk o n) as [s2 u| sr | |] eqn:Er; simpl.
    + assert (lookup (hp s2) d1 = Some (ODict e)) as Hd1'.
      { apply (Hrec _ _ _ _ _ _ Er d1 e Hin); [discriminate|exact Hd1]. }
      assert (lookup (hp s2) d2 = Some (ODict en)) as Hd2' by (rewrite (Hstable _ _ _ _ _ Er); exact Hd2).
      destruct (u =? o)%N.
      * split; [intros; discriminate|]. intros s' a E. inversion E; subst. split; [exact Hd2'|]. exists e. split; assumption.
      * rewrite (dict_entries_lookup _ _ _ Hd1'). split; [intros; discriminate|].
        intros s' a E. inversion E; subst. unfold P, upd, set_hp. simpl. split.
        -- rewrite lookup_update_other by exact Hne. exact Hd2'.
        -- exists (aset e k u). split; [eapply lookup_update_same; exact Hd1'|].
           intros k' Hk'. rewrite akeys_aset_in by (eapply aget_In_keys; exact Ho). apply Hkeys. exact Hk'.
    + exfalso. exact (Hnoraise _ _ _ _ Er).
    + split; [intros; discriminate|intros; discriminate].
    + split; [intros; discriminate|intros; discriminate].
  - unfold P, upd, set_hp. simpl. split.
    + rewrite lookup_update_other by exact Hne. exact H2.
    + eexists. split; [eapply lookup_update_same; exact H1|].
      intros k Hk. apply (dict_after_keys eo en k).
      unfold common in Hk. apply (proj1 (In_sortN _ _)) in Hk. apply filter_In in Hk. apply memN_In. apply Hk.
Qed.

End DictTotal.


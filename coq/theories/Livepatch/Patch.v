(* M14 (b): pyflyby._livepatch.livepatch and its handlers (_livepatch__dict / __function / __method /
   __class / __setattr / __object / __module, _get_definition_module), as repaired by
   fixes/F29-livepatch-class-bases.diff, fixes/C16a-livepatch-object-slot-setattr.diff,
   fixes/C16d-livepatch-function-kwdefaults.diff, fixes/C16b-livepatch-function-cell-rebind.diff and
   fixes/C16e-livepatch-class-bases-identity.diff and fixes/C16g-livepatch-class-gained-base.diff.
   Model only; proofs are in PatchProofs.v.

   The handlers are written with open recursion (`rec` = the nested call of `livepatch`), the
   knot is tied by `lp` with explicit fuel: every nested `livepatch` call costs one unit.
   Outside the modelled domain (result `Unsupported`): __livepatch__ hooks, custom metaclasses,
   dict subclasses, a plain attribute of a class becoming a classmethod (the code then stores a
   transient bound-method object in the class), classmethods whose function lives in another
   module. *)
From Coq Require Import NArith List Bool.
From Verif Require Import Livepatch.Heap.
Import ListNotations.

(* state threaded through the patch: the heap and  cache : (id(old), id(new)) -> result *)
Record st := mkSt { hp : heap; cache : list ((addr * addr) * addr) }.

Inductive res :=
| Ok (s : st) (r : addr)      (* returned object *)
| Raised (s : st)             (* a Python exception escapes; the partial patches stay *)
| Unsupported                 (* outside the modelled domain *)
| OutOfFuel.

Definition bind (r : res) (f : st -> addr -> res) : res :=
  match r with
  | Ok s a => f s a
  | Raised s => Raised s
  | Unsupported => Unsupported
  | OutOfFuel => OutOfFuel
  end.

Definition set_hp (s : st) (h : heap) : st := mkSt h (cache s).
Definition upd (s : st) (a : addr) (o : obj) : st := set_hp s (update (hp s) a o).

Fixpoint cache_find (c : list ((addr * addr) * addr)) (o n : addr) : option addr :=
  match c with
  | [] => None
  | ((o', n'), r) :: t => if (o =? o')%N && (n =? n')%N then Some r else cache_find t o n
  end.

(* the names whose special treatment is spelled out in the code; the harness passes their key ids *)
(* ... and, since the C16-g repair, the address of the __dict__ of the module being reloaded
   (_MODULES_BEING_RELOADED[modname].__dict__), which _livepatch__class consults for gained bases *)
Record names := mkNames { k_slots : key; k_dict : key; k_weakref : key; k_doc : key; oldmod_dict : addr }.

Definition recT := st -> list addr -> addr -> addr -> res.

Section Patch.
Variable modname : key.            (* the module being reloaded *)
Variable newmod_dict : addr.       (* sys.modules[modname].__dict__ during the patch: the scratch module's dict *)
Variable bases_ok : addr -> addr -> bool.   (* oracle: CPython accepts  oldclass.__bases__ = newclass.__bases__ *)
Variable nm : names.

(*  def _get_definition_module(obj):
        if isinstance(obj, (type, types.FunctionType, types.MethodType)):
            return getattr(obj, "__module__", None)
        else: return None                                                                   *)
Definition defmod (h : heap) (a : addr) : option key :=
  match lookup h a with
  | Some (OFunc _ md _ _ _ _ _ _ _ _) => md
  | Some (OClass _ md _ _ _) => md
  | Some (OMethod f _) => match lookup h f with Some (OFunc _ md _ _ _ _ _ _ _ _) => md | _ => None end
  | _ => None
  end.

(* ---------- _livepatch__dict ---------- *)

Definition dict_entries (h : heap) (d : addr) : option (list (key * addr)) :=
  match lookup h d with Some (ODict e) => Some e | _ => None end.

(*  for name in updated_names:
        old = old_dict[name]
        updated = livepatch(old, new_dict[name], ...)
        if updated is not old: old_dict[name] = updated                                   *)
Definition dict_step (rec : recT) (stack : list addr) (d_old d_new : addr) (acc : res) (k : key) : res :=
  bind acc (fun s _ =>
    match dict_entries (hp s) d_old, dict_entries (hp s) d_new with
    | Some eo, Some en =>
        match aget eo k, aget en k with
        | Some o, Some n =>
            bind (rec s stack o n) (fun s' u =>
              if (u =? o)%N then Ok s' d_old
              else match dict_entries (hp s') d_old with
                   | Some eo' => Ok (upd s' d_old (ODict (aset eo' k u))) d_old
                   | None => Raised s'
                   end)
        | _, _ => Raised s                                   (* KeyError *)
        end
    | _, _ => Raised s
    end).

(*  oldnames = set(old_dict); newnames = set(new_dict)
    for name in newnames - oldnames: old_dict[name] = new_dict[name]
    for name in oldnames - newnames: del old_dict[name]
    updated_names = sorted(oldnames & newnames, key=str); <loop>; return old_dict          *)
Definition patch_dict (rec : recT) (s : st) (stack : list addr) (d_old d_new : addr) : res :=
  match dict_entries (hp s) d_old, dict_entries (hp s) d_new with
  | Some eo, Some en =>
      let ko := akeys eo in
      let kn := akeys en in
      let added := filter (fun kv => negb (memN (fst kv) ko)) en in
      let eo1 := fold_left (fun e kv => aset e (fst kv) (snd kv)) added eo in
      let eo2 := filter (fun kv => memN (fst kv) kn) eo1 in
      let common := sortN (filter (fun k => memN k kn) ko) in
      let s1 := upd s d_old (ODict eo2) in
      fold_left (dict_step rec stack d_old d_new) common (Ok s1 d_old)
  | _, _ => Raised s
  end.

(* ---------- _livepatch__function ---------- *)

(*  if type(oldcellv) != type(newcellv): return new_func
    if isinstance(oldcellv, (types.FunctionType, types.MethodType, type, dict)): continue
    try:
        if oldcellv is newcellv or oldcellv == newcellv: continue
    except Exception: pass
    return new_func                                                                        *)
Definition updatable (o : obj) : bool :=
  match o with
  | OFunc _ _ _ _ _ _ _ _ _ _ | OMethod _ _ | OClass _ _ _ _ _ | ODict _ => true
  | _ => false
  end.

Definition prim_eq (a b : obj) : bool :=
  match a, b with
  | OPrim t e, OPrim u f => (t =? u)%N && (e =? f)%N
  | _, _ => false
  end.

Definition cell_ok (h : heap) (a b : addr) : bool :=
  match lookup h a, lookup h b with
  | Some oa, Some ob =>
      if negb (ty_eqb (tyof oa) (tyof ob)) then false
      else if updatable oa then true
      else if (a =? b)%N then true
      else prim_eq oa ob
  | _, _ => false
  end.

Definition cell_val (h : heap) (c : addr) : option addr :=
  match lookup h c with Some (OCell v) => Some v | _ => None end.

Fixpoint cells_ok (h : heap) (l1 l2 : list addr) : bool :=
  match l1, l2 with
  | c1 :: r1, c2 :: r2 =>
      match cell_val h c1, cell_val h c2 with
      | Some a, Some b => cell_ok h a b && cells_ok h r1 r2
      | _, _ => false
      end
  | _, _ => true                      (* zip stops at the shorter one; lengths were compared before *)
  end.

(* the identity-keeping condition of _livepatch__function *)
Definition func_compatible (h : heap) (fo fn : obj) : bool :=
  match fo, fn with
  | OFunc n1 _ _ _ _ _ _ _ cl1 fv1, OFunc n2 _ _ _ _ _ _ _ cl2 fv2 =>
      (n1 =? n2)%N && Nat.eqb (length cl1) (length cl2) && listN_eqb fv1 fv2 && cells_ok h cl1 cl2
  | _, _ => false
  end.

(*  for oldcell, newcell in zip(old_closure, new_closure):
        oldcellv = oldcell.cell_contents; newcellv = newcell.cell_contents
        updated = livepatch(oldcellv, newcellv, ...)
        if updated is not oldcellv: oldcell.cell_contents = updated       # C16-b repair            *)
Definition cell_step (rec : recT) (stack : list addr) (c1 c2 : addr) (s : st) : res :=
  match cell_val (hp s) c1, cell_val (hp s) c2 with
  | Some a, Some b =>
      bind (rec s stack a b) (fun s' u =>
        if (u =? a)%N then Ok s' c1
        else match cell_val (hp s') c1 with
             | Some _ => Ok (upd s' c1 (OCell u)) c1
             | None => Raised s'
             end)
  | _, _ => Raised s                                      (* ValueError: empty cell *)
  end.

Fixpoint patch_cells (rec : recT) (stack : list addr) (l1 l2 : list addr) (acc : res) : res :=
  match l1, l2 with
  | c1 :: r1, c2 :: r2 => patch_cells rec stack r1 r2 (bind acc (fun s _ => cell_step rec stack c1 c2 s))
  | _, _ => acc
  end.

(*  old_func.__code__ = new_func.__code__; __defaults__; __kwdefaults__; __doc__; __annotations__
    livepatch(old_func.__dict__, new_func.__dict__, ...)
    <cells>; return old_func                                                                *)
Definition patch_function (rec : recT) (s : st) (stack : list addr) (f_old f_new : addr) : res :=
  match lookup (hp s) f_old, lookup (hp s) f_new with
  | Some (OFunc n1 m1 c1 d1 kd1 doc1 an1 fd1 cl1 fv1 as fo), Some (OFunc n2 m2 c2 d2 kd2 doc2 an2 fd2 cl2 fv2 as fn) =>
      if negb (func_compatible (hp s) fo fn) then Ok s f_new
      else
        let s1 := upd s f_old (OFunc n1 m1 c2 d2 kd2 doc2 an2 fd1 cl1 fv1) in
        bind (rec s1 stack fd1 fd2) (fun s2 _ =>
        bind (patch_cells rec stack cl1 cl2 (Ok s2 f_old)) (fun s3 _ => Ok s3 f_old))
  | _, _ => Raised s
  end.

(* ---------- _livepatch__method ---------- *)
(*  _livepatch__function(old_method.__func__, new_method.__func__, ...)   # directly: no cut, no cache
    return old_method                                                                       *)
Definition patch_method (rec : recT) (s : st) (stack : list addr) (m_old m_new : addr) : res :=
  match lookup (hp s) m_old, lookup (hp s) m_new with
  | Some (OMethod f1 _), Some (OMethod f2 _) =>
      bind (patch_function rec s stack f1 f2) (fun s' _ => Ok s' m_old)
  | _, _ => Raised s
  end.

(* ---------- _livepatch__class and _livepatch__setattr on a class ---------- *)

Definition class_entries (h : heap) (c : addr) : option (list (key * addr)) :=
  match lookup h c with Some (OClass _ _ cd _ _) => Some cd | _ => None end.

Definition set_class_entries (s : st) (c : addr) (cd : list (key * addr)) : st :=
  match lookup (hp s) c with
  | Some (OClass n m _ b sl) => upd s c (OClass n m cd b sl)
  | _ => s
  end.

(* getattr(cls, name) for a name of the class's own __dict__: a staticmethod yields its function,
   a classmethod a fresh bound method, everything else (functions, property objects, getset
   descriptors, data) itself *)
Inductive attrval := AVPlain (a : addr) | AVBound (f : addr).

Definition class_getattr (h : heap) (c : addr) (k : key) : option attrval :=
  match class_entries h c with
  | Some cd =>
      match aget cd k with
      | Some a => match lookup h a with
                  | Some (OStatic f) => Some (AVPlain f)
                  | Some (OClassM f) => Some (AVBound f)
                  | _ => Some (AVPlain a)
                  end
      | None => None
      end
  | None => None
  end.

(*  newval = getattr(newobj, name); oldval = getattr(oldobj, name)
    if newval is oldval: return
    newval = livepatch(oldval, newval, ...)
    if newval is oldval: return
    setattr(oldobj, name, newval)                                                           *)
Definition setattr_class (rec : recT) (stack : list addr) (c_old c_new : addr) (acc : res) (k : key) : res :=
  bind acc (fun s _ =>
    match class_getattr (hp s) c_new k, class_getattr (hp s) c_old k with
    | None, _ => Raised s                                     (* AttributeError *)
    | Some (AVPlain b), None =>                                (* "shouldn't happen": setattr(old, name, newval) *)
        match class_entries (hp s) c_old with
        | Some cd => Ok (set_class_entries s c_old (aset cd k b)) c_old
        | None => Raised s
        end
    | Some (AVBound _), None => Unsupported
    | Some (AVPlain b), Some (AVPlain a) =>
        if (a =? b)%N then Ok s c_old
        else bind (rec s stack a b) (fun s' u =>
               if (u =? a)%N then Ok s' c_old
               else match class_entries (hp s') c_old with
                    | Some cd => Ok (set_class_entries s' c_old (aset cd k u)) c_old
                    | None => Raised s'
                    end)
    | Some (AVBound g), Some (AVBound f) =>
        (* two fresh bound methods: livepatch -> same type -> _livepatch__method -> returns the old
           bound method: nothing is stored.  If the new function belongs to another module the new
           bound method would be stored in the class. *)
        match defmod (hp s) g with
        | Some m => if (m =? modname)%N
                    then bind (patch_function rec s stack f g) (fun s' _ => Ok s' c_old)
                    else Unsupported
        | None => bind (patch_function rec s stack f g) (fun s' _ => Ok s' c_old)
        end
    | Some (AVPlain b), Some (AVBound _) =>
        (* classmethod -> plain attribute: types differ, livepatch returns new, it is stored raw *)
        match class_entries (hp s) c_old with
        | Some cd => Ok (set_class_entries s c_old (aset cd k b)) c_old
        | None => Raised s
        end
    | Some (AVBound _), Some (AVPlain _) => Unsupported
    end).

Definition slots_val (h : heap) (cd : list (key * addr)) : option obj :=
  match aget cd (k_slots nm) with Some a => lookup h a | None => None end.

(* olddict.get("__slots__") != newdict.get("__slots__") *)
Definition slots_differ (h : heap) (cd1 cd2 : list (key * addr)) : bool :=
  match aget cd1 (k_slots nm), aget cd2 (k_slots nm) with
  | None, None => false
  | Some a, Some b => if (a =? b)%N then false
                      else match lookup h a, lookup h b with
                           | Some oa, Some ob => negb (prim_eq oa ob)
                           | _, _ => true
                           end
  | _, _ => true
  end.

(*  old_bases_by_name = dict(((b.__module__, b.__name__), b) for b in oldclass.__bases__)
    for newbase in newclass.__bases__:
        oldbase = old_bases_by_name.get((newbase.__module__, newbase.__name__))
        if oldbase is not None: newbase = livepatch(oldbase, newbase, ...)
        new_bases.append(newbase)                                        # C16-e repair            *)
Definition class_key (h : heap) (c : addr) : option (option key * key) :=
  match lookup h c with Some (OClass n md _ _ _) => Some (md, n) | _ => None end.

Definition same_class_key (a b : option (option key * key)) : bool :=
  match a, b with
  | Some (m1, n1), Some (m2, n2) => optN_eqb m1 m2 && (n1 =? n2)%N
  | _, _ => false
  end.

(* dict semantics: the last base with that (module, name) *)
Fixpoint find_old_base (h : heap) (obs : list addr) (nb : addr) : option addr :=
  match obs with
  | [] => None
  | ob :: r => match find_old_base h r nb with
               | Some x => Some x
               | None => if same_class_key (class_key h ob) (class_key h nb) then Some ob else None
               end
  end.

(*  if oldbase is None and newbase.__module__ == modname:                    # C16-g repair
        candidate = _MODULES_BEING_RELOADED[modname].__dict__.get(newbase.__name__)
        if isinstance(candidate, type) and candidate.__module__ == newbase.__module__ and
           candidate.__name__ == newbase.__name__: oldbase = candidate                          *)
Definition gained_counterpart (h : heap) (nb : addr) : option addr :=
  match class_key h nb with
  | Some (Some m, n) =>
      if (m =? modname)%N then
        match lookup h (oldmod_dict nm) with
        | Some (ODict e) =>
            match aget e n with
            | Some c => if same_class_key (class_key h c) (class_key h nb) then Some c else None
            | None => None
            end
        | _ => None
        end
      else None
  | _ => None
  end.

Definition base_counterpart (h : heap) (obs : list addr) (nb : addr) : option addr :=
  match find_old_base h obs nb with
  | Some ob => Some ob
  | None => gained_counterpart h nb
  end.

Fixpoint map_bases (rec : recT) (stack : list addr) (obs nbs : list addr) (s : st) (acc : list addr)
                   (k : st -> list addr -> res) : res :=
  match nbs with
  | [] => k s (rev acc)
  | nb :: r =>
      match base_counterpart (hp s) obs nb with
      | Some ob => bind (rec s stack ob nb) (fun s' u => map_bases rec stack obs r s' (u :: acc) k)
      | None => map_bases rec stack obs r s (nb :: acc) k
      end
  end.

(*  if oldclass.__bases__ != new_bases:
        try: oldclass.__bases__ = new_bases
        except TypeError: return newclass
    unpatchable = {"__dict__", "__weakref__"}
    oldnames = set(olddict) - unpatchable; newnames = set(newdict) - unpatchable
    for name in oldnames - newnames: delattr(oldclass, name)
    for name in newnames - oldnames: setattr(oldclass, name, newdict[name])
    names = oldnames & newnames
    names.difference_update(olddict.get("__slots__", [])); discard "__slots__", "__dict__", "__doc__"
    oldclass.__doc__ = newclass.__doc__
    for name in sorted(names): _livepatch__setattr(oldclass, newclass, name, ...)
    return oldclass                                                                          *)
Definition patch_class_body (rec : recT) (stack : list addr) (c_old c_new : addr) (s : st) (mapped : list addr) : res :=
  match lookup (hp s) c_old, lookup (hp s) c_new with
  | Some (OClass n1 m1 cd1 b1 sl1), Some (OClass n2 m2 cd2 b2 sl2) =>
      if negb (listN_eqb b1 mapped) && negb (bases_ok c_old c_new) then Ok s c_new
      else
        let unp := fun k => (k =? k_dict nm)%N || (k =? k_weakref nm)%N in
        let on := filter (fun k => negb (unp k)) (akeys cd1) in
        let nn := filter (fun k => negb (unp k)) (akeys cd2) in
        let cd1a := filter (fun kv => unp (fst kv) || memN (fst kv) nn) cd1 in
        let added := filter (fun kv => negb (unp (fst kv)) && negb (memN (fst kv) on)) cd2 in
        let cd1b := fold_left (fun e kv => aset e (fst kv) (snd kv)) added cd1a in
        let slotnames := match sl1 with Some l => l | None => [] end in
        let common := filter (fun k => memN k nn && negb (memN k slotnames) && negb (k =? k_slots nm)%N
                                       && negb (k =? k_doc nm)%N) on in
        let cd1c := match aget cd2 (k_doc nm) with Some d => aset cd1b (k_doc nm) d | None => cd1b end in
        let s1 := upd s c_old (OClass n1 m1 cd1c mapped sl1) in
        fold_left (setattr_class rec stack c_old c_new) (sortN common) (Ok s1 c_old)
  | _, _ => Raised s
  end.

(*  if olddict.get("__slots__") != newdict.get("__slots__"): return newclass ; <bases> ; <body>  *)
Definition patch_class (rec : recT) (s : st) (stack : list addr) (c_old c_new : addr) : res :=
  match lookup (hp s) c_old, lookup (hp s) c_new with
  | Some (OClass n1 m1 cd1 b1 sl1), Some (OClass n2 m2 cd2 b2 sl2) =>
      if slots_differ (hp s) cd1 cd2 then Ok s c_new
      else map_bases rec stack b1 b2 s [] (patch_class_body rec stack c_old c_new)
  | _, _ => Raised s
  end.

(* the code before the C16-e repair (kept for the C16-e witness only):
     oldclass.__bases__ = newclass.__bases__   - the bases of the NEW (scratch) class, unmapped *)
Definition patch_class_v0 (rec : recT) (s : st) (stack : list addr) (c_old c_new : addr) : res :=
  match lookup (hp s) c_old, lookup (hp s) c_new with
  | Some (OClass n1 m1 cd1 b1 sl1), Some (OClass n2 m2 cd2 b2 sl2) =>
      if slots_differ (hp s) cd1 cd2 then Ok s c_new
      else patch_class_body rec stack c_old c_new s b2
  | _, _ => Raised s
  end.

(* ---------- _livepatch__object ---------- *)

Definition inst_slotvals (h : heap) (a : addr) : option (list (key * addr)) :=
  match lookup h a with Some (OInst _ _ _ sv) => Some sv | _ => None end.

Definition set_slotvals (s : st) (a : addr) (sv : list (key * addr)) : st :=
  match lookup (hp s) a with
  | Some (OInst c d sl _) => upd s a (OInst c d sl sv)
  | _ => s
  end.

(*  for name in newobj.__slots__:
        hasold = hasattr(oldobj, name); hasnew = hasattr(newobj, name)
        if hasold and hasnew: _livepatch__setattr(oldobj, newobj, name, ...)
        elif hasold and not hasnew: delattr(oldobj, name)
        elif not hasold and hasnew: setattr(oldobj, name, getattr(newobj, name))            *)
Definition slot_step (rec : recT) (stack : list addr) (i_old i_new : addr) (acc : res) (k : key) : res :=
  bind acc (fun s _ =>
    match inst_slotvals (hp s) i_old, inst_slotvals (hp s) i_new with
    | Some so, Some sn =>
        match aget so k, aget sn k with
        | Some a, Some b =>
            if (a =? b)%N then Ok s i_old
            else bind (rec s stack a b) (fun s' u =>
                   if (u =? a)%N then Ok s' i_old
                   else match inst_slotvals (hp s') i_old with
                        | Some so' => Ok (set_slotvals s' i_old (aset so' k u)) i_old
                        | None => Raised s'
                        end)
        | Some _, None => Ok (set_slotvals s i_old (adel so k)) i_old
        | None, Some b => Ok (set_slotvals s i_old (aset so k b)) i_old
        | None, None => Ok s i_old
        end
    | _, _ => Raised s
    end).

Definition class_md (h : heap) (c : addr) : option key :=
  match lookup h c with Some (OClass _ md _ _ _) => md | _ => None end.

(*  if modname and _get_definition_module(type(oldobj)) != modname: return newobj
    if hasattr(type(oldobj), "__slots__"):
        assert oldobj.__slots__ == newobj.__slots__ ; <slot loop> ; return oldobj
    elif type(getattr(oldobj, "__dict__", None)) is dict:
        livepatch(oldobj.__dict__, newobj.__dict__, ...); return oldobj
    else: return newobj                                                                      *)
Definition patch_object (rec : recT) (s : st) (stack : list addr) (o_old o_new : addr) : res :=
  match lookup (hp s) o_old with
  | Some (OInst c1 d1 sl1 _) =>
      match class_md (hp s) c1 with
      | Some m =>
          if negb (m =? modname)%N then Ok s o_new
          else
            match sl1 with
            | Some names1 =>
                match lookup (hp s) o_new with
                | Some (OInst _ _ (Some names2) _) =>
                    if negb (listN_eqb names1 names2) then Raised s            (* AssertionError *)
                    else fold_left (slot_step rec stack o_old o_new) names2 (Ok s o_old)
                | _ => Raised s                                                   (* AttributeError *)
                end
            | None =>
                match d1 with
                | Some dd1 =>
                    match lookup (hp s) o_new with
                    | Some (OInst _ (Some dd2) _ _) => bind (rec s stack dd1 dd2) (fun s' _ => Ok s' o_old)
                    | _ => Raised s                                               (* AttributeError *)
                    end
                | None => Ok s o_new
                end
            end
      | None => Ok s o_new
      end
  | Some _ => Ok s o_new          (* type(oldobj) is defined outside the module *)
  | None => Raised s
  end.

(* ---------- _livepatch__module ---------- *)
(*  result = livepatch(old_mod.__dict__, new_mod.__dict__, ...); assert result is old_mod.__dict__
    return old_mod                                                                           *)
Definition patch_module (rec : recT) (s : st) (stack : list addr) (m_old m_new : addr) : res :=
  match lookup (hp s) m_old, lookup (hp s) m_new with
  | Some (OModule d1), Some (OModule d2) =>
      bind (rec s stack d1 d2) (fun s' r => if (r =? d1)%N then Ok s' m_old else Raised s')
  | _, _ => Raised s
  end.

(* ---------- livepatch ---------- *)

Definition class_name (h : heap) (c : addr) : option key :=
  match lookup h c with Some (OClass n _ _ _ _) => Some n | _ => None end.

(*  Dispatch = first hit along the MRO in {dict, type, function, method, module, object} *)
Definition dispatch (rec : recT) (t : ty) (s : st) (stack : list addr) (old new : addr) : res :=
  match t with
  | TyFunc => patch_function rec s stack old new
  | TyMethod => patch_method rec s stack old new
  | TyClass => patch_class rec s stack old new
  | TyDict => patch_dict rec s stack old new
  | TyModule => patch_module rec s stack old new
  | TyInst _ | TyStatic | TyClassM | TyCell | TyPrim _ => patch_object rec s stack old new
  end.

(*  new_modname = _get_definition_module(new)
    if modname and new_modname and new_modname != modname: return new
    if assume_type is not None: use_type = assume_type
    else:
        if oldtype is newtype: use_type = oldtype
        elif (oldtype.__name__ == newtype.__name__ and
              oldtype.__module__ == newtype.__module__ == modname and
              getattr(sys.modules[modname], newtype.__name__, None) is newtype and
              oldtype is livepatch(oldtype, newtype, ...)): use_type = oldtype
        else: return new
    <dispatch>                                                                               *)
Definition do_livepatch (rec : recT) (s : st) (stack : list addr) (old new : addr) (assume_module : bool) : res :=
  let h := hp s in
  let early := match defmod h new with
               | Some m => negb (m =? modname)%N
               | None => false
               end in
  if early then Ok s new
  else if assume_module then patch_module rec s stack old new
  else
    match lookup h old, lookup h new with
    | Some oo, Some on =>
        let t1 := tyof oo in
        let t2 := tyof on in
        if ty_eqb t1 t2 then dispatch rec t1 s stack old new
        else match t1, t2 with
             | TyInst c1, TyInst c2 =>
                 if optN_eqb (class_name h c1) (class_name h c2)
                    && optN_eqb (class_md h c1) (Some modname) && optN_eqb (class_md h c2) (Some modname)
                    && optN_eqb (match dict_entries h newmod_dict, class_name h c2 with
                                 | Some e, Some n => aget e n | _, _ => None end) (Some c2)
                 then bind (rec s stack c1 c2) (fun s' r =>
                        if (r =? c1)%N then dispatch rec t1 s' stack old new else Ok s' new)
                 else Ok s new
             | _, _ => Ok s new
             end
    | _, _ => Raised s
    end.

(*  if old is new: return new
    if id(old) in visit_stack: return old
    try: return cache[cachekey]
    visit_stack += (id(old),)
    result = do_livepatch(); cache[cachekey] = result; return result                        *)
Definition lp_body (rec : recT) (s : st) (stack : list addr) (old new : addr) (assume_module : bool) : res :=
  if (old =? new)%N then Ok s new
  else if memN old stack then Ok s old
  else match cache_find (cache s) old new with
       | Some r => Ok s r
       | None =>
           bind (do_livepatch rec s (stack ++ [old]) old new assume_module)
                (fun s' r => Ok (mkSt (hp s') (((old, new), r) :: cache s')) r)
       end.

Fixpoint lp (fuel : nat) (s : st) (stack : list addr) (old new : addr) : res :=
  match fuel with
  | O => OutOfFuel
  | S f => lp_body (lp f) s stack old new false
  end.

(*  livepatch(module, new_mod, module.__name__, assume_type=types.ModuleType)  *)
Definition livepatch_module (fuel : nat) (h : heap) (m_old m_new : addr) : res :=
  lp_body (lp fuel) (mkSt h []) [] m_old m_new true.

End Patch.

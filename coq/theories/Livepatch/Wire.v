(* Entry points evaluated by the correspondence harness (harness/c16.py). *)
From Coq Require Import NArith List String Bool.
From Verif Require Import Base.Chars Base.Show Livepatch.Heap Livepatch.Patch Livepatch.Xreload Livepatch.Wf.
Import ListNotations.
Open Scope string_scope.

Definition show_optN (o : option N) : string := show_option show_N o.
Definition show_kvs (l : list (key * addr)) : string := show_list (show_pair show_N show_N) l.

Definition show_obj_ (o : obj) : string :=
  match o with
  | OFunc n md c d kd doc an fd cl fv =>
      show_list (fun x => x) ["""func"""; show_N n; show_optN md; show_N c; show_N d; show_N kd; show_N doc; show_N an; show_N fd;
                              show_list show_N cl; show_list show_N fv]
  | OClass n md cd b sl =>
      show_list (fun x => x) ["""class"""; show_N n; show_optN md; show_kvs cd; show_list show_N b;
                              show_option (show_list show_N) sl]
  | ODict e => show_list (fun x => x) ["""dict"""; show_kvs e]
  | OInst c d sl sv =>
      show_list (fun x => x) ["""inst"""; show_N c; show_optN d; show_option (show_list show_N) sl; show_kvs sv]
  | OMethod f s => show_list (fun x => x) ["""method"""; show_N f; show_N s]
  | OCell v => show_list (fun x => x) ["""cell"""; show_N v]
  | OModule d => show_list (fun x => x) ["""module"""; show_N d]
  | OStatic f => show_list (fun x => x) ["""static"""; show_N f]
  | OClassM f => show_list (fun x => x) ["""classm"""; show_N f]
  | OPrim t e => show_list (fun x => x) ["""prim"""; show_N t; show_N e]
  end.

Definition show_heap (h : heap) : string := show_list (show_pair show_N show_obj_) h.

Definition show_outcome (o : outcome) : string :=
  match o with Done => """done""" | Raise => """raise""" | NotModelled => """unsupported""" | NoFuel => """nofuel""" end.

Definition pairs_ok (l : list (addr * addr)) (a b : addr) : bool :=
  existsb (fun p => (fst p =? a)%N && (snd p =? b)%N) l.

(* er_fail = Some idx: the new source raised at statement idx *)
Definition run_xreload (h1 : heap) (reg : list (key * addr)) (name : key) (module scratch : addr)
                       (bases : list (addr * addr)) (nm : names) (k_loadtime : key) (mtime_obj : addr)
                       (er_fail : option (nat * N)) (h0 : heap) : string :=
  let er := match er_fail with Some i => ExecFail (fst i) (snd i) h1 | None => ExecOk h1 end in
  let '(w, out) := xreload (pairs_ok bases) nm (S (List.length h1)) (mkW h0 reg) name module scratch k_loadtime mtime_obj er in
  show_obj [("wf", show_bool (wf_heap h1)); ("outcome", show_outcome out); ("heap", show_heap (wheap w)); ("registry", show_kvs (wreg w))].

Definition run_decide (force : bool) (loadtime mtime : N) (cached_same : bool) : string :=
  match decide force loadtime mtime cached_same with
  | SkipOlder => """older""" | SkipUnchanged => """unchanged""" | Reload => """reload"""
  end.

(* dict_shape and module_dunders, from the frame property (FrameProofs.v). *)
From Coq Require Import NArith List Bool Lia.
From Verif Require Import Livepatch.Heap Livepatch.Patch Livepatch.Xreload Livepatch.PatchProofs
                          Livepatch.XreloadProofs Livepatch.FrameProofs.
Import ListNotations.

(* ---------- association lists ---------- *)

Lemma aget_In_keys {V} (e : list (key * V)) k v : aget e k = Some v -> In k (akeys e).
Proof.
  induction e as [|[k' v'] r IH]; simpl; [discriminate|].
  destruct (k =? k')%N eqn:E; [apply N.eqb_eq in E; subst; left; reflexivity|right; apply IH; assumption].
Qed.

Lemma akeys_aset_in {V} (e : list (key * V)) k v : In k (akeys e) -> akeys (aset e k v) = akeys e.
Proof.
  induction e as [|[k' v'] r IH]; simpl; [intros []|].
  destruct (k =? k')%N eqn:E; simpl; [reflexivity|].
  intros [H|H]; [subst; rewrite N.eqb_refl in E; discriminate|]. f_equal. apply IH. exact H.
Qed.

Lemma In_akeys_aset {V} (e : list (key * V)) k v k' : In k' (akeys (aset e k v)) <-> (k' = k \/ In k' (akeys e)).
Proof.
  induction e as [|[k0 v0] r IH]; simpl.
  - split; [intros [H|[]]; left; congruence|intros [H|[]]; left; congruence].
  - destruct (k =? k0)%N eqn:E; simpl.
    + apply N.eqb_eq in E. subst k0. split; [intros [H|H]; auto|intros [H|[H|H]]; auto].
    + rewrite IH. tauto.
Qed.

Lemma In_akeys_fold_aset {V} (l : list (key * V)) e k :
  In k (akeys (fold_left (fun e kv => aset e (fst kv) (snd kv)) l e)) <-> (In k (akeys e) \/ In k (map fst l)).
Proof.
  revert e. induction l as [|[k0 v0] l IH]; intros e; simpl; [tauto|].
  rewrite IH, In_akeys_aset. simpl. intuition congruence.
Qed.

Lemma In_akeys_filter {V} (p : key * V -> bool) (e : list (key * V)) k :
  In k (akeys (filter p e)) -> In k (akeys e).
Proof.
  unfold akeys. intros H. apply in_map_iff in H. destruct H as [kv [Hk Hf]].
  apply filter_In in Hf. apply in_map_iff. exists kv. tauto.
Qed.

Lemma aget_fold_aset_other {V} (l : list (key * V)) e k :
  ~ In k (map fst l) -> aget (fold_left (fun e kv => aset e (fst kv) (snd kv)) l e) k = aget e k.
Proof.
  revert e. induction l as [|[k0 v0] l IH]; intros e Hn; simpl; [reflexivity|].
  rewrite IH by (intros H; apply Hn; right; exact H). simpl.
  apply aget_aset_other. intros ->. apply Hn. left. reflexivity.
Qed.

Lemma aget_filter_keep {V} (p : key -> bool) (e : list (key * V)) k :
  p k = true -> aget (filter (fun kv => p (fst kv)) e) k = aget e k.
Proof.
  intros Hp. induction e as [|[k' v'] r IH]; simpl; [reflexivity|].
  destruct (p k') eqn:Ep; simpl.
  - destruct (k =? k')%N; [reflexivity|exact IH].
  - destruct (k =? k')%N eqn:E; [apply N.eqb_eq in E; subst; congruence|exact IH].
Qed.

(* the entries of the old dict right after the add / delete loops of _livepatch__dict *)
Definition dict_after_add_del (eo en : list (key * addr)) : list (key * addr) :=
  filter (fun kv => memN (fst kv) (akeys en))
         (fold_left (fun e kv => aset e (fst kv) (snd kv))
                    (filter (fun kv => negb (memN (fst kv) (akeys eo))) en) eo).

Lemma dict_after_keys eo en k : In k (akeys (dict_after_add_del eo en)) <-> In k (akeys en).
Proof.
  unfold dict_after_add_del. split.
  - unfold akeys at 1. intros H. apply in_map_iff in H. destruct H as [kv [Hk Hf]].
    apply filter_In in Hf. destruct Hf as [_ Hm]. cbv beta in Hm. subst k. apply memN_In. exact Hm.
  - intros Hk. unfold akeys at 1. apply in_map_iff.
    set (e1 := fold_left _ _ eo).
    assert (In k (akeys e1)) as H1.
    { unfold e1. apply In_akeys_fold_aset. destruct (memN k (akeys eo)) eqn:Em.
      - left. apply memN_In. exact Em.
      - right. unfold akeys in Hk. apply in_map_iff in Hk. destruct Hk as [kv [Hkv Hin]].
        apply in_map_iff. exists kv. split; [exact Hkv|]. apply filter_In. split; [exact Hin|].
        cbv beta. subst k. apply negb_true_iff. exact Em. }
    unfold akeys in H1. apply in_map_iff in H1. destruct H1 as [kv [Hkv Hin]].
    exists kv. split; [exact Hkv|]. apply filter_In. split; [exact Hin|].
    cbv beta. subst k. apply memN_In. exact Hk.
Qed.

Lemma dict_after_same eo en k v :
  aget eo k = Some v -> In k (akeys en) -> aget (dict_after_add_del eo en) k = Some v.
Proof.
  intros Ho Hn. unfold dict_after_add_del.
  rewrite (aget_filter_keep (fun k => memN k (akeys en))) by (apply memN_In; exact Hn).
  rewrite aget_fold_aset_other; [exact Ho|].
  intros H. apply in_map_iff in H. destruct H as [kv [Hkv Hf]]. apply filter_In in Hf.
  destruct Hf as [_ Hm]. cbv beta in Hm. subst k.
  assert (memN (fst kv) (akeys eo) = true) as Ht by (apply memN_In; eapply aget_In_keys; exact Ho).
  apply negb_true_iff in Hm. exact (eq_true_false_abs _ Ht Hm).
Qed.

Lemma dict_entries_lookup h d e : lookup h d = Some (ODict e) -> dict_entries h d = Some e.
Proof. unfold dict_entries. intros ->. reflexivity. Qed.

Lemma dict_entries_inv h d e : dict_entries h d = Some e -> lookup h d = Some (ODict e).
Proof. unfold dict_entries. destruct (lookup h d) as [o|]; [|discriminate]. destruct o; try discriminate. congruence. Qed.

Lemma fold_bind_addr {K} (F : K -> st -> res) (d : addr) :
  (forall k s s' a', F k s = Ok s' a' -> a' = d) ->
  forall (l : list K) s0 s1 a1,
  fold_left (fun acc k => bind acc (fun s _ => F k s)) l (Ok s0 d) = Ok s1 a1 -> a1 = d.
Proof.
  intros HF. induction l as [|k l IH]; intros s0 s1 a1 Hf; simpl in Hf; [inversion Hf; reflexivity|].
  destruct (F k s0) as [s' a'| | |] eqn:E.
  - rewrite (HF _ _ _ _ E) in Hf. eapply IH. exact Hf.
  - exfalso. eapply fold_nonok; [|exact Hf]. intros; discriminate.
  - exfalso. eapply fold_nonok; [|exact Hf]. intros; discriminate.
  - exfalso. eapply fold_nonok; [|exact Hf]. intros; discriminate.
Qed.

Section Shape.
Variable modname : key.
Variable newmod_dict : addr.
Variable bases_ok : addr -> addr -> bool.
Variable nm : names.

Section Handler.
Variable rec : recT.
Hypothesis Hrec : forall s st a b s' r, rec s st a b = Ok s' r -> dframe st s s'.

(* the dict being patched is on the visit stack: its key set after the patch is the new dict's *)
Theorem patch_dict_keys s stk d1 d2 eo en s' r :
  In d1 stk ->
  lookup (hp s) d1 = Some (ODict eo) -> lookup (hp s) d2 = Some (ODict en) ->
  patch_dict rec s stk d1 d2 = Ok s' r ->
  r = d1 /\ exists e', lookup (hp s') d1 = Some (ODict e') /\ forall k, In k (akeys e') <-> In k (akeys en).
Proof.
  intros Hin H1 H2. unfold patch_dict.
  rewrite (dict_entries_lookup _ _ _ H1), (dict_entries_lookup _ _ _ H2). intros H.
  set (P := fun sx : st => exists e', lookup (hp sx) d1 = Some (ODict e') /\ forall k, In k (akeys e') <-> In k (akeys en)).
  assert (P s') as HP.
  { eapply (fold_bind_inv _ P); [| |exact H].
    - intros k s0 s1 a1 _ [e0 [He0 Hk0]] HF.
      rewrite (dict_entries_lookup _ _ _ He0) in HF.
      destruct (dict_entries (hp s0) d2) as [en0|]; [|discriminate].
      destruct (aget e0 k) as [o|] eqn:Eo; [|discriminate]. destruct (aget en0 k) as [n|]; [|discriminate].
      apply bind_ok in HF. destruct HF as [s2 [u [Hr HF]]].
      assert (lookup (hp s2) d1 = Some (ODict e0)) as Hd.
      { apply (Hrec _ _ _ _ _ _ Hr d1 e0 Hin); [discriminate|exact He0]. }
      destruct (u =? o)%N.
      + inversion HF; subst. exists e0. split; assumption.
      + rewrite (dict_entries_lookup _ _ _ Hd) in HF. inversion HF; subst. simpl.
        exists (aset e0 k u). split; [eapply lookup_update_same; exact Hd|].
        intros k'. rewrite akeys_aset_in by (eapply aget_In_keys; exact Eo). apply Hk0.
    - unfold P. simpl. eexists. split; [eapply lookup_update_same; exact H1|].
      intros k. apply (dict_after_keys eo en k). }
  split; [|exact HP].
  (* the returned object *)
  eapply (fold_bind_addr _ d1); [|exact H].
  intros k s0 s1 a1 HF. cbv beta in HF.
  destruct (dict_entries (hp s0) d1); [|discriminate]. destruct (dict_entries (hp s0) d2); [|discriminate].
  destruct (aget l k); [|discriminate]. destruct (aget l0 k); [|discriminate].
  apply bind_ok in HF. destruct HF as [s2 [u [_ HF]]].
  destruct (u =? a)%N; [inversion HF; reflexivity|].
  destruct (dict_entries (hp s2) d1); [|discriminate]. inversion HF; reflexivity.
Qed.

(* module_dunders (F27): a key that maps to the same object in the old and in the new dict keeps it,
   provided the nested calls do not write the NEW dict (hypothesis; the harness evaluates it on every
   run by comparing the scratch module's dict before and after the patch) *)
Theorem patch_dict_same_value s stk d1 d2 eo en s' r k0 v :
  In d1 stk ->
  lookup (hp s) d1 = Some (ODict eo) -> lookup (hp s) d2 = Some (ODict en) -> d1 <> d2 ->
  aget eo k0 = Some v -> aget en k0 = Some v ->
  (forall s0 a b s1 r1, rec s0 stk a b = Ok s1 r1 -> lookup (hp s1) d2 = lookup (hp s0) d2) ->
  (forall s0 a s1 r1, rec s0 stk a a = Ok s1 r1 -> r1 = a) ->
  patch_dict rec s stk d1 d2 = Ok s' r ->
  exists e', lookup (hp s') d1 = Some (ODict e') /\ aget e' k0 = Some v.
Proof.
  intros Hin H1 H2 Hne Ho Hn Hnew Hsame. unfold patch_dict.
  rewrite (dict_entries_lookup _ _ _ H1), (dict_entries_lookup _ _ _ H2). intros H.
  set (P := fun sx : st => lookup (hp sx) d2 = Some (ODict en) /\
                           exists e', lookup (hp sx) d1 = Some (ODict e') /\ aget e' k0 = Some v).
  assert (P s') as [_ HP]; [|exact HP].
  eapply (fold_bind_inv _ P); [| |exact H].
  - intros k s0 s1 a1 _ [Hd2 [e0 [He0 Hk0]]] HF.
    rewrite (dict_entries_lookup _ _ _ He0), (dict_entries_lookup _ _ _ Hd2) in HF.
    destruct (aget e0 k) as [o|] eqn:Eo; [|discriminate]. destruct (aget en k) as [n|] eqn:En; [|discriminate].
    apply bind_ok in HF. destruct HF as [s2 [u [Hr HF]]].
    assert (lookup (hp s2) d1 = Some (ODict e0)) as Hd.
    { apply (Hrec _ _ _ _ _ _ Hr d1 e0 Hin); [discriminate|exact He0]. }
    assert (lookup (hp s2) d2 = Some (ODict en)) as Hd2' by (rewrite (Hnew _ _ _ _ _ Hr); exact Hd2).
    destruct (u =? o)%N eqn:Eu.
    + inversion HF; subst. split; [exact Hd2'|]. exists e0. split; assumption.
    + rewrite (dict_entries_lookup _ _ _ Hd) in HF. inversion HF; subst. simpl. split.
      * unfold upd, set_hp. simpl. rewrite lookup_update_other by exact Hne. exact Hd2'.
      * exists (aset e0 k u). split; [eapply lookup_update_same; exact Hd|].
        destruct (N.eq_dec k0 k) as [->|Hk].
        -- (* the step of k0 itself: old value = new value = v, so the nested call returned v at once *)
           exfalso. rewrite Hk0 in Eo. inversion Eo; subst o. rewrite Hn in En. inversion En; subst n.
           apply N.eqb_neq in Eu. apply Eu. eapply Hsame. exact Hr.
        -- rewrite aget_aset_other by exact Hk. exact Hk0.
  - unfold P. simpl. split.
    + unfold upd, set_hp. simpl. rewrite lookup_update_other by exact Hne. exact H2.
    + eexists. split; [eapply lookup_update_same; exact H1|].
      apply dict_after_same; [exact Ho|eapply aget_In_keys; exact Hn].
Qed.

End Handler.
Notation LP := (lp modname newmod_dict bases_ok nm).

Lemma lp_same fuel s st a s' r : LP fuel s st a a = Ok s' r -> r = a.
Proof.
  destruct fuel; simpl; [discriminate|]. unfold lp_body. rewrite N.eqb_refl.
  intros H. inversion H. reflexivity.
Qed.

Lemma not_In_memN x l : ~ In x l -> memN x l = false.
Proof. intros H. destruct (memN x l) eqn:E; [apply memN_In in E; contradiction|reflexivity]. Qed.

(* livepatch on a pair of dicts met for the first time runs _livepatch__dict with the old dict
   pushed on the visit stack *)
Lemma lp_dict fuel s stack d1 d2 eo en s' r :
  d1 <> d2 -> ~ In d1 stack -> cache_find (cache s) d1 d2 = None ->
  lookup (hp s) d1 = Some (ODict eo) -> lookup (hp s) d2 = Some (ODict en) ->
  LP (S fuel) s stack d1 d2 = Ok s' r ->
  exists s1, patch_dict (LP fuel) s (stack ++ [d1]) d1 d2 = Ok s1 r /\ hp s' = hp s1.
Proof.
  intros Hne Hst Hc H1 H2. simpl. unfold lp_body.
  assert ((d1 =? d2)%N = false) as -> by (apply N.eqb_neq; exact Hne).
  rewrite (not_In_memN _ _ Hst), Hc. intros H. apply bind_ok in H. destruct H as [s1 [a1 [Hd H]]].
  inversion H; subst s' r. clear H. exists s1. split; [|reflexivity].
  unfold do_livepatch in Hd. unfold defmod in Hd. rewrite H2, H1 in Hd. simpl in Hd. exact Hd.
Qed.

(* dict_shape: after a successful patch the old module is returned and the dict object that is its
   __dict__ has exactly the keys of the new module's dict (deleted names gone, new names present) *)
Theorem dict_shape fuel h m_old m_new d1 d2 eo en s' r :
  lookup h m_old = Some (OModule d1) -> lookup h m_new = Some (OModule d2) ->
  m_old <> m_new -> d1 <> d2 ->
  lookup h d1 = Some (ODict eo) -> lookup h d2 = Some (ODict en) ->
  livepatch_module modname newmod_dict bases_ok nm fuel h m_old m_new = Ok s' r ->
  r = m_old /\
  exists e', lookup (hp s') d1 = Some (ODict e') /\ forall k, In k (akeys e') <-> In k (akeys en).
Proof.
  intros Hm1 Hm2 Hmne Hdne Hd1 Hd2. unfold livepatch_module, lp_body. simpl.
  assert ((m_old =? m_new)%N = false) as -> by (apply N.eqb_neq; exact Hmne).
  intros H. apply bind_ok in H. destruct H as [s1 [a1 [Hd H]]]. inversion H; subst s' r. clear H. simpl.
  unfold do_livepatch in Hd. unfold defmod in Hd. simpl in Hd. rewrite Hm2 in Hd. simpl in Hd.
  unfold patch_module in Hd. simpl in Hd. rewrite Hm1, Hm2 in Hd.
  apply bind_ok in Hd. destruct Hd as [s2 [a2 [Hr Hd]]].
  destruct fuel as [|f]; [discriminate|].
  assert (~ In d1 [m_old]) as Hnin.
  { intros [Heq|[]]. subst d1. rewrite Hm1 in Hd1. discriminate. }
  destruct (lp_dict f (mkSt h []) [m_old] d1 d2 eo en s2 a2 Hdne Hnin eq_refl Hd1 Hd2 Hr) as [s3 [Hp Hh]].
  destruct (patch_dict_keys (LP f) (lp_frame modname newmod_dict bases_ok nm f)
              (mkSt h []) ([m_old] ++ [d1]) d1 d2 eo en s3 a2) as [Ha [e' [He' Hk]]];
    [right; left; reflexivity|exact Hd1|exact Hd2|exact Hp|].
  subst a2. rewrite N.eqb_refl in Hd. inversion Hd; subst. split; [reflexivity|].
  exists e'. rewrite Hh. split; assumption.
Qed.

(* module_dunders (F27 repaired): a name that the scratch module carries over from the module being
   reloaded (same object in both dicts: __package__, __loader__, __spec__, __cached__, __path__ after
   the repair) is the same object afterwards - provided nested calls do not write the scratch
   module's dict (hypothesis evaluated by the harness on every run) *)
Theorem module_dunders fuel h m_old m_new d1 d2 eo en s' r k0 v :
  lookup h m_old = Some (OModule d1) -> lookup h m_new = Some (OModule d2) ->
  m_old <> m_new -> d1 <> d2 ->
  lookup h d1 = Some (ODict eo) -> lookup h d2 = Some (ODict en) ->
  aget eo k0 = Some v -> aget en k0 = Some v ->
  (forall f s0 st a b s1 r1, LP f s0 st a b = Ok s1 r1 -> lookup (hp s1) d2 = lookup (hp s0) d2) ->
  livepatch_module modname newmod_dict bases_ok nm fuel h m_old m_new = Ok s' r ->
  exists e', lookup (hp s') d1 = Some (ODict e') /\ aget e' k0 = Some v.
Proof.
  intros Hm1 Hm2 Hmne Hdne Hd1 Hd2 Ho Hn Hstable. unfold livepatch_module, lp_body. simpl.
  assert ((m_old =? m_new)%N = false) as -> by (apply N.eqb_neq; exact Hmne).
  intros H. apply bind_ok in H. destruct H as [s1 [a1 [Hd H]]]. inversion H; subst s' r. clear H. simpl.
  unfold do_livepatch in Hd. unfold defmod in Hd. simpl in Hd. rewrite Hm2 in Hd. simpl in Hd.
  unfold patch_module in Hd. simpl in Hd. rewrite Hm1, Hm2 in Hd.
  apply bind_ok in Hd. destruct Hd as [s2 [a2 [Hr Hd]]].
  destruct fuel as [|f]; [discriminate|].
  assert (~ In d1 [m_old]) as Hnin.
  { intros [Heq|[]]. subst d1. rewrite Hm1 in Hd1. discriminate. }
  destruct (lp_dict f (mkSt h []) [m_old] d1 d2 eo en s2 a2 Hdne Hnin eq_refl Hd1 Hd2 Hr) as [s3 [Hp Hh]].
  destruct (patch_dict_same_value (LP f) (lp_frame modname newmod_dict bases_ok nm f)
              (mkSt h []) ([m_old] ++ [d1]) d1 d2 eo en s3 a2 k0 v) as [e' [He' Hk]];
    [right; left; reflexivity|exact Hd1|exact Hd2|exact Hdne|exact Ho|exact Hn| | |exact Hp|].
  - intros s0 a b s4 r1. apply Hstable.
  - intros s0 a s4 r1. apply lp_same.
  - destruct (a2 =? d1)%N; [|discriminate]. inversion Hd; subst.
    exists e'. rewrite Hh. split; assumption.
Qed.

End Shape.

(* Frame property of livepatch: a dict that is on the visit stack is not written by nested calls.
   Consequences: dict_shape (keys of the old module dict after the patch = keys of the new dict) and
   module_dunders. *)
From Coq Require Import NArith List Bool Lia.
From Verif Require Import Livepatch.Heap Livepatch.Patch Livepatch.Xreload Livepatch.PatchProofs Livepatch.XreloadProofs.
Import ListNotations.

(* ---------- heap facts ---------- *)

Lemma lookup_update_other h a b o : a <> b -> lookup (update h a o) b = lookup h b.
Proof.
  intros Hne. induction h as [|[c o'] r IH]; simpl; [reflexivity|].
  destruct (a =? c)%N eqn:E; simpl.
  - apply N.eqb_eq in E. subst c.
    destruct (b =? a)%N eqn:E2; [apply N.eqb_eq in E2; congruence|reflexivity].
  - destruct (b =? c)%N; [reflexivity|exact IH].
Qed.

Lemma lookup_update_same h a o o0 : lookup h a = Some o0 -> lookup (update h a o) a = Some o.
Proof.
  induction h as [|[c o'] r IH]; simpl; [discriminate|].
  destruct (a =? c)%N eqn:E; simpl; rewrite E; [reflexivity|exact IH].
Qed.

Lemma dom_update h a o : dom (update h a o) = dom h.
Proof.
  unfold dom. induction h as [|[c o'] r IH]; simpl; [reflexivity|].
  destruct (a =? c)%N; simpl; [reflexivity|]. f_equal. exact IH.
Qed.

Lemma memN_In x l : memN x l = true <-> In x l.
Proof.
  unfold memN. rewrite existsb_exists. split.
  - intros [y [Hy He]]. apply N.eqb_eq in He. subst. exact Hy.
  - intros H. exists x. split; [exact H|apply N.eqb_refl].
Qed.

(* ---------- the frame relation ---------- *)

Definition is_dict (o : option obj) : Prop := exists e, o = Some (ODict e).

(* dicts on `stk`, except `ex`, are as before *)
Definition dframeX (stk : list addr) (ex : option addr) (s s' : st) : Prop :=
  forall d e, In d stk -> Some d <> ex -> lookup (hp s) d = Some (ODict e) -> lookup (hp s') d = Some (ODict e).
Definition dframe (stk : list addr) := dframeX stk None.

Lemma dframeX_refl stk ex s : dframeX stk ex s s.
Proof. intros d e _ _ H. exact H. Qed.

Lemma dframeX_trans stk ex s1 s2 s3 : dframeX stk ex s1 s2 -> dframeX stk ex s2 s3 -> dframeX stk ex s1 s3.
Proof. intros H1 H2 d e Hin Hex Hl. apply (H2 d e Hin Hex). apply (H1 d e Hin Hex). exact Hl. Qed.

Lemma dframe_weaken stk stk' ex s s' :
  (forall d, In d stk' -> In d stk) -> dframe stk s s' -> dframeX stk' ex s s'.
Proof. intros Hinc H d e Hin _ Hl. apply (H d e); [apply Hinc; exact Hin|discriminate|exact Hl]. Qed.

Lemma dframeX_cache stk ex s s' c : dframeX stk ex s s' -> dframeX stk ex s (mkSt (hp s') c).
Proof. intros H d e Hin Hex Hl. simpl. apply (H d e Hin Hex Hl). Qed.

(* writing a non-dict object over a non-dict object, or writing at the excepted address *)
Lemma dframeX_upd stk ex s a o :
  (Some a = ex \/ forall e, lookup (hp s) a <> Some (ODict e)) -> dframeX stk ex s (upd s a o).
Proof.
  intros Hc d e Hin Hex Hl. unfold upd, set_hp. simpl.
  destruct (N.eq_dec a d) as [->|Hne].
  - destruct Hc as [Hc|Hc]; [congruence|]. exfalso. exact (Hc e Hl).
  - rewrite lookup_update_other by exact Hne. exact Hl.
Qed.

Lemma set_class_entries_frame stk ex s c cd : dframeX stk ex s (set_class_entries s c cd).
Proof.
  unfold set_class_entries. destruct (lookup (hp s) c) as [o|] eqn:E; [|apply dframeX_refl].
  destruct o; try apply dframeX_refl. apply dframeX_upd. right. intros e He. congruence.
Qed.

Lemma set_slotvals_frame stk ex s a sv : dframeX stk ex s (set_slotvals s a sv).
Proof.
  unfold set_slotvals. destruct (lookup (hp s) a) as [o|] eqn:E; [|apply dframeX_refl].
  destruct o; try apply dframeX_refl. apply dframeX_upd. right. intros e He. congruence.
Qed.

(* ---------- loops: fold_left over a step of the form  acc k => bind acc (fun s _ => F k s) ---------- *)

Lemma fold_nonok {K} (F : K -> st -> res) (l : list K) acc :
  (forall s a, acc <> Ok s a) ->
  forall s a, fold_left (fun acc k => bind acc (fun s _ => F k s)) l acc <> Ok s a.
Proof.
  revert acc. induction l as [|k l IH]; intros acc Hn s a; simpl; [apply Hn|].
  apply IH. intros s0 a0 H. destruct acc; simpl in H; try discriminate. exact (Hn _ _ eq_refl).
Qed.

Lemma fold_bind_inv {K} (F : K -> st -> res) (P : st -> Prop) :
  forall (l : list K),
  (forall k s s' a', In k l -> P s -> F k s = Ok s' a' -> P s') ->
  forall s0 a0 s1 a1,
  P s0 -> fold_left (fun acc k => bind acc (fun s _ => F k s)) l (Ok s0 a0) = Ok s1 a1 -> P s1.
Proof.
  induction l as [|k l IH]; intros HF s0 a0 s1 a1 HP Hf; simpl in Hf.
  - inversion Hf; subst. exact HP.
  - destruct (F k s0) as [s' a'| | |] eqn:E.
    + eapply IH; [|eapply HF; [left; reflexivity|exact HP|exact E]|exact Hf].
      intros k' sa sb ab Hin. apply HF. right. exact Hin.
    + exfalso. eapply fold_nonok; [|exact Hf]. intros; discriminate.
    + exfalso. eapply fold_nonok; [|exact Hf]. intros; discriminate.
    + exfalso. eapply fold_nonok; [|exact Hf]. intros; discriminate.
Qed.

Section Frame.
Variable modname : key.
Variable newmod_dict : addr.
Variable bases_ok : addr -> addr -> bool.
Variable nm : names.

Variable rec : recT.
Hypothesis Hrec : forall s st a b s' r, rec s st a b = Ok s' r -> dframe st s s'.

Lemma rec_frameX stk ex s a b s' r : rec s stk a b = Ok s' r -> dframeX stk ex s s'.
Proof. intros H. eapply dframe_weaken; [|eapply Hrec; exact H]. auto. Qed.

Lemma cell_step_frame stk ex c1 c2 s s' r : cell_step rec stk c1 c2 s = Ok s' r -> dframeX stk ex s s'.
Proof.
  unfold cell_step. destruct (cell_val (hp s) c1) as [a|]; [|discriminate].
  destruct (cell_val (hp s) c2) as [b|]; [|discriminate].
  intros H. apply bind_ok in H. destruct H as [s2 [u [Hr H]]].
  eapply dframeX_trans; [eapply rec_frameX; exact Hr|].
  destruct (u =? a)%N; [inversion H; subst; apply dframeX_refl|].
  destruct (cell_val (hp s2) c1) as [v|] eqn:Ec; [|discriminate]. inversion H; subst.
  apply dframeX_upd. right. intros e He. unfold cell_val in Ec. rewrite He in Ec. discriminate.
Qed.

(* _livepatch__function writes a function object (and its cells) only *)
Lemma patch_function_frame stk ex s fo fn s' r :
  patch_function rec s stk fo fn = Ok s' r -> dframeX stk ex s s'.
Proof.
  unfold patch_function. destruct (lookup (hp s) fo) as [o|] eqn:Eo; [|discriminate].
  destruct o; try discriminate. destruct (lookup (hp s) fn) as [n|] eqn:En; [|discriminate].
  destruct n; try discriminate.
  match goal with |- context [negb ?c] => destruct c end; simpl.
  2:{ intros H. inversion H; subst. apply dframeX_refl. }
  intros H. apply bind_ok in H. destruct H as [s2 [a2 [H1 H]]].
  apply bind_ok in H. destruct H as [s3 [a3 [H2 H]]]. inversion H; subst s' r. clear H.
  match type of H1 with rec ?s1 _ _ _ = _ =>
    assert (dframeX stk ex s s1) as Hu by (apply dframeX_upd; right; intros e He; congruence) end.
  eapply dframeX_trans; [exact Hu|].
  eapply dframeX_trans; [eapply rec_frameX; exact H1|].
  eapply (patch_cells_inv rec (fun sx => dframeX stk ex s2 sx)); [| |exact H2].
  - intros s0 x y s1 r0 HP Hr. eapply dframeX_trans; [exact HP|]. eapply cell_step_frame. exact Hr.
  - intros sA aA HA. inversion HA; subst. apply dframeX_refl.
Qed.

Lemma patch_method_frame stk ex s a b s' r :
  patch_method rec s stk a b = Ok s' r -> dframeX stk ex s s'.
Proof.
  unfold patch_method. destruct (lookup (hp s) a) as [o|]; [|discriminate]. destruct o; try discriminate.
  destruct (lookup (hp s) b) as [n|]; [|discriminate]. destruct n; try discriminate.
  intros H. apply bind_ok in H. destruct H as [s2 [a2 [H1 H]]]. inversion H; subst.
  eapply patch_function_frame. exact H1.
Qed.

(* _livepatch__dict writes its own old dict only *)
Lemma patch_dict_frame stk s d_old d_new s' r :
  patch_dict rec s stk d_old d_new = Ok s' r -> dframeX stk (Some d_old) s s'.
Proof.
  unfold patch_dict. destruct (dict_entries (hp s) d_old) as [eo|]; [|discriminate].
  destruct (dict_entries (hp s) d_new) as [en|]; [|discriminate].
  intros H.
  eapply (fold_bind_inv
            (fun k s => match dict_entries (hp s) d_old, dict_entries (hp s) d_new with
                        | Some eo, Some en =>
                            match aget eo k, aget en k with
                            | Some o, Some n =>
                                bind (rec s stk o n) (fun s' u =>
                                  if (u =? o)%N then Ok s' d_old
                                  else match dict_entries (hp s') d_old with
                                       | Some eo' => Ok (upd s' d_old (ODict (aset eo' k u))) d_old
                                       | None => Raised s'
                                       end)
                            | _, _ => Raised s
                            end
                        | _, _ => Raised s
                        end)
            (fun sx => dframeX stk (Some d_old) s sx)); [| |exact H].
  - intros k s0 s1 a1 _ HP HF.
    destruct (dict_entries (hp s0) d_old) as [eo0|]; [|discriminate].
    destruct (dict_entries (hp s0) d_new) as [en0|]; [|discriminate].
    destruct (aget eo0 k) as [o|]; [|discriminate]. destruct (aget en0 k) as [n|]; [|discriminate].
    apply bind_ok in HF. destruct HF as [s2 [u [Hr HF]]].
    eapply dframeX_trans; [exact HP|]. eapply dframeX_trans; [eapply rec_frameX; exact Hr|].
    destruct (u =? o)%N; [inversion HF; subst; apply dframeX_refl|].
    destruct (dict_entries (hp s2) d_old); [|discriminate]. inversion HF; subst.
    apply dframeX_upd. left. reflexivity.
  - apply dframeX_upd. left. reflexivity.
Qed.

Lemma setattr_class_body_frame stk ex c_old c_new k s s' r :
  setattr_class modname rec stk c_old c_new (Ok s c_old) k = Ok s' r -> dframeX stk ex s s'.
Proof.
  unfold setattr_class. simpl.
  destruct (class_getattr (hp s) c_new k) as [[b|g]|]; [| |discriminate].
  - destruct (class_getattr (hp s) c_old k) as [[a|f]|].
    + destruct (a =? b)%N; [intros H; inversion H; subst; apply dframeX_refl|].
      intros H. apply bind_ok in H. destruct H as [s2 [u [Hr H]]].
      eapply dframeX_trans; [eapply rec_frameX; exact Hr|].
      destruct (u =? a)%N; [inversion H; subst; apply dframeX_refl|].
      destruct (class_entries (hp s2) c_old); [|discriminate]. inversion H; subst.
      apply set_class_entries_frame.
    + destruct (class_entries (hp s) c_old); [|discriminate]. intros H. inversion H; subst.
      apply set_class_entries_frame.
    + destruct (class_entries (hp s) c_old); [|discriminate]. intros H. inversion H; subst.
      apply set_class_entries_frame.
  - destruct (class_getattr (hp s) c_old k) as [[a|f]|]; try discriminate.
    destruct (defmod (hp s) g) as [m|].
    + destruct (m =? modname)%N; [|discriminate].
      intros H. apply bind_ok in H. destruct H as [s2 [u [Hr H]]]. inversion H; subst.
      eapply patch_function_frame. exact Hr.
    + intros H. apply bind_ok in H. destruct H as [s2 [u [Hr H]]]. inversion H; subst.
      eapply patch_function_frame. exact Hr.
Qed.

Lemma setattr_class_is_bind stk c_old c_new :
  setattr_class modname rec stk c_old c_new =
  fun acc k => bind acc (fun s _ => setattr_class modname rec stk c_old c_new (Ok s c_old) k).
Proof. reflexivity. Qed.

Lemma patch_class_body_frame stk ex c_old c_new s mapped s' r :
  patch_class_body modname bases_ok nm rec stk c_old c_new s mapped = Ok s' r -> dframeX stk ex s s'.
Proof.
  unfold patch_class_body. destruct (lookup (hp s) c_old) as [o|] eqn:Eo; [|discriminate].
  destruct o; try discriminate. destruct (lookup (hp s) c_new) as [n|]; [|discriminate].
  destruct n; try discriminate.
  match goal with |- context [if ?c then Ok s c_new else _] => destruct c end;
    [intros H; inversion H; subst; apply dframeX_refl|].
  rewrite setattr_class_is_bind. intros H.
  eapply (fold_bind_inv _ (fun sx => dframeX stk ex s sx)); [| |exact H].
  - intros k s0 s1 a1 _ HP HF. eapply dframeX_trans; [exact HP|].
    eapply setattr_class_body_frame. exact HF.
  - apply dframeX_upd. right. intros e He. congruence.
Qed.

Lemma map_bases_frame stk ex obs (k : st -> list addr -> res) :
  (forall s l s' r, k s l = Ok s' r -> dframeX stk ex s s') ->
  forall nbs s acc s' r, map_bases rec stk obs nbs s acc k = Ok s' r -> dframeX stk ex s s'.
Proof.
  intros Hk. induction nbs as [|nb nbs IH]; intros s acc s' r H; simpl in H.
  - eapply Hk. exact H.
  - destruct (find_old_base (hp s) obs nb) as [ob|].
    + apply bind_ok in H. destruct H as [s2 [u [Hr H]]].
      eapply dframeX_trans; [eapply rec_frameX; exact Hr|]. eapply IH. exact H.
    + eapply IH. exact H.
Qed.

Lemma patch_class_frame stk ex s c_old c_new s' r :
  patch_class modname bases_ok nm rec s stk c_old c_new = Ok s' r -> dframeX stk ex s s'.
Proof.
  unfold patch_class. destruct (lookup (hp s) c_old) as [o|] eqn:Eo; [|discriminate].
  destruct o; try discriminate. destruct (lookup (hp s) c_new) as [n|]; [|discriminate].
  destruct n; try discriminate.
  destruct (slots_differ nm (hp s) cdict cdict0); [intros H; inversion H; subst; apply dframeX_refl|].
  apply map_bases_frame. intros s0 l s1 r1. apply patch_class_body_frame.
Qed.

Lemma slot_step_is_bind stk i_old i_new :
  slot_step rec stk i_old i_new =
  fun acc k => bind acc (fun s _ => slot_step rec stk i_old i_new (Ok s i_old) k).
Proof. reflexivity. Qed.

Lemma slot_step_body_frame stk ex i_old i_new k s s' r :
  slot_step rec stk i_old i_new (Ok s i_old) k = Ok s' r -> dframeX stk ex s s'.
Proof.
  unfold slot_step. simpl.
  destruct (inst_slotvals (hp s) i_old) as [so|]; [|discriminate].
  destruct (inst_slotvals (hp s) i_new) as [sn|]; [|discriminate].
  destruct (aget so k) as [a|]; destruct (aget sn k) as [b|].
  - destruct (a =? b)%N; [intros H; inversion H; subst; apply dframeX_refl|].
    intros H. apply bind_ok in H. destruct H as [s2 [u [Hr H]]].
    eapply dframeX_trans; [eapply rec_frameX; exact Hr|].
    destruct (u =? a)%N; [inversion H; subst; apply dframeX_refl|].
    destruct (inst_slotvals (hp s2) i_old); [|discriminate]. inversion H; subst. apply set_slotvals_frame.
  - intros H. inversion H; subst. apply set_slotvals_frame.
  - intros H. inversion H; subst. apply set_slotvals_frame.
  - intros H. inversion H; subst. apply dframeX_refl.
Qed.

Lemma patch_object_frame stk ex s a b s' r :
  patch_object modname rec s stk a b = Ok s' r -> dframeX stk ex s s'.
Proof.
  unfold patch_object. destruct (lookup (hp s) a) as [o|]; [|discriminate].
  destruct o; try (intros H; inversion H; subst; apply dframeX_refl).
  destruct (class_md (hp s) cls) as [m|]; [|intros H; inversion H; subst; apply dframeX_refl].
  destruct (negb (m =? modname)%N); [intros H; inversion H; subst; apply dframeX_refl|].
  destruct islots as [names1|].
  - destruct (lookup (hp s) b) as [n|]; [|discriminate]. destruct n; try discriminate.
    destruct islots as [names2|]; [|discriminate].
    destruct (negb (listN_eqb names1 names2)); [discriminate|].
    rewrite slot_step_is_bind. intros H.
    eapply (fold_bind_inv _ (fun sx => dframeX stk ex s sx)); [| |exact H].
    + intros k s0 s1 a1 _ HP HF. eapply dframeX_trans; [exact HP|]. eapply slot_step_body_frame. exact HF.
    + apply dframeX_refl.
  - destruct idict as [dd1|]; [|intros H; inversion H; subst; apply dframeX_refl].
    destruct (lookup (hp s) b) as [n|]; [|discriminate]. destruct n; try discriminate.
    destruct idict as [dd2|]; [|discriminate].
    intros H. apply bind_ok in H. destruct H as [s2 [u [Hr H]]]. inversion H; subst.
    eapply rec_frameX. exact Hr.
Qed.

Lemma patch_module_frame stk ex s a b s' r :
  patch_module rec s stk a b = Ok s' r -> dframeX stk ex s s'.
Proof.
  unfold patch_module. destruct (lookup (hp s) a) as [o|]; [|discriminate]. destruct o; try discriminate.
  destruct (lookup (hp s) b) as [n|]; [|discriminate]. destruct n; try discriminate.
  intros H. apply bind_ok in H. destruct H as [s2 [u [Hr H]]].
  destruct (u =? mdict)%N; [|discriminate]. inversion H; subst. eapply rec_frameX. exact Hr.
Qed.

Lemma dispatch_frame t stk s old new s' r :
  dispatch modname bases_ok nm rec t s stk old new = Ok s' r -> dframeX stk (Some old) s s'.
Proof.
  destruct t; simpl; intros H;
    first [ eapply patch_dict_frame; exact H
          | eapply patch_function_frame; exact H
          | eapply patch_method_frame; exact H
          | eapply patch_class_frame; exact H
          | eapply patch_module_frame; exact H
          | eapply patch_object_frame; exact H ].
Qed.

Lemma do_livepatch_frame stk s old new am s' r :
  do_livepatch modname newmod_dict bases_ok nm rec s stk old new am = Ok s' r -> dframeX stk (Some old) s s'.
Proof.
  unfold do_livepatch.
  match goal with |- context [if ?c then Ok s new else _] => destruct c end;
    [intros H; inversion H; subst; apply dframeX_refl|].
  destruct am; [apply patch_module_frame|].
  destruct (lookup (hp s) old) as [oo|]; [|discriminate].
  destruct (lookup (hp s) new) as [on|]; [|discriminate].
  destruct (ty_eqb (tyof oo) (tyof on)); [apply dispatch_frame|].
  destruct (tyof oo) eqn:T1; try (intros H; inversion H; subst; apply dframeX_refl).
  destruct (tyof on) eqn:T2; try (intros H; inversion H; subst; apply dframeX_refl).
  match goal with |- context [if ?c then _ else Ok s new] => destruct c end;
    [|intros H; inversion H; subst; apply dframeX_refl].
  intros H. apply bind_ok in H. destruct H as [s2 [u [Hr H]]].
  eapply dframeX_trans; [eapply rec_frameX; exact Hr|].
  destruct (u =? c)%N; [|inversion H; subst; apply dframeX_refl].
  eapply dispatch_frame. exact H.
Qed.

Lemma lp_body_frame stack s old new am s' r :
  lp_body modname newmod_dict bases_ok nm rec s stack old new am = Ok s' r -> dframe stack s s'.
Proof.
  unfold lp_body. destruct (old =? new)%N; [intros H; inversion H; subst; apply dframeX_refl|].
  destruct (memN old stack) eqn:Em; [intros H; inversion H; subst; apply dframeX_refl|].
  destruct (cache_find (cache s) old new); [intros H; inversion H; subst; apply dframeX_refl|].
  intros H. apply bind_ok in H. destruct H as [s2 [u [Hd H]]]. inversion H; subst. clear H.
  apply do_livepatch_frame in Hd.
  intros d e Hin _ Hl. simpl. apply (Hd d e).
  - apply in_or_app. left. exact Hin.
  - intros Heq. inversion Heq; subst d.
    assert (memN old stack = true) by (apply memN_In; exact Hin). congruence.
  - exact Hl.
Qed.

End Frame.

(* the frame property of livepatch itself *)
Theorem lp_frame modname newmod_dict bases_ok nm fuel :
  forall s stack old new s' r,
    lp modname newmod_dict bases_ok nm fuel s stack old new = Ok s' r -> dframe stack s s'.
Proof.
  induction fuel as [|f IH]; intros s stack old new s' r H; simpl in H; [discriminate|].
  eapply lp_body_frame; [|exact H]. exact IH.
Qed.

Theorem lp_frame_plain modname newmod_dict bases_ok nm fuel s stack old new s' r :
  lp modname newmod_dict bases_ok nm fuel s stack old new = Ok s' r ->
  forall d e, In d stack -> lookup (hp s) d = Some (ODict e) -> lookup (hp s') d = Some (ODict e).
Proof.
  intros H d e Hin Hl.
  apply (lp_frame modname newmod_dict bases_ok nm fuel s stack old new s' r H d e Hin); [discriminate|exact Hl].
Qed.

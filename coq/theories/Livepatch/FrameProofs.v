(* Frame property of livepatch: a dict that is on the visit stack is not written by nested calls.
   Consequences: dict_shape (keys of the old module dict after the patch = keys of the new dict) and
   module_dunders. *)
From Coq Require Import NArith List Bool Lia.
From Verif Require Import Livepatch.Heap Livepatch.Patch Livepatch.Xreload Livepatch.PatchProofs Livepatch.XreloadProofs.
Import ListNotations.

(* ---------- heap facts ---------- *)

Lemma lookup_update_other h a b o : a <> b -> lookup (update h a o) b = lookup h b.
Proof.
  intros Hne. induction h as [|[c o'] r IH]; simpl; [reflexivity|].
  destruct (a =? c)%N eqn:E; simpl.
  - apply N.eqb_eq in E. subst c.
    destruct (b =? a)%N eqn:E2; [apply N.eqb_eq in E2; congruence|reflexivity].
  - destruct (b =? c)%N; [reflexivity|exact IH].
Qed.

Lemma lookup_update_same h a o o0 : lookup h a = Some o0 -> lookup (update h a o) a = Some o.
Proof.
  induction h as [|[c o'] r IH]; simpl; [discriminate|].
  destruct (a =? c)%N eqn:E; simpl; rewrite E; [reflexivity|exact IH].
Qed.

Lemma dom_update h a o : dom (update h a o) = dom h.
Proof.
  unfold dom. induction h as [|[c o'] r IH]; simpl; [reflexivity|].
  destruct (a =? c)%N; simpl; [reflexivity|]. f_equal. exact IH.
Qed.

Lemma memN_In x l : memN x l = true <-> In x l.
Proof.
  unfold memN. rewrite existsb_exists. split.
  - intros [y [Hy He]]. apply N.eqb_eq in He. subst. exact Hy.
  - intros H. exists x. split; [exact H|apply N.eqb_refl].
Qed.

(* ---------- the frame relation ---------- *)

(* objects that only their own handler activation writes: dicts, classes, instances
   (functions are also written through the uncut method / classmethod path, cells through their functions) *)
Definition protected (o : obj) : bool :=
  match o with ODict _ | OClass _ _ _ _ _ | OInst _ _ _ _ => true | _ => false end.

(* protected objects on `stk`, except `ex`, are as before *)
Definition gframeX (stk : list addr) (ex : option addr) (s s' : st) : Prop :=
  forall d o, In d stk -> Some d <> ex -> lookup (hp s) d = Some o -> protected o = true -> lookup (hp s') d = Some o.
Definition gframe (stk : list addr) := gframeX stk None.

Lemma gframeX_refl stk ex s : gframeX stk ex s s.
Proof. intros d o _ _ H _. exact H. Qed.

Lemma gframeX_trans stk ex s1 s2 s3 : gframeX stk ex s1 s2 -> gframeX stk ex s2 s3 -> gframeX stk ex s1 s3.
Proof. intros H1 H2 d o Hin Hex Hl Hp. apply (H2 d o Hin Hex); [|exact Hp]. apply (H1 d o Hin Hex Hl Hp). Qed.

Lemma gframe_weaken stk stk' ex s s' :
  (forall d, In d stk' -> In d stk) -> gframe stk s s' -> gframeX stk' ex s s'.
Proof. intros Hinc H d o Hin _ Hl Hp. apply (H d o); [apply Hinc; exact Hin|discriminate|exact Hl|exact Hp]. Qed.

Lemma gframeX_cache stk ex s s' c : gframeX stk ex s s' -> gframeX stk ex s (mkSt (hp s') c).
Proof. intros H d o Hin Hex Hl Hp. simpl. apply (H d o Hin Hex Hl Hp). Qed.

(* writing at the excepted address, or over an unprotected object *)
Lemma gframeX_upd stk ex s a o' :
  (Some a = ex \/ forall o, lookup (hp s) a = Some o -> protected o = false) -> gframeX stk ex s (upd s a o').
Proof.
  intros Hc d o Hin Hex Hl Hp. unfold upd, set_hp. simpl.
  destruct (N.eq_dec a d) as [->|Hne].
  - destruct Hc as [Hc|Hc]; [congruence|]. rewrite (Hc o Hl) in Hp. discriminate.
  - rewrite lookup_update_other by exact Hne. exact Hl.
Qed.

(* the dict instance of the relation, as used by ShapeProofs / TotalProofs *)
Definition dframeX (stk : list addr) (ex : option addr) (s s' : st) : Prop :=
  forall d e, In d stk -> Some d <> ex -> lookup (hp s) d = Some (ODict e) -> lookup (hp s') d = Some (ODict e).
Definition dframe (stk : list addr) := dframeX stk None.

Lemma gframeX_dframeX stk ex s s' : gframeX stk ex s s' -> dframeX stk ex s s'.
Proof. intros H d e Hin Hex Hl. apply (H d (ODict e) Hin Hex Hl). reflexivity. Qed.

Lemma set_class_entries_frame stk s c cd : gframeX stk (Some c) s (set_class_entries s c cd).
Proof.
  unfold set_class_entries. destruct (lookup (hp s) c) as [o|] eqn:E; [|apply gframeX_refl].
  destruct o; try apply gframeX_refl. apply gframeX_upd. left. reflexivity.
Qed.

Lemma set_slotvals_frame stk s a sv : gframeX stk (Some a) s (set_slotvals s a sv).
Proof.
  unfold set_slotvals. destruct (lookup (hp s) a) as [o|] eqn:E; [|apply gframeX_refl].
  destruct o; try apply gframeX_refl. apply gframeX_upd. left. reflexivity.
Qed.

(* ---------- loops: fold_left over a step of the form  acc k => bind acc (fun s _ => F k s) ---------- *)

Lemma fold_nonok {K} (F : K -> st -> res) (l : list K) acc :
  (forall s a, acc <> Ok s a) ->
  forall s a, fold_left (fun acc k => bind acc (fun s _ => F k s)) l acc <> Ok s a.
Proof.
  revert acc. induction l as [|k l IH]; intros acc Hn s a; simpl; [apply Hn|].
  apply IH. intros s0 a0 H. destruct acc; simpl in H; try discriminate. exact (Hn _ _ eq_refl).
Qed.

Lemma fold_bind_inv {K} (F : K -> st -> res) (P : st -> Prop) :
  forall (l : list K),
  (forall k s s' a', In k l -> P s -> F k s = Ok s' a' -> P s') ->
  forall s0 a0 s1 a1,
  P s0 -> fold_left (fun acc k => bind acc (fun s _ => F k s)) l (Ok s0 a0) = Ok s1 a1 -> P s1.
Proof.
  induction l as [|k l IH]; intros HF s0 a0 s1 a1 HP Hf; simpl in Hf.
  - inversion Hf; subst. exact HP.
  - destruct (F k s0) as [s' a'| | |] eqn:E.
    + eapply IH; [|eapply HF; [left; reflexivity|exact HP|exact E]|exact Hf].
      intros k' sa sb ab Hin. apply HF. right. exact Hin.
    + exfalso. eapply fold_nonok; [|exact Hf]. intros; discriminate.
    + exfalso. eapply fold_nonok; [|exact Hf]. intros; discriminate.
    + exfalso. eapply fold_nonok; [|exact Hf]. intros; discriminate.
Qed.

Section Frame.
Variable modname : key.
Variable newmod_dict : addr.
Variable bases_ok : addr -> addr -> bool.
Variable nm : names.

Variable rec : recT.
Hypothesis Hrec : forall s st a b s' r, rec s st a b = Ok s' r -> gframe st s s'.

Lemma rec_frameX stk ex s a b s' r : rec s stk a b = Ok s' r -> gframeX stk ex s s'.
Proof. intros H. eapply gframe_weaken; [|eapply Hrec; exact H]. auto. Qed.

Lemma cell_step_frame stk ex c1 c2 s s' r : cell_step rec stk c1 c2 s = Ok s' r -> gframeX stk ex s s'.
Proof.
  unfold cell_step. destruct (cell_val (hp s) c1) as [a|]; [|discriminate].
  destruct (cell_val (hp s) c2) as [b|]; [|discriminate].
  intros H. apply bind_ok in H. destruct H as [s2 [u [Hr H]]].
  eapply gframeX_trans; [eapply rec_frameX; exact Hr|].
  destruct (u =? a)%N; [inversion H; subst; apply gframeX_refl|].
  destruct (cell_val (hp s2) c1) as [v|] eqn:Ec; [|discriminate]. inversion H; subst.
  apply gframeX_upd. right. intros o0 He. unfold cell_val in Ec. rewrite He in Ec.
  destruct o0; try discriminate; reflexivity.
Qed.

(* _livepatch__function writes a function object (and its cells) only *)
Lemma patch_function_frame stk ex s fo fn s' r :
  patch_function rec s stk fo fn = Ok s' r -> gframeX stk ex s s'.
Proof.
  unfold patch_function. destruct (lookup (hp s) fo) as [o|] eqn:Eo; [|discriminate].
  destruct o; try discriminate. destruct (lookup (hp s) fn) as [n|] eqn:En; [|discriminate].
  destruct n; try discriminate.
  match goal with |- context [negb ?c] => destruct c end; simpl.
  2:{ intros H. inversion H; subst. apply gframeX_refl. }
  intros H. apply bind_ok in H. destruct H as [s2 [a2 [H1 H]]].
  apply bind_ok in H. destruct H as [s3 [a3 [H2 H]]]. inversion H; subst s' r. clear H.
  match type of H1 with rec ?s1 _ _ _ = _ =>
    assert (gframeX stk ex s s1) as Hu
      by (apply gframeX_upd; right; intros o0 He; rewrite Eo in He; inversion He; reflexivity) end.
  eapply gframeX_trans; [exact Hu|].
  eapply gframeX_trans; [eapply rec_frameX; exact H1|].
  eapply (patch_cells_inv rec (fun sx => gframeX stk ex s2 sx)); [| |exact H2].
  - intros s0 x y s1 r0 HP Hr. eapply gframeX_trans; [exact HP|]. eapply cell_step_frame. exact Hr.
  - intros sA aA HA. inversion HA; subst. apply gframeX_refl.
Qed.

Lemma patch_method_frame stk ex s a b s' r :
  patch_method rec s stk a b = Ok s' r -> gframeX stk ex s s'.
Proof.
  unfold patch_method. destruct (lookup (hp s) a) as [o|]; [|discriminate]. destruct o; try discriminate.
  destruct (lookup (hp s) b) as [n|]; [|discriminate]. destruct n; try discriminate.
  intros H. apply bind_ok in H. destruct H as [s2 [a2 [H1 H]]]. inversion H; subst.
  eapply patch_function_frame. exact H1.
Qed.

(* _livepatch__dict writes its own old dict only *)
Lemma patch_dict_frame stk s d_old d_new s' r :
  patch_dict rec s stk d_old d_new = Ok s' r -> gframeX stk (Some d_old) s s'.
Proof.
  unfold patch_dict. destruct (dict_entries (hp s) d_old) as [eo|]; [|discriminate].
  destruct (dict_entries (hp s) d_new) as [en|]; [|discriminate].
  intros H.
  eapply (fold_bind_inv
            (fun k s => match dict_entries (hp s) d_old, dict_entries (hp s) d_new with
                        | Some eo, Some en =>
                            match aget eo k, aget en k with
                            | Some o, Some n =>
                                bind (rec s stk o n) (fun s' u =>
                                  if (u =? o)%N then Ok s' d_old
                                  else match dict_entries (hp s') d_old with
                                       | Some eo' => Ok (upd s' d_old (ODict (aset eo' k u))) d_old
                                       | None => Raised s'
                                       end)
                            | _, _ => Raised s
                            end
                        | _, _ => Raised s
                        end)
            (fun sx => gframeX stk (Some d_old) s sx)); [| |exact H].
  - intros k s0 s1 a1 _ HP HF.
    destruct (dict_entries (hp s0) d_old) as [eo0|]; [|discriminate].
    destruct (dict_entries (hp s0) d_new) as [en0|]; [|discriminate].
    destruct (aget eo0 k) as [o|]; [|discriminate]. destruct (aget en0 k) as [n|]; [|discriminate].
    apply bind_ok in HF. destruct HF as [s2 [u [Hr HF]]].
    eapply gframeX_trans; [exact HP|]. eapply gframeX_trans; [eapply rec_frameX; exact Hr|].
    destruct (u =? o)%N; [inversion HF; subst; apply gframeX_refl|].
    destruct (dict_entries (hp s2) d_old); [|discriminate]. inversion HF; subst.
    apply gframeX_upd. left. reflexivity.
  - apply gframeX_upd. left. reflexivity.
Qed.

Lemma setattr_class_body_frame stk c_old c_new k s s' r :
  setattr_class modname rec stk c_old c_new (Ok s c_old) k = Ok s' r -> gframeX stk (Some c_old) s s'.
Proof.
  unfold setattr_class. simpl.
  destruct (class_getattr (hp s) c_new k) as [[b|g]|]; [| |discriminate].
  - destruct (class_getattr (hp s) c_old k) as [[a|f]|].
    + destruct (a =? b)%N; [intros H; inversion H; subst; apply gframeX_refl|].
      intros H. apply bind_ok in H. destruct H as [s2 [u [Hr H]]].
      eapply gframeX_trans; [eapply rec_frameX; exact Hr|].
      destruct (u =? a)%N; [inversion H; subst; apply gframeX_refl|].
      destruct (class_entries (hp s2) c_old); [|discriminate]. inversion H; subst.
      apply set_class_entries_frame.
    + destruct (class_entries (hp s) c_old); [|discriminate]. intros H. inversion H; subst.
      apply set_class_entries_frame.
    + destruct (class_entries (hp s) c_old); [|discriminate]. intros H. inversion H; subst.
      apply set_class_entries_frame.
  - destruct (class_getattr (hp s) c_old k) as [[a|f]|]; try discriminate.
    destruct (defmod (hp s) g) as [m|].
    + destruct (m =? modname)%N; [|discriminate].
      intros H. apply bind_ok in H. destruct H as [s2 [u [Hr H]]]. inversion H; subst.
      eapply patch_function_frame. exact Hr.
    + intros H. apply bind_ok in H. destruct H as [s2 [u [Hr H]]]. inversion H; subst.
      eapply patch_function_frame. exact Hr.
Qed.

Lemma setattr_class_is_bind stk c_old c_new :
  setattr_class modname rec stk c_old c_new =
  fun acc k => bind acc (fun s _ => setattr_class modname rec stk c_old c_new (Ok s c_old) k).
Proof. reflexivity. Qed.

Lemma patch_class_body_frame stk c_old c_new s mapped s' r :
  patch_class_body modname bases_ok nm rec stk c_old c_new s mapped = Ok s' r -> gframeX stk (Some c_old) s s'.
Proof.
  unfold patch_class_body. destruct (lookup (hp s) c_old) as [o|] eqn:Eo; [|discriminate].
  destruct o; try discriminate. destruct (lookup (hp s) c_new) as [n|]; [|discriminate].
  destruct n; try discriminate.
  match goal with |- context [if ?c then Ok s c_new else _] => destruct c end;
    [intros H; inversion H; subst; apply gframeX_refl|].
  rewrite setattr_class_is_bind. intros H.
  eapply (fold_bind_inv _ (fun sx => gframeX stk (Some c_old) s sx)); [| |exact H].
  - intros k s0 s1 a1 _ HP HF. eapply gframeX_trans; [exact HP|].
    eapply setattr_class_body_frame. exact HF.
  - apply gframeX_upd. left. reflexivity.
Qed.

Lemma map_bases_frame stk ex obs (k : st -> list addr -> res) :
  (forall s l s' r, k s l = Ok s' r -> gframeX stk ex s s') ->
  forall nbs s acc s' r, map_bases modname nm rec stk obs nbs s acc k = Ok s' r -> gframeX stk ex s s'.
Proof.
  intros Hk. induction nbs as [|nb nbs IH]; intros s acc s' r H; simpl in H.
  - eapply Hk. exact H.
  - destruct (base_counterpart modname nm (hp s) obs nb) as [ob|].
    + apply bind_ok in H. destruct H as [s2 [u [Hr H]]].
      eapply gframeX_trans; [eapply rec_frameX; exact Hr|]. eapply IH. exact H.
    + eapply IH. exact H.
Qed.

Lemma patch_class_frame stk s c_old c_new s' r :
  patch_class modname bases_ok nm rec s stk c_old c_new = Ok s' r -> gframeX stk (Some c_old) s s'.
Proof.
  unfold patch_class. destruct (lookup (hp s) c_old) as [o|] eqn:Eo; [|discriminate].
  destruct o; try discriminate. destruct (lookup (hp s) c_new) as [n|]; [|discriminate].
  destruct n; try discriminate.
  destruct (slots_differ nm (hp s) cdict cdict0); [intros H; inversion H; subst; apply gframeX_refl|].
  apply map_bases_frame. intros s0 l s1 r1. apply patch_class_body_frame.
Qed.

Lemma slot_step_is_bind stk i_old i_new :
  slot_step rec stk i_old i_new =
  fun acc k => bind acc (fun s _ => slot_step rec stk i_old i_new (Ok s i_old) k).
Proof. reflexivity. Qed.

Lemma slot_step_body_frame stk i_old i_new k s s' r :
  slot_step rec stk i_old i_new (Ok s i_old) k = Ok s' r -> gframeX stk (Some i_old) s s'.
Proof.
  unfold slot_step. simpl.
  destruct (inst_slotvals (hp s) i_old) as [so|]; [|discriminate].
  destruct (inst_slotvals (hp s) i_new) as [sn|]; [|discriminate].
  destruct (aget so k) as [a|]; destruct (aget sn k) as [b|].
  - destruct (a =? b)%N; [intros H; inversion H; subst; apply gframeX_refl|].
    intros H. apply bind_ok in H. destruct H as [s2 [u [Hr H]]].
    eapply gframeX_trans; [eapply rec_frameX; exact Hr|].
    destruct (u =? a)%N; [inversion H; subst; apply gframeX_refl|].
    destruct (inst_slotvals (hp s2) i_old); [|discriminate]. inversion H; subst. apply set_slotvals_frame.
  - intros H. inversion H; subst. apply set_slotvals_frame.
  - intros H. inversion H; subst. apply set_slotvals_frame.
  - intros H. inversion H; subst. apply gframeX_refl.
Qed.

Lemma patch_object_frame stk s a b s' r :
  patch_object modname rec s stk a b = Ok s' r -> gframeX stk (Some a) s s'.
Proof.
  unfold patch_object. destruct (lookup (hp s) a) as [o|]; [|discriminate].
  destruct o; try (intros H; inversion H; subst; apply gframeX_refl).
  destruct (class_md (hp s) cls) as [m|]; [|intros H; inversion H; subst; apply gframeX_refl].
  destruct (negb (m =? modname)%N); [intros H; inversion H; subst; apply gframeX_refl|].
  destruct islots as [names1|].
  - destruct (lookup (hp s) b) as [n|]; [|discriminate]. destruct n; try discriminate.
    destruct islots as [names2|]; [|discriminate].
    destruct (negb (listN_eqb names1 names2)); [discriminate|].
    rewrite slot_step_is_bind. intros H.
    eapply (fold_bind_inv _ (fun sx => gframeX stk (Some a) s sx)); [| |exact H].
    + intros k s0 s1 a1 _ HP HF. eapply gframeX_trans; [exact HP|]. eapply slot_step_body_frame. exact HF.
    + apply gframeX_refl.
  - destruct idict as [dd1|]; [|intros H; inversion H; subst; apply gframeX_refl].
    destruct (lookup (hp s) b) as [n|]; [|discriminate]. destruct n; try discriminate.
    destruct idict as [dd2|]; [|discriminate].
    intros H. apply bind_ok in H. destruct H as [s2 [u [Hr H]]]. inversion H; subst.
    eapply rec_frameX. exact Hr.
Qed.

Lemma patch_module_frame stk ex s a b s' r :
  patch_module rec s stk a b = Ok s' r -> gframeX stk ex s s'.
Proof.
  unfold patch_module. destruct (lookup (hp s) a) as [o|]; [|discriminate]. destruct o; try discriminate.
  destruct (lookup (hp s) b) as [n|]; [|discriminate]. destruct n; try discriminate.
  intros H. apply bind_ok in H. destruct H as [s2 [u [Hr H]]].
  destruct (u =? mdict)%N; [|discriminate]. inversion H; subst. eapply rec_frameX. exact Hr.
Qed.

Lemma dispatch_frame t stk s old new s' r :
  dispatch modname bases_ok nm rec t s stk old new = Ok s' r -> gframeX stk (Some old) s s'.
Proof.
  destruct t; simpl; intros H;
    first [ eapply patch_dict_frame; exact H
          | eapply patch_function_frame; exact H
          | eapply patch_method_frame; exact H
          | eapply patch_class_frame; exact H
          | eapply patch_module_frame; exact H
          | eapply patch_object_frame; exact H ].
Qed.

Lemma do_livepatch_frame stk s old new am s' r :
  do_livepatch modname newmod_dict bases_ok nm rec s stk old new am = Ok s' r -> gframeX stk (Some old) s s'.
Proof.
  unfold do_livepatch.
  match goal with |- context [if ?c then Ok s new else _] => destruct c end;
    [intros H; inversion H; subst; apply gframeX_refl|].
  destruct am; [apply patch_module_frame|].
  destruct (lookup (hp s) old) as [oo|]; [|discriminate].
  destruct (lookup (hp s) new) as [on|]; [|discriminate].
  destruct (ty_eqb (tyof oo) (tyof on)); [apply dispatch_frame|].
  destruct (tyof oo) eqn:T1; try (intros H; inversion H; subst; apply gframeX_refl).
  destruct (tyof on) eqn:T2; try (intros H; inversion H; subst; apply gframeX_refl).
  match goal with |- context [if ?c then _ else Ok s new] => destruct c end;
    [|intros H; inversion H; subst; apply gframeX_refl].
  intros H. apply bind_ok in H. destruct H as [s2 [u [Hr H]]].
  eapply gframeX_trans; [eapply rec_frameX; exact Hr|].
  destruct (u =? c)%N; [|inversion H; subst; apply gframeX_refl].
  eapply dispatch_frame. exact H.
Qed.

Lemma lp_body_frame stack s old new am s' r :
  lp_body modname newmod_dict bases_ok nm rec s stack old new am = Ok s' r -> gframe stack s s'.
Proof.
  unfold lp_body. destruct (old =? new)%N; [intros H; inversion H; subst; apply gframeX_refl|].
  destruct (memN old stack) eqn:Em; [intros H; inversion H; subst; apply gframeX_refl|].
  destruct (cache_find (cache s) old new); [intros H; inversion H; subst; apply gframeX_refl|].
  intros H. apply bind_ok in H. destruct H as [s2 [u [Hd H]]]. inversion H; subst. clear H.
  apply do_livepatch_frame in Hd.
  intros d e Hin _ Hl. simpl. apply (Hd d e).
  - apply in_or_app. left. exact Hin.
  - intros Heq. inversion Heq; subst d.
    assert (memN old stack = true) by (apply memN_In; exact Hin). congruence.
  - exact Hl.
Qed.

End Frame.

(* the frame property of livepatch itself: dicts, classes and instances on the visit stack *)
Theorem lp_gframe modname newmod_dict bases_ok nm fuel :
  forall s stack old new s' r,
    lp modname newmod_dict bases_ok nm fuel s stack old new = Ok s' r -> gframe stack s s'.
Proof.
  induction fuel as [|f IH]; intros s stack old new s' r H; simpl in H; [discriminate|].
  eapply lp_body_frame; [|exact H]. exact IH.
Qed.

Theorem lp_frame modname newmod_dict bases_ok nm fuel :
  forall s stack old new s' r,
    lp modname newmod_dict bases_ok nm fuel s stack old new = Ok s' r -> dframe stack s s'.
Proof.
  intros s stack old new s' r H. apply gframeX_dframeX. eapply lp_gframe. exact H.
Qed.

Theorem lp_gframe_plain modname newmod_dict bases_ok nm fuel s stack old new s' r :
  lp modname newmod_dict bases_ok nm fuel s stack old new = Ok s' r ->
  forall d o, In d stack -> lookup (hp s) d = Some o -> protected o = true -> lookup (hp s') d = Some o.
Proof.
  intros H d o Hin Hl Hp.
  apply (lp_gframe modname newmod_dict bases_ok nm fuel s stack old new s' r H d o Hin); [discriminate|exact Hl|exact Hp].
Qed.

Theorem lp_frame_plain modname newmod_dict bases_ok nm fuel s stack old new s' r :
  lp modname newmod_dict bases_ok nm fuel s stack old new = Ok s' r ->
  forall d e, In d stack -> lookup (hp s) d = Some (ODict e) -> lookup (hp s') d = Some (ODict e).
Proof.
  intros H d e Hin Hl.
  apply (lp_frame modname newmod_dict bases_ok nm fuel s stack old new s' r H d e Hin); [discriminate|exact Hl].
Qed.

(* M14 (a): the abstract object graph pyflyby._livepatch works on.  Model only.

   Addresses are `id(obj)` renumbered by the harness; dictionary keys / attribute names are ids
   allocated by the harness in the order of `sorted(keys, key=str)`, so comparing ids is comparing
   the names the way the code sorts them. *)
From Coq Require Import NArith List Bool.
Import ListNotations.

Definition addr := N.
Definition key := N.

Inductive obj :=
(* types.FunctionType: __name__, __module__, __code__, __defaults__, __kwdefaults__, __doc__,
   __annotations__, __dict__, the cells of __closure__, __code__.co_freevars *)
| OFunc (name : key) (md : option key) (code : addr) (defaults : addr) (kwdefaults : addr) (doc : addr)
        (annotations : addr) (fdict : addr) (closure : list addr) (freevars : list key)
(* a class: __name__, __module__, the raw entries of its own __dict__, __bases__,
   the names in its own __slots__ (None: no own __slots__) *)
| OClass (name : key) (md : option key) (cdict : list (key * addr)) (bases : list addr)
         (slots : option (list key))
| ODict (entries : list (key * addr))                 (* type(o) is dict *)
(* an instance of a class: type(o), o.__dict__ when it is a plain dict, o.__slots__ when
   hasattr(type(o), "__slots__"), the slot attributes that are set *)
| OInst (cls : addr) (idict : option addr) (islots : option (list key)) (slotvals : list (key * addr))
| OMethod (func self : addr)                          (* types.MethodType *)
| OCell (contents : addr)                             (* a closure cell (types.CellType), never empty *)
| OModule (mdict : addr)                              (* types.ModuleType *)
| OStatic (func : addr)                               (* staticmethod object (in a class dict) *)
| OClassM (func : addr)                               (* classmethod object (in a class dict) *)
(* anything else: an object whose type is defined outside the module being reloaded and that is
   none of the above (numbers, strings, tuples, lists, code objects, property objects, getset
   descriptors, ModuleSpec ...).  ty = id of its type, eqc = its class under `==` within that type *)
| OPrim (ty : N) (eqc : N).

Definition heap := list (addr * obj).

Fixpoint lookup (h : heap) (a : addr) : option obj :=
  match h with
  | [] => None
  | (b, o) :: r => if (a =? b)%N then Some o else lookup r a
  end.

(* replace the object stored at an existing address (no allocation: livepatch creates no object
   that it stores) *)
Fixpoint update (h : heap) (a : addr) (o : obj) : heap :=
  match h with
  | [] => []
  | (b, o') :: r => if (a =? b)%N then (b, o) :: r else (b, o') :: update r a o
  end.

Definition dom (h : heap) : list addr := map fst h.

(* association lists (dict entries, class dict entries, slot values) *)
Fixpoint aget {V} (l : list (key * V)) (k : key) : option V :=
  match l with
  | [] => None
  | (k', v) :: r => if (k =? k')%N then Some v else aget r k
  end.

Fixpoint aset {V} (l : list (key * V)) (k : key) (v : V) : list (key * V) :=
  match l with
  | [] => [(k, v)]
  | (k', v') :: r => if (k =? k')%N then (k', v) :: r else (k', v') :: aset r k v
  end.

Definition adel {V} (l : list (key * V)) (k : key) : list (key * V) :=
  filter (fun kv => negb (k =? fst kv)%N) l.

Definition akeys {V} (l : list (key * V)) : list key := map fst l.

Definition memN (x : N) (l : list N) : bool := existsb (N.eqb x) l.

Fixpoint listN_eqb (a b : list N) : bool :=
  match a, b with
  | [], [] => true
  | x :: a', y :: b' => (x =? y)%N && listN_eqb a' b'
  | _, _ => false
  end.

Definition optN_eqb (a b : option N) : bool :=
  match a, b with
  | None, None => true
  | Some x, Some y => (x =? y)%N
  | _, _ => false
  end.

(* sorted(names) *)
Fixpoint insertN (x : N) (l : list N) : list N :=
  match l with
  | [] => [x]
  | y :: r => if (x <=? y)%N then x :: l else y :: insertN x r
  end.
Definition sortN (l : list N) : list N := fold_right insertN [] l.

(* type(o), as far as livepatch distinguishes types *)
Inductive ty :=
| TyFunc | TyMethod | TyClass | TyDict | TyModule
| TyInst (c : addr)
| TyStatic | TyClassM | TyCell
| TyPrim (t : N).

Definition tyof (o : obj) : ty :=
  match o with
  | OFunc _ _ _ _ _ _ _ _ _ _ => TyFunc
  | OClass _ _ _ _ _ => TyClass
  | ODict _ => TyDict
  | OInst c _ _ _ => TyInst c
  | OMethod _ _ => TyMethod
  | OCell _ => TyCell
  | OModule _ => TyModule
  | OStatic _ => TyStatic
  | OClassM _ => TyClassM
  | OPrim t _ => TyPrim t
  end.

Definition ty_eqb (a b : ty) : bool :=
  match a, b with
  | TyFunc, TyFunc | TyMethod, TyMethod | TyClass, TyClass | TyDict, TyDict | TyModule, TyModule
  | TyStatic, TyStatic | TyClassM, TyClassM | TyCell, TyCell => true
  | TyInst c, TyInst d => (c =? d)%N
  | TyPrim t, TyPrim u => (t =? u)%N
  | _, _ => false
  end.

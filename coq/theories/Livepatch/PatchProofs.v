(* Proofs about Livepatch/Patch.v: identity kept / replaced for functions, the F20 witness. *)
From Coq Require Import NArith List Bool Lia.
From Verif Require Import Livepatch.Heap Livepatch.Patch.
Import ListNotations.

Section Proofs.
Variable modname : key.
Variable newmod_dict : addr.
Variable bases_ok : addr -> addr -> bool.
Variable nm : names.

Lemma bind_ok r f s a : bind r f = Ok s a -> exists s0 a0, r = Ok s0 a0 /\ f s0 a0 = Ok s a.
Proof. destruct r; simpl; try discriminate. intros H. eauto. Qed.

(* ---------- _livepatch__function ---------- *)

(* a compatible function keeps its identity: whatever the nested calls do, a normal return is the
   old function *)
Theorem patch_function_kept (rec : recT) s stack fo fn o n s' a :
  lookup (hp s) fo = Some o -> lookup (hp s) fn = Some n ->
  func_compatible (hp s) o n = true ->
  patch_function rec s stack fo fn = Ok s' a -> a = fo.
Proof.
  intros Ho Hn Hc. unfold patch_function. rewrite Ho, Hn.
  destruct o; try discriminate. destruct n; try discriminate.
  rewrite Hc. simpl. intros H.
  apply bind_ok in H. destruct H as [s2 [a2 [_ H]]].
  apply bind_ok in H. destruct H as [s3 [a3 [_ H]]]. inversion H. reflexivity.
Qed.

(* an invariant of the state that every cell step preserves is preserved by the cell loop *)
Lemma patch_cells_inv (rec : recT) (P : st -> Prop) stack :
  (forall s0 c1 c2 s1 r, P s0 -> cell_step rec stack c1 c2 s0 = Ok s1 r -> P s1) ->
  forall l1 l2 acc sB aB,
    (forall sA aA, acc = Ok sA aA -> P sA) ->
    patch_cells rec stack l1 l2 acc = Ok sB aB -> P sB.
Proof.
  intros Hstep. induction l1 as [|x l1 IH]; intros l2 acc sB aB Hacc Hp; simpl in Hp.
  - eapply Hacc. exact Hp.
  - destruct l2 as [|y l2]; [eapply Hacc; exact Hp|].
    eapply IH; [|exact Hp]. intros sA aA Hb.
    apply bind_ok in Hb. destruct Hb as [s0 [a0 [Ha Hr]]].
    eapply Hstep; [eapply Hacc; exact Ha|exact Hr].
Qed.

Lemma lookup_update_other' h a b o : a <> b -> lookup (update h a o) b = lookup h b.
Proof.
  intros Hne. induction h as [|[c o'] r IH]; simpl; [reflexivity|].
  destruct (a =? c)%N eqn:E; simpl.
  - apply N.eqb_eq in E. subst c.
    destruct (b =? a)%N eqn:E2; [apply N.eqb_eq in E2; congruence|reflexivity].
  - destruct (b =? c)%N; [reflexivity|exact IH].
Qed.

(* ... and code, defaults, keyword-only defaults, doc and annotations are those of the new function from the
   moment of the update on (stated for nested calls that leave the function object alone) *)
Theorem patch_function_fields (rec : recT) s stack fo fn n1 m1 c1 d1 kd1 doc1 an1 fd1 cl1 fv1 n2 m2 c2 d2 kd2 doc2 an2 fd2 cl2 fv2 s' a :
  lookup (hp s) fo = Some (OFunc n1 m1 c1 d1 kd1 doc1 an1 fd1 cl1 fv1) ->
  lookup (hp s) fn = Some (OFunc n2 m2 c2 d2 kd2 doc2 an2 fd2 cl2 fv2) ->
  func_compatible (hp s) (OFunc n1 m1 c1 d1 kd1 doc1 an1 fd1 cl1 fv1) (OFunc n2 m2 c2 d2 kd2 doc2 an2 fd2 cl2 fv2) = true ->
  (forall s0 st x y s1 r, rec s0 st x y = Ok s1 r -> lookup (hp s1) fo = lookup (hp s0) fo) ->
  patch_function rec s stack fo fn = Ok s' a ->
  lookup (hp s') fo = Some (OFunc n1 m1 c2 d2 kd2 doc2 an2 fd1 cl1 fv1).
Proof.
  intros Ho Hn Hc Hrec. unfold patch_function. rewrite Ho, Hn, Hc. simpl. intros H.
  apply bind_ok in H. destruct H as [s2 [a2 [H1 H]]].
  apply bind_ok in H. destruct H as [s3 [a3 [H2 H]]]. inversion H; subst s' a. clear H.
  apply Hrec in H1. simpl in H1.
  assert (lookup (update (hp s) fo (OFunc n1 m1 c2 d2 kd2 doc2 an2 fd1 cl1 fv1)) fo
          = Some (OFunc n1 m1 c2 d2 kd2 doc2 an2 fd1 cl1 fv1)) as Hu.
  { clear -Ho. induction (hp s) as [|[c o'] r IH]; simpl in *; [discriminate|].
    destruct (fo =? c)%N eqn:E; simpl; rewrite E; [reflexivity|apply IH; exact Ho]. }
  rewrite Hu in H1.
  eapply (patch_cells_inv rec (fun st0 => lookup (hp st0) fo = Some (OFunc n1 m1 c2 d2 kd2 doc2 an2 fd1 cl1 fv1)));
    [| |exact H2].
  - intros s0 x y s1 r HP Hr. unfold cell_step in Hr.
    destruct (cell_val (hp s0) x) as [va|] eqn:Ex; [|discriminate].
    destruct (cell_val (hp s0) y) as [vb|]; [|discriminate].
    apply bind_ok in Hr. destruct Hr as [s4 [u [Hr Hk]]].
    pose proof (Hrec _ _ _ _ _ _ Hr) as Hf. rewrite HP in Hf.
    destruct (u =? va)%N; [injection Hk as <- <-; exact Hf|].
    destruct (cell_val (hp s4) x) as [vx|] eqn:Ex4; [|discriminate]. injection Hk as <- <-. simpl.
    assert (x <> fo) as Hne.
    { intros ->. unfold cell_val in Ex4. rewrite Hf in Ex4. discriminate. }
    rewrite lookup_update_other' by exact Hne. exact Hf.
  - intros sA aA HA. inversion HA; subst. exact H1.
Qed.

(* an incompatible function is replaced and nothing is written *)
Theorem patch_function_replaced (rec : recT) s stack fo fn o n :
  lookup (hp s) fo = Some o -> lookup (hp s) fn = Some n ->
  tyof o = TyFunc -> tyof n = TyFunc ->
  func_compatible (hp s) o n = false ->
  patch_function rec s stack fo fn = Ok s fn.
Proof.
  intros Ho Hn To Tn Hc. unfold patch_function. rewrite Ho, Hn.
  destruct o; try discriminate. destruct n; try discriminate. rewrite Hc. reflexivity.
Qed.

(* the same through livepatch: first visit of the pair, function defined in this module *)
Theorem identity_kept_function fuel s stack fo fn o n s' a :
  fo <> fn -> ~ In fo stack -> cache_find (cache s) fo fn = None ->
  lookup (hp s) fo = Some o -> lookup (hp s) fn = Some n ->
  tyof o = TyFunc -> tyof n = TyFunc ->
  (defmod (hp s) fn = None \/ defmod (hp s) fn = Some modname) ->
  func_compatible (hp s) o n = true ->
  lp modname newmod_dict bases_ok nm (S fuel) s stack fo fn = Ok s' a ->
  a = fo /\ cache_find (cache s') fo fn = Some fo.
Proof.
  intros Hne Hst Hc Ho Hn To Tn Hmd Hcomp. simpl. unfold lp_body.
  assert ((fo =? fn)%N = false) as -> by (apply N.eqb_neq; exact Hne).
  assert (memN fo stack = false) as ->.
  { unfold memN. destruct (existsb (N.eqb fo) stack) eqn:E; [|reflexivity].
    apply existsb_exists in E. destruct E as [x [Hx Hxe]]. apply N.eqb_eq in Hxe. subst x. contradiction. }
  rewrite Hc. intros H. apply bind_ok in H. destruct H as [s1 [a1 [Hd H]]].
  inversion H; subst s' a. clear H. simpl.
  rewrite !N.eqb_refl. simpl.
  assert (a1 = fo) as ->; [|split; reflexivity].
  unfold do_livepatch in Hd.
  assert (match defmod (hp s) fn with Some m => negb (m =? modname)%N | None => false end = false) as Hearly.
  { destruct Hmd as [->| ->]; [reflexivity|]. rewrite N.eqb_refl. reflexivity. }
  rewrite Hearly, Ho, Hn, To, Tn in Hd. simpl in Hd.
  eapply patch_function_kept; eassumption.
Qed.

(* ---------- methods and classes ---------- *)

(* a method object always keeps its identity (its function is patched by the function rule) *)
Theorem patch_method_kept (rec : recT) s stack m1 m2 s' a :
  patch_method rec s stack m1 m2 = Ok s' a -> a = m1.
Proof.
  unfold patch_method. destruct (lookup (hp s) m1) as [o|]; [|discriminate]. destruct o; try discriminate.
  destruct (lookup (hp s) m2) as [n|]; [|discriminate]. destruct n; try discriminate.
  intros H. apply bind_ok in H. destruct H as [s2 [a2 [_ H]]]. inversion H. reflexivity.
Qed.

Lemma fold_setattr_addr (rec : recT) stack c_old c_new l :
  forall acc s' a, (forall s0 a0, acc = Ok s0 a0 -> a0 = c_old) ->
  fold_left (setattr_class modname rec stack c_old c_new) l acc = Ok s' a -> a = c_old.
Proof.
  induction l as [|k l IH]; intros acc s' a Hacc H; simpl in H; [eapply Hacc; exact H|].
  eapply IH; [|exact H]. intros s0 a0 E. unfold setattr_class in E.
  apply bind_ok in E. destruct E as [s1 [a1 [_ E]]].
  destruct (class_getattr (hp s1) c_new k) as [[b|g]|]; [| |discriminate].
  - destruct (class_getattr (hp s1) c_old k) as [[x|f]|].
    + destruct (x =? b)%N; [inversion E; reflexivity|].
      apply bind_ok in E. destruct E as [s2 [u [_ E]]].
      destruct (u =? x)%N; [inversion E; reflexivity|].
      destruct (class_entries (hp s2) c_old); [|discriminate]. inversion E; reflexivity.
    + destruct (class_entries (hp s1) c_old); [|discriminate]. inversion E; reflexivity.
    + destruct (class_entries (hp s1) c_old); [|discriminate]. inversion E; reflexivity.
  - destruct (class_getattr (hp s1) c_old k) as [[x|f]|]; try discriminate.
    destruct (defmod (hp s1) g) as [m|].
    + destruct (m =? modname)%N; [|discriminate].
      apply bind_ok in E. destruct E as [s2 [u [_ E]]]. inversion E; reflexivity.
    + apply bind_ok in E. destruct E as [s2 [u [_ E]]]. inversion E; reflexivity.
Qed.

(* the body after the bases were mapped: the class is kept iff CPython accepts the (mapped) bases *)
Lemma patch_class_body_result (rec : recT) stack c_old c_new s mapped s' a :
  patch_class_body modname bases_ok nm rec stack c_old c_new s mapped = Ok s' a ->
  a = c_old \/ (a = c_new /\ bases_ok c_old c_new = false).
Proof.
  unfold patch_class_body. destruct (lookup (hp s) c_old) as [o|]; [|discriminate]. destruct o; try discriminate.
  destruct (lookup (hp s) c_new) as [n|]; [|discriminate]. destruct n; try discriminate.
  destruct (negb (listN_eqb bases mapped) && negb (bases_ok c_old c_new)) eqn:E.
  - intros H. inversion H; subst. right. split; [reflexivity|].
    apply andb_true_iff in E. destruct E as [_ E]. apply negb_true_iff in E. exact E.
  - intros H. left. eapply fold_setattr_addr; [|exact H]. intros s0 a0 E0. inversion E0. reflexivity.
Qed.

Lemma map_bases_result (rec : recT) stack obs (k : st -> list addr -> res) (P : addr -> Prop) :
  (forall s l s' a, k s l = Ok s' a -> P a) ->
  forall nbs s acc s' a, map_bases modname nm rec stack obs nbs s acc k = Ok s' a -> P a.
Proof.
  intros Hk. induction nbs as [|nb nbs IH]; intros s acc s' a H; simpl in H; [eapply Hk; exact H|].
  destruct (base_counterpart modname nm (hp s) obs nb).
  - apply bind_ok in H. destruct H as [s2 [u [_ H]]]. eapply IH. exact H.
  - eapply IH. exact H.
Qed.

(* identity_kept for classes: a class whose slot layout is unchanged and whose re-parenting CPython
   accepts keeps its identity; it is replaced only if __slots__ differ or the __bases__ assignment is refused *)
Theorem patch_class_identity (rec : recT) s stack c_old c_new s' a :
  patch_class modname bases_ok nm rec s stack c_old c_new = Ok s' a ->
  a = c_old \/
  (a = c_new /\ ((exists n1 m1 cd1 b1 sl1 n2 m2 cd2 b2 sl2,
                    lookup (hp s) c_old = Some (OClass n1 m1 cd1 b1 sl1) /\
                    lookup (hp s) c_new = Some (OClass n2 m2 cd2 b2 sl2) /\
                    slots_differ nm (hp s) cd1 cd2 = true)
                 \/ bases_ok c_old c_new = false)).
Proof.
  unfold patch_class. destruct (lookup (hp s) c_old) as [o|] eqn:Eo; [|discriminate]. destruct o; try discriminate.
  destruct (lookup (hp s) c_new) as [n|] eqn:En; [|discriminate]. destruct n; try discriminate.
  destruct (slots_differ nm (hp s) cdict cdict0) eqn:Es.
  - intros H. inversion H; subst. right. split; [reflexivity|]. left.
    do 10 eexists. split; [reflexivity|]. split; [reflexivity|exact Es].
  - intros H.
    apply (map_bases_result rec stack bases (patch_class_body modname bases_ok nm rec stack c_old c_new)
             (fun a => a = c_old \/ (a = c_new /\ bases_ok c_old c_new = false))) in H.
    + destruct H as [H|[H1 H2]]; [left; exact H|right; split; [exact H1|right; exact H2]].
    + intros s0 l s1 a0. apply patch_class_body_result.
Qed.

(* right bases (single inheritance): the base of the new class has a counterpart among the old bases; the
   body runs with the RESULT of livepatching that pair - the old base object whenever the base class is itself
   kept - and stores it as the class's __bases__ *)
Theorem map_bases_single (rec : recT) stack ob nb s k :
  same_class_key (class_key (hp s) ob) (class_key (hp s) nb) = true ->
  map_bases modname nm rec stack [ob] [nb] s [] k = bind (rec s stack ob nb) (fun s' u => k s' [u]).
Proof. intros H. simpl. unfold base_counterpart. simpl. rewrite H. reflexivity. Qed.

(* C16-g repaired: a base the class gains (no counterpart among the old bases), defined in this module, is mapped
   through livepatch with the class of that name that the module being reloaded binds *)
Theorem map_bases_gained (rec : recT) stack obs nb s k c :
  find_old_base (hp s) obs nb = None -> gained_counterpart modname nm (hp s) nb = Some c ->
  map_bases modname nm rec stack obs [nb] s [] k = bind (rec s stack c nb) (fun s' u => k s' [u]).
Proof. intros H1 H2. simpl. unfold base_counterpart. rewrite H1, H2. reflexivity. Qed.

Theorem patch_class_body_sets_bases (rec : recT) stack c_old c_new s mapped n1 m1 cd1 b1 sl1 n2 m2 cd2 b2 sl2 :
  lookup (hp s) c_old = Some (OClass n1 m1 cd1 b1 sl1) ->
  lookup (hp s) c_new = Some (OClass n2 m2 cd2 b2 sl2) ->
  (listN_eqb b1 mapped = true \/ bases_ok c_old c_new = true) ->
  exists cd, exists l,
    patch_class_body modname bases_ok nm rec stack c_old c_new s mapped =
    fold_left (setattr_class modname rec stack c_old c_new) l
              (Ok (upd s c_old (OClass n1 m1 cd mapped sl1)) c_old).
Proof.
  intros Ho Hn Hb. unfold patch_class_body. rewrite Ho, Hn.
  assert (negb (listN_eqb b1 mapped) && negb (bases_ok c_old c_new) = false) as ->.
  { destruct Hb as [-> | ->]; [reflexivity|]. rewrite andb_false_r. reflexivity. }
  eexists. eexists. reflexivity.
Qed.

End Proofs.

(* ---------- F20: the property's wording (without "equal plain cell values") is false ---------- *)
(* two functions with the same name, closure length, free variables and cell value types, whose only
   cell holds a different number: _livepatch__function returns the NEW function *)
Definition f20_heap : heap :=
  [ (1, OFunc 10 (Some 1) 100 101 101 102 102 103 [304] [11]);   (* old g = mk(1): name inner, cell 304 -> 104 *)
    (2, OFunc 10 (Some 1) 100 101 101 102 102 203 [404] [11]);   (* new g = mk(2): same code object, cell 404 -> 204 *)
    (304, OCell 104); (404, OCell 204);
    (100, OPrim 5 1); (101, OPrim 6 2); (102, OPrim 6 2);
    (103, ODict []); (203, ODict []);
    (104, OPrim 7 31);                                   (* int 1 *)
    (204, OPrim 7 32) ]%N.                               (* int 2 *)

Definition literal_shape_equal (h : heap) (fo fn : obj) : bool :=
  match fo, fn with
  | OFunc n1 _ _ _ _ _ _ _ cl1 fv1, OFunc n2 _ _ _ _ _ _ _ cl2 fv2 =>
      (n1 =? n2)%N && Nat.eqb (length cl1) (length cl2) && listN_eqb fv1 fv2 &&
      forallb (fun ab => match cell_val h (fst ab), cell_val h (snd ab) with
                         | Some va, Some vb =>
                             match lookup h va, lookup h vb with
                             | Some x, Some y => ty_eqb (tyof x) (tyof y) | _, _ => false end
                         | _, _ => false end) (combine cl1 cl2)
  | _, _ => false
  end.

Theorem identity_kept_literal_refuted :
  exists h fo fn o n,
    lookup h fo = Some o /\ lookup h fn = Some n /\ literal_shape_equal h o n = true /\
    forall rec stack, patch_function rec (mkSt h []) stack fo fn = Ok (mkSt h []) fn /\ fn <> fo.
Proof.
  exists f20_heap, 1%N, 2%N. eexists. eexists.
  split; [reflexivity|]. split; [reflexivity|]. split; [vm_compute; reflexivity|].
  intros rec stack. split; [reflexivity|discriminate].
Qed.

(* ---------- C16-e: before the repair a kept subclass was re-pointed at the SCRATCH base class ---------- *)
(* A (10 old / 11 new), B(A) (12 old / 13 new), object = 1000; module 9 *)
Definition c16e_heap : heap :=
  [ (1000, OClass 99 (Some 98) [] [] None);
    (10, OClass 20 (Some 9) [] [1000] None); (11, OClass 20 (Some 9) [] [1000] None);
    (12, OClass 21 (Some 9) [] [10] None);   (13, OClass 21 (Some 9) [] [11] None) ]%N.

Definition c16e_names := (mkNames 90 91 92 93 3)%N.

Definition class_bases (h : heap) (c : addr) : option (list addr) :=
  match lookup h c with Some (OClass _ _ _ b _) => Some b | _ => None end.

(* the full statement "a kept class has the (kept) module classes as bases" fails for the old code: *)
Theorem c16e_v0_refuted :
  exists h b_old b_new a_old a_new,
    class_bases h b_old = Some [a_old] /\ class_bases h b_new = Some [a_new] /\ a_old <> a_new /\
    match patch_class_v0 9%N (fun _ _ => true) c16e_names (lp 9%N 0%N (fun _ _ => true) c16e_names 10)
                         (mkSt h []) [b_old] b_old b_new with
    | Ok s r => r = b_old /\ class_bases (hp s) b_old = Some [a_new]       (* B kept, base = scratch A *)
    | _ => False
    end.
Proof.
  exists c16e_heap, 12%N, 13%N, 10%N, 11%N. vm_compute. repeat split; try reflexivity. discriminate.
Qed.

(* the repaired code keeps B and its base is the OLD (patched in place) A *)
Example c16e_repaired :
  match patch_class 9%N (fun _ _ => true) c16e_names (lp 9%N 0%N (fun _ _ => true) c16e_names 10)
                    (mkSt c16e_heap []) [12%N] 12%N 13%N with
  | Ok s r => r = 12%N /\ class_bases (hp s) 12%N = Some [10%N] /\ cache_find (cache s) 10%N 11%N = Some 10%N
  | _ => False
  end.
Proof. vm_compute. repeat split. Qed.

(* Proofs about Livepatch/Patch.v: identity kept / replaced for functions, the F20 witness. *)
From Coq Require Import NArith List Bool Lia.
From Verif Require Import Livepatch.Heap Livepatch.Patch.
Import ListNotations.

Section Proofs.
Variable modname : key.
Variable newmod_dict : addr.
Variable bases_ok : addr -> addr -> bool.
Variable nm : names.

Lemma bind_ok r f s a : bind r f = Ok s a -> exists s0 a0, r = Ok s0 a0 /\ f s0 a0 = Ok s a.
Proof. destruct r; simpl; try discriminate. intros H. eauto. Qed.

(* ---------- _livepatch__function ---------- *)

(* a compatible function keeps its identity: whatever the nested calls do, a normal return is the
   old function *)
Theorem patch_function_kept (rec : recT) s stack fo fn o n s' a :
  lookup (hp s) fo = Some o -> lookup (hp s) fn = Some n ->
  func_compatible (hp s) o n = true ->
  patch_function rec s stack fo fn = Ok s' a -> a = fo.
Proof.
  intros Ho Hn Hc. unfold patch_function. rewrite Ho, Hn.
  destruct o; try discriminate. destruct n; try discriminate.
  rewrite Hc. simpl. intros H.
  apply bind_ok in H. destruct H as [s2 [a2 [_ H]]].
  apply bind_ok in H. destruct H as [s3 [a3 [_ H]]]. inversion H. reflexivity.
Qed.

(* an invariant of the state that every nested call preserves is preserved by the cell loop *)
Lemma patch_cells_inv (rec : recT) (P : st -> Prop) stack :
  (forall s0 x y s1 r, P s0 -> rec s0 stack x y = Ok s1 r -> P s1) ->
  forall l1 l2 acc sB aB,
    (forall sA aA, acc = Ok sA aA -> P sA) ->
    patch_cells rec stack l1 l2 acc = Ok sB aB -> P sB.
Proof.
  intros Hrec. induction l1 as [|x l1 IH]; intros l2 acc sB aB Hacc Hp; simpl in Hp.
  - eapply Hacc. exact Hp.
  - destruct l2 as [|y l2]; [eapply Hacc; exact Hp|].
    eapply IH; [|exact Hp]. intros sA aA Hb.
    apply bind_ok in Hb. destruct Hb as [s0 [a0 [Ha Hr]]].
    eapply Hrec; [eapply Hacc; exact Ha|exact Hr].
Qed.

(* ... and code, defaults and doc are those of the new function from the moment of the update on
   (stated for nested calls that leave the function object alone) *)
Theorem patch_function_fields (rec : recT) s stack fo fn n1 m1 c1 d1 kd1 doc1 an1 fd1 cl1 fv1 n2 m2 c2 d2 kd2 doc2 an2 fd2 cl2 fv2 s' a :
  lookup (hp s) fo = Some (OFunc n1 m1 c1 d1 kd1 doc1 an1 fd1 cl1 fv1) ->
  lookup (hp s) fn = Some (OFunc n2 m2 c2 d2 kd2 doc2 an2 fd2 cl2 fv2) ->
  func_compatible (hp s) (OFunc n1 m1 c1 d1 kd1 doc1 an1 fd1 cl1 fv1) (OFunc n2 m2 c2 d2 kd2 doc2 an2 fd2 cl2 fv2) = true ->
  (forall s0 st x y s1 r, rec s0 st x y = Ok s1 r -> lookup (hp s1) fo = lookup (hp s0) fo) ->
  patch_function rec s stack fo fn = Ok s' a ->
  lookup (hp s') fo = lookup (update (hp s) fo (OFunc n1 m1 c2 d2 kd2 doc2 an2 fd1 cl1 fv1)) fo.
Proof.
  intros Ho Hn Hc Hrec. unfold patch_function. rewrite Ho, Hn, Hc. simpl. intros H.
  apply bind_ok in H. destruct H as [s2 [a2 [H1 H]]].
  apply bind_ok in H. destruct H as [s3 [a3 [H2 H]]]. inversion H; subst s' a. clear H.
  apply Hrec in H1. simpl in H1.
  eapply (patch_cells_inv rec (fun st0 => lookup (hp st0) fo =
             lookup (update (hp s) fo (OFunc n1 m1 c2 d2 kd2 doc2 an2 fd1 cl1 fv1)) fo)); [| |exact H2].
  - intros s0 x y s1 r HP Hr. rewrite (Hrec _ _ _ _ _ _ Hr). exact HP.
  - intros sA aA HA. inversion HA; subst. exact H1.
Qed.

(* an incompatible function is replaced and nothing is written *)
Theorem patch_function_replaced (rec : recT) s stack fo fn o n :
  lookup (hp s) fo = Some o -> lookup (hp s) fn = Some n ->
  tyof o = TyFunc -> tyof n = TyFunc ->
  func_compatible (hp s) o n = false ->
  patch_function rec s stack fo fn = Ok s fn.
Proof.
  intros Ho Hn To Tn Hc. unfold patch_function. rewrite Ho, Hn.
  destruct o; try discriminate. destruct n; try discriminate. rewrite Hc. reflexivity.
Qed.

(* the same through livepatch: first visit of the pair, function defined in this module *)
Theorem identity_kept_function fuel s stack fo fn o n s' a :
  fo <> fn -> ~ In fo stack -> cache_find (cache s) fo fn = None ->
  lookup (hp s) fo = Some o -> lookup (hp s) fn = Some n ->
  tyof o = TyFunc -> tyof n = TyFunc ->
  (defmod (hp s) fn = None \/ defmod (hp s) fn = Some modname) ->
  func_compatible (hp s) o n = true ->
  lp modname newmod_dict bases_ok nm (S fuel) s stack fo fn = Ok s' a ->
  a = fo /\ cache_find (cache s') fo fn = Some fo.
Proof.
  intros Hne Hst Hc Ho Hn To Tn Hmd Hcomp. simpl. unfold lp_body.
  assert ((fo =? fn)%N = false) as -> by (apply N.eqb_neq; exact Hne).
  assert (memN fo stack = false) as ->.
  { unfold memN. destruct (existsb (N.eqb fo) stack) eqn:E; [|reflexivity].
    apply existsb_exists in E. destruct E as [x [Hx Hxe]]. apply N.eqb_eq in Hxe. subst x. contradiction. }
  rewrite Hc. intros H. apply bind_ok in H. destruct H as [s1 [a1 [Hd H]]].
  inversion H; subst s' a. clear H. simpl.
  rewrite !N.eqb_refl. simpl.
  assert (a1 = fo) as ->; [|split; reflexivity].
  unfold do_livepatch in Hd.
  assert (match defmod (hp s) fn with Some m => negb (m =? modname)%N | None => false end = false) as Hearly.
  { destruct Hmd as [->| ->]; [reflexivity|]. rewrite N.eqb_refl. reflexivity. }
  rewrite Hearly, Ho, Hn, To, Tn in Hd. simpl in Hd.
  eapply patch_function_kept; eassumption.
Qed.

End Proofs.

(* ---------- F20: the property's wording (without "equal plain cell values") is false ---------- *)
(* two functions with the same name, closure length, free variables and cell value types, whose only
   cell holds a different number: _livepatch__function returns the NEW function *)
Definition f20_heap : heap :=
  [ (1, OFunc 10 (Some 1) 100 101 101 102 102 103 [104] [11]);   (* old g = mk(1): name inner, cell -> 104 *)
    (2, OFunc 10 (Some 1) 100 101 101 102 102 203 [204] [11]);   (* new g = mk(2): same code object, cell -> 204 *)
    (100, OPrim 5 1); (101, OPrim 6 2); (102, OPrim 6 2);
    (103, ODict []); (203, ODict []);
    (104, OPrim 7 31);                                   (* int 1 *)
    (204, OPrim 7 32) ]%N.                               (* int 2 *)

Definition literal_shape_equal (h : heap) (fo fn : obj) : bool :=
  match fo, fn with
  | OFunc n1 _ _ _ _ _ _ _ cl1 fv1, OFunc n2 _ _ _ _ _ _ _ cl2 fv2 =>
      (n1 =? n2)%N && Nat.eqb (length cl1) (length cl2) && listN_eqb fv1 fv2 &&
      forallb (fun ab => match lookup h (fst ab), lookup h (snd ab) with
                         | Some x, Some y => ty_eqb (tyof x) (tyof y) | _, _ => false end) (combine cl1 cl2)
  | _, _ => false
  end.

Theorem identity_kept_literal_refuted :
  exists h fo fn o n,
    lookup h fo = Some o /\ lookup h fn = Some n /\ literal_shape_equal h o n = true /\
    forall rec stack, patch_function rec (mkSt h []) stack fo fn = Ok (mkSt h []) fn /\ fn <> fo.
Proof.
  exists f20_heap, 1%N, 2%N. eexists. eexists.
  split; [reflexivity|]. split; [reflexivity|]. split; [vm_compute; reflexivity|].
  intros rec stack. split; [reflexivity|discriminate].
Qed.

(* Kind preservation: livepatch never changes the constructor of the object stored at an address (a dict stays
   a dict, a function a function ...) and never allocates or frees - the "kinds consistent" part of the
   well-formedness invariant is preserved by every handler. *)
From Coq Require Import NArith List Bool Lia.
From Verif Require Import Livepatch.Heap Livepatch.Patch Livepatch.Wf Livepatch.PatchProofs Livepatch.FrameProofs.
Import ListNotations.

Definition kframe (s s' : st) : Prop := forall a, okind (lookup (hp s') a) = okind (lookup (hp s) a).

Lemma kframe_refl s : kframe s s.
Proof. intros a. reflexivity. Qed.

Lemma kframe_trans s1 s2 s3 : kframe s1 s2 -> kframe s2 s3 -> kframe s1 s3.
Proof. intros H1 H2 a. rewrite H2. apply H1. Qed.

Lemma kframe_upd s a o o' : lookup (hp s) a = Some o -> ctor o' = ctor o -> kframe s (upd s a o').
Proof.
  intros Hl Hc b. unfold upd, set_hp. simpl. destruct (N.eq_dec a b) as [->|Hne].
  - rewrite (lookup_update_same _ _ _ _ Hl), Hl. simpl. exact Hc.
  - rewrite lookup_update_other by exact Hne. reflexivity.
Qed.

Lemma set_class_entries_kframe s c cd : kframe s (set_class_entries s c cd).
Proof.
  unfold set_class_entries. destruct (lookup (hp s) c) as [o|] eqn:E; [|apply kframe_refl].
  destruct o; try apply kframe_refl. eapply kframe_upd; [exact E|reflexivity].
Qed.

Lemma set_slotvals_kframe s a sv : kframe s (set_slotvals s a sv).
Proof.
  unfold set_slotvals. destruct (lookup (hp s) a) as [o|] eqn:E; [|apply kframe_refl].
  destruct o; try apply kframe_refl. eapply kframe_upd; [exact E|reflexivity].
Qed.

Lemma dict_entries_ctor h d e : dict_entries h d = Some e -> lookup h d = Some (ODict e).
Proof. unfold dict_entries. destruct (lookup h d) as [o|]; [|discriminate]. destruct o; try discriminate. congruence. Qed.

Section Kind.
Variable modname : key.
Variable newmod_dict : addr.
Variable bases_ok : addr -> addr -> bool.
Variable nm : names.
Variable rec : recT.
Hypothesis Hrec : forall s st a b s' r, rec s st a b = Ok s' r -> kframe s s'.

Lemma cell_step_kframe stk c1 c2 s s' r : cell_step rec stk c1 c2 s = Ok s' r -> kframe s s'.
Proof.
  unfold cell_step. destruct (cell_val (hp s) c1) as [a|]; [|discriminate].
  destruct (cell_val (hp s) c2) as [b|]; [|discriminate].
  intros H. apply bind_ok in H. destruct H as [s2 [u [Hr H]]].
  eapply kframe_trans; [eapply Hrec; exact Hr|].
  destruct (u =? a)%N; [inversion H; subst; apply kframe_refl|].
  unfold cell_val in H. destruct (lookup (hp s2) c1) as [o|] eqn:Ec; [|discriminate].
  destruct o; try discriminate. inversion H; subst. eapply kframe_upd; [exact Ec|reflexivity].
Qed.

Lemma patch_function_kframe stk s fo fn s' r : patch_function rec s stk fo fn = Ok s' r -> kframe s s'.
Proof.
  unfold patch_function. destruct (lookup (hp s) fo) as [o|] eqn:Eo; [|discriminate].
  destruct o; try discriminate. destruct (lookup (hp s) fn) as [n|] eqn:En; [|discriminate].
  destruct n; try discriminate.
  match goal with |- context [negb ?c] => destruct c end; simpl.
  2:{ intros H. inversion H; subst. apply kframe_refl. }
  intros H. apply bind_ok in H. destruct H as [s2 [a2 [H1 H]]].
  apply bind_ok in H. destruct H as [s3 [a3 [H2 H]]]. inversion H; subst s' r. clear H.
  match type of H1 with rec ?s1 _ _ _ = _ =>
    assert (kframe s s1) as Hu by (eapply kframe_upd; [exact Eo|reflexivity]) end.
  eapply kframe_trans; [exact Hu|]. eapply kframe_trans; [eapply Hrec; exact H1|].
  eapply (patch_cells_inv rec (fun sx => kframe s2 sx)); [| |exact H2].
  - intros s0 x y s1 r0 HP Hr. eapply kframe_trans; [exact HP|]. eapply cell_step_kframe. exact Hr.
  - intros sA aA HA. inversion HA; subst. apply kframe_refl.
Qed.

Lemma patch_method_kframe stk s a b s' r : patch_method rec s stk a b = Ok s' r -> kframe s s'.
Proof.
  unfold patch_method. destruct (lookup (hp s) a) as [o|]; [|discriminate]. destruct o; try discriminate.
  destruct (lookup (hp s) b) as [n|]; [|discriminate]. destruct n; try discriminate.
  intros H. apply bind_ok in H. destruct H as [s2 [a2 [H1 H]]]. inversion H; subst.
  eapply patch_function_kframe. exact H1.
Qed.

Lemma patch_dict_kframe stk s d_old d_new s' r : patch_dict rec s stk d_old d_new = Ok s' r -> kframe s s'.
Proof.
  unfold patch_dict. destruct (dict_entries (hp s) d_old) as [eo|] eqn:E1; [|discriminate].
  destruct (dict_entries (hp s) d_new) as [en|]; [|discriminate].
  intros H.
  eapply (fold_bind_inv (fun k s => dict_step rec stk d_old d_new (Ok s d_old) k) (fun sx => kframe s sx)); [| |exact H].
  - intros k s0 s1 a1 _ HP HF. unfold dict_step in HF. simpl in HF.
    destruct (dict_entries (hp s0) d_old) as [eo0|]; [|discriminate].
    destruct (dict_entries (hp s0) d_new) as [en0|]; [|discriminate].
    destruct (aget eo0 k) as [o|]; [|discriminate]. destruct (aget en0 k) as [n|]; [|discriminate].
    apply bind_ok in HF. destruct HF as [s2 [u [Hr HF]]].
    eapply kframe_trans; [exact HP|]. eapply kframe_trans; [eapply Hrec; exact Hr|].
    destruct (u =? o)%N; [inversion HF; subst; apply kframe_refl|].
    destruct (dict_entries (hp s2) d_old) as [eo2|] eqn:E2; [|discriminate]. inversion HF; subst.
    eapply kframe_upd; [apply dict_entries_ctor; exact E2|reflexivity].
  - eapply kframe_upd; [apply dict_entries_ctor; exact E1|reflexivity].
Qed.

Lemma setattr_class_body_kframe stk c_old c_new k s s' r :
  setattr_class modname rec stk c_old c_new (Ok s c_old) k = Ok s' r -> kframe s s'.
Proof.
  unfold setattr_class. simpl.
  destruct (class_getattr (hp s) c_new k) as [[b|g]|]; [| |discriminate].
  - destruct (class_getattr (hp s) c_old k) as [[a|f]|].
    + destruct (a =? b)%N; [intros H; inversion H; subst; apply kframe_refl|].
      intros H. apply bind_ok in H. destruct H as [s2 [u [Hr H]]].
      eapply kframe_trans; [eapply Hrec; exact Hr|].
      destruct (u =? a)%N; [inversion H; subst; apply kframe_refl|].
      destruct (class_entries (hp s2) c_old); [|discriminate]. inversion H; subst.
      apply set_class_entries_kframe.
    + destruct (class_entries (hp s) c_old); [|discriminate]. intros H. inversion H; subst.
      apply set_class_entries_kframe.
    + destruct (class_entries (hp s) c_old); [|discriminate]. intros H. inversion H; subst.
      apply set_class_entries_kframe.
  - destruct (class_getattr (hp s) c_old k) as [[a|f]|]; try discriminate.
    destruct (defmod (hp s) g) as [m|].
    + destruct (m =? modname)%N; [|discriminate].
      intros H. apply bind_ok in H. destruct H as [s2 [u [Hr H]]]. inversion H; subst.
      eapply patch_function_kframe. exact Hr.
    + intros H. apply bind_ok in H. destruct H as [s2 [u [Hr H]]]. inversion H; subst.
      eapply patch_function_kframe. exact Hr.
Qed.

Lemma patch_class_body_kframe stk c_old c_new s mapped s' r :
  patch_class_body modname bases_ok nm rec stk c_old c_new s mapped = Ok s' r -> kframe s s'.
Proof.
  unfold patch_class_body. destruct (lookup (hp s) c_old) as [o|] eqn:Eo; [|discriminate].
  destruct o; try discriminate. destruct (lookup (hp s) c_new) as [n|]; [|discriminate].
  destruct n; try discriminate.
  match goal with |- context [if ?c then Ok s c_new else _] => destruct c end;
    [intros H; inversion H; subst; apply kframe_refl|].
  intros H.
  eapply (fold_bind_inv (fun k s => setattr_class modname rec stk c_old c_new (Ok s c_old) k) (fun sx => kframe s sx)); [| |exact H].
  - intros k s0 s1 a1 _ HP HF. eapply kframe_trans; [exact HP|].
    eapply setattr_class_body_kframe. exact HF.
  - eapply kframe_upd; [exact Eo|reflexivity].
Qed.

Lemma map_bases_kframe stk obs (k : st -> list addr -> res) :
  (forall s l s' r, k s l = Ok s' r -> kframe s s') ->
  forall nbs s acc s' r, map_bases modname nm rec stk obs nbs s acc k = Ok s' r -> kframe s s'.
Proof.
  intros Hk. induction nbs as [|nb nbs IH]; intros s acc s' r H; simpl in H.
  - eapply Hk. exact H.
  - destruct (base_counterpart modname nm (hp s) obs nb) as [ob|].
    + apply bind_ok in H. destruct H as [s2 [u [Hr H]]].
      eapply kframe_trans; [eapply Hrec; exact Hr|]. eapply IH. exact H.
    + eapply IH. exact H.
Qed.

Lemma patch_class_kframe stk s c_old c_new s' r :
  patch_class modname bases_ok nm rec s stk c_old c_new = Ok s' r -> kframe s s'.
Proof.
  unfold patch_class. destruct (lookup (hp s) c_old) as [o|]; [|discriminate].
  destruct o; try discriminate. destruct (lookup (hp s) c_new) as [n|]; [|discriminate].
  destruct n; try discriminate.
  destruct (slots_differ nm (hp s) cdict cdict0); [intros H; inversion H; subst; apply kframe_refl|].
  apply map_bases_kframe. intros s0 l s1 r1. apply patch_class_body_kframe.
Qed.

Lemma slot_step_body_kframe stk i_old i_new k s s' r :
  slot_step rec stk i_old i_new (Ok s i_old) k = Ok s' r -> kframe s s'.
Proof.
  unfold slot_step. simpl.
  destruct (inst_slotvals (hp s) i_old) as [so|]; [|discriminate].
  destruct (inst_slotvals (hp s) i_new) as [sn|]; [|discriminate].
  destruct (aget so k) as [a|]; destruct (aget sn k) as [b|].
  - destruct (a =? b)%N; [intros H; inversion H; subst; apply kframe_refl|].
    intros H. apply bind_ok in H. destruct H as [s2 [u [Hr H]]].
    eapply kframe_trans; [eapply Hrec; exact Hr|].
    destruct (u =? a)%N; [inversion H; subst; apply kframe_refl|].
    destruct (inst_slotvals (hp s2) i_old); [|discriminate]. inversion H; subst. apply set_slotvals_kframe.
  - intros H. inversion H; subst. apply set_slotvals_kframe.
  - intros H. inversion H; subst. apply set_slotvals_kframe.
  - intros H. inversion H; subst. apply kframe_refl.
Qed.

Lemma patch_object_kframe stk s a b s' r : patch_object modname rec s stk a b = Ok s' r -> kframe s s'.
Proof.
  unfold patch_object. destruct (lookup (hp s) a) as [o|]; [|discriminate].
  destruct o; try (intros H; inversion H; subst; apply kframe_refl).
  destruct (class_md (hp s) cls) as [m|]; [|intros H; inversion H; subst; apply kframe_refl].
  destruct (negb (m =? modname)%N); [intros H; inversion H; subst; apply kframe_refl|].
  destruct islots as [names1|].
  - destruct (lookup (hp s) b) as [n|]; [|discriminate]. destruct n; try discriminate.
    destruct islots as [names2|]; [|discriminate].
    destruct (negb (listN_eqb names1 names2)); [discriminate|].
    intros H.
    eapply (fold_bind_inv (fun k s => slot_step rec stk a b (Ok s a) k) (fun sx => kframe s sx)); [| |exact H].
    + intros k s0 s1 a1 _ HP HF. eapply kframe_trans; [exact HP|]. eapply slot_step_body_kframe. exact HF.
    + apply kframe_refl.
  - destruct idict as [dd1|]; [|intros H; inversion H; subst; apply kframe_refl].
    destruct (lookup (hp s) b) as [n|]; [|discriminate]. destruct n; try discriminate.
    destruct idict as [dd2|]; [|discriminate].
    intros H. apply bind_ok in H. destruct H as [s2 [u [Hr H]]]. inversion H; subst.
    eapply Hrec. exact Hr.
Qed.

Lemma patch_module_kframe stk s a b s' r : patch_module rec s stk a b = Ok s' r -> kframe s s'.
Proof.
  unfold patch_module. destruct (lookup (hp s) a) as [o|]; [|discriminate]. destruct o; try discriminate.
  destruct (lookup (hp s) b) as [n|]; [|discriminate]. destruct n; try discriminate.
  intros H. apply bind_ok in H. destruct H as [s2 [u [Hr H]]].
  destruct (u =? mdict)%N; [|discriminate]. inversion H; subst. eapply Hrec. exact Hr.
Qed.

Lemma dispatch_kframe t stk s old new s' r :
  dispatch modname bases_ok nm rec t s stk old new = Ok s' r -> kframe s s'.
Proof.
  destruct t; simpl; intros H;
    first [ eapply patch_dict_kframe; exact H
          | eapply patch_function_kframe; exact H
          | eapply patch_method_kframe; exact H
          | eapply patch_class_kframe; exact H
          | eapply patch_module_kframe; exact H
          | eapply patch_object_kframe; exact H ].
Qed.

Lemma do_livepatch_kframe stk s old new am s' r :
  do_livepatch modname newmod_dict bases_ok nm rec s stk old new am = Ok s' r -> kframe s s'.
Proof.
  unfold do_livepatch.
  match goal with |- context [if ?c then Ok s new else _] => destruct c end;
    [intros H; inversion H; subst; apply kframe_refl|].
  destruct am; [apply patch_module_kframe|].
  destruct (lookup (hp s) old) as [oo|]; [|discriminate].
  destruct (lookup (hp s) new) as [on|]; [|discriminate].
  destruct (ty_eqb (tyof oo) (tyof on)); [apply dispatch_kframe|].
  destruct (tyof oo) eqn:T1; try (intros H; inversion H; subst; apply kframe_refl).
  destruct (tyof on) eqn:T2; try (intros H; inversion H; subst; apply kframe_refl).
  match goal with |- context [if ?c then _ else Ok s new] => destruct c end;
    [|intros H; inversion H; subst; apply kframe_refl].
  intros H. apply bind_ok in H. destruct H as [s2 [u [Hr H]]].
  eapply kframe_trans; [eapply Hrec; exact Hr|].
  destruct (u =? c)%N; [|inversion H; subst; apply kframe_refl].
  eapply dispatch_kframe. exact H.
Qed.

Lemma lp_body_kframe stack s old new am s' r :
  lp_body modname newmod_dict bases_ok nm rec s stack old new am = Ok s' r -> kframe s s'.
Proof.
  unfold lp_body. destruct (old =? new)%N; [intros H; inversion H; subst; apply kframe_refl|].
  destruct (memN old stack); [intros H; inversion H; subst; apply kframe_refl|].
  destruct (cache_find (cache s) old new); [intros H; inversion H; subst; apply kframe_refl|].
  intros H. apply bind_ok in H. destruct H as [s2 [u [Hd H]]]. inversion H; subst. clear H.
  apply do_livepatch_kframe in Hd. intros a. simpl. apply Hd.
Qed.

End Kind.

Theorem lp_kind_preserved modname newmod_dict bases_ok nm fuel :
  forall s stack old new s' r,
    lp modname newmod_dict bases_ok nm fuel s stack old new = Ok s' r ->
    forall a, okind (lookup (hp s') a) = okind (lookup (hp s) a).
Proof.
  induction fuel as [|f IH]; intros s stack old new s' r H; simpl in H; [discriminate|].
  eapply lp_body_kframe; [|exact H]. exact IH.
Qed.

Theorem livepatch_module_kind_preserved modname newmod_dict bases_ok nm fuel h m_old m_new s' r :
  livepatch_module modname newmod_dict bases_ok nm fuel h m_old m_new = Ok s' r ->
  forall a, okind (lookup (hp s') a) = okind (lookup h a).
Proof.
  intros H. unfold livepatch_module in H.
  exact (lp_body_kframe modname newmod_dict bases_ok nm (lp modname newmod_dict bases_ok nm fuel)
           (lp_kind_preserved modname newmod_dict bases_ok nm fuel) [] (mkSt h []) m_old m_new true s' r H).
Qed.

(* Termination of livepatch with fuel = heap size: the visit stack holds distinct addresses of the heap and
   grows by one with every nested call, no handler allocates, so `lp` never runs out of fuel when
   fuel + |visit stack| > |heap|. *)
From Coq Require Import NArith List Bool Lia.
From Verif Require Import Livepatch.Heap Livepatch.Patch Livepatch.PatchProofs Livepatch.FrameProofs.
Import ListNotations.

Lemma lookup_In_dom h a o : lookup h a = Some o -> In a (dom h).
Proof.
  unfold dom. induction h as [|[b o'] r IH]; simpl; [discriminate|].
  destruct (a =? b)%N eqn:E; [apply N.eqb_eq in E; subst; left; reflexivity|right; apply IH; assumption].
Qed.

Lemma NoDup_snoc {A} (l : list A) x : NoDup l -> ~ In x l -> NoDup (l ++ [x]).
Proof.
  induction 1 as [|y l Hy Hnd IH]; intros Hx; simpl.
  - constructor; [intros []|constructor].
  - constructor.
    + intros Hin. apply in_app_or in Hin. destruct Hin as [Hin|[Hin|[]]]; [contradiction|].
      subst. apply Hx. left. reflexivity.
    + apply IH. intros Hin. apply Hx. right. exact Hin.
Qed.

(* r is not OutOfFuel, and a normal result has the same heap domain D *)
Definition okdom (D : list addr) (r : res) : Prop :=
  r <> OutOfFuel /\ forall s' a, r = Ok s' a -> dom (hp s') = D.

Lemma okdom_ok D s a : dom (hp s) = D -> okdom D (Ok s a).
Proof. intros Hd. split; [discriminate|]. intros s' a' E. injection E as <- <-. exact Hd. Qed.
Lemma okdom_raised D s : okdom D (Raised s).
Proof. split; [discriminate|intros; discriminate]. Qed.
Lemma okdom_unsupported D : okdom D Unsupported.
Proof. split; [discriminate|intros; discriminate]. Qed.

Lemma okdom_bind D r f :
  okdom D r -> (forall s a, dom (hp s) = D -> okdom D (f s a)) -> okdom D (bind r f).
Proof.
  intros [Hn Hd] Hf. destruct r as [s a| | |]; simpl.
  - apply Hf. eapply Hd. reflexivity.
  - apply okdom_raised.
  - apply okdom_unsupported.
  - congruence.
Qed.

Lemma okdom_fold {K} D (F : K -> st -> res) :
  (forall k s, dom (hp s) = D -> okdom D (F k s)) ->
  forall (l : list K) acc, okdom D acc ->
  okdom D (fold_left (fun acc k => bind acc (fun s _ => F k s)) l acc).
Proof.
  intros HF. induction l as [|k l IH]; intros acc Hacc; simpl; [exact Hacc|].
  apply IH. apply okdom_bind; [exact Hacc|]. intros s _ Hs. apply HF. exact Hs.
Qed.

Lemma dom_upd s a o : dom (hp (upd s a o)) = dom (hp s).
Proof. unfold upd, set_hp. simpl. apply dom_update. Qed.

Lemma dom_set_class_entries s c cd : dom (hp (set_class_entries s c cd)) = dom (hp s).
Proof.
  unfold set_class_entries. destruct (lookup (hp s) c) as [o|]; [|reflexivity].
  destruct o; try reflexivity. apply dom_upd.
Qed.

Lemma dom_set_slotvals s a sv : dom (hp (set_slotvals s a sv)) = dom (hp s).
Proof.
  unfold set_slotvals. destruct (lookup (hp s) a) as [o|]; [|reflexivity].
  destruct o; try reflexivity. apply dom_upd.
Qed.

Ltac domgoal :=
  rewrite ?dom_upd, ?dom_set_class_entries, ?dom_set_slotvals; simpl; try assumption; try congruence.

Section Term.
Variable modname : key.
Variable newmod_dict : addr.
Variable bases_ok : addr -> addr -> bool.
Variable nm : names.
Variable D : list addr.

Section Handlers.
Variable rec : recT.
Variable stk : list addr.
Hypothesis Hgood : forall s a b, dom (hp s) = D -> okdom D (rec s stk a b).

Ltac okd :=
  cbv zeta;
  repeat first
    [ apply okdom_raised
    | apply okdom_unsupported
    | apply okdom_ok
    | apply Hgood
    | apply okdom_bind; [|intros ? ? ?]
    | match goal with
      | |- okdom _ (match ?x with _ => _ end) => destruct x eqn:?
      | |- okdom _ (if ?x then _ else _) => destruct x eqn:?
      end ];
  try domgoal.

Lemma cell_step_okdom c1 c2 s : dom (hp s) = D -> okdom D (cell_step rec stk c1 c2 s).
Proof. intros Hs. unfold cell_step. okd. Qed.

Lemma patch_cells_okdom l1 l2 acc : okdom D acc -> okdom D (patch_cells rec stk l1 l2 acc).
Proof.
  revert l2 acc. induction l1 as [|a l1 IH]; intros l2 acc Hacc; simpl; [exact Hacc|].
  destruct l2 as [|b l2]; [exact Hacc|]. apply IH. apply okdom_bind; [exact Hacc|].
  intros s _ Hs. apply cell_step_okdom. exact Hs.
Qed.

Lemma patch_function_okdom s a b : dom (hp s) = D -> okdom D (patch_function rec s stk a b).
Proof.
  intros Hs. unfold patch_function. okd.
  apply patch_cells_okdom. apply okdom_ok. assumption.
Qed.

Lemma patch_method_okdom s a b : dom (hp s) = D -> okdom D (patch_method rec s stk a b).
Proof.
  intros Hs. unfold patch_method. okd. apply patch_function_okdom. assumption.
Qed.

Lemma patch_dict_okdom s a b : dom (hp s) = D -> okdom D (patch_dict rec s stk a b).
Proof.
  intros Hs. unfold patch_dict. okd.
  apply (okdom_fold D (fun k s => dict_step rec stk a b (Ok s a) k)).
  - intros kk s0 Hs0. unfold dict_step. simpl. okd.
  - apply okdom_ok. domgoal.
Qed.

Lemma setattr_class_okdom c_old c_new k s :
  dom (hp s) = D -> okdom D (setattr_class modname rec stk c_old c_new (Ok s c_old) k).
Proof.
  intros Hs. unfold setattr_class. simpl. okd; apply patch_function_okdom; assumption.
Qed.

Lemma patch_class_body_okdom c_old c_new s mapped :
  dom (hp s) = D -> okdom D (patch_class_body modname bases_ok nm rec stk c_old c_new s mapped).
Proof.
  intros Hs. unfold patch_class_body. okd.
  rewrite setattr_class_is_bind.
  apply (okdom_fold D (fun k s => setattr_class modname rec stk c_old c_new (Ok s c_old) k)).
  - intros kk s0 Hs0. apply setattr_class_okdom. exact Hs0.
  - apply okdom_ok. domgoal.
Qed.

Lemma map_bases_okdom obs (k : st -> list addr -> res) :
  (forall s l, dom (hp s) = D -> okdom D (k s l)) ->
  forall nbs s acc, dom (hp s) = D -> okdom D (map_bases modname nm rec stk obs nbs s acc k).
Proof.
  intros Hk. induction nbs as [|nb nbs IH]; intros s acc Hs; simpl; [apply Hk; exact Hs|].
  destruct (base_counterpart modname nm (hp s) obs nb).
  - apply okdom_bind; [apply Hgood; exact Hs|]. intros s' u Hs'. apply IH. exact Hs'.
  - apply IH. exact Hs.
Qed.

Lemma patch_class_okdom s a b : dom (hp s) = D -> okdom D (patch_class modname bases_ok nm rec s stk a b).
Proof.
  intros Hs. unfold patch_class. okd.
  apply map_bases_okdom; [|assumption]. intros s0 l Hs0. apply patch_class_body_okdom. exact Hs0.
Qed.

Lemma slot_step_okdom i_old i_new k s :
  dom (hp s) = D -> okdom D (slot_step rec stk i_old i_new (Ok s i_old) k).
Proof. intros Hs. unfold slot_step. simpl. okd. Qed.

Lemma patch_object_okdom s a b : dom (hp s) = D -> okdom D (patch_object modname rec s stk a b).
Proof.
  intros Hs. unfold patch_object. okd.
  rewrite slot_step_is_bind.
  apply (okdom_fold D (fun k s => slot_step rec stk a b (Ok s a) k)).
  - intros kk s0 Hs0. apply slot_step_okdom. exact Hs0.
  - apply okdom_ok. assumption.
Qed.

Lemma patch_module_okdom s a b : dom (hp s) = D -> okdom D (patch_module rec s stk a b).
Proof. intros Hs. unfold patch_module. okd. Qed.

Lemma dispatch_okdom t s a b : dom (hp s) = D -> okdom D (dispatch modname bases_ok nm rec t s stk a b).
Proof.
  intros Hs. destruct t; simpl;
    first [ apply patch_dict_okdom | apply patch_function_okdom | apply patch_method_okdom
          | apply patch_class_okdom | apply patch_module_okdom | apply patch_object_okdom ]; exact Hs.
Qed.

Lemma do_livepatch_okdom s a b am :
  dom (hp s) = D -> okdom D (do_livepatch modname newmod_dict bases_ok nm rec s stk a b am).
Proof.
  intros Hs. unfold do_livepatch. okd;
    first [ apply patch_module_okdom | apply dispatch_okdom | apply patch_object_okdom ]; assumption.
Qed.

End Handlers.

(* without a heap entry for `old` no nested call is made *)
Lemma do_livepatch_no_old rec s stk old new am :
  lookup (hp s) old = None -> dom (hp s) = D ->
  okdom D (do_livepatch modname newmod_dict bases_ok nm rec s stk old new am).
Proof.
  intros Hl Hs. unfold do_livepatch.
  match goal with |- context [if ?c then Ok s new else _] => destruct c end; [apply okdom_ok; exact Hs|].
  destruct am.
  - unfold patch_module. rewrite Hl. apply okdom_raised.
  - rewrite Hl. apply okdom_raised.
Qed.

Notation LP := (lp modname newmod_dict bases_ok nm).

(* termination: with fuel + |visit stack| > |heap| livepatch never runs out of fuel, and it allocates nothing *)
Theorem lp_terminates fuel :
  forall s stack old new,
    dom (hp s) = D -> NoDup stack -> incl stack D -> length D < fuel + length stack ->
    okdom D (LP fuel s stack old new).
Proof.
  induction fuel as [|f IH]; intros s stack old new Hs Hnd Hinc Hlen.
  - exfalso. pose proof (NoDup_incl_length Hnd Hinc). simpl in Hlen. lia.
  - simpl. unfold lp_body.
    destruct (old =? new)%N; [apply okdom_ok; exact Hs|].
    destruct (memN old stack) eqn:Em; [apply okdom_ok; exact Hs|].
    destruct (cache_find (cache s) old new); [apply okdom_ok; exact Hs|].
    apply okdom_bind; [|intros s1 a1 Hs1; apply okdom_ok; exact Hs1].
    destruct (lookup (hp s) old) as [o|] eqn:El.
    + apply do_livepatch_okdom; [|exact Hs].
      intros s0 a b Hs0. apply IH; [exact Hs0| | |].
      * apply NoDup_snoc; [exact Hnd|]. intros Hin. apply memN_In in Hin. congruence.
      * intros x Hx. apply in_app_or in Hx. destruct Hx as [Hx|[Hx|[]]]; [apply Hinc; exact Hx|].
        subst x. rewrite <- Hs. eapply lookup_In_dom. exact El.
      * rewrite app_length. simpl. lia.
    + apply do_livepatch_no_old; assumption.
Qed.

(* the top-level call: fuel = |heap| + 1 is enough *)
Theorem livepatch_module_terminates h m_old m_new fuel :
  dom h = D -> length D < fuel ->
  okdom D (livepatch_module modname newmod_dict bases_ok nm fuel h m_old m_new).
Proof.
  intros Hs Hlen. unfold livepatch_module, lp_body. simpl.
  destruct (m_old =? m_new)%N; [apply okdom_ok; exact Hs|].
  apply okdom_bind; [|intros s1 a1 Hs1; apply okdom_ok; exact Hs1].
  destruct (lookup h m_old) as [o|] eqn:El.
  - apply do_livepatch_okdom; [|exact Hs].
    intros s0 a b Hs0. apply lp_terminates; [exact Hs0| | |].
    + constructor; [intros []|constructor].
    + intros x [Hx|[]]. subst x. rewrite <- Hs. eapply lookup_In_dom. exact El.
    + simpl. lia.
  - apply do_livepatch_no_old; [exact El|exact Hs].
Qed.

End Term.

Theorem termination modname newmod_dict bases_ok nm h m_old m_new fuel :
  length (dom h) < fuel ->
  livepatch_module modname newmod_dict bases_ok nm fuel h m_old m_new <> OutOfFuel /\
  forall s' r, livepatch_module modname newmod_dict bases_ok nm fuel h m_old m_new = Ok s' r ->
               dom (hp s') = dom h.
Proof.
  intros Hlen.
  exact (livepatch_module_terminates modname newmod_dict bases_ok nm (dom h) h m_old m_new fuel eq_refl Hlen).
Qed.

Theorem termination_nested modname newmod_dict bases_ok nm fuel s stack old new :
  NoDup stack -> incl stack (dom (hp s)) -> length (dom (hp s)) < fuel + length stack ->
  lp modname newmod_dict bases_ok nm fuel s stack old new <> OutOfFuel.
Proof.
  intros Hnd Hinc Hlen.
  exact (proj1 (lp_terminates modname newmod_dict bases_ok nm (dom (hp s)) fuel s stack old new eq_refl Hnd Hinc Hlen)).
Qed.

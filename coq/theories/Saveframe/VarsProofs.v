(* Proofs about Saveframe/Vars.v and Saveframe/File.v *)
From Coq Require Import NArith ZArith List Bool Arith Lia String.
From Verif Require Import Base.Chars Base.StrX Base.StrXProofs
     Saveframe.Select Saveframe.Vars Saveframe.File.
Import ListNotations.

Lemma mem_str_In x l : mem_str x l = true <-> In x l.
Proof.
  unfold mem_str. rewrite existsb_exists. split.
  - intros (y & Hy & E). apply str_eqb_eq in E. now subst.
  - intros H. exists x. split; [assumption | apply str_eqb_refl].
Qed.

Lemma mem_str_false x l : mem_str x l = false <-> ~ In x l.
Proof.
  rewrite <- mem_str_In. destruct (mem_str x l); split; congruence.
Qed.

Lemma filter_all_id {A} (f : A -> bool) l : (forall a, In a l -> f a = true) -> filter f l = l.
Proof.
  induction l as [| a r IH]; intros H; [reflexivity |]. cbn [filter].
  rewrite (H a (or_introl eq_refl)). f_equal. apply IH. intros b Hb. apply H. now right.
Qed.

(* ---------------------------------------------------------------------------------------- *)
(* _validate_variables *)

(* the two-pass filtering of the code is one filter by validity *)
Lemma validate_filter (valid : str -> bool) (l : list str) :
  (match filter (fun v => negb (valid v)) l with
   | [] => l
   | _ => filter (fun v => negb (mem_str v (filter (fun v => negb (valid v)) l))) l
   end) = filter valid l.
Proof.
  assert (H : filter (fun v => negb (mem_str v (filter (fun v => negb (valid v)) l))) l = filter valid l).
  { apply filter_ext_in. intros a Ha.
    destruct (valid a) eqn:Ev.
    - assert (Hn : mem_str a (filter (fun v => negb (valid v)) l) = false).
      { apply mem_str_false. rewrite filter_In. intros [_ Hb]. rewrite Ev in Hb. discriminate. }
      now rewrite Hn.
    - assert (Hn : mem_str a (filter (fun v => negb (valid v)) l) = true).
      { apply mem_str_In. rewrite filter_In. split; [assumption | now rewrite Ev]. }
      now rewrite Hn. }
  destruct (filter (fun v => negb (valid v)) l) eqn:E.
  - (* nothing invalid: filter valid l = l *)
    symmetry. apply filter_all_id. intros a Ha.
    destruct (valid a) eqn:Ev; [reflexivity |].
    assert (Hin : In a (filter (fun v => negb (valid v)) l)) by (rewrite filter_In; split; [assumption | now rewrite Ev]).
    rewrite E in Hin. destruct Hin.
  - exact H.
Qed.

Theorem validate_variables_spec valid script a r :
  validate_variables valid script a = Ok r ->
  (a = VNone /\ r = None) \/ (a <> VNone /\ r = Some (filter valid (raw_names a))).
Proof.
  destruct a as [| s | l]; cbn [validate_variables raw_names].
  - intros H. inversion H. now left.
  - destruct (mem_ch c_comma s && negb script); [discriminate |].
    intros H. inversion H. right. split; [discriminate |]. now rewrite validate_filter.
  - intros H. inversion H. right. split; [discriminate |]. now rewrite validate_filter.
Qed.

(* every validated name was written by the caller *)
Lemma validated_subset valid script a l x :
  validate_variables valid script a = Ok (Some l) -> In x l -> In x (raw_names a) /\ valid x = true.
Proof.
  intros H Hin. apply validate_variables_spec in H. destruct H as [[_ H] | [_ H]]; [discriminate |].
  inversion H. subst l. now apply filter_In in Hin.
Qed.

(* ---------------------------------------------------------------------------------------- *)
(* _get_frame_local_variables_data *)

Definition included (inc : option (list str)) (x : str) : Prop :=
  match inc with None => True | Some l => In x l end.
Definition excluded (exc : option (list str)) (x : str) : Prop :=
  match exc with None => False | Some l => In x l end.

Lemma keep_variable_spec pk inc exc xv :
  keep_variable pk inc exc xv = true <->
  is_dunder (fst xv) = false /\ included inc (fst xv) /\ ~ excluded exc (fst xv) /\ pk (snd xv) = true.
Proof.
  unfold keep_variable, included, excluded, truthy.
  destruct (is_dunder (fst xv)); [intuition discriminate |].
  destruct inc as [li |], exc as [[| e le] |]; cbn [negb andb];
    repeat match goal with
           | |- context [mem_str ?x ?l] =>
               let E := fresh "E" in destruct (mem_str x l) eqn:E;
               [apply mem_str_In in E | apply mem_str_false in E]
           end; cbn [negb andb]; intuition (try discriminate; try contradiction).
Qed.

(* var_filter: the saved variables are exactly the locals that are not dunder names, are in the
   include list if there is one, are not in the exclude list, and can be pickled - in the order
   of the locals, each with the value it had *)
Theorem var_filter pk locals inc exc :
  local_variables_data pk locals inc exc =
    filter (keep_variable pk inc exc) locals
  /\ forall x v, In (x, v) (local_variables_data pk locals inc exc) <->
       In (x, v) locals /\ is_dunder x = false /\ included inc x /\ ~ excluded exc x /\ pk v = true.
Proof.
  split; [reflexivity |]. intros x v. unfold local_variables_data.
  rewrite filter_In, keep_variable_spec. reflexivity.
Qed.

(* an unpicklable variable never affects the others: changing the picklability of the values in U
   changes nothing about the entries whose value is outside U *)
Theorem unpicklable_independent pk pk' (U : N -> bool) locals inc exc :
  (forall v, U v = false -> pk v = pk' v) ->
  filter (fun xv => negb (U (snd xv))) (local_variables_data pk locals inc exc) =
  filter (fun xv => negb (U (snd xv))) (local_variables_data pk' locals inc exc).
Proof.
  intros H. unfold local_variables_data.
  induction locals as [| xv r IH]; [reflexivity |]. cbn [filter].
  destruct (U (snd xv)) eqn:EU.
  - destruct (keep_variable pk inc exc xv), (keep_variable pk' inc exc xv); cbn [filter]; rewrite ?EU; cbn [negb]; exact IH.
  - assert (Hk : keep_variable pk inc exc xv = keep_variable pk' inc exc xv).
    { unfold keep_variable. now rewrite (H _ EU). }
    rewrite Hk. destruct (keep_variable pk' inc exc xv); cbn [filter]; rewrite ?EU; cbn [negb]; now rewrite IH.
Qed.

(* and a skipped variable is only the unpicklable one: every other candidate is saved *)
Corollary unpicklable_skipped_alone pk locals inc exc x v :
  In (x, v) locals -> is_dunder x = false -> included inc x -> ~ excluded exc x ->
  (In (x, v) (local_variables_data pk locals inc exc) <-> pk v = true).
Proof.
  intros Hin Hd Hi He. rewrite (proj2 (var_filter pk locals inc exc)). intuition.
Qed.

(* not_included_absent (REPAIRED code): whenever the caller passes an include argument, a variable
   whose name the caller did not write is absent - whatever validation did to the list *)
Theorem not_included_absent valid script a inc pk locals exc x v :
  a <> VNone ->
  validate_variables valid script a = Ok inc ->
  ~ In x (raw_names a) ->
  ~ In (x, v) (local_variables_data pk locals inc exc).
Proof.
  intros Ha Hv Hx Hin.
  apply validate_variables_spec in Hv. destruct Hv as [[Hv _] | [_ Hv]]; [contradiction |].
  subst inc. apply (proj2 (var_filter _ _ _ _)) in Hin.
  destruct Hin as (_ & _ & Hi & _). cbn [included] in Hi. apply filter_In in Hi. now destruct Hi.
Qed.

(* an excluded variable is absent (for a name that validation keeps; a name that is not a valid
   identifier cannot be the name of a local variable of a function frame) *)
Theorem excluded_absent valid script a exc pk locals inc x v :
  validate_variables valid script a = Ok exc ->
  In x (raw_names a) -> valid x = true ->
  ~ In (x, v) (local_variables_data pk locals inc exc).
Proof.
  intros Hv Hx Hval Hin.
  apply (proj2 (var_filter _ _ _ _)) in Hin. destruct Hin as (_ & _ & _ & He & _). apply He.
  apply validate_variables_spec in Hv. destruct Hv as [[Ha _] | [_ Hv]].
  - subst a. destruct Hx.
  - subst exc. cbn [excluded]. apply filter_In. now split.
Qed.

(* F15 - the code before the repair: an include list that validation empties saves everything *)
Definition ascii_valid_name (x : str) : bool :=
  match x with
  | [] => false
  | c :: r => is_ident_start c && forallb is_ident_char r
  end.

Theorem not_included_absent_refuted_pre_F15 :
  exists valid script a inc pk locals exc x v,
    a <> VNone /\ validate_variables valid script a = Ok inc /\ ~ In x (raw_names a) /\
    In (x, v) (local_variables_data_pre_F15 pk locals inc exc).
Proof.
  exists ascii_valid_name, false, (VList [dec "1bad"%string]), (Some []), (fun _ => true),
         [(dec "secret"%string, 7%N)], None, (dec "secret"%string), 7%N.
  split; [discriminate |]. split; [vm_compute; reflexivity |]. split.
  - vm_compute. intros [H | []]. discriminate.
  - vm_compute. left. reflexivity.
Qed.

(* the repair changes nothing else: for a non-empty validated include list (or none) both agree *)
Theorem pre_F15_agrees_off_defect pk locals inc exc :
  inc <> Some [] ->
  local_variables_data_pre_F15 pk locals inc exc = local_variables_data pk locals inc exc.
Proof.
  intros H. unfold local_variables_data_pre_F15, local_variables_data.
  apply filter_ext. intros xv. unfold keep_variable_pre_F15, keep_variable, truthy.
  destruct inc as [[| a l] |]; [congruence | reflexivity | reflexivity].
Qed.

(* ---------------------------------------------------------------------------------------- *)
(* _open_file: mode 0644 for every umask, umask restored on every path *)

Section OpenFile.
Variable data : Type.

Theorem mode_0644 (d : data) (open_ok body_ok : bool) (st : fs data) :
  let '(o, st') := open_file_and_dump d open_ok body_ok st in
  (* the umask is restored whether the open or the dump fails or not *)
  fs_umask st' = fs_umask st
  /\ (* a file created by the save has mode 0644 whatever the umask *)
     (fs_file st = None -> open_ok = true -> exists c, fs_file st' = Some (420%N, c))
  /\ (* a pre-existing file keeps its permission bits *)
     (forall m c, fs_file st = Some (m, c) -> exists c', fs_file st' = Some (m, c'))
  /\ (* nothing is touched when the open fails *)
     (open_ok = false -> fs_file st' = fs_file st /\ o = OpenFailed)
  /\ (* a complete save holds exactly the data *)
     (open_ok = true -> body_ok = true -> o = Saved /\ exists m, fs_file st' = Some (m, CData d))
  /\ (open_ok = true -> body_ok = false -> o = BodyFailed /\ exists m, fs_file st' = Some (m, CTruncated)).
Proof.
  destruct st as [u f]. unfold open_file_and_dump, sys_umask, sys_open_creat_trunc, sys_write_all, FILE_PERMISSION.
  destruct open_ok, body_ok, f as [[m c] |]; cbn; repeat split; intros; try discriminate; eauto;
    try (match goal with H : Some _ = Some _ |- _ => inversion H; subst end; eauto).
Qed.

End OpenFile.

(* Proofs about Saveframe/Reader.v: every query form returns the saved values *)
From Coq Require Import NArith ZArith List Bool Arith Lia.
From Verif Require Import Base.Chars Base.StrX Base.StrXProofs
     Saveframe.Select Saveframe.Vars Saveframe.Save Saveframe.Reader Saveframe.VarsProofs.
Import ListNotations.

Lemma str_eqb_true_eq x y : str_eqb x y = true -> x = y.
Proof. apply str_eqb_eq. Qed.

Lemma str_eqb_false_neq x y : str_eqb x y = false -> x <> y.
Proof. intros H E. subst. rewrite str_eqb_refl in H. discriminate. Qed.

Lemma lookup_dict_set y v acc x :
  lookup_var x (dict_set y v acc) = if str_eqb x y then Some v else lookup_var x acc.
Proof.
  induction acc as [| [z w] r IH]; cbn [dict_set lookup_var].
  - destruct (str_eqb x y); reflexivity.
  - destruct (str_eqb y z) eqn:Eyz; cbn [lookup_var].
    + apply str_eqb_true_eq in Eyz. subst z. destruct (str_eqb x y); reflexivity.
    + destruct (str_eqb x z) eqn:Exz.
      * apply str_eqb_true_eq in Exz. subst z. rewrite (str_eqb_sym x y), Eyz. reflexivity.
      * exact IH.
Qed.

(* the inner dict built for a list of queried names holds, for each queried name present in the
   frame, the saved value - and nothing else *)
Lemma collect_vars_lookup vs vars : forall acc x,
  lookup_var x (collect_vars vs vars acc) =
  if mem_str x vs then match lookup_var x vars with Some v => Some v | None => lookup_var x acc end
  else lookup_var x acc.
Proof.
  induction vs as [| y r IH]; intros acc x; [reflexivity |].
  cbn [collect_vars]. unfold mem_str in *. cbn [existsb].
  destruct (lookup_var y vars) as [v |] eqn:Ey; rewrite IH.
  - rewrite lookup_dict_set. destruct (str_eqb x y) eqn:Exy; cbn [orb].
    + apply str_eqb_true_eq in Exy. subst y. rewrite Ey. destruct (existsb (str_eqb x) r); reflexivity.
    + reflexivity.
  - destruct (str_eqb x y) eqn:Exy; cbn [orb]; [| reflexivity].
    apply str_eqb_true_eq in Exy. subst y. rewrite Ey. destruct (existsb (str_eqb x) r); reflexivity.
Qed.

Corollary collect_vars_spec vs vars x :
  lookup_var x (collect_vars vs vars []) = if mem_str x vs then lookup_var x vars else None.
Proof.
  rewrite collect_vars_lookup. cbn [lookup_var]. destruct (mem_str x vs); [| reflexivity]. now destruct (lookup_var x vars).
Qed.

Lemma collect_single x vars :
  collect_vars [x] vars [] = match lookup_var x vars with Some v => [(x, v)] | None => [] end.
Proof. cbn [collect_vars]. now destruct (lookup_var x vars). Qed.

Definition nonempty {A} (l : list A) : bool := match l with [] => false | _ => true end.

(* frames without any finding are left out; the others appear in file order *)
Lemma by_frame_eq vs (l : saved) :
  by_frame vs l =
  map (fun s => (s_index s, collect_vars vs (s_vars s) []))
      (filter (fun s => nonempty (collect_vars vs (s_vars s) [])) l).
Proof.
  induction l as [| s r IH]; [reflexivity |]. cbn [by_frame filter].
  destruct (collect_vars vs (s_vars s) []) eqn:E; cbn [nonempty]; [exact IH |].
  cbn [map]. rewrite E. f_equal. exact IH.
Qed.

Lemma frame_by_key_In k l s : frame_by_key k l = Some s -> In s l /\ Z.of_nat (s_index s) = k.
Proof.
  induction l as [| a r IH]; cbn [frame_by_key]; [discriminate |].
  destruct (Z.of_nat (s_index a) =? k)%Z eqn:E.
  - intros H. inversion H. subst. split; [now left | now apply Z.eqb_eq].
  - intros H. destruct (IH H). split; [now right | assumption].
Qed.

(* ---------------------------------------------------------------------------------------- *)
(* get_variables *)

(* get_variables('x', frame_idx=k) returns exactly the saved value of x in frame k, and fails exactly
   when frame k is not saved or does not hold x *)
Theorem reader_vars_idx_single d x k r :
  get_variables d (QStr x) (Some k) = r ->
  match frame_by_key k (r_frames d) with
  | Some s => match lookup_var x (s_vars s) with
              | Some v => r = Ok (VVal v)
              | None => r = Err EValue
              end
  | None => r = Err EValue
  end.
Proof.
  unfold get_variables. cbn [query_names]. intros <-.
  destruct (frame_by_key k (r_frames d)) as [s |]; [| reflexivity].
  now destruct (lookup_var x (s_vars s)).
Qed.

(* get_variables([x1, ...], frame_idx=k): a dict that maps every queried name saved in frame k to
   its saved value and holds nothing else; fails exactly when the list is empty, frame k is not
   saved, or none of the names is saved there *)
Theorem reader_vars_idx_list d l k r :
  get_variables d (QList l) (Some k) = r ->
  match l, frame_by_key k (r_frames d) with
  | [], _ => r = Err EValue
  | _, None => r = Err EValue
  | _, Some s =>
      (exists m, r = Ok (VDict m) /\ m <> [] /\
                 forall x, lookup_var x m = if mem_str x l then lookup_var x (s_vars s) else None)
      \/ (r = Err EValue /\ forall x, In x l -> lookup_var x (s_vars s) = None)
  end.
Proof.
  unfold get_variables. cbn [query_names]. intros <-. destruct l as [| a l']; [reflexivity |].
  set (l := a :: l'). destruct (frame_by_key k (r_frames d)) as [s |]; [| reflexivity].
  destruct (collect_vars l (s_vars s) []) as [| p m] eqn:E.
  - right. split; [reflexivity |]. intros x Hx.
    pose proof (collect_vars_spec l (s_vars s) x) as H. rewrite E in H. cbn [lookup_var] in H.
    apply mem_str_In in Hx. rewrite Hx in H. now symmetry.
  - left. exists (p :: m). split; [reflexivity |]. split; [discriminate |]. intros x. rewrite <- E. apply collect_vars_spec.
Qed.

(* get_variables('x'): the frames holding x, in file order; the value alone when there is exactly one *)
Theorem reader_vars_all_single d x r :
  get_variables d (QStr x) None = r ->
  let hits := filter (fun s => nonempty (collect_vars [x] (s_vars s) [])) (r_frames d) in
  (forall s, In s hits <-> In s (r_frames d) /\ lookup_var x (s_vars s) <> None) /\
  match hits with
  | [] => r = Err EValue
  | [s] => exists v, lookup_var x (s_vars s) = Some v /\ r = Ok (VVal v)
  | _ => exists m, r = Ok (VByFrame m) /\
                   Forall2 (fun s kv => fst kv = s_index s /\ lookup_var x (s_vars s) = Some (snd kv)) hits m
  end.
Proof.
  intros Hr hits. split.
  - intros s. unfold hits. rewrite filter_In, collect_single. destruct (lookup_var x (s_vars s)); cbn [nonempty]; intuition congruence.
  - unfold get_variables in Hr. cbn [query_names] in Hr. rewrite by_frame_eq in Hr. fold hits in Hr.
    assert (Hall : forall s, In s hits -> exists v, lookup_var x (s_vars s) = Some v /\ collect_vars [x] (s_vars s) [] = [(x, v)]).
    { intros s Hs. unfold hits in Hs. apply filter_In in Hs. destruct Hs as [_ Hs]. rewrite collect_single in *.
      destruct (lookup_var x (s_vars s)) as [v |]; [now exists v | discriminate]. }
    destruct hits as [| s1 [| s2 rest]] eqn:Eh.
    + now subst r.
    + destruct (Hall s1 (or_introl eq_refl)) as (v & Hv & Hc). exists v. split; [assumption |].
      cbn [map] in Hr. rewrite Hc in Hr. now subst r.
    + cbn [map] in Hr. eexists. split; [now subst r |].
      assert (G : forall hs, (forall s, In s hs -> exists v, lookup_var x (s_vars s) = Some v /\ collect_vars [x] (s_vars s) [] = [(x, v)]) ->
                 Forall2 (fun s kv => fst kv = s_index s /\ lookup_var x (s_vars s) = Some (snd kv)) hs
                         (map (fun kf : nat * list (str * N) => (fst kf, single_value (snd kf)))
                              (map (fun s => (s_index s, collect_vars [x] (s_vars s) [])) hs))).
      { induction hs as [| h hs IH]; intros Hh; cbn [map]; constructor.
        - destruct (Hh h (or_introl eq_refl)) as (v & Hv & Hc). cbn [fst snd]. rewrite Hc. cbn. now split.
        - apply IH. intros s Hs. apply Hh. now right. }
      apply (G (s1 :: s2 :: rest)). exact Hall.
Qed.

(* get_variables([x1, ...]): per frame holding at least one of the names, the dict of the names it
   holds; that dict alone when there is exactly one such frame *)
Theorem reader_vars_all_list d l r :
  l <> [] ->
  get_variables d (QList l) None = r ->
  let found s := collect_vars l (s_vars s) [] in
  let hits := filter (fun s => nonempty (found s)) (r_frames d) in
  (forall s x, lookup_var x (found s) = if mem_str x l then lookup_var x (s_vars s) else None) /\
  match hits with
  | [] => r = Err EValue
  | [s] => r = Ok (VDict (found s))
  | _ => r = Ok (VByFrameDict (map (fun s => (s_index s, found s)) hits))
  end.
Proof.
  intros Hl Hr found hits. split; [intros s x; apply collect_vars_spec |].
  unfold get_variables in Hr. cbn [query_names] in Hr. destruct l as [| a l']; [congruence |].
  rewrite by_frame_eq in Hr. subst hits found. cbv beta.
  destruct (filter (fun s => nonempty (collect_vars (a :: l') (s_vars s) [])) (r_frames d)) as [| s1 [| s2 rest]];
    cbn [map] in Hr; now subst r.
Qed.

(* ---------------------------------------------------------------------------------------- *)
(* get_metadata and the `variables` property *)

Theorem reader_metadata d m idx r :
  get_metadata d m idx = r ->
  match m, idx with
  | MInvalid, _ => r = Err EValue
  | MExc x, None => r = Ok (RVal (MStr (r_exc d x)))
  | MExc x, Some z => if (z =? 0)%Z then r = Ok (RVal (MStr (r_exc d x))) else r = Err EValue
  | MFrame f, None => r = Ok (RMap (map (fun s => (s_index s, field_of f s)) (r_frames d)))
  | MFrame f, Some k => match frame_by_key k (r_frames d) with
                        | Some s => r = Ok (RVal (field_of f s)) /\ In s (r_frames d) /\ Z.of_nat (s_index s) = k
                        | None => r = Err EValue
                        end
  end.
Proof.
  intros <-. destruct m as [f | x |]; cbn [get_metadata]; [| | reflexivity].
  - destruct idx as [k |]; [| reflexivity]. destruct (frame_by_key k (r_frames d)) as [s |] eqn:E; [| reflexivity].
    split; [reflexivity | now apply frame_by_key_In].
  - destruct idx as [z |]; [| reflexivity]. now destruct (z =? 0)%Z.
Qed.

Theorem reader_variables_spec d :
  reader_variables d = map (fun s => (s_index s, map fst (s_vars s))) (r_frames d).
Proof. reflexivity. Qed.

(* with distinct keys (what saveframe writes), the frame found for key k is the only frame with that key *)
Lemma frame_by_key_unique l : NoDup (map s_index l) ->
  forall s, In s l -> frame_by_key (Z.of_nat (s_index s)) l = Some s.
Proof.
  induction l as [| a r IH]; intros Hnd s Hs; [destruct Hs |].
  cbn [map] in Hnd. apply NoDup_cons_iff in Hnd. destruct Hnd as [Hna Hnd]. cbn [frame_by_key].
  destruct Hs as [<- | Hs].
  - now rewrite Z.eqb_refl.
  - destruct (Z.of_nat (s_index a) =? Z.of_nat (s_index s))%Z eqn:E.
    + apply Z.eqb_eq in E. apply Nat2Z.inj in E. exfalso. apply Hna. rewrite E. now apply in_map.
    + now apply IH.
Qed.

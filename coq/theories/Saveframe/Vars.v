(* M15 (part 2) - variable filters and frame metadata of pyflyby.saveframe:
     _is_variable_name_valid, _validate_variables, the `variables and exclude_variables` test of
     _validate_saveframe_arguments, _get_frame_local_variables_data, _get_frame_metadata.
   Oracle arguments: `valid` = name.isidentifier() and not keyword.iskeyword(name);
   `pk` = pickle.dumps(value, protocol=5) does not raise an Exception.
   `_get_frame_local_variables_data` is modelled as REPAIRED by fixes/F15-*.diff
   (`variables is not None`); the behaviour before the repair is kept as
   local_variables_data_pre_F15 for the refutation theorem. *)
From Coq Require Import NArith ZArith List Bool Arith String.
From Verif Require Import Base.Chars Base.StrX Saveframe.Select.
Import ListNotations.

(* the `variables` / `exclude_variables` argument: None, a str, a list/tuple of str *)
Inductive vars_arg := VNone | VStr (s : str) | VList (l : list str).

(* truthiness of the raw argument (`if variables and exclude_variables:`) *)
Definition vars_arg_truthy (a : vars_arg) : bool :=
  match a with
  | VNone => false
  | VStr [] => false
  | VStr _ => true
  | VList [] => false
  | VList _ => true
  end.

Definition mem_str (x : str) (l : list str) : bool := existsb (str_eqb x) l.

(*  if variables is None: return
    if isinstance(variables, str) and ',' in variables and utility == 'function': raise ValueError
    if isinstance(variables, (list, tuple)): all_variables = tuple(variables)
    elif isinstance(variables, str): all_variables = tuple(variable.strip() for variable in variables.split(','))
    invalid_variable_names = [variable for variable in all_variables if not _is_variable_name_valid(variable)]
    if invalid_variable_names:
        all_variables = tuple(variable for variable in all_variables if variable not in invalid_variable_names)
    return all_variables                                                                     *)
Definition validate_variables (valid : str -> bool) (script : bool) (a : vars_arg) : res (option (list str)) :=
  match a with
  | VNone => Ok None
  | VStr s =>
      if mem_ch c_comma s && negb script then Err EValue
      else let all := map strip (split_on c_comma s) in
           let invalid := filter (fun v => negb (valid v)) all in
           Ok (Some (match invalid with
                     | [] => all
                     | _ => filter (fun v => negb (mem_str v invalid)) all
                     end))
  | VList l =>
      let invalid := filter (fun v => negb (valid v)) l in
      Ok (Some (match invalid with
                | [] => l
                | _ => filter (fun v => negb (mem_str v invalid)) l
                end))
  end.

(* the names the caller wrote in the argument (before validation): the specification side of
   "not-included" / "excluded" *)
Definition raw_names (a : vars_arg) : list str :=
  match a with
  | VNone => []
  | VStr s => map strip (split_on c_comma s)
  | VList l => l
  end.

(*  variable.startswith('__')  *)
Definition is_dunder (x : str) : bool := starts_with [c_us; c_us] x.

(* truthiness of a validated tuple / None *)
Definition truthy (o : option (list str)) : bool :=
  match o with Some (_ :: _) => true | _ => false end.

(*  for variable in all_local_variables:
        if variable.startswith('__'): continue
        if variables is not None and variable not in variables: continue        (REPAIRED, F15)
        if exclude_variables and variable in exclude_variables: continue
        try: pickled_value = pickle.dumps(all_local_variables[variable], protocol=PICKLE_PROTOCOL)
        except Exception: (log)
        else: local_variables_to_save[variable] = pickled_value                          *)
Definition keep_variable (pk : N -> bool) (inc exc : option (list str)) (xv : str * N) : bool :=
  if is_dunder (fst xv) then false
  else if (match inc with Some l => negb (mem_str (fst xv) l) | None => false end) then false
  else if truthy exc && (match exc with Some l => mem_str (fst xv) l | None => false end) then false
  else pk (snd xv).
Definition local_variables_data (pk : N -> bool) (locals : list (str * N)) (inc exc : option (list str)) : list (str * N) :=
  filter (keep_variable pk inc exc) locals.

(* before the repair:   if variables and variable not in variables: continue *)
Definition keep_variable_pre_F15 (pk : N -> bool) (inc exc : option (list str)) (xv : str * N) : bool :=
  if is_dunder (fst xv) then false
  else if truthy inc && (match inc with Some l => negb (mem_str (fst xv) l) | None => false end) then false
  else if truthy exc && (match exc with Some l => mem_str (fst xv) l | None => false end) then false
  else pk (snd xv).
Definition local_variables_data_pre_F15 (pk : N -> bool) (locals : list (str * N)) (inc exc : option (list str)) : list (str * N) :=
  filter (keep_variable_pre_F15 pk inc exc) locals.

(* ---------------------------------------------------------------------------------------- *)
(* decimal rendering of an int (for frame_identifier and the debugger default selector) *)

Fixpoint dec_digits_str (fuel : nat) (n : N) (acc : str) : str :=
  match fuel with
  | O => acc
  | S f => let acc' := (48 + N.modulo n 10)%N :: acc in
           if (n <? 10)%N then acc' else dec_digits_str f (N.div n 10) acc'
  end.
(* fuel: an N below 2^n has at most n decimal digits *)
Definition str_of_N (n : N) : str := dec_digits_str (S (N.to_nat (N.size n))) n [].
Definition str_of_Z (z : Z) : str :=
  match z with
  | Z0 => [48%N]
  | Zpos p => str_of_N (Npos p)
  | Zneg p => c_dash :: str_of_N (Npos p)
  end.

(* FrameMetadata without function_object (best-effort lookup, covered by the oracle only):
     frame_index, filename, lineno, function_name, function_qualname, module_name, code,
     frame_identifier = f"{co_filename},{f_lineno},{co_name}"                              *)
Record saved_frame := mkSaved {
  s_index : nat; s_file : str; s_line : Z; s_func : str; s_qual : str;
  s_module : str; s_code : str; s_ident : str; s_vars : list (str * N) }.

Definition frame_metadata (pk : N -> bool) (inc exc : option (list str)) (e : entry) : saved_frame :=
  let f := snd e in
  mkSaved (fst e) (f_file f) (f_line f) (f_func f) (f_qual f) (f_module f) (f_code f)
          (f_file f ++ c_comma :: str_of_Z (f_line f) ++ c_comma :: f_func f)
          (local_variables_data pk (f_locals f) inc exc).

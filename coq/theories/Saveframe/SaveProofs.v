(* Proofs about Saveframe/Save.v: the composition validate -> flatten -> select -> filter -> write *)
From Coq Require Import NArith ZArith List Bool Arith Lia Sorting.Sorted.
From Verif Require Import Base.Chars Base.StrX
     Saveframe.Select Saveframe.Vars Saveframe.File Saveframe.Save
     Saveframe.SelectProofs Saveframe.VarsProofs.
Import ListNotations.

Lemma sorted_lt_NoDup (r : list entry) :
  StronglySorted (fun a b => fst a < fst b) r -> NoDup (map fst r).
Proof.
  induction 1 as [| a r Hs IH Hf]; cbn [map]; constructor; [| exact IH].
  intros Hin. apply in_map_iff in Hin. destruct Hin as (b & Hb & Hin).
  rewrite Forall_forall in Hf. specialize (Hf b Hin). lia.
Qed.

(* what a successful call leaves: the umask as before, a file holding exactly one entry per selected
   frame, keyed by the frame's distance from the failing frame (distinct keys), each entry with the
   frame's own metadata and its filtered locals; a refused call leaves everything untouched *)
Theorem saveframe_end_to_end rx valid pk script esc fa va ea cur e open_ok dump_ok (st : fs saved) res st' :
  saveframe rx valid pk script esc fa va ea cur e open_ok dump_ok st = (res, st') ->
  fs_umask st' = fs_umask st /\
  match res with
  | Err _ => st' = st
  | Ok (o, d) =>
      exists sel inc exc entries,
        validate_arguments valid script (default_frames esc fa cur) va ea = Ok (sel, inc, exc) /\
        get_frames_to_save rx sel (all_frames_from_exception e) = Ok entries /\
        d = map (frame_metadata pk inc exc) entries /\
        NoDup (map s_index d) /\
        (forall s, In s d -> exists f,
            s_index s >= 1 /\ nth_error (all_frames_from_exception e) (s_index s - 1) = Some f /\
            s_file s = f_file f /\ s_line s = f_line f /\ s_func s = f_func f /\ s_qual s = f_qual f /\
            s_vars s = local_variables_data pk (f_locals f) inc exc) /\
        (o = Saved -> exists m, fs_file st' = Some (m, CData d) /\ (fs_file st = None -> m = 420%N)) /\
        (o = Saved <-> open_ok = true /\ dump_ok = true)
  end.
Proof.
  unfold saveframe. unfold saved in *.
  destruct (validate_arguments valid script (default_frames esc fa cur) va ea) as [[[sel inc] exc] | er] eqn:Ev; cbn [bind].
  2:{ intros H. inversion H. now split. }
  unfold frames_and_info.
  destruct (get_frames_to_save rx sel (all_frames_from_exception e)) as [entries | er] eqn:Es; cbn [bind].
  2:{ intros H. inversion H. now split. }
  pose proof (mode_0644 (list saved_frame) (map (frame_metadata pk inc exc) entries) open_ok dump_ok st) as Hm.
  destruct (open_file_and_dump (map (frame_metadata pk inc exc) entries) open_ok dump_ok st) as [o st2] eqn:Eo.
  intros H. inversion H. subst res st'. clear H.
  destruct Hm as (Hu & Hnew & Hold & Hfail & Hok & Hbad). split; [exact Hu |].
  exists sel, inc, exc, entries. split; [first [reflexivity | exact Ev] |]. split; [first [reflexivity | exact Es] |]. split; [reflexivity |].
  destruct (keys_are_distances _ _ _ _ Es) as [Hk Hs]. split.
  - rewrite map_map. cbn [frame_metadata s_index]. apply sorted_lt_NoDup. exact Hs.
  - split.
    + intros s Hin. apply in_map_iff in Hin. destruct Hin as ([k f] & <- & Hin). exists f.
      destruct (Hk _ _ Hin) as [H1 H2]. cbn [frame_metadata s_index s_file s_line s_func s_qual s_vars fst snd].
      repeat split; assumption.
    + split.
      * intros ->. destruct open_ok.
        -- destruct dump_ok.
           ++ destruct (Hok eq_refl eq_refl) as [_ (m & Hfile)]. exists m. split; [exact Hfile |].
              intros Hnone. destruct (Hnew Hnone eq_refl) as (c & Hc). rewrite Hfile in Hc. now inversion Hc.
           ++ destruct (Hbad eq_refl eq_refl) as [Ho _]. discriminate.
        -- destruct (Hfail eq_refl) as [_ Ho]. discriminate.
      * split.
        -- intros ->. destruct open_ok, dump_ok; try (split; reflexivity).
           ++ destruct (Hbad eq_refl eq_refl) as [Ho _]. discriminate.
           ++ destruct (Hfail eq_refl) as [_ Ho]. discriminate.
           ++ destruct (Hfail eq_refl) as [_ Ho]. discriminate.
        -- intros [-> ->]. now destruct (Hok eq_refl eq_refl).
Qed.

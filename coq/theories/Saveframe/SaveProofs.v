(* Proofs about Saveframe/Save.v: the composition validate -> flatten -> select -> filter -> write *)
From Coq Require Import NArith ZArith List Bool Arith Lia Sorting.Sorted.
From Verif Require Import Base.Chars Base.StrX
     Saveframe.Select Saveframe.Vars Saveframe.File Saveframe.Save
     Saveframe.SelectProofs Saveframe.VarsProofs.
Import ListNotations.

Lemma sorted_lt_NoDup (r : list entry) :
  StronglySorted (fun a b => fst a < fst b) r -> NoDup (map fst r).
Proof.
  induction 1 as [| a r Hs IH Hf]; cbn [map]; constructor; [| exact IH].
  intros Hin. apply in_map_iff in Hin. destruct Hin as (b & Hb & Hin).
  rewrite Forall_forall in Hf. specialize (Hf b Hin). lia.
Qed.

(* the write step, both orders *)
Lemma write_mapping_spec {data : Type} (sf : bool) (d : data) (open_ok dump_ok : bool) (st : fs data) :
  let '(o, st') := write_mapping sf d open_ok dump_ok st in
  fs_umask st' = fs_umask st /\
  (o = Saved <-> open_ok = true /\ dump_ok = true) /\
  (o = Saved -> exists m, fs_file st' = Some (m, CData d) /\ (fs_file st = None -> m = 420%N) /\
                          (forall m0 c, fs_file st = Some (m0, c) -> m = m0)) /\
  (open_ok = false -> fs_file st' = fs_file st) /\
  (* serialized before the file is opened: a failing dump leaves the file untouched *)
  (sf = true -> dump_ok = false -> st' = st /\ o = BodyFailed) /\
  (* dumped into the opened file: a failing dump leaves it truncated *)
  (sf = false -> open_ok = true -> dump_ok = false -> o = BodyFailed /\ exists m, fs_file st' = Some (m, CTruncated)).
Proof.
  destruct st as [u f]. unfold write_mapping, open_file_and_dump, sys_umask, sys_open_creat_trunc, sys_write_all, FILE_PERMISSION.
  destruct sf, open_ok, dump_ok, f as [[m c] |]; cbn;
    repeat split; intros; try discriminate; try tauto; eauto;
    try (match goal with H : _ /\ _ |- _ => destruct H; discriminate end);
    try (eexists; split; [reflexivity |]; split; intros;
         try discriminate; try reflexivity;
         match goal with H : Some _ = Some _ |- _ => inversion H; subst; reflexivity end).
Qed.

(* what a successful call leaves: the umask as before, a file holding exactly one entry per selected
   frame, keyed by the frame's distance from the failing frame (distinct keys), each entry with the
   frame's own metadata and its filtered locals; a refused call leaves everything untouched; with the
   C17-N1 repair the call cannot fail on the exception object and never leaves a truncated file *)
Theorem saveframe_end_to_end rx valid pk script esc n1 fa va ea cur e open_ok exc_pk (st : fs saved) res st' :
  saveframe rx valid pk script esc n1 fa va ea cur e open_ok exc_pk st = (res, st') ->
  fs_umask st' = fs_umask st /\
  match res with
  | Err _ => st' = st
  | Ok (o, d) =>
      exists sel inc exc entries,
        validate_arguments valid script (default_frames esc fa cur) va ea = Ok (sel, inc, exc) /\
        get_frames_to_save rx sel (all_frames_from_exception e) = Ok entries /\
        d = map (frame_metadata pk inc exc) entries /\
        NoDup (map s_index d) /\
        (forall s, In s d -> exists f,
            s_index s >= 1 /\ nth_error (all_frames_from_exception e) (s_index s - 1) = Some f /\
            s_file s = f_file f /\ s_line s = f_line f /\ s_func s = f_func f /\ s_qual s = f_qual f /\
            s_vars s = local_variables_data pk (f_locals f) inc exc) /\
        (o = Saved -> exists m, fs_file st' = Some (m, CData d) /\ (fs_file st = None -> m = 420%N)) /\
        (o = Saved <-> open_ok = true /\ (n1 = true \/ exc_pk = true)) /\
        (open_ok = false -> fs_file st' = fs_file st)
  end.
Proof.
  unfold saveframe. unfold saved in *.
  destruct (validate_arguments valid script (default_frames esc fa cur) va ea) as [[[sel inc] exc] | er] eqn:Ev; cbn [bind].
  2:{ intros H. inversion H. now split. }
  unfold frames_and_info.
  destruct (get_frames_to_save rx sel (all_frames_from_exception e)) as [entries | er] eqn:Es; cbn [bind].
  2:{ intros H. inversion H. now split. }
  pose proof (write_mapping_spec n1 (map (frame_metadata pk inc exc) entries) open_ok (mapping_dump_ok n1 exc_pk) st) as Hm.
  destruct (write_mapping n1 (map (frame_metadata pk inc exc) entries) open_ok (mapping_dump_ok n1 exc_pk) st) as [o st2] eqn:Eo.
  intros H. inversion H. subst res st'. clear H.
  destruct Hm as (Hu & Hiff & Hsaved & Hopen & _ & _). split; [exact Hu |].
  exists sel, inc, exc, entries. split; [first [reflexivity | exact Ev] |]. split; [first [reflexivity | exact Es] |]. split; [reflexivity |].
  destruct (keys_are_distances _ _ _ _ Es) as [Hk Hs]. split.
  - rewrite map_map. cbn [frame_metadata s_index]. apply sorted_lt_NoDup. exact Hs.
  - split.
    + intros s Hin. apply in_map_iff in Hin. destruct Hin as ([k f] & <- & Hin). exists f.
      destruct (Hk _ _ Hin) as [H1 H2]. cbn [frame_metadata s_index s_file s_line s_func s_qual s_vars fst snd].
      repeat split; assumption.
    + split.
      * intros Ho. destruct (Hsaved Ho) as (m & Hf & Hn & _). exists m. now split.
      * split; [| exact Hopen]. rewrite Hiff. unfold mapping_dump_ok. destruct n1, exc_pk; cbn [orb]; intuition discriminate.
Qed.

(* C17-N1 repaired: the exception object never makes the save fail, and no path leaves a truncated file *)
Theorem n1_repaired_never_truncates rx valid pk script esc fa va ea cur e open_ok exc_pk (st : fs saved) o d st' :
  saveframe rx valid pk script esc true fa va ea cur e open_ok exc_pk st = (Ok (o, d), st') ->
  (open_ok = true -> o = Saved) /\
  (forall m, fs_file st' <> Some (m, CTruncated) \/ fs_file st = Some (m, CTruncated)).
Proof.
  unfold saveframe. unfold saved in *.
  destruct (bind (validate_arguments valid script (default_frames esc fa cur) va ea) _) as [d0 | er]; [| discriminate].
  unfold mapping_dump_ok. cbn [orb].
  pose proof (write_mapping_spec true d0 open_ok true st) as Hm.
  destruct (write_mapping true d0 open_ok true st) as [o0 st2] eqn:Eo.
  intros H. inversion H. subst o0 d0 st2. clear H.
  destruct Hm as (_ & Hiff & Hsaved & Hopen & _ & _). split.
  - intros ->. now apply Hiff.
  - intros m. destruct open_ok.
    + left. destruct (Hsaved (proj2 Hiff (conj eq_refl eq_refl))) as (m' & Hf & _). rewrite Hf. discriminate.
    + rewrite (Hopen eq_refl). destruct (fs_file st) as [[m0 [| | x]] |]; try (left; discriminate).
      destruct (N.eq_dec m0 m) as [-> | Hne]; [now right | left; congruence].
Qed.

(* C17-N1 as the code was: an unpicklable exception object leaves a truncated file and nothing saved *)
Theorem n1_unrepaired_truncates rx valid pk script esc fa va ea cur e (st : fs saved) o d st' :
  saveframe rx valid pk script esc false fa va ea cur e true false st = (Ok (o, d), st') ->
  o = BodyFailed /\ exists m, fs_file st' = Some (m, CTruncated).
Proof.
  unfold saveframe. unfold saved in *.
  destruct (bind (validate_arguments valid script (default_frames esc fa cur) va ea) _) as [d0 | er]; [| discriminate].
  unfold mapping_dump_ok. cbn [orb].
  pose proof (write_mapping_spec false d0 true false st) as Hm.
  destruct (write_mapping false d0 true false st) as [o0 st2] eqn:Eo.
  intros H. inversion H. subst o0 d0 st2. clear H.
  destruct Hm as (_ & _ & _ & _ & _ & Hbad). exact (Hbad eq_refl eq_refl eq_refl).
Qed.

(* the file after a save is a function of the arguments only, never of what the file held before:
   O_TRUNC makes the write a replacement (a second, smaller dump to the same path leaves no stale tail) *)
Theorem write_replaces_content {data : Type} (sf : bool) (d : data) (dump_ok : bool) u m (c1 c2 : content data) :
  write_mapping sf d true dump_ok (mkFs u (Some (m, c1))) = write_mapping sf d true dump_ok (mkFs u (Some (m, c2)))
  \/ (sf = true /\ dump_ok = false).
Proof. destruct sf, dump_ok; cbn; auto. Qed.

Theorem saved_content_is_the_dump {data : Type} (sf : bool) (d : data) (open_ok dump_ok : bool) (st : fs data) o st' :
  write_mapping sf d open_ok dump_ok st = (o, st') -> o = Saved ->
  exists m, fs_file st' = Some (m, CData d).
Proof.
  intros H Ho. pose proof (write_mapping_spec sf d open_ok dump_ok st) as Hm. rewrite H in Hm.
  destruct Hm as (_ & _ & Hs & _). destruct (Hs Ho) as (m & Hf & _). now exists m.
Qed.

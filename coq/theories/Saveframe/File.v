(* M15/M9 - `_saveframe._open_file` over a small file-system step model:
   the process umask and the target path (absent, or a regular file with permission bits and
   content).  Oracle arguments: whether os.open succeeds, whether the body (pickle.dump of the
   whole mapping) succeeds.  Model only. *)
From Coq Require Import NArith List Bool.
Import ListNotations.

Section FS.
Variable data : Type.                     (* what a complete save writes *)

Inductive content := COld | CTruncated | CData (d : data).
(* COld: whatever a pre-existing file held; CTruncated: O_TRUNC happened, the dump did not complete *)

Record fs := mkFs { fs_umask : N; fs_file : option (N * content) }.   (* permission bits, content *)

(* os.umask(m): sets the mask, returns the previous one *)
Definition sys_umask (m : N) (st : fs) : N * fs := (fs_umask st, mkFs m (fs_file st)).

(* os.open(path, O_WRONLY | O_CREAT | O_TRUNC, mode):
   an existing file is truncated and keeps its permission bits; a new one gets mode & ~umask *)
Definition sys_open_creat_trunc (mode : N) (ok : bool) (st : fs) : bool * fs :=
  if ok then
    (true, mkFs (fs_umask st)
                (Some (match fs_file st with
                       | Some (m, _) => (m, CTruncated)
                       | None => (N.ldiff mode (fs_umask st), CTruncated)
                       end)))
  else (false, st).

(* pickle.dump(..., f) followed by close *)
Definition sys_write_all (d : data) (ok : bool) (st : fs) : fs :=
  if ok then mkFs (fs_umask st) (match fs_file st with Some (m, _) => Some (m, CData d) | None => None end)
  else st.

Definition FILE_PERMISSION : N := 420.      (* 0o644 *)

Inductive outcome := Saved | OpenFailed | BodyFailed.

(*  old_umask = os.umask(0)
    try:
        fd = os.open(filename, os.O_WRONLY | os.O_CREAT | os.O_TRUNC, FILE_PERMISSION)
        file_obj = os.fdopen(fd, mode)
        yield file_obj
    finally:
        ... close ...
        os.umask(old_umask)                                                         *)
Definition open_file_and_dump (d : data) (open_ok body_ok : bool) (st : fs) : outcome * fs :=
  let '(old, st1) := sys_umask 0 st in
  let '(opened, st2) := sys_open_creat_trunc FILE_PERMISSION open_ok st1 in
  let '(o, st3) := if opened then (if body_ok then (Saved, sys_write_all d true st2) else (BodyFailed, st2))
                   else (OpenFailed, st2) in
  (o, snd (sys_umask old st3)).

End FS.
Arguments COld {data}.
Arguments CTruncated {data}.
Arguments CData {data} d.
Arguments mkFs {data} fs_umask fs_file.
Arguments fs_umask {data} f.
Arguments fs_file {data} f.
Arguments open_file_and_dump {data} d open_ok body_ok st.
Arguments sys_umask {data} m st.
Arguments sys_open_creat_trunc {data} mode ok st.
Arguments sys_write_all {data} d ok st.

(* Proofs about Saveframe/Select.v *)
From Coq Require Import NArith ZArith List Bool Arith Lia Sorting.Sorted.
From Verif Require Import Base.Chars Base.StrX Base.StrXProofs Saveframe.Select.
Import ListNotations.

(* ---------------------------------------------------------------------------------------- *)
(* four_candidates_suffice *)

Lemma absdiff_le_extremes f0 f1 l0 l1 i j :
  f0 <= i <= f1 -> l0 <= j <= l1 ->
  absdiff i j <= Nat.max (Nat.max (absdiff f0 l0) (absdiff f0 l1)) (Nat.max (absdiff f1 l0) (absdiff f1 l1)).
Proof.
  intros Hi Hj. unfold absdiff.
  destruct (i <=? j) eqn:E1; destruct (f0 <=? l0) eqn:E2; destruct (f0 <=? l1) eqn:E3;
  destruct (f1 <=? l0) eqn:E4; destruct (f1 <=? l1) eqn:E5;
  repeat match goal with
         | H : (_ <=? _) = true |- _ => apply Nat.leb_le in H
         | H : (_ <=? _) = false |- _ => apply Nat.leb_gt in H
         end; lia.
Qed.

Lemma chosen_is_max f0 f1 l0 l1 :
  fst (chosen f0 f1 l0 l1) =
  Nat.max (Nat.max (absdiff f0 l0) (absdiff f0 l1)) (Nat.max (absdiff f1 l0) (absdiff f1 l1)).
Proof.
  unfold chosen; cbn [argmax fst].
  repeat match goal with |- context [?a <? ?b] => destruct (Nat.ltb_spec a b); cbn [fst] end; lia.
Qed.

(* the pair the code picks is one of the four candidates, with its own distance *)
Lemma chosen_is_candidate f0 f1 l0 l1 :
  let c := chosen f0 f1 l0 l1 in
  (fst (snd c) = f0 \/ fst (snd c) = f1) /\ (snd (snd c) = l0 \/ snd (snd c) = l1) /\
  fst c = absdiff (fst (snd c)) (snd (snd c)).
Proof.
  unfold chosen; cbn [argmax fst].
  repeat match goal with |- context [?a <? ?b] => destruct (Nat.ltb_spec a b); cbn [fst snd] end; auto.
Qed.

(* the maximum of |i-j| over all pairs of matches is attained at the extreme matches the code compares *)
Theorem four_candidates_suffice f0 f1 l0 l1 i j :
  f0 <= i <= f1 -> l0 <= j <= l1 -> absdiff i j <= fst (chosen f0 f1 l0 l1).
Proof. intros; rewrite chosen_is_max; apply absdiff_le_extremes; assumption. Qed.

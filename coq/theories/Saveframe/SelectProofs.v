(* Proofs about Saveframe/Select.v *)
From Coq Require Import NArith ZArith List Bool Arith Lia Sorting.Sorted.
From Verif Require Import Base.Chars Base.StrX Base.StrXProofs Saveframe.Select.
Import ListNotations.

(* ---------------------------------------------------------------------------------------- *)
(* four_candidates_suffice *)

Lemma absdiff_le_extremes f0 f1 l0 l1 i j :
  f0 <= i <= f1 -> l0 <= j <= l1 ->
  absdiff i j <= Nat.max (Nat.max (absdiff f0 l0) (absdiff f0 l1)) (Nat.max (absdiff f1 l0) (absdiff f1 l1)).
Proof.
  intros Hi Hj. unfold absdiff.
  destruct (i <=? j) eqn:E1; destruct (f0 <=? l0) eqn:E2; destruct (f0 <=? l1) eqn:E3;
  destruct (f1 <=? l0) eqn:E4; destruct (f1 <=? l1) eqn:E5;
  repeat match goal with
         | H : (_ <=? _) = true |- _ => apply Nat.leb_le in H
         | H : (_ <=? _) = false |- _ => apply Nat.leb_gt in H
         end; lia.
Qed.

Lemma chosen_is_max f0 f1 l0 l1 :
  fst (chosen f0 f1 l0 l1) =
  Nat.max (Nat.max (absdiff f0 l0) (absdiff f0 l1)) (Nat.max (absdiff f1 l0) (absdiff f1 l1)).
Proof.
  unfold chosen; cbn [argmax fst].
  repeat match goal with |- context [?a <? ?b] => destruct (Nat.ltb_spec a b); cbn [fst] end; lia.
Qed.

(* the pair the code picks is one of the four candidates, with its own distance *)
Lemma chosen_is_candidate f0 f1 l0 l1 :
  let c := chosen f0 f1 l0 l1 in
  (fst (snd c) = f0 \/ fst (snd c) = f1) /\ (snd (snd c) = l0 \/ snd (snd c) = l1) /\
  fst c = absdiff (fst (snd c)) (snd (snd c)).
Proof.
  unfold chosen; cbn [argmax fst].
  repeat match goal with |- context [?a <? ?b] => destruct (Nat.ltb_spec a b); cbn [fst snd] end; auto.
Qed.

(* the maximum of |i-j| over all pairs of matches is attained at the extreme matches the code compares *)
Theorem four_candidates_suffice f0 f1 l0 l1 i j :
  f0 <= i <= f1 -> l0 <= j <= l1 -> absdiff i j <= fst (chosen f0 f1 l0 l1).
Proof. intros; rewrite chosen_is_max; apply absdiff_le_extremes; assumption. Qed.

(* ---------------------------------------------------------------------------------------- *)
(* small list facts *)

Lemma StronglySorted_app_mid {A} (R : A -> A -> Prop) l1 x l2 :
  StronglySorted R (l1 ++ x :: l2) -> Forall (R x) l2 /\ (forall y, In y l1 -> R y x).
Proof.
  induction l1 as [| a l1 IH]; cbn [app]; intros H.
  - apply StronglySorted_inv in H. destruct H as [_ H]. split; [assumption | intros y []].
  - apply StronglySorted_inv in H. destruct H as [Hs Hf]. destruct (IH Hs) as [H1 H2]. split; [assumption |].
    intros y [Hy | Hy].
    + subst y. rewrite Forall_forall in Hf. apply Hf. apply in_or_app. right. now left.
    + now apply H2.
Qed.

Lemma StronglySorted_impl_In {A} (R R' : A -> A -> Prop) l :
  StronglySorted R l -> (forall a b, In a l -> In b l -> R a b -> R' a b) -> StronglySorted R' l.
Proof.
  induction 1 as [| a l Hs IH Hf]; intros Himp; constructor.
  - apply IH. intros x y Hx Hy. apply Himp; now right.
  - rewrite Forall_forall in *. intros b Hb. apply Himp; [now left | now right | now apply Hf].
Qed.

Lemma first_with_key (L : list entry) (k : nat) :
  (exists e, In e L /\ fst e = k) ->
  exists L1 x L2, L = L1 ++ x :: L2 /\ fst x = k /\ forall y, In y L1 -> fst y <> k.
Proof.
  induction L as [| a L IH]; intros (e & Hin & Hk); [destruct Hin |].
  destruct (Nat.eq_dec (fst a) k) as [E | E].
  - exists [], a, L. repeat split; [assumption | intros y []].
  - destruct Hin as [-> | Hin]; [contradiction |].
    destruct IH as (L1 & x & L2 & -> & Hx & Hn); [now exists e |].
    exists (a :: L1), x, L2. repeat split; [assumption |]. intros y [<- | Hy]; [assumption | now apply Hn].
Qed.

Lemma mem_N_cons n m s : mem_N n (m :: s) = ((n =? m)%N || mem_N n s).
Proof. reflexivity. Qed.

(* ---------------------------------------------------------------------------------------- *)
(* sorted(...) and the unique-frames loop *)

Definition fid (e : entry) : N := f_id (snd e).
Definition le_e (a b : entry) : Prop := fst a <= fst b.

Lemma insert_entry_In x l e : In e (insert_entry x l) <-> e = x \/ In e l.
Proof.
  induction l as [| y r IH]; cbn [insert_entry].
  - cbn. intuition.
  - destruct (fst x <=? fst y); cbn [In]; [intuition | rewrite IH; intuition].
Qed.

Lemma sort_entries_In l e : In e (sort_entries l) <-> In e l.
Proof.
  induction l as [| x r IH]; cbn [sort_entries]; [reflexivity |].
  rewrite insert_entry_In, IH. cbn. intuition.
Qed.

Lemma insert_entry_sorted x l : StronglySorted le_e l -> StronglySorted le_e (insert_entry x l).
Proof.
  induction 1 as [| y r Hs IH Hf]; cbn [insert_entry].
  - constructor; constructor.
  - destruct (fst x <=? fst y) eqn:E.
    + apply Nat.leb_le in E. constructor; [now constructor |].
      constructor; [exact E |]. rewrite Forall_forall in *. intros b Hb. unfold le_e in *. specialize (Hf b Hb). lia.
    + apply Nat.leb_gt in E. constructor; [assumption |].
      rewrite Forall_forall in *. intros b Hb. apply insert_entry_In in Hb. destruct Hb as [-> | Hb].
      * unfold le_e. lia.
      * now apply Hf.
Qed.

Lemma sort_entries_sorted l : StronglySorted le_e (sort_entries l).
Proof.
  induction l as [| x r IH]; cbn [sort_entries]; [constructor | now apply insert_entry_sorted].
Qed.

Lemma unique_In seen l e : In e (unique_frames seen l) -> In e l /\ mem_N (fid e) seen = false.
Proof.
  revert seen. induction l as [| x r IH]; intros seen; cbn [unique_frames]; [intros [] |].
  destruct (mem_N (f_id (snd x)) seen) eqn:E.
  - intros H. destruct (IH _ H). split; [now right | assumption].
  - intros [<- | H].
    + split; [now left | exact E].
    + destruct (IH _ H) as [H1 H2]. split; [now right |]. rewrite mem_N_cons in H2. now apply orb_false_elim in H2.
Qed.

Lemma unique_spec seen l e :
  In e (unique_frames seen l) <->
  exists l1 l2, l = l1 ++ e :: l2 /\ mem_N (fid e) seen = false /\ forall y, In y l1 -> fid y <> fid e.
Proof.
  revert seen. induction l as [| x r IH]; intros seen; cbn [unique_frames].
  - split; [intros [] | intros (l1 & l2 & H & _)]. now destruct l1.
  - destruct (mem_N (f_id (snd x)) seen) eqn:E.
    + rewrite IH. split.
      * intros (l1 & l2 & -> & Hs & Hn). exists (x :: l1), l2. repeat split; [assumption |].
        intros y [<- | Hy]; [| now apply Hn]. intros Heq. unfold fid in *. rewrite Heq in E. congruence.
      * intros (l1 & l2 & Hl & Hs & Hn). destruct l1 as [| a l1]; cbn [app] in Hl; inversion Hl; subst.
        -- unfold fid in Hs. congruence.
        -- exists l1, l2. repeat split; [assumption |]. intros y Hy. apply Hn. now right.
    + cbn [In]. rewrite IH. split.
      * intros [<- | (l1 & l2 & -> & Hs & Hn)].
        -- exists [], r. repeat split; [exact E | intros y []].
        -- rewrite mem_N_cons in Hs. apply orb_false_elim in Hs. destruct Hs as [Hne Hs].
           exists (x :: l1), l2. repeat split; [assumption |].
           intros y [<- | Hy]; [| now apply Hn]. apply N.eqb_neq in Hne. unfold fid in *. congruence.
      * intros (l1 & l2 & Hl & Hs & Hn). destruct l1 as [| a l1]; cbn [app] in Hl; inversion Hl; subst.
        -- now left.
        -- right. exists l1, l2. repeat split.
           ++ rewrite mem_N_cons, Hs, orb_false_r. apply N.eqb_neq. intros Heq.
              apply (Hn a); [now left | unfold fid in *; congruence].
           ++ intros y Hy. apply Hn. now right.
Qed.

Lemma unique_sorted seen l :
  StronglySorted le_e l ->
  StronglySorted (fun a b => le_e a b /\ fid a <> fid b) (unique_frames seen l).
Proof.
  intros H. revert seen. induction H as [| x r Hs IH Hf]; intros seen; cbn [unique_frames]; [constructor |].
  destruct (mem_N (f_id (snd x)) seen); [apply IH |].
  constructor; [apply IH |]. rewrite Forall_forall in *. intros b Hb.
  apply unique_In in Hb. destruct Hb as [Hb Hm]. split; [now apply Hf |].
  rewrite mem_N_cons in Hm. apply orb_false_elim in Hm. destruct Hm as [Hm _]. apply N.eqb_neq in Hm.
  unfold fid in *. congruence.
Qed.

(* ---------------------------------------------------------------------------------------- *)
(* keys are 1-based positions in the flattened frame list *)

Definition at_ (frames : list frame) (e : entry) : Prop :=
  fst e >= 1 /\ nth_error frames (fst e - 1) = Some (snd e).

Lemma at_key_determines frames a b : at_ frames a -> at_ frames b -> fst a = fst b -> a = b.
Proof.
  destruct a as [i f], b as [j g]. unfold at_. cbn [fst snd]. intros [_ Ha] [_ Hb] ->.
  rewrite Ha in Hb. now inversion Hb.
Qed.

(* the core of LIST and RANGE: sort by index, keep the first index of every frame object *)
Lemma dedup_sorted_spec frames l :
  (forall e, In e l -> at_ frames e) ->
  let r := unique_frames [] (sort_entries l) in
  (forall e, In e r -> at_ frames e) /\
  StronglySorted (fun a b => fst a < fst b) r /\
  (forall e, In e r <-> In e l /\ forall y, In y l -> fst y < fst e -> fid y <> fid e).
Proof.
  intros Hat r.
  assert (Hin : forall e, In e r -> In e l).
  { intros e He. apply unique_In in He. now apply sort_entries_In. }
  split; [intros e He; apply Hat; now apply Hin |]. split.
  - apply StronglySorted_impl_In with (R := fun a b => le_e a b /\ fid a <> fid b).
    + apply unique_sorted, sort_entries_sorted.
    + intros a b Ha Hb [Hle Hne]. unfold le_e in Hle.
      destruct (Nat.eq_dec (fst a) (fst b)) as [E | E]; [| lia].
      exfalso. apply Hne. f_equal. apply (at_key_determines frames); auto.
  - intros e. unfold r. rewrite unique_spec. split.
    + intros (L1 & L2 & HL & _ & Hn).
      assert (HeL : In e (sort_entries l)) by (rewrite HL; apply in_or_app; right; now left).
      split; [now apply sort_entries_In |].
      intros y Hy Hlt. apply sort_entries_In in Hy. rewrite HL in Hy.
      pose proof (sort_entries_sorted l) as Hs. rewrite HL in Hs. apply StronglySorted_app_mid in Hs.
      destruct Hs as [Hafter _]. apply in_app_or in Hy. destruct Hy as [Hy | [<- | Hy]].
      * now apply Hn.
      * lia.
      * rewrite Forall_forall in Hafter. specialize (Hafter y Hy). unfold le_e in Hafter. lia.
    + intros [Hel Hcond].
      destruct (first_with_key (sort_entries l) (fst e)) as (L1 & x & L2 & HL & Hx & Hn).
      { exists e. split; [now apply sort_entries_In | reflexivity]. }
      assert (Hxl : In x l).
      { apply sort_entries_In. rewrite HL. apply in_or_app. right. now left. }
      assert (x = e) by (apply (at_key_determines frames); auto). subst x.
      exists L1, L2. repeat split; [assumption |].
      intros y Hy. pose proof (sort_entries_sorted l) as Hs. rewrite HL in Hs. apply StronglySorted_app_mid in Hs.
      destruct Hs as [_ Hbefore]. specialize (Hbefore y Hy). unfold le_e in Hbefore. specialize (Hn y Hy).
      apply Hcond; [| lia]. apply sort_entries_In. rewrite HL. apply in_or_app. now left.
Qed.

(* ---------------------------------------------------------------------------------------- *)
(* matching *)

(* what one parsed frame denotes: [''] denotes the failing frame; a pattern denotes the frames whose
   file name the regex finds, whose line is the given one (if given and not 0), whose function name
   or qualified name is the given one (if given) *)
Definition pf_selects (rx : rx_oracle) (pf : pframe) (frames : list frame) (e : entry) : Prop :=
  at_ frames e /\ match pf with
                  | POpen => fst e = 1
                  | PPat p => frame_matches rx p (snd e) = Ok true
                  end.

Lemma matching_from_In rx p frames : forall idx l,
  matching_from rx p idx frames = Ok l ->
  forall k f, In (k, f) l <->
    (exists i, nth_error frames i = Some f /\ k = S (idx + i)) /\ frame_matches rx p f = Ok true.
Proof.
  induction frames as [| f0 r IH]; intros idx l; cbn [matching_from].
  - intros H. inversion H. intros k f. split; [intros [] | intros [(i & Hi & _) _]]. now destruct i.
  - destruct (frame_matches rx p f0) as [b |] eqn:Eb; cbn [bind]; [| discriminate].
    destruct (matching_from rx p (S idx) r) as [l' |] eqn:El; cbn [bind]; [| discriminate].
    intros H. inversion H. subst l. clear H. intros k f. specialize (IH _ _ El k f). split.
    + intros Hin.
      assert (Hc : (b = true /\ (k, f) = (S idx, f0)) \/ In (k, f) l').
      { destruct b; [destruct Hin as [Hh | Hh]; [left; split; congruence | now right] | now right]. }
      destruct Hc as [[-> Heq] | Hc].
      * inversion Heq. subst. split; [| assumption]. exists 0. split; [reflexivity | lia].
      * apply IH in Hc. destruct Hc as [(i & Hi & ->) Hm]. split; [| assumption]. exists (S i). split; [exact Hi | lia].
    + intros [(i & Hi & ->) Hm]. destruct i as [| i].
      * cbn in Hi. inversion Hi. subst f0. rewrite Hm in Eb. inversion Eb. subst b. left. f_equal. lia.
      * assert (In (S (idx + S i), f) l').
        { apply IH. split; [| assumption]. exists i. split; [exact Hi | lia]. }
        destruct b; [now right | assumption].
Qed.

Lemma get_all_matching_In rx pf frames l :
  get_all_matching_frames rx pf frames = Ok l -> forall e, In e l <-> pf_selects rx pf frames e.
Proof.
  destruct pf as [p |]; cbn [get_all_matching_frames].
  - intros H [k f]. rewrite (matching_from_In _ _ _ _ _ H). unfold pf_selects, at_. cbn [fst snd]. split.
    + intros [(i & Hi & ->) Hm]. repeat split; [lia | | assumption]. now replace (S (0 + i) - 1) with i by lia.
    + intros [[Hk Hn] Hm]. split; [| assumption]. exists (k - 1). split; [assumption | lia].
  - destruct frames as [| f r]; [discriminate |]. intros H. inversion H. subst l. intros [k g].
    unfold pf_selects, at_. cbn [fst snd In]. split.
    + intros [Heq | []]. inversion Heq. subst. cbn. repeat split; lia.
    + intros [[_ Hn] ->]. cbn in Hn. inversion Hn. now left.
Qed.

Lemma matching_all_In rx ps frames : forall l,
  matching_all rx ps frames = Ok l ->
  forall e, In e l <-> exists pf, In pf ps /\ pf_selects rx pf frames e.
Proof.
  induction ps as [| pf r IH]; intros l; cbn [matching_all].
  - intros H. inversion H. intros e. split; [intros [] | intros (pf & [] & _)].
  - destruct (get_all_matching_frames rx pf frames) as [m |] eqn:Em; cbn [bind]; [| discriminate].
    destruct (matching_all rx r frames) as [l' |] eqn:El; cbn [bind]; [| discriminate].
    intros H. inversion H. subst l. intros e. rewrite in_app_iff, (get_all_matching_In _ _ _ _ Em), (IH _ eq_refl). split.
    + intros [Hs | (pf' & Hin & Hs)]; [exists pf; split; [now left | assumption] | exists pf'; split; [now right | assumption]].
    + intros (pf' & [<- | Hin] & Hs); [now left | right; now exists pf'].
Qed.

(* ---------------------------------------------------------------------------------------- *)
(* selection_spec, LIST *)

Theorem selection_list rx ps frames r :
  get_frames_to_save rx (SList ps) frames = Ok r ->
  let selected e := exists pf, In pf ps /\ pf_selects rx pf frames e in
  (forall e, In e r -> at_ frames e) /\
  StronglySorted (fun a b => fst a < fst b) r /\
  (forall e, In e r <-> selected e /\ forall y, selected y -> fst y < fst e -> fid y <> fid e).
Proof.
  cbn [get_frames_to_save]. destruct (matching_all rx ps frames) as [l |] eqn:El; cbn [bind]; [| discriminate].
  intros H. inversion H. subst r. clear H. cbv zeta.
  pose proof (matching_all_In _ _ _ _ El) as Hl.
  assert (Hat : forall e, In e l -> at_ frames e).
  { intros e He. apply Hl in He. destruct He as (pf & _ & Hs). exact (proj1 Hs). }
  destruct (dedup_sorted_spec frames l Hat) as (H1 & H2 & H3). split; [exact H1 |]. split; [exact H2 |].
  intros e. rewrite H3. rewrite Hl. split.
  - intros [Hs Hc]. split; [assumption |]. intros y Hy. apply Hc. now apply Hl.
  - intros [Hs Hc]. split; [assumption |]. intros y Hy. apply Hc. now apply Hl.
Qed.

(* ---------------------------------------------------------------------------------------- *)
(* selection_spec, RANGE *)

Definition lt_e (a b : entry) : Prop := fst a < fst b.

Lemma matching_from_sorted rx p frames : forall idx l,
  matching_from rx p idx frames = Ok l ->
  StronglySorted lt_e l /\ forall e, In e l -> idx < fst e.
Proof.
  induction frames as [| f0 r IH]; intros idx l; cbn [matching_from].
  - intros H. inversion H. split; [constructor | intros e []].
  - destruct (frame_matches rx p f0) as [b |]; cbn [bind]; [| discriminate].
    destruct (matching_from rx p (S idx) r) as [l' |] eqn:El; cbn [bind]; [| discriminate].
    intros H. inversion H. subst l. destruct (IH _ _ El) as [Hs Hb]. destruct b.
    + split.
      * constructor; [assumption |]. rewrite Forall_forall. intros e He. specialize (Hb e He). unfold lt_e. cbn [fst]. lia.
      * intros e [<- | He]; [cbn; lia | specialize (Hb e He); lia].
    + split; [assumption |]. intros e He. specialize (Hb e He). lia.
Qed.

Lemma get_all_matching_sorted rx pf frames l :
  get_all_matching_frames rx pf frames = Ok l -> StronglySorted lt_e l.
Proof.
  destruct pf as [p |]; cbn [get_all_matching_frames].
  - intros H. exact (proj1 (matching_from_sorted _ _ _ _ _ H)).
  - destruct frames; [discriminate |]. intros H. inversion H. constructor; constructor.
Qed.

Lemma sorted_last (d : entry) : forall (r : list entry) (x : entry),
  StronglySorted lt_e (x :: r) ->
  In (last (x :: r) d) (x :: r) /\ forall e, In e (x :: r) -> fst e <= fst (last (x :: r) d).
Proof.
  induction r as [| y r IH]; intros x Hs.
  - cbn. split; [now left | intros e [<- | []]; lia].
  - apply StronglySorted_inv in Hs. destruct Hs as [Hs Hf]. destruct (IH y Hs) as [H1 H2].
    change (last (x :: y :: r) d) with (last (y :: r) d). split; [now right |].
    intros e [<- | He]; [| now apply H2].
    rewrite Forall_forall in Hf. specialize (Hf y (or_introl eq_refl)). specialize (H2 y (or_introl eq_refl)).
    unfold lt_e in Hf. lia.
Qed.

Lemma sorted_first_last (l : list entry) :
  l <> [] -> StronglySorted lt_e l ->
  (exists e, In e l /\ fst e = first_idx l) /\ (exists e, In e l /\ fst e = last_idx l) /\
  forall e, In e l -> first_idx l <= fst e <= last_idx l.
Proof.
  destruct l as [| x r]; [congruence |]. intros _ Hs. unfold first_idx, last_idx. cbn [hd].
  destruct (sorted_last (0, mkFrame [] 0 [] [] 0 [] [] []) r x Hs) as [H1 H2].
  split; [exists x; split; [now left | reflexivity] |]. split; [eexists; split; [exact H1 | reflexivity] |].
  intros e He. split; [| now apply H2].
  destruct He as [<- | He]; [lia |]. apply StronglySorted_inv in Hs. destruct Hs as [_ Hf].
  rewrite Forall_forall in Hf. specialize (Hf e He). unfold lt_e in Hf. lia.
Qed.

Lemma In_combine_seq (L : list frame) : forall n lo k f,
  In (k, f) (combine (seq lo n) L) <-> exists i, i < n /\ nth_error L i = Some f /\ k = lo + i.
Proof.
  induction L as [| a L IH]; intros n lo k f.
  - rewrite combine_nil. split; [intros [] | intros (i & _ & Hi & _)]. now destruct i.
  - destruct n as [| n]; cbn [seq combine].
    + split; [intros [] | intros (i & Hi & _)]. lia.
    + cbn [In]. rewrite IH. split.
      * intros [Heq | (i & Hi & Hn & ->)].
        -- inversion Heq. subst. exists 0. repeat split; [lia | lia].
        -- exists (S i). repeat split; [lia | assumption | lia].
      * intros (i & Hi & Hn & ->). destruct i as [| i].
        -- left. cbn in Hn. inversion Hn. f_equal. lia.
        -- right. exists i. repeat split; [lia | assumption | lia].
Qed.

Lemma nth_error_firstn_lt {A} (l : list A) : forall n i, i < n -> nth_error (firstn n l) i = nth_error l i.
Proof.
  induction l as [| a l IH]; intros n i Hi.
  - now rewrite firstn_nil.
  - destruct n as [| n]; [lia |]. destruct i as [| i]; [reflexivity |]. cbn. apply IH. lia.
Qed.

Lemma nth_error_skipn_add {A} (l : list A) : forall s i, nth_error (skipn s l) i = nth_error l (s + i).
Proof.
  induction l as [| a l IH]; intros s i.
  - rewrite skipn_nil. now destruct i, s.
  - destruct s as [| s]; [reflexivity |]. cbn. apply IH.
Qed.

Lemma slice_In lo hi frames e :
  1 <= lo -> In e (slice lo hi frames) <-> at_ frames e /\ lo <= fst e <= hi.
Proof.
  intros Hlo. destruct e as [k f]. unfold slice, at_. cbn [fst snd]. rewrite In_combine_seq. split.
  - intros (i & Hi & Hn & ->). rewrite nth_error_firstn_lt, nth_error_skipn_add in Hn by assumption.
    repeat split; try lia. now replace (lo + i - 1) with (lo - 1 + i) by lia.
  - intros [[Hk Hn] [H1 H2]]. exists (k - lo). repeat split; try lia.
    rewrite nth_error_firstn_lt, nth_error_skipn_add by lia. now replace (lo - 1 + (k - lo)) with (k - 1) by lia.
Qed.

Lemma absdiff_min_max a b : Nat.max a b - Nat.min a b = absdiff a b.
Proof. unfold absdiff. destruct (a <=? b) eqn:E; [apply Nat.leb_le in E | apply Nat.leb_gt in E]; lia. Qed.

(* RANGE: the saved frames are those of the index interval [lo, hi] whose ends are a frame denoted by
   the first pattern and a frame denoted by the second, and no such pair is further apart *)
Theorem selection_range rx p q frames r :
  get_frames_to_save rx (SRange p q) frames = Ok r ->
  exists ei ej,
    pf_selects rx p frames ei /\ pf_selects rx q frames ej /\
    (forall ei' ej', pf_selects rx p frames ei' -> pf_selects rx q frames ej' ->
                     absdiff (fst ei') (fst ej') <= absdiff (fst ei) (fst ej)) /\
    let lo := Nat.min (fst ei) (fst ej) in
    let hi := Nat.max (fst ei) (fst ej) in
    let selected e := at_ frames e /\ lo <= fst e <= hi in
    (forall e, In e r -> at_ frames e) /\
    StronglySorted (fun a b => fst a < fst b) r /\
    (forall e, In e r <-> selected e /\ forall y, selected y -> fst y < fst e -> fid y <> fid e).
Proof.
  cbn [get_frames_to_save].
  destruct (get_all_matching_frames rx p frames) as [fm |] eqn:Ef; cbn [bind]; [| discriminate].
  destruct fm as [| f0 fm']; [discriminate |].
  destruct (get_all_matching_frames rx q frames) as [lm |] eqn:El; cbn [bind]; [| discriminate].
  destruct lm as [| l0 lm']; [discriminate |].
  set (fm := f0 :: fm') in *. set (lm := l0 :: lm') in *.
  intros H. inversion H. subst r. clear H.
  destruct (sorted_first_last fm) as ((ea & Ha & Hak) & (eb & Hb & Hbk) & Hfb); [discriminate | now apply (get_all_matching_sorted rx p frames) |].
  destruct (sorted_first_last lm) as ((ec & Hc & Hck) & (ed & Hd & Hdk) & Hlb); [discriminate | now apply (get_all_matching_sorted rx q frames) |].
  pose proof (get_all_matching_In _ _ _ _ Ef) as HF. pose proof (get_all_matching_In _ _ _ _ El) as HL.
  set (c := chosen (first_idx fm) (last_idx fm) (first_idx lm) (last_idx lm)) in *.
  destruct (chosen_is_candidate (first_idx fm) (last_idx fm) (first_idx lm) (last_idx lm)) as (Hc1 & Hc2 & Hc3).
  fold c in Hc1, Hc2, Hc3.
  assert (Hi : exists ei, In ei fm /\ fst ei = fst (snd c)).
  { destruct Hc1 as [-> | ->]; [now exists ea | now exists eb]. }
  assert (Hj : exists ej, In ej lm /\ fst ej = snd (snd c)).
  { destruct Hc2 as [-> | ->]; [now exists ec | now exists ed]. }
  destruct Hi as (ei & Hei & Hik). destruct Hj as (ej & Hej & Hjk).
  exists ei, ej. split; [now apply HF |]. split; [now apply HL |]. split.
  - intros ei' ej' Hi' Hj'. apply HF in Hi'. apply HL in Hj'.
    rewrite Hik, Hjk, <- Hc3. apply four_candidates_suffice; [now apply Hfb | now apply Hlb].
  - rewrite Hik, Hjk. cbv zeta.
    assert (Hlo : 1 <= Nat.min (fst (snd c)) (snd (snd c))).
    { apply HF in Hei. apply HL in Hej. destruct Hei as [[? _] _], Hej as [[? _] _]. lia. }
    assert (Hat : forall e, In e (slice (Nat.min (fst (snd c)) (snd (snd c))) (Nat.max (fst (snd c)) (snd (snd c))) frames) -> at_ frames e).
    { intros e He. apply slice_In in He; [tauto | assumption]. }
    destruct (dedup_sorted_spec frames _ Hat) as (H1 & H2 & H3). split; [exact H1 |]. split; [exact H2 |].
    intros e. rewrite H3. rewrite slice_In by assumption. split.
    + intros [Hs Hcnd]. split; [assumption |]. intros y Hy. apply Hcnd. now apply slice_In.
    + intros [Hs Hcnd]. split; [assumption |]. intros y Hy. apply Hcnd. now apply slice_In in Hy.
Qed.

(* only RANGE refuses a pattern that matches nothing; LIST then saves no frame *)
Theorem selection_range_nomatch rx p q frames :
  (get_all_matching_frames rx p frames = Ok [] \/
   (exists m, m <> [] /\ get_all_matching_frames rx p frames = Ok m) /\ get_all_matching_frames rx q frames = Ok []) ->
  get_frames_to_save rx (SRange p q) frames = Err EValue.
Proof.
  cbn [get_frames_to_save]. intros [H | [(m & Hm & H1) H2]].
  - now rewrite H.
  - rewrite H1. cbn [bind]. destruct m; [congruence |]. now rewrite H2.
Qed.

Theorem selection_list_nomatch rx ps frames r :
  get_frames_to_save rx (SList ps) frames = Ok r ->
  (forall pf e, In pf ps -> ~ pf_selects rx pf frames e) -> r = [].
Proof.
  intros H Hno. destruct (selection_list _ _ _ _ H) as (_ & _ & H3).
  destruct r as [| e r]; [reflexivity |]. exfalso.
  destruct (proj1 (H3 e) (or_introl eq_refl)) as [(pf & Hin & Hs) _]. exact (Hno pf e Hin Hs).
Qed.

(* ---------------------------------------------------------------------------------------- *)
(* selection_spec, NUM and None; keys_are_distances for every selector *)

Theorem selection_num n frames r :
  get_frames_to_save (fun _ _ => RxMiss) (SNum n) frames = Ok r ->
  (forall rx, get_frames_to_save rx (SNum n) frames = Ok r) /\
  StronglySorted (fun a b => fst a < fst b) r /\
  (forall e, In e r <-> at_ frames e /\ (Z.of_nat (fst e) <= n)%Z).
Proof.
  cbn [get_frames_to_save]. intros H. inversion H. clear H. split; [reflexivity |]. split.
  - set (k := Z.to_nat (Z.min n (Z.of_nat (length frames)))). generalize 1 at 1. generalize k. clear.
    intros k. revert k. induction frames as [| f fr IH]; intros k s.
    + rewrite firstn_nil, combine_nil. constructor.
    + destruct k as [| k]; cbn [seq firstn combine]; [constructor |].
      constructor; [apply IH |]. rewrite Forall_forall. intros [j g] Hj. apply In_combine_seq in Hj.
      destruct Hj as (i & _ & _ & ->). cbn [fst]. lia.
  - intros [k f]. rewrite In_combine_seq. unfold at_. cbn [fst snd]. split.
    + intros (i & Hi & Hn & ->). rewrite nth_error_firstn_lt in Hn by assumption.
      repeat split; [lia | now replace (1 + i - 1) with i by lia | lia].
    + intros [[Hk Hn] Hle]. exists (k - 1).
      assert (k - 1 < length frames) by (apply nth_error_Some; congruence).
      repeat split; [lia | | lia]. rewrite nth_error_firstn_lt by lia. assumption.
Qed.

Theorem selection_none rx frames r :
  get_frames_to_save rx SNone frames = Ok r -> exists f, nth_error frames 0 = Some f /\ r = [(1, f)].
Proof.
  cbn [get_frames_to_save]. destruct frames as [| f fr]; [discriminate |]. intros H. inversion H. now exists f.
Qed.

(* key = 1-based distance from the failing frame, keys strictly increasing (so: distinct) *)
Theorem keys_are_distances rx sel frames r :
  get_frames_to_save rx sel frames = Ok r ->
  (forall k f, In (k, f) r -> k >= 1 /\ nth_error frames (k - 1) = Some f) /\
  StronglySorted (fun a b => fst a < fst b) r.
Proof.
  intros H. assert (G : (forall e, In e r -> at_ frames e) /\ StronglySorted (fun a b => fst a < fst b) r).
  { destruct sel as [| n | ps | p q].
    - apply selection_none in H. destruct H as (f & Hf & ->). split.
      + intros e [<- | []]. split; [cbn; lia | exact Hf].
      + constructor; constructor.
    - assert (H' : get_frames_to_save (fun _ _ => RxMiss) (SNum n) frames = Ok r) by exact H.
      destruct (selection_num _ _ _ H') as (_ & Hs & Hi). split; [| exact Hs]. intros e He. now apply Hi in He.
    - destruct (selection_list _ _ _ _ H) as (H1 & H2 & _). now split.
    - destruct (selection_range _ _ _ _ _ H) as (ei & ej & _ & _ & _ & H1 & H2 & _). now split. }
  destruct G as [G1 G2]. split; [| exact G2]. intros k f Hin. exact (G1 (k, f) Hin).
Qed.

(* first index kept for a frame object repeated across a chain (LIST and RANGE) *)
Theorem first_index_kept rx sel frames r :
  (exists ps, sel = SList ps) \/ (exists p q, sel = SRange p q) ->
  get_frames_to_save rx sel frames = Ok r ->
  forall a b, In a r -> In b r -> fid a = fid b -> a = b.
Proof.
  intros Hsel H a b Ha Hb Hid.
  assert (G : exists selected : entry -> Prop,
             forall e, In e r <-> selected e /\ forall y, selected y -> fst y < fst e -> fid y <> fid e).
  { destruct Hsel as [(ps & ->) | (p & q & ->)].
    - destruct (selection_list _ _ _ _ H) as (_ & _ & H3). eexists. exact H3.
    - destruct (selection_range _ _ _ _ _ H) as (ei & ej & _ & _ & _ & _ & _ & H3). eexists. exact H3. }
  destruct G as (selected & G).
  destruct (proj1 (G a) Ha) as [Sa Ca]. destruct (proj1 (G b) Hb) as [Sb Cb].
  destruct (Nat.lt_trichotomy (fst a) (fst b)) as [L | [E | L]].
  - exfalso. exact (Cb a Sa L Hid).
  - destruct (keys_are_distances _ _ _ _ H) as [K _].
    destruct a as [i f], b as [j g]. cbn [fst] in E. subst j.
    destruct (K _ _ Ha) as [_ K1]. destruct (K _ _ Hb) as [_ K2]. rewrite K1 in K2. now inversion K2.
  - exfalso. exact (Ca b Sb L (eq_sym Hid)).
Qed.

(* the flattened list starts at the failing frame of the outermost exception: a frame d calls below
   the raise point has index d + 1 *)
Theorem chain_distance tb cause context d :
  d < length tb ->
  nth_error (all_frames_from_exception (Exn tb cause context)) d = nth_error (rev tb) d.
Proof.
  intros Hd. cbn [all_frames_from_exception]. apply nth_error_app1. now rewrite rev_length.
Qed.

Theorem chain_continues tb cause context d :
  nth_error (all_frames_from_exception (Exn tb cause context)) (length tb + d) =
  match cause, context with
  | Some c, _ => nth_error (all_frames_from_exception c) d
  | None, Some c => nth_error (all_frames_from_exception c) d
  | None, None => None
  end.
Proof.
  cbn [all_frames_from_exception]. rewrite nth_error_app2 by (rewrite rev_length; lia).
  rewrite rev_length. replace (length tb + d - length tb) with d by lia.
  destruct cause as [c |]; [reflexivity |]. destruct context as [c |]; [reflexivity |]. now destruct d.
Qed.

(* ---------------------------------------------------------------------------------------- *)
(* _validate_frames: shape of what it returns *)

Definition is_pat (pf : pframe) : Prop := match pf with PPat _ => True | POpen => False end.

(* [''] (the missing last frame) only ever comes out of the second place of a range *)
Definition wf_selector (sel : selector) : Prop :=
  match sel with
  | SNone | SNum _ => True
  | SList ps => Forall is_pat ps /\ ps <> []
  | SRange p q => is_pat p
  end.

Lemma parse_frame_open is_range idx f :
  parse_frame is_range idx f = Ok POpen -> idx = 1 /\ is_range = true.
Proof.
  unfold parse_frame.
  repeat match goal with
         | |- context [match ?x with _ => _ end] => destruct x eqn:?; try discriminate
         | |- context [if ?x then _ else _] => destruct x eqn:?; try discriminate
         end.
  intros _. match goal with H : (_ && _)%bool = true |- _ => apply andb_prop in H; destruct H as [H1 H2] end.
  apply Nat.eqb_eq in H1. now split.
Qed.

Lemma parse_frames_false_pats : forall l idx ps,
  parse_frames false idx l = Ok ps -> Forall is_pat ps /\ length ps = length l.
Proof.
  induction l as [| f r IH]; intros idx ps; cbn [parse_frames].
  - intros H. inversion H. split; [constructor | reflexivity].
  - destruct (parse_frame false idx f) as [p |] eqn:Ep; cbn [bind]; [| discriminate].
    destruct p as [p |].
    + destruct (parse_frames false (S idx) r) as [ps' |] eqn:Er; cbn [bind]; [| discriminate].
      intros H. inversion H. subst ps. destruct (IH _ _ Er) as [G1 G2]. split; [constructor; [exact I | exact G1] | cbn [length]; lia].
    + apply parse_frame_open in Ep. destruct Ep; discriminate.
Qed.

Lemma validate_frames_str_wf s sel : validate_frames_str s = Ok sel -> wf_selector sel.
Proof.
  unfold validate_frames_str.
  assert (HL : forall l, l <> [] -> forall sel, bind (parse_frames false 0 l) (fun ps => Ok (SList ps)) = Ok sel -> wf_selector sel).
  { intros l Hl sel0. destruct (parse_frames false 0 l) as [ps |] eqn:Ep; cbn [bind]; [| discriminate].
    intros H. inversion H. destruct (parse_frames_false_pats _ _ _ Ep) as [G1 G2]. split; [exact G1 |].
    intros ->. destruct l; [congruence | discriminate]. }
  destruct (map strip (split_on c_comma s)) as [| x [| y t]] eqn:Ec.
  - intros H. cbn [parse_frames bind] in H. inversion H. subst sel.
    exfalso. apply (split_on_nonempty c_comma s). now destruct (split_on c_comma s).
  - destruct (map strip (split_dd s)) as [| a [| b [| c t]]]; try discriminate.
    + apply HL. discriminate.
    + cbn [parse_frames]. destruct (parse_frame true 0 a) as [p |] eqn:Ea; cbn [bind]; [| discriminate].
      destruct p as [p |].
      * destruct (parse_frame true 1 b) as [q |]; cbn [bind]; [| discriminate].
        destruct q; cbn [bind]; intros H; inversion H; exact I.
      * apply parse_frame_open in Ea. destruct Ea; discriminate.
  - apply HL. discriminate.
Qed.

Theorem validate_frames_wf script a sel : validate_frames script a = Ok sel -> wf_selector sel.
Proof.
  destruct a as [| z | s | l]; cbn [validate_frames].
  - intros H. inversion H. exact I.
  - intros H. inversion H. exact I.
  - destruct (py_int s); [intros H; inversion H; exact I |].
    destruct (mem_ch c_comma s && negb script); [discriminate | apply validate_frames_str_wf].
  - destruct (existsb (mem_ch c_comma) l); [discriminate | apply validate_frames_str_wf].
Qed.

(* the model's "oracle missing" value is never produced by validation *)
Theorem validate_frames_no_oracle_error script a : validate_frames script a <> Err EOracle.
Proof.
  assert (P : forall r idx f, parse_frame r idx f <> Err EOracle).
  { intros r idx f. unfold parse_frame.
    repeat match goal with
           | |- context [match ?x with _ => _ end] => destruct x eqn:?; try discriminate
           | |- context [if ?x then _ else _] => destruct x eqn:?; try discriminate
           end. }
  assert (Q : forall r l idx, parse_frames r idx l <> Err EOracle).
  { intros r l. induction l as [| f t IH]; intros idx; cbn [parse_frames]; [discriminate |].
    destruct (parse_frame r idx f) as [p |] eqn:Ep; cbn [bind]; [| intros H; apply (P r idx f); congruence].
    destruct p; [| discriminate].
    destruct (parse_frames r (S idx) t) eqn:Et; cbn [bind]; [discriminate | intros H; apply (IH (S idx)); congruence]. }
  assert (R : forall s, validate_frames_str s <> Err EOracle).
  { intros s. unfold validate_frames_str.
    assert (HL : forall l, bind (parse_frames false 0 l) (fun ps => Ok (SList ps)) <> Err EOracle).
    { intros l. destruct (parse_frames false 0 l) eqn:E; cbn [bind]; [discriminate | intros H; apply (Q false l 0); congruence]. }
    destruct (map strip (split_on c_comma s)) as [| x [| y t]]; [apply HL | | apply HL].
    destruct (map strip (split_dd s)) as [| a0 [| b [| c t]]]; try discriminate; [apply HL |].
    cbn [parse_frames]. destruct (parse_frame true 0 a0) as [p |] eqn:Ea; cbn [bind]; [| intros H; apply (P true 0 a0); congruence].
    destruct p as [p |].
    - destruct (parse_frame true 1 b) as [q |] eqn:Eb; cbn [bind]; [| intros H; apply (P true 1 b); congruence].
      destruct q; cbn [bind]; discriminate.
    - apply parse_frame_open in Ea. destruct Ea; discriminate. }
  destruct a as [| z | s | l]; cbn [validate_frames]; try discriminate.
  - destruct (py_int s); [discriminate |]. destruct (mem_ch c_comma s && negb script); [discriminate | apply R].
  - destruct (existsb (mem_ch c_comma) l); [discriminate | apply R].
Qed.

(* M15 (part 3) - the composition: _validate_saveframe_arguments, saveframe (the debugger default
   for `frames`), _save_frames_and_exception_info_to_file.  Model only. *)
From Coq Require Import NArith ZArith List Bool.
From Verif Require Import Base.Chars Base.StrX Saveframe.Select Saveframe.Vars Saveframe.File.
Import ListNotations.

(*  filename = _validate_filename(filename, utility)          (not modelled: the harness passes a valid path)
    frames = _validate_frames(frames, utility)
    if variables and exclude_variables: raise ValueError
    variables = _validate_variables(variables, utility)
    exclude_variables = _validate_variables(exclude_variables, utility)                 *)
Definition validate_arguments (valid : str -> bool) (script : bool)
           (fa : frames_arg) (va ea : vars_arg) : res (selector * option (list str) * option (list str)) :=
  bind (validate_frames script fa) (fun sel =>
  if vars_arg_truthy va && vars_arg_truthy ea then Err EValue
  else bind (validate_variables valid script va) (fun inc =>
       bind (validate_variables valid script ea) (fun exc => Ok (sel, inc, exc)))).

(*  if frames is None:
        interactive_session_obj = sys._getframe().f_back.f_back.f_locals.get('self')
        if interactive_session_obj and hasattr(interactive_session_obj, 'curframe'):
            current_frame = interactive_session_obj.curframe
            frames = f"{co_filename}:{f_lineno}:{_get_qualname(current_frame)}"            *)
(* re.escape (Python >= 3.7): a backslash before each of  ()[]{}?*+-|^$\.&~# and ASCII whitespace *)
Definition re_special (c : ch) : bool :=
  mem_ch c [40; 41; 91; 93; 123; 125; 63; 42; 43; 45; 124; 94; 36; 92; 46; 38; 126; 35; 32; 9; 10; 13; 11; 12]%N.
Definition re_escape (s : str) : str := flat_map (fun c => if re_special c then [c_bslash; c] else [c]) s.

(* `escaped` = false: the code as it is (known finding C17-N2: the file name is used as a regex);
   `escaped` = true: the code repaired by fixes/C17N2-*.diff (re.escape(co_filename)).  The harness
   chooses by the status of C17-N2 in known_findings. *)
Definition default_frames (escaped : bool) (fa : frames_arg) (curframe : option frame) : frames_arg :=
  match fa, curframe with
  | FNone, Some f => FStr ((if escaped then re_escape (f_file f) else f_file f)
                           ++ c_colon :: str_of_Z (f_line f) ++ c_colon :: f_qual f)
  | _, _ => fa
  end.

(*  all_frames = _get_all_frames_from_exception_obj(exception_obj)
    frames_to_save = _get_frames_to_save(frames, all_frames)
    for frame_idx, frame_obj in frames_to_save:
        frames_and_exception_info[frame_idx] = _get_frame_metadata(frame_idx, frame_obj).__dict__
        frames_and_exception_info[frame_idx]['variables'] = _get_frame_local_variables_data(...)  *)
Definition frames_and_info (rx : rx_oracle) (pk : N -> bool) (sel : selector)
           (inc exc : option (list str)) (e : exn) : res (list saved_frame) :=
  bind (get_frames_to_save rx sel (all_frames_from_exception e)) (fun l =>
  Ok (map (frame_metadata pk inc exc) l)).

Definition saved := list saved_frame.      (* the int-keyed part of the pickled mapping, in dict order *)

(*  with _open_file(filename, 'wb') as f:
        pickle.dump(frames_and_exception_info, f, protocol=PICKLE_PROTOCOL)
    and, as repaired by fixes/C17N1-*.diff (`serialize_first`):
    pickled_data = pickle.dumps(frames_and_exception_info, protocol=PICKLE_PROTOCOL)
    with _open_file(filename, 'wb') as f:
        f.write(pickled_data)                                                             *)
Definition write_mapping {data : Type} (serialize_first : bool) (d : data) (open_ok dump_ok : bool)
           (st : fs data) : outcome * fs data :=
  if serialize_first then (if dump_ok then open_file_and_dump d open_ok true st else (BodyFailed, st))
  else open_file_and_dump d open_ok dump_ok st.

(* _get_exception_info, repaired: the exception object is stored only if pickle.dumps(exception_obj)
   succeeds, otherwise the placeholder string; unrepaired: always the object *)
Definition exception_object_stored (n1_repaired exc_pk : bool) : bool := negb n1_repaired || exc_pk.
(* ... hence whether the dump of the whole mapping succeeds *)
Definition mapping_dump_ok (n1_repaired exc_pk : bool) : bool := n1_repaired || exc_pk.

(* saveframe(filename, frames, variables, exclude_variables) / bin/saveframe main():
   validation, selection and per-variable pickling happen before the file is opened;
   `exc_pk` = the exception object can be pickled.  `escaped` / `n1_repaired` select the behaviour
   before / after fixes/C17N2-*.diff and fixes/C17N1-*.diff (chosen by the harness from the status of
   the findings) *)
Definition saveframe (rx : rx_oracle) (valid : str -> bool) (pk : N -> bool) (script escaped n1_repaired : bool)
           (fa : frames_arg) (va ea : vars_arg) (curframe : option frame) (e : exn)
           (open_ok exc_pk : bool) (st : fs saved) : res (outcome * saved) * fs saved :=
  match bind (validate_arguments valid script (default_frames escaped fa curframe) va ea) (fun '(sel, inc, exc) =>
             frames_and_info rx pk sel inc exc e) with
  | Err er => (Err er, st)
  | Ok d => let '(o, st') := write_mapping n1_repaired d open_ok (mapping_dump_ok n1_repaired exc_pk) st in
            (Ok (o, d), st')
  end.

(* M15 (part 1) - frame selection of pyflyby.saveframe:
     lib/python/pyflyby/_saveframe.py  _validate_frames, _get_all_matching_frames,
     _get_frames_to_save, _get_all_frames_from_exception_obj.
   Model only (no proofs).  Oracle arguments: the result of re.search per (pattern, filename)
   (match / no match / re.error), fed by the harness from the calls the implementation made. *)
From Coq Require Import NArith ZArith List Bool Arith.
From Verif Require Import Base.Chars Base.StrX.
Import ListNotations.

(* ---------------------------------------------------------------------------------------- *)
(* outcomes: the exception classes that can escape from the modelled functions *)

Inductive err := EValue | EIndex | EType | ERegex | EOracle.   (* EOracle: the harness did not supply an oracle value *)
Inductive res (A : Type) := Ok (a : A) | Err (e : err).
Arguments Ok {A} a.
Arguments Err {A} e.

Definition bind {A B} (r : res A) (f : A -> res B) : res B :=
  match r with Ok a => f a | Err e => Err e end.

(* ---------------------------------------------------------------------------------------- *)
(* frames and exception chains *)

(* frame object: f_code.co_filename, f_lineno, f_code.co_name, co_qualname, identity of the
   frame object (frames are hashed by identity in `seen_frames`), inspect.getmodule(frame).__name__,
   linecache line (both obtained from the environment, carried through unchanged), f_locals as an
   ordered list name -> value id (a dict: insertion order) *)
Record frame := mkFrame {
  f_file : str; f_line : Z; f_func : str; f_qual : str; f_id : N;
  f_module : str; f_code : str; f_locals : list (str * N) }.

(* exception object: __traceback__ as the list of tb_frame from tb to tb_next (outermost first),
   __cause__, __context__ *)
Inductive exn := Exn (tb : list frame) (cause : option exn) (context : option exn).

(*  current_exception = exception_obj; all_frames = []
    while current_exception:
        ... current_tb_frames.append(traceback.tb_frame) ... traceback = traceback.tb_next
        all_frames.extend(reversed(current_tb_frames))
        current_exception = (current_exception.__cause__ or current_exception.__context__)  *)
Fixpoint all_frames_from_exception (e : exn) : list frame :=
  match e with
  | Exn tb cause context =>
      rev tb ++ match cause with
                | Some c => all_frames_from_exception c
                | None => match context with
                          | Some c => all_frames_from_exception c
                          | None => []
                          end
                end
  end.

(* ---------------------------------------------------------------------------------------- *)
(* Python string helpers used by _validate_frames *)

Definition c_colon : ch := 58%N.
Definition c_plus : ch := 43%N.

(* str.isspace() characters: what str.strip() and int() strip *)
Definition is_py_space (c : ch) : bool :=
  ((9 <=? c) && (c <=? 13) || (28 <=? c) && (c <=? 32) || (c =? 133) || (c =? 160) || (c =? 5760)
   || (8192 <=? c) && (c <=? 8202) || (c =? 8232) || (c =? 8233) || (c =? 8239) || (c =? 8287)
   || (c =? 12288))%N.

Fixpoint lstrip (s : str) : str :=
  match s with
  | [] => []
  | c :: r => if is_py_space c then lstrip r else s
  end.
Definition rstrip (s : str) : str := rev (lstrip (rev s)).
Definition strip (s : str) : str := rstrip (lstrip s).

Definition cons_hd (c : ch) (l : list str) : list str :=
  match l with [] => [[c]] | h :: t => (c :: h) :: t end.

(* s.split('..')  (leftmost, non-overlapping; never the empty list) *)
Fixpoint split_dd (s : str) : list str :=
  match s with
  | [] => [[]]
  | c :: r =>
      match r with
      | d :: r' => if ((c =? c_dot) && (d =? c_dot))%N then [] :: split_dd r'
                   else cons_hd c (split_dd r)
      | [] => [[c]]
      end
  end.

(* int(s) for a str: optional surrounding whitespace, optional sign, ASCII digits with single
   underscores between digits.  (Non-ASCII decimal digits, which int() also accepts, are outside
   the model; the harness checks agreement with the real int() on every string it sends.) *)
Fixpoint int_digits (s : str) (acc : Z) (prev_digit : bool) : option Z :=
  match s with
  | [] => if prev_digit then Some acc else None
  | c :: r => if is_digit c then int_digits r (acc * 10 + Z.of_N (c - 48))%Z true
              else if (c =? c_us)%N then (if prev_digit then int_digits r acc false else None)
              else None
  end.
Definition py_int (s : str) : option Z :=
  let t := strip s in
  match t with
  | [] => None
  | c :: r => if (c =? c_dash)%N then option_map Z.opp (int_digits r 0%Z false)
              else if (c =? c_plus)%N then int_digits r 0%Z false
              else int_digits t 0%Z false
  end.

(* ---------------------------------------------------------------------------------------- *)
(* selectors *)

(* one parsed frame: [file_regex, lineno, function_name] with lineno '' (None) or an int;
   or [''] - the missing last frame of 'first_frame..' *)
Record pat := mkPat { p_re : str; p_line : option Z; p_func : str }.
Inductive pframe := PPat (p : pat) | POpen.

(* value returned by _validate_frames:
     (None, None)                          SNone
     (n, FrameFormat.NUM)                  SNum n
     (parsed_frames, FrameFormat.LIST)     SList parsed_frames
     ([p, q], FrameFormat.RANGE)           SRange p q          ('p..' is SRange p POpen) *)
Inductive selector := SNone | SNum (n : Z) | SList (ps : list pframe) | SRange (p q : pframe).
Definition SOpenRange (p : pat) : selector := SRange (PPat p) POpen.

(* the `frames` argument: None, an int, a str, a list/tuple of str *)
Inductive frames_arg := FNone | FInt (z : Z) | FStr (s : str) | FList (l : list str).

(*  for idx, frame in enumerate(all_frames):
        frame_parts = frame.split(':')
        if idx == 1 and len(frame_parts) == 1 and frame_parts[0] == '' and is_range:
            parsed_frames.append(frame_parts); break
        if len(frame_parts) != 3: raise ValueError
        if not frame_parts[0]: raise ValueError
        if frame_parts[1]:
            try: frame_parts[1] = int(frame_parts[1])
            except ValueError: raise ValueError
        parsed_frames.append(frame_parts)                                               *)
Definition parse_frame (is_range : bool) (idx : nat) (f : str) : res pframe :=
  match split_on c_colon f with
  | [[]] => if (idx =? 1)%nat && is_range then Ok POpen else Err EValue
  | [a; b; c] =>
      match a with
      | [] => Err EValue
      | _ => match b with
             | [] => Ok (PPat (mkPat a None c))
             | _ => match py_int b with
                    | Some z => Ok (PPat (mkPat a (Some z) c))
                    | None => Err EValue
                    end
             end
      end
  | _ => Err EValue
  end.

Fixpoint parse_frames (is_range : bool) (idx : nat) (l : list str) : res (list pframe) :=
  match l with
  | [] => Ok []
  | f :: rest => bind (parse_frame is_range idx f) (fun p =>
                 match p with
                 | POpen => Ok [p]                                    (* break *)
                 | PPat _ => bind (parse_frames is_range (S idx) rest) (fun ps => Ok (p :: ps))
                 end)
  end.

(*  all_frames = [frame.strip() for frame in frames.split(',')]
    if len(all_frames) == 1:
        all_frames = [frame.strip() for frame in frames.split('..')]
        if len(all_frames) > 2: raise ValueError
        elif len(all_frames) == 2: is_range = True
    ... return parsed_frames, FrameFormat.RANGE if is_range else FrameFormat.LIST          *)
Definition validate_frames_str (s : str) : res selector :=
  match map strip (split_on c_comma s) with
  | [_] =>
      match map strip (split_dd s) with
      | [a] => bind (parse_frames false 0 [a]) (fun ps => Ok (SList ps))
      | [a; b] => bind (parse_frames true 0 [a; b]) (fun ps =>
                  match ps with
                  | [p; q] => Ok (SRange p q)
                  | _ => Err EOracle                                   (* unreachable: Select proofs *)
                  end)
      | _ => Err EValue
      end
  | all => bind (parse_frames false 0 all) (fun ps => Ok (SList ps))
  end.

(*  if frames is None: return None, None
    try: return int(frames), FrameFormat.NUM
    except (ValueError, TypeError): pass
    if isinstance(frames, str) and ',' in frames and utility == 'function': raise ValueError
    if isinstance(frames, (list, tuple)):
        for frame in frames:
            if ',' in frame: raise ValueError
        frames = ','.join(frames)                                                        *)
Definition validate_frames (script : bool) (a : frames_arg) : res selector :=
  match a with
  | FNone => Ok SNone
  | FInt z => Ok (SNum z)
  | FStr s => match py_int s with
              | Some z => Ok (SNum z)
              | None => if mem_ch c_comma s && negb script then Err EValue
                        else validate_frames_str s
              end
  | FList l => if existsb (mem_ch c_comma) l then Err EValue
               else validate_frames_str (join_with c_comma l)
  end.

(* ---------------------------------------------------------------------------------------- *)
(* matching *)

Inductive rxres := RxMatch | RxNo | RxErr | RxMiss.
Definition rx_oracle := str -> str -> rxres.      (* re.search(pattern, filename) *)

(*  if re.search(filename_regex, frame_obj.f_code.co_filename) is None: continue
    if lineno and frame_obj.f_lineno != lineno: continue
    if (func_name and func_name not in (co_name, _get_qualname(frame_obj))): continue   *)
Definition line_ok (p : pat) (f : frame) : bool :=
  match p_line p with
  | None => true
  | Some z => (z =? 0)%Z || (f_line f =? z)%Z          (* `if lineno and ...`: 0 is falsy *)
  end.
Definition func_ok (p : pat) (f : frame) : bool :=
  match p_func p with
  | [] => true
  | fn => str_eqb fn (f_func f) || str_eqb fn (f_qual f)
  end.
Definition frame_matches (rx : rx_oracle) (p : pat) (f : frame) : res bool :=
  match rx (p_re p) (f_file f) with
  | RxErr => Err ERegex
  | RxMiss => Err EOracle
  | RxNo => Ok false
  | RxMatch => Ok (line_ok p f && func_ok p f)
  end.

(*  for idx, frame_obj in enumerate(all_frames): ... all_matching_frames.append((idx+1, frame_obj)) *)
Fixpoint matching_from (rx : rx_oracle) (p : pat) (idx : nat) (frames : list frame) : res (list (nat * frame)) :=
  match frames with
  | [] => Ok []
  | f :: r => bind (frame_matches rx p f) (fun b =>
              bind (matching_from rx p (S idx) r) (fun l =>
              Ok (if b then (S idx, f) :: l else l)))
  end.

(*  if frame == ['']: return [(1, all_frames[0])]  *)
Definition get_all_matching_frames (rx : rx_oracle) (pf : pframe) (frames : list frame) : res (list (nat * frame)) :=
  match pf with
  | POpen => match frames with [] => Err EIndex | f :: _ => Ok [(1%nat, f)] end
  | PPat p => matching_from rx p 0 frames
  end.

(* ---------------------------------------------------------------------------------------- *)
(* _get_frames_to_save *)

Definition entry := (nat * frame)%type.

(* sorted(filtered_frames, key=lambda f: f[0])  - stable *)
Fixpoint insert_entry (x : entry) (l : list entry) : list entry :=
  match l with
  | [] => [x]
  | y :: r => if (fst x <=? fst y)%nat then x :: l else y :: insert_entry x r
  end.
Fixpoint sort_entries (l : list entry) : list entry :=
  match l with
  | [] => []
  | x :: r => insert_entry x (sort_entries r)
  end.

Definition mem_N (n : N) (l : list N) : bool := existsb (fun m => (n =? m)%N) l.

(*  for frame in filtered_frames:
        if frame[1] not in seen_frames:
            unique_filtered_frames.append(frame); seen_frames.add(frame[1])    (identity of the frame object) *)
Fixpoint unique_frames (seen : list N) (l : list entry) : list entry :=
  match l with
  | [] => []
  | x :: r => if mem_N (f_id (snd x)) seen then unique_frames seen r
              else x :: unique_frames (f_id (snd x) :: seen) r
  end.

Definition absdiff (a b : nat) : nat := if (a <=? b)%nat then b - a else a - b.

(* max(distances, key=lambda x: x[0]) : the first maximal element *)
Definition cand := (nat * (nat * nat))%type.
Fixpoint argmax (best : cand) (l : list cand) : cand :=
  match l with
  | [] => best
  | c :: r => if (fst best <? fst c)%nat then argmax c r else argmax best r
  end.
Definition chosen (f0 f1 l0 l1 : nat) : cand :=
  argmax (absdiff f0 l0, (f0, l0))
         [(absdiff f0 l1, (f0, l1)); (absdiff f1 l0, (f1, l0)); (absdiff f1 l1, (f1, l1))].

(* for idx in range(lo, hi + 1): filtered_frames.append((idx, all_frames[idx-1])) *)
Definition slice (lo hi : nat) (frames : list frame) : list entry :=
  combine (seq lo (S hi - lo)) (firstn (S hi - lo) (skipn (lo - 1) frames)).

Definition first_idx (l : list entry) : nat := fst (hd (0%nat, mkFrame [] 0 [] [] 0 [] [] []) l).
Definition last_idx (l : list entry) : nat := fst (last l (0%nat, mkFrame [] 0 [] [] 0 [] [] [])).

Fixpoint matching_all (rx : rx_oracle) (ps : list pframe) (frames : list frame) : res (list entry) :=
  match ps with
  | [] => Ok []
  | p :: r => bind (get_all_matching_frames rx p frames) (fun m =>
              bind (matching_all rx r frames) (fun l => Ok (m ++ l)))
  end.

Definition get_frames_to_save (rx : rx_oracle) (sel : selector) (frames : list frame) : res (list entry) :=
  match sel with
  | SNone =>                                   (* return [(1, all_frames[0])] *)
      match frames with [] => Err EIndex | f :: _ => Ok [(1%nat, f)] end
  | SNum n =>                                  (* if len(all_frames) < frames: frames = len(all_frames)
                                                  return [(idx+1, all_frames[idx]) for idx in range(frames)] *)
      let k := Z.to_nat (Z.min n (Z.of_nat (length frames))) in
      Ok (combine (seq 1 k) (firstn k frames))
  | SList ps =>
      bind (matching_all rx ps frames) (fun l => Ok (unique_frames [] (sort_entries l)))
  | SRange p q =>
      bind (get_all_matching_frames rx p frames) (fun fm =>
      match fm with
      | [] => Err EValue
      | _ => bind (get_all_matching_frames rx q frames) (fun lm =>
             match lm with
             | [] => Err EValue
             | _ => let c := chosen (first_idx fm) (last_idx fm) (first_idx lm) (last_idx lm) in
                    let lo := Nat.min (fst (snd c)) (snd (snd c)) in
                    let hi := Nat.max (fst (snd c)) (snd (snd c)) in
                    Ok (unique_frames [] (sort_entries (slice lo hi frames)))
             end)
      end)
  end.
